"""C06 -- declaring an intermediate result is transparent and obeys the chain rule."""
import math, random
from common import *
import kernel, slp

COQ_PROPS = 'props/C06.v'
COQ_PROPS_EXTRA = ['props/C06chain.v']
PARTIAL = ('proved: result() keeps value and independent/dependent components (step-level), every later result and report is '
           'identical with or without declared intermediates (congruence of eval_un and of the reports, for every number '
           'instance); the chain rule through an intermediate for every expression tree (the intermediate vector of w holds '
           'u(m) * dw/dm; sensitivity and u_component w.r.t. m), by transporting the C02 theorem through the vector swap; '
           'complex and array result() are validated by correspondence and the oracle only')
ASSUMPTIONS = ['u(m) > 0 for the chain-rule clause (sensitivity w.r.t. a zero-uncertainty intermediate is reported as 0: documented)']
TRUSTED = []

def _base_correspondence(rng, tier):
    n = 240 if tier == 'quick' else 4000
    return kernel.run_kernel_corr(rng, n, 'result', 'C06')

def variant_with_results(rng, prog):
    """same program with result() applied to a random subset of intermediate values (rebinding the name)"""
    lines = list(prog['decl']) + list(prog['corr'])
    declared = []
    for v, line, uses in prog['ops']:
        lines.append(line)
        if rng.random() < 0.45:
            lines.append('%s = result(%s%s)' % (v, v, rng.choice(['', ", label='m_%s'" % v])))
            declared.append(v)
            if rng.random() < 0.2:
                lines.append('%s = result(%s)' % (v, v))     # repeated declaration: no-op
    return lines, declared

def check_pair(rng, prog):
    base = list(prog['decl']) + list(prog['corr']) + [l for _, l, _ in prog['ops']]
    names = [v for v, _, _ in prog['ops']]
    withres, declared = variant_with_results(rng, prog)
    try:
        a = slp.sweep(slp.run(base), names, prog['inputs'])
    except Exception as ex:
        return None
    try:
        nsb = slp.run(withres)
        b = slp.sweep(nsb, names, prog['inputs'])
    except Exception as ex:
        return {'python_without': base, 'python_with': withres, 'raised': repr(ex)}
    if a != b:
        diff = [k for k in a if a[k] != b.get(k)]
        return {'python_without': base, 'python_with': withres, 'differs': diff[:5]}
    # chain rule through intermediates: w depends on x only through m
    from GTC import reporting, core
    for m in declared:
        om = nsb[m]
        if not om.is_intermediate or not om.u > 0: continue
        later = [v for v, _, uses in prog['ops'] if m in uses]
        for w in later[:2]:
            ow = nsb[w]
            swm = reporting.sensitivity(ow, om)
            c = core.component(ow, om)
            if abs(c - abs(swm) * om.u) > 1e-12 * max(1.0, abs(c)):
                return {'python_with': withres, 'w': w, 'm': m, 'component': c, 'sens*u': abs(swm) * om.u}
    return None

def search(rng, tier, broken):
    n = 300 if tier == 'quick' else 5000
    for i in range(n):
        prog = slp.gen(rng)
        r = check_pair(rng, prog)
        if r is not None:
            return {'tried': i + 1, 'failing': r}
    return {'tried': n, 'failing': None}

def is_known(f):
    return False

def replay(payload):
    print(json.dumps(payload.get('broken'), indent=1)[:3000])
    f = payload.get('failing_input')
    if f and 'python_with' in f and 'python_without' in f:
        try:
            names = sorted(set(l.split(' = ')[0] for l in f['python_without'] if l.startswith('t')))
            inputs = sorted(set(n.strip() for l in f['python_without'] if l.startswith('x') for n in l.split(' = ')[0].split(',')))
            a = slp.sweep(slp.run(f['python_without']), names, inputs)
            b = slp.sweep(slp.run(f['python_with']), names, inputs)
            print('replayed on the implementation:', 'STILL DIFFERS' if a != b else 'agrees now')
            return 1 if a != b else 0
        except Exception as ex:
            print('replay raised', repr(ex)); return 1
    return 0

def correspondence(rng, tier):
    r = _base_correspondence(rng, tier)
    # extra_corr: restore_then_declare: result() of quantities depending on restored intermediates, reading context id smaller and larger than the writing one (model Archive.v + Kernel.step)
    f = __import__('p_C07').restore_then_declare_correspondence(rng, tier)
    r['mismatches'] += f.get('mismatches', [])
    r['programs'] += f.get('programs', 0); r['steps'] += f.get('steps', 0)
    r['distinct'] = r.get('distinct', 0) + f.get('distinct', 0)
    r.setdefault('distribution', {})['restore_then_declare'] = f.get('programs', 0)
    r['rule'] = r.get('rule', '') + '; plus restore_then_declare: result() of quantities depending on restored intermediates, reading context id smaller and larger than the writing one (model Archive.v + Kernel.step)'
    # extra_corr: array_result: result(array) over every rank, memory layout and label form (model Array.v C16_result + per-element checks)
    import arrays
    q = arrays.result_correspondence(rng, tier, 'C06res')
    r['mismatches'] += q.get('mismatches', [])
    r['programs'] += q.get('programs', 0); r['steps'] += q.get('steps', 0)
    r['distinct'] = r.get('distinct', 0) + q.get('distinct', 0)
    r.setdefault('distribution', {})['array_result'] = q.get('programs', 0)
    r['rule'] = r.get('rule', '') + '; plus array_result: result(array) over every rank, memory layout (views) and label form: every element a new declared intermediate with the operand element\'s value, u, dof and components, labels base[k] in C index order (model Array.v)'
    # extra_corr: report_transparency: budget/components of result(w) vs w (model Budget.v), incl. intermediate=True with default trim
    p17 = __import__('p_C17')
    tr = p17.budget_transparency_correspondence(rng, tier, 'C06t')
    p17.add_to(r, tr, 'report_transparency', tr['rule'])
    import modcorr
    modcorr.add_to(r, modcorr.mod_correspondence(rng, tier, 'C06m'), 'mod_fmod', 'x % y and fmod(x, y) of uncertain reals of every structural kind (elementary, dependent, sum, scaled, declared intermediate, constant, mixed) against the model Special.v umod/ufmod (value and the three component vectors bit for bit)')
    return r

(* BudgetFacts.v -- C17: theorems about the model of reporting.budget / reporting.components
   (Budget.v).  Part 1: list-level facts valid for every number instance (binary64 included):
   the options only filter, order and truncate.  Part 2 (reals): the real budget is complete,
   each row is |u_component|, root-sum-square = u(y); influences=[...]; intermediate=True.
   Part 3 (reals): the complex budget under the pairing invariant.  Part 4: refutations. *)
From Coq Require Import ZArith List Bool String Reals Lia Lra Psatz Permutation Sorting.Sorted.
From GTCV Require Import Num RNum Vector VectorFacts Opres KTypes Kernel LPU Budget.
Import ListNotations.

(* ====================================================================================== *)
(* Part 1: every number instance                                                          *)
(* ====================================================================================== *)
Section Generic.
  Variable N : Num.
  Notation row := (row N).

  Lemma insert_perm bef (x : row) l : Permutation (insert N bef x l) (x :: l).
  Proof.
    induction l as [|y l IH]; simpl; [apply Permutation_refl|].
    destruct (bef y x).
    - eapply Permutation_trans; [apply perm_skip, IH | apply perm_swap].
    - apply Permutation_refl.
  Qed.

  Lemma isort_perm bef (l : list row) : Permutation (isort N bef l) l.
  Proof.
    induction l as [|x l IH]; simpl; [constructor|].
    eapply Permutation_trans; [apply insert_perm | apply perm_skip, IH].
  Qed.

  Lemma sort_rows_perm k rev (l l' : list row) : sort_rows N k rev l = Ok l' -> Permutation l' l.
  Proof.
    unfold sort_rows. destruct k as [[|]|].
    - intros H; injection H as <-; apply isort_perm.
    - destruct (_ && _); [discriminate|]. intros H; injection H as <-; apply isort_perm.
    - intros H; injection H as <-; apply Permutation_refl.
  Qed.

  Lemma trim_rows_filter t (l : list row) : exists p, trim_rows N t l = filter p l.
  Proof.
    destruct l as [|r rs].
    - exists (fun _ => true); reflexivity.
    - eexists; reflexivity.
  Qed.

  Lemma cut_rows_prefix m (l : list row) : exists n, cut_rows N m l = firstn n l.
  Proof.
    unfold cut_rows. destruct m as [m|].
    - destruct (m <? _)%Z; [eexists; reflexivity|].
      exists (List.length l); symmetry; apply firstn_all.
    - exists (List.length l); symmetry; apply firstn_all.
  Qed.

  (* the list of rows before trim / sort / max_number depends on y, influences and
     intermediate only *)
  Lemma gather_options_irrelevant s ncx y (o o' : opts N) :
    o_infl o = o_infl o' -> o_interm o = o_interm o' ->
    gather N s ncx y o = gather N s ncx y o'.
  Proof.
    intros Hi Hm. unfold gather, gather_real, gather_complex. rewrite Hi, Hm. reflexivity.
  Qed.

  (* trim, key, reverse and max_number only filter, order and truncate *)
  Theorem budget_filters_and_orders s ncx y (o : opts N) out :
    budget N s ncx y o = Ok out ->
    exists rows p n srt,
      gather N s ncx y o = Ok rows /\
      Permutation srt (filter p rows) /\ out = firstn n srt.
  Proof.
    unfold budget. destruct (gather N s ncx y o) as [rows|e]; [|discriminate]. cbn [bind].
    destruct (sort_rows N (o_key o) (o_rev o) (trim_rows N (o_trim o) rows)) as [srt|e] eqn:Es; [|discriminate].
    cbn [bind]. intros H; injection H as <-.
    destruct (trim_rows_filter (o_trim o) rows) as [p Hp].
    destruct (cut_rows_prefix (o_max o) srt) as [n Hn].
    exists rows, p, n, srt. split; [reflexivity|]. split; [|exact Hn].
    rewrite <- Hp. eapply sort_rows_perm; exact Es.
  Qed.

  Lemma map_unlabel_filter p (l : list row) :
    (forall r, p (unlabel N r) = p r) ->
    filter p (map (unlabel N) l) = map (unlabel N) (filter p l).
  Proof.
    intros Hp. induction l as [|r l IH]; simpl; auto. rewrite Hp. destruct (p r); simpl; rewrite IH; reflexivity.
  Qed.

  Theorem components_filters_and_orders s ncx y (o : opts N) out :
    components N s ncx y o = Ok out ->
    exists rows p n srt,
      gather N s ncx y o = Ok rows /\
      Permutation srt (filter p (map (unlabel N) rows)) /\ out = firstn n srt.
  Proof.
    unfold components. destruct (gather N s ncx y o) as [rows|e]; [|discriminate]. cbn [bind].
    intros H; injection H as <-.
    destruct (trim_rows_filter (o_trim o) (map (unlabel N) rows)) as [p Hp].
    destruct (cut_rows_prefix (o_max o) (isort N (before_u N true) (trim_rows N (o_trim o) (map (unlabel N) rows)))) as [n Hn].
    exists rows, p, n, (isort N (before_u N true) (trim_rows N (o_trim o) (map (unlabel N) rows))).
    split; [reflexivity|]. split; [|exact Hn]. rewrite <- Hp. apply isort_perm.
  Qed.

  (* max_number = m >= 0 keeps the first m rows of the sorted list *)
  Lemma cut_rows_nonneg m (l : list row) : (0 <= m)%Z -> cut_rows N (Some m) l = firstn (Z.to_nat m) l.
  Proof.
    intros Hm. unfold cut_rows. destruct (m <? Z.of_nat (List.length l))%Z eqn:E.
    - destruct (0 <=? m)%Z eqn:E0; [reflexivity|]. apply Z.leb_gt in E0; lia.
    - apply Z.ltb_ge in E. symmetry. apply firstn_all2. lia.
  Qed.
End Generic.

(* ====================================================================================== *)
(* Part 2: over the reals -- the real budget                                              *)
(* ====================================================================================== *)
Local Open Scope R_scope.

Notation ureal := (KTypes.ureal R).
Notation state := (KTypes.state R).
Notation rrow := (row RNum).
Notation rvec := (list (key * R)).

(* ---------- sorting by u: the result is ordered ---------- *)
Definition desc (a b : rrow) : Prop := r_u b <= r_u a.
Definition asc (a b : rrow) : Prop := r_u a <= r_u b.

Lemma before_u_true a b : before_u RNum true a b = true <-> r_u b < r_u a.
Proof. unfold before_u. cbn [ltb RNum]. unfold Rltb. destruct (Rlt_dec (r_u b) (r_u a)); split; auto; discriminate. Qed.
Lemma before_u_false a b : before_u RNum false a b = true <-> r_u a < r_u b.
Proof. unfold before_u. cbn [ltb RNum]. unfold Rltb. destruct (Rlt_dec (r_u a) (r_u b)); split; auto; discriminate. Qed.

Lemma insert_sorted_gen (bef : rrow -> rrow -> bool) (ord : rrow -> rrow -> Prop) :
  (forall a b, bef a b = true -> ord a b) ->
  (forall a b, bef a b = false -> ord b a) ->
  (forall a b c, ord a b -> ord b c -> ord a c) ->
  forall x l, StronglySorted ord l -> StronglySorted ord (insert RNum bef x l).
Proof.
  intros H1 H2 Ht x l. induction l as [|y l IH]; intros S; simpl.
  - constructor; constructor.
  - inversion S as [|? ? S' Hall]; subst. destruct (bef y x) eqn:E.
    + constructor; [apply IH; exact S'|].
      assert (Hp : Permutation (insert RNum bef x l) (x :: l)) by apply insert_perm.
      rewrite Forall_forall in *. intros z Hz.
      apply (Permutation_in _ Hp) in Hz. destruct Hz as [<-|Hz]; [apply H1; exact E | apply Hall; exact Hz].
    + constructor; [exact S|]. constructor; [apply H2; exact E|].
      rewrite Forall_forall in *. intros z Hz. eapply Ht; [apply H2; exact E | apply Hall; exact Hz].
Qed.

Lemma isort_sorted_gen (bef : rrow -> rrow -> bool) (ord : rrow -> rrow -> Prop) :
  (forall a b, bef a b = true -> ord a b) ->
  (forall a b, bef a b = false -> ord b a) ->
  (forall a b c, ord a b -> ord b c -> ord a c) ->
  forall l, StronglySorted ord (isort RNum bef l).
Proof.
  intros H1 H2 Ht l. induction l as [|x l IH]; simpl; [constructor|].
  apply insert_sorted_gen; assumption.
Qed.

Theorem isort_desc l : StronglySorted desc (isort RNum (before_u RNum true) l).
Proof.
  apply isort_sorted_gen; unfold desc.
  - intros a b H; apply before_u_true in H; lra.
  - intros a b H. destruct (Rlt_dec (r_u b) (r_u a)) as [Hl|Hl]; [apply before_u_true in Hl; congruence | lra].
  - intros; lra.
Qed.

Theorem isort_asc l : StronglySorted asc (isort RNum (before_u RNum false) l).
Proof.
  apply isort_sorted_gen; unfold asc.
  - intros a b H; apply before_u_false in H; lra.
  - intros a b H. destruct (Rlt_dec (r_u a) (r_u b)) as [Hl|Hl]; [apply before_u_false in Hl; congruence | lra].
  - intros; lra.
Qed.

Lemma In_firstn {A} n (l : list A) z : In z (firstn n l) -> In z l.
Proof.
  revert n; induction l as [|x l IH]; intros n H; destruct n; simpl in *; try tauto.
  destruct H as [H|H]; [left; exact H | right; eapply IH; exact H].
Qed.

Lemma firstn_sorted {A} (ord : A -> A -> Prop) n l : StronglySorted ord l -> StronglySorted ord (firstn n l).
Proof.
  revert n; induction l as [|x l IH]; intros n S; destruct n; simpl; try constructor.
  - inversion S; subst; apply IH; assumption.
  - inversion S as [|? ? S' Hall]; subst. rewrite Forall_forall in *. intros z Hz.
    apply Hall. eapply In_firstn; exact Hz.
Qed.

(* the default order (key='u', reverse=True) and components(): descending in u *)
Theorem budget_default_sorted s ncx y (o : opts RNum) out :
  o_key o = Some KU -> o_rev o = true -> budget RNum s ncx y o = Ok out -> StronglySorted desc out.
Proof.
  intros Hk Hr. unfold budget. destruct (gather RNum s ncx y o) as [rows|e]; [|discriminate]. cbn [bind].
  rewrite Hk, Hr. cbn [sort_rows bind]. intros H; injection H as <-.
  destruct (cut_rows_prefix RNum (o_max o) (isort RNum (before_u RNum true) (trim_rows RNum (o_trim o) rows))) as [n ->].
  apply firstn_sorted, isort_desc.
Qed.

Theorem budget_ascending_sorted s ncx y (o : opts RNum) out :
  o_key o = Some KU -> o_rev o = false -> budget RNum s ncx y o = Ok out -> StronglySorted asc out.
Proof.
  intros Hk Hr. unfold budget. destruct (gather RNum s ncx y o) as [rows|e]; [|discriminate]. cbn [bind].
  rewrite Hk, Hr. cbn [sort_rows bind]. intros H; injection H as <-.
  destruct (cut_rows_prefix RNum (o_max o) (isort RNum (before_u RNum false) (trim_rows RNum (o_trim o) rows))) as [n ->].
  apply firstn_sorted, isort_asc.
Qed.

Theorem components_sorted s ncx y (o : opts RNum) out :
  components RNum s ncx y o = Ok out -> StronglySorted desc out.
Proof.
  unfold components. destruct (gather RNum s ncx y o) as [rows|e]; [|discriminate]. cbn [bind].
  intros H; injection H as <-.
  destruct (cut_rows_prefix RNum (o_max o) (isort RNum (before_u RNum true) (trim_rows RNum (o_trim o) (map (unlabel RNum) rows)))) as [n ->].
  apply firstn_sorted, isort_desc.
Qed.

(* ---------- trim ---------- *)
Lemma pymax_ge x l : x <= pymax RNum x l /\ (forall v, In v l -> v <= pymax RNum x l) /\ (pymax RNum x l = x \/ In (pymax RNum x l) l).
Proof.
  unfold pymax. revert x. induction l as [|v l IH]; intros x; cbn [fold_left In].
  - split; [lra|]. split; [tauto|auto].
  - replace (ltb RNum x v) with (Rltb x v) by reflexivity. unfold Rltb. destruct (Rlt_dec x v) as [Hl|Hl].
    + destruct (IH v) as (A & B & C). split; [lra|]. split.
      * intros w [<-|Hw]; [exact A | apply B; exact Hw].
      * destruct C as [C|C]; [right; left; symmetry; exact C | right; right; exact C].
    + destruct (IH x) as (A & B & C). split; [exact A|]. split.
      * intros w [<-|Hw]; [lra | apply B; exact Hw].
      * destruct C as [C|C]; [left; exact C | right; right; exact C].
Qed.

(* the rows kept by trim are exactly those with u >= trim * (the largest u) *)
Theorem trim_rows_spec t (rows : list rrow) r :
  In r (trim_rows RNum t rows) <->
  In r rows /\ exists m, In m (map r_u rows) /\ (forall v, In v (map r_u rows) -> v <= m) /\ m * t <= r_u r.
Proof.
  destruct rows as [|r0 rs]; [simpl; split; [tauto | intros [[] _]]|].
  unfold trim_rows. rewrite filter_In. cbn [leb mul RNum]. unfold Rleb.
  destruct (pymax_ge (r_u r0) (map r_u rs)) as (A & B & C).
  set (m := pymax RNum (r_u r0) (map r_u rs)) in *.
  assert (Hin : In m (map r_u (r0 :: rs))) by (simpl; destruct C as [C|C]; [left; symmetry; exact C | right; exact C]).
  assert (Hmax : forall v, In v (map r_u (r0 :: rs)) -> v <= m) by (simpl; intros v [<-|Hv]; [exact A | apply B; exact Hv]).
  split.
  - intros [Hr Hc]. split; [exact Hr|]. exists m. repeat split; auto.
    destruct (Rle_dec (m * t) (r_u r)); [assumption|discriminate].
  - intros [Hr (m' & Hm' & Hmx & Hle)]. split; [exact Hr|].
    assert (m' = m) by (apply Rle_antisym; [apply Hmax; exact Hm' | apply Hmx; exact Hin]). subst m'.
    destruct (Rle_dec (m * t) (r_u r)); [reflexivity|contradiction].
Qed.

(* trim = 0 keeps everything when no u is negative *)
Lemma filter_all {A} (p : A -> bool) l : (forall r, In r l -> p r = true) -> filter p l = l.
Proof.
  induction l as [|r l IH]; intros H; simpl; auto.
  rewrite (H r (or_introl eq_refl)). rewrite IH; [reflexivity|]. intros r' Hr'; apply H; right; exact Hr'.
Qed.

Lemma trim_zero_all (rows : list rrow) :
  (forall r, In r rows -> 0 <= r_u r) -> trim_rows RNum 0 rows = rows.
Proof.
  intros Hp. destruct rows as [|r0 rs]; [reflexivity|]. unfold trim_rows.
  apply filter_all. intros r Hr. cbn [leb mul RNum]. rewrite Rmult_0_r.
  unfold Rleb. destruct (Rle_dec 0 (r_u r)) as [_|n]; [reflexivity | exfalso; apply n, Hp; exact Hr].
Qed.

(* ---------- u_bar over the reals ---------- *)
Definition ubar_R (a b c d : R) : R := sqrt ((a * a + b * b + c * c + d * d) / 2).

Lemma u_bar4_R a b c d : u_bar4 RNum a b c d = Ok (ubar_R a b c d).
Proof.
  unfold u_bar4, ubar_R. cbn [div add mul RNum]. unfold R_div, Kernel.two, Kernel.zero. cbn [of_Z RNum].
  destruct (Req_EM_T (IZR 2) 0) as [E|_]; [lra|]. cbn [bind libm1 RNum R_libm1].
  set (q := (_ / IZR 2)).
  assert (Hq : q = (a * a + b * b + c * c + d * d) / 2) by (unfold q; field).
  assert (0 <= q) by (rewrite Hq; nra).
  destruct (Rle_dec 0 q); [|contradiction]. rewrite Hq. reflexivity.
Qed.

Lemma ubar_R_nonneg a b c d : 0 <= ubar_R a b c d.
Proof. apply sqrt_pos. Qed.

(* ---------- vectors ---------- *)
Lemma get_in_sorted (v : rvec) k u : sorted (N:=RNum) v -> In (k, u) v -> get (N:=RNum) v k = Some u.
Proof.
  induction v as [|[k0 u0] v IH]; intros S Hin; [destruct Hin|].
  simpl. destruct Hin as [E|Hin].
  - injection E as -> ->. rewrite keqb_refl. reflexivity.
  - assert (Hlt : kcmp k0 k = Lt).
    { apply (sorted_head_lt RNum k0 u0 v k S). apply in_map_iff. exists (k, u); auto. }
    destruct (keqb_neq _ _ Hlt) as [E1 _]. rewrite E1. apply IH; [exact (sorted_tail RNum _ _ _ S) | exact Hin].
Qed.

Lemma vget_in_sorted (v : rvec) k u : sorted (N:=RNum) v -> In (k, u) v -> vget RNum v k = u.
Proof. intros S H. unfold vget. rewrite (get_in_sorted v k u S H). reflexivity. Qed.

Lemma sorted_nodup (v : rvec) : sorted (N:=RNum) v -> NoDup (keys (N:=RNum) v).
Proof.
  induction v as [|[k u] v IH]; intros S; simpl; constructor.
  - intros Hin. pose proof (sorted_head_lt RNum k u v k S Hin) as H. rewrite kcmp_refl in H. discriminate.
  - apply IH. exact (sorted_tail RNum _ _ _ S).
Qed.

(* ---------- well-formed results ---------- *)
(* every key of the independent vector is an independent leaf of the session, every key of the
   dependent vector a dependent one (what _elementary establishes and every operation keeps) *)
Definition leaves_are (s : state) (v : rvec) (indep : bool) : Prop :=
  forall k, In k (keys (N:=RNum) v) -> exists l, leaf_of RNum s k = Ok l /\ l_indep l = indep.

Record wf_real (s : state) (y : ureal) : Prop := {
  wf_su : sorted (N:=RNum) (uc y);
  wf_sd : sorted (N:=RNum) (dc y);
  wf_lu : leaves_are s (uc y) true;
  wf_ld : leaves_are s (dc y) false }.

(* the component of y for the leaf k, as Kernel.u_component reports it for ANY uncertain
   number object x whose node is that leaf *)
Definition comp_is (s : state) (y : ureal) (k : key) (c : R) : Prop :=
  forall x : ureal, unode x = LeafRef k -> u_component RNum s y x = Ok c.

Definition row_is (s : state) (y : ureal) (r : rrow) (k : key) : Prop :=
  r_uid r = UElem k /\ exists c, comp_is s y k c /\ r_u r = Rabs c.

Lemma rows_leaves_spec s (y : ureal) (v : rvec) indep :
  sorted (N:=RNum) v -> leaves_are s v indep ->
  (forall k u, In (k, u) v -> comp_is s y k u) ->
  exists rows, rows_leaves RNum s v = Ok rows /\ Forall2 (row_is s y) rows (keys (N:=RNum) v).
Proof.
  induction v as [|[k u] v IH]; intros S Hl Hc.
  - exists []; split; [reflexivity|constructor].
  - destruct (Hl k (or_introl eq_refl)) as (l & El & _).
    destruct IH as (rows & Er & Hf).
    + exact (sorted_tail RNum _ _ _ S).
    + intros k' Hk'; apply Hl; right; exact Hk'.
    + intros k' u' Hin; apply Hc; right; exact Hin.
    + cbn [rows_leaves]. rewrite El. cbn [bind]. rewrite Er. cbn [bind].
      eexists; split; [reflexivity|]. constructor; [|exact Hf].
      split; [reflexivity|]. exists u. split; [apply Hc; left; reflexivity | reflexivity].
Qed.

Lemma comp_indep s (y : ureal) k u :
  sorted (N:=RNum) (uc y) -> leaves_are s (uc y) true -> In (k, u) (uc y) -> comp_is s y k u.
Proof.
  intros S Hl Hin x Hx. unfold u_component. change (T RNum) with R in *. rewrite Hx.
  destruct (Hl k) as (l & El & Ei); [apply in_map_iff; exists (k, u); auto|].
  change (T RNum) with R in *. rewrite El. cbn [bind]. rewrite Ei. rewrite (vget_in_sorted _ _ _ S Hin). reflexivity.
Qed.

Lemma comp_dep s (y : ureal) k u :
  sorted (N:=RNum) (dc y) -> leaves_are s (dc y) false -> In (k, u) (dc y) -> comp_is s y k u.
Proof.
  intros S Hl Hin x Hx. unfold u_component. change (T RNum) with R in *. rewrite Hx.
  destruct (Hl k) as (l & El & Ei); [apply in_map_iff; exists (k, u); auto|].
  change (T RNum) with R in *. rewrite El. cbn [bind]. rewrite Ei. rewrite (vget_in_sorted _ _ _ S Hin). reflexivity.
Qed.

Lemma Forall2_app_inv {A B} (P : A -> B -> Prop) l1 l2 l1' l2' :
  Forall2 P l1 l1' -> Forall2 P l2 l2' -> Forall2 P (l1 ++ l2) (l1' ++ l2').
Proof. intros H1 H2. induction H1; simpl; auto. Qed.

Definition default_opts (t : R) (m : option Z) (k : option skey) (rv : bool) : opts RNum :=
  @mkOpts RNum None t m false k rv.

(* the influence keys of a real result *)
Definition infl_keys (y : ureal) : list key := keys (N:=RNum) (uc y) ++ keys (N:=RNum) (dc y).


Lemma NoDup_app_disj {A} (l1 l2 : list A) :
  NoDup l1 -> NoDup l2 -> (forall a, In a l1 -> In a l2 -> False) -> NoDup (l1 ++ l2).
Proof.
  induction l1 as [|a l1 IH]; intros N1 N2 D; simpl; auto.
  inversion N1; subst. constructor.
  - rewrite in_app_iff. intros [H|H]; [contradiction | apply (D a); [left; reflexivity | exact H]].
  - apply IH; auto. intros b Hb1 Hb2. apply (D b); [right; exact Hb1 | exact Hb2].
Qed.

Lemma infl_keys_nodup s y : wf_real s y -> NoDup (infl_keys y).
Proof.
  intros [Su Sd Lu Ld]. unfold infl_keys. apply NoDup_app_disj.
  - apply sorted_nodup; exact Su.
  - apply sorted_nodup; exact Sd.
  - intros k H1 H2. destruct (Lu k H1) as (l & El & Ei). destruct (Ld k H2) as (l' & El' & Ei').
    rewrite El in El'. injection El' as <-. congruence.
Qed.

Lemma gather_real_default_eq s ncx (y : ureal) t m k rv :
  gather RNum s ncx (@YReal RNum y) (default_opts t m k rv) =
  (a <- rows_leaves RNum s (uc y) ;; b <- rows_leaves RNum s (dc y) ;; Ok (a ++ b)).
Proof. reflexivity. Qed.

(* gather: one row per influence key, in vector order *)
Theorem gather_real_default s y t m k rv :
  wf_real s y ->
  exists rows, gather RNum s [] (@YReal RNum y) (default_opts t m k rv) = Ok rows /\
               Forall2 (row_is s y) rows (infl_keys y).
Proof.
  intros W. destruct W as [Su Sd Lu Ld].
  destruct (rows_leaves_spec s y (uc y) true Su Lu) as (ra & Ea & Fa).
  { intros k0 u0 Hin. apply comp_indep; assumption. }
  destruct (rows_leaves_spec s y (dc y) false Sd Ld) as (rb & Eb & Fb).
  { intros k0 u0 Hin. apply comp_dep; assumption. }
  exists (ra ++ rb). split.
  - rewrite gather_real_default_eq. change (T RNum) with R in *. rewrite Ea. cbn [bind]. rewrite Eb. reflexivity.
  - apply Forall2_app_inv; assumption.
Qed.

Lemma Forall2_len {A B} (P : A -> B -> Prop) l l' : Forall2 P l l' -> List.length l = List.length l'.
Proof. induction 1; simpl; auto. Qed.

Lemma Forall2_uid s y rows ks : Forall2 (row_is s y) rows ks -> map r_uid rows = map UElem ks.
Proof. induction 1 as [|r k rows ks [Hu _] _ IH]; simpl; [reflexivity|]. rewrite Hu, IH. reflexivity. Qed.

Lemma Forall2_nonneg s y rows ks : Forall2 (row_is s y) rows ks -> forall r, In r rows -> 0 <= r_u r.
Proof.
  induction 1 as [|r k rows ks [_ (c & _ & Hc)] _ IH]; intros r' Hr'; [destruct Hr'|].
  destruct Hr' as [<-|Hr']; [rewrite Hc; apply Rabs_pos | apply IH; exact Hr'].
Qed.

(* C17 (real): the complete budget (trim = 0, no max_number), whatever the order requested,
   is a permutation of one row per influence key, each with |u_component|; uids pairwise
   distinct *)
Theorem real_budget_complete s y k rv out :
  wf_real s y ->
  budget RNum s [] (@YReal RNum y) (default_opts 0 None k rv) = Ok out ->
  exists rows, Permutation out rows /\ Forall2 (row_is s y) rows (infl_keys y) /\
               NoDup (map r_uid out) /\ List.length out = List.length (infl_keys y).
Proof.
  intros W Hb. destruct (gather_real_default s y 0 None k rv W) as (rows & Eg & Hf).
  unfold budget in Hb. rewrite Eg in Hb. cbn [bind] in Hb.
  cbn [default_opts o_trim o_key o_rev o_max] in Hb.
  rewrite trim_zero_all in Hb by (eapply Forall2_nonneg; exact Hf).
  destruct (sort_rows RNum k rv rows) as [srt|e] eqn:Es; [|discriminate].
  cbn [bind cut_rows] in Hb. injection Hb as <-.
  pose proof (sort_rows_perm RNum _ _ _ _ Es) as Hp.
  exists rows. split; [exact Hp|]. split; [exact Hf|]. split.
  - eapply Permutation_NoDup; [apply Permutation_sym, Permutation_map; exact Hp|].
    rewrite (Forall2_uid _ _ _ _ Hf).
    apply FinFun.Injective_map_NoDup; [intros a b H; injection H; auto | apply infl_keys_nodup with s; exact W].
  - rewrite (Permutation_length Hp). apply (Forall2_len _ _ _ Hf).
Qed.

(* the unsorted call (key=None) returns the rows in vector order *)
Theorem real_budget_complete_unsorted s y rv :
  wf_real s y ->
  exists rows, budget RNum s [] (@YReal RNum y) (default_opts 0 None None rv) = Ok rows /\
               Forall2 (row_is s y) rows (infl_keys y).
Proof.
  intros W. destruct (gather_real_default s y 0 None None rv W) as (rows & Eg & Hf).
  exists rows. split; [|exact Hf]. unfold budget. rewrite Eg. cbn [bind default_opts o_trim o_key o_rev o_max sort_rows cut_rows].
  rewrite trim_zero_all by (eapply Forall2_nonneg; exact Hf). reflexivity.
Qed.

(* the same for components() *)
Theorem real_components_complete s y k rv out :
  wf_real s y ->
  components RNum s [] (@YReal RNum y) (default_opts 0 None k rv) = Ok out ->
  exists rows, Permutation out rows /\ Forall2 (row_is s y) rows (infl_keys y) /\ StronglySorted desc out.
Proof.
  intros W Hb. pose proof (components_sorted _ _ _ _ _ Hb) as Hs.
  destruct (gather_real_default s y 0 None k rv W) as (rows & Eg & Hf).
  unfold components in Hb.
  assert (Eg' : gather RNum s [] (@YReal RNum y) (default_opts 0 None k rv) = Ok rows) by exact Eg.
  rewrite Eg' in Hb. cbn [bind default_opts o_trim o_max cut_rows] in Hb. injection Hb as <-.
  assert (Hf' : Forall2 (row_is s y) (map (unlabel RNum) rows) (infl_keys y)).
  { clear -Hf. induction Hf; simpl; constructor; auto. }
  exists (map (unlabel RNum) rows). split; [|split; [exact Hf'|exact Hs]].
  rewrite trim_zero_all by (eapply Forall2_nonneg; exact Hf'). apply isort_perm.
Qed.

(* ---------- root-sum-square ---------- *)
Definition sumsq (rows : list rrow) : R := fold_right (fun (r : rrow) a => r_u r * r_u r + a) 0 rows.

Lemma sumsq_perm l l' : Permutation l l' -> sumsq l = sumsq l'.
Proof. induction 1; simpl; try lra. Qed.

Lemma sumsq_nonneg l : 0 <= sumsq l.
Proof. induction l; simpl; [lra|nra]. Qed.

Lemma sumsq_app l1 l2 : sumsq (l1 ++ l2) = sumsq l1 + sumsq l2.
Proof. induction l1; simpl; lra. Qed.

Lemma sumsq_rows_leaves s (v : rvec) rows :
  rows_leaves RNum s v = Ok rows -> sumsq rows = vsum (fun _ u => u * u) v.
Proof.
  revert rows; induction v as [|[k u] v IH]; intros rows H; cbn [rows_leaves] in H.
  - injection H as <-. reflexivity.
  - destruct (leaf_of RNum s k); [|discriminate]. cbn [bind] in H.
    destruct (rows_leaves RNum s v) as [rs|]; [|discriminate]. cbn [bind] in H. injection H as <-.
    simpl. rewrite (IH rs eq_refl). cbn [nabs RNum].
    replace (Rabs u * Rabs u) with (u * u); [reflexivity|].
    unfold Rabs; destruct (Rcase_abs u); ring.
Qed.

(* no correlation between different dependent influences (declared independent=False but never
   correlated), unit diagonal *)
Definition uncorrelated (s : state) (d : rvec) : Prop :=
  forall k k', In k (map fst d) -> In k' (map fst d) -> Rs s k k' = if keqb k k' then 1 else 0.

Lemma dsum_uncorrelated s (d : rvec) :
  sorted (N:=RNum) d -> uncorrelated s d -> dsum s d d = vsum (fun _ u => u * u) d.
Proof.
  intros S Hu. unfold dsum.
  rewrite (vsum_ext _ (fun k u => u * vget RNum d k)).
  - apply indep_self; exact S.
  - intros k u Hin. rewrite vget_as_sum by exact S. rewrite <- vsum_scal. apply vsum_ext.
    intros k' u' Hin'. rewrite Hu.
    + destruct (keqb k k'); ring.
    + apply in_map_iff; exists (k, u); auto.
    + apply in_map_iff; exists (k', u'); auto.
Qed.

Lemma uncorrelated_sym s d : uncorrelated s d -> corr_sym_on s d.
Proof.
  intros Hu. split.
  - intros k k' Hk Hk'. rewrite (Hu k k'), (Hu k' k) by assumption. rewrite (keqb_sym k' k). reflexivity.
  - intros k Hk. rewrite Hu by assumption. rewrite keqb_refl. reflexivity.
Qed.

(* when the influences are uncorrelated (in particular: all independent, dc = []) the
   root-sum-square of the complete budget is the standard uncertainty of y *)
Theorem real_budget_rss s y k rv out :
  wf_real s y -> uncorrelated s (dc y) -> unode y = NoNode ->
  budget RNum s [] (@YReal RNum y) (default_opts 0 None k rv) = Ok out ->
  prop_u RNum s y None = Ok (sqrt (sumsq out), Some (sqrt (sumsq out))).
Proof.
  intros W Hu Hn Hb.
  assert (Hv : std_variance_real RNum s y = Ok (sumsq out)).
  { rewrite std_variance_spec.
    - f_equal. rewrite dsum_uncorrelated by (try apply (wf_sd _ _ W); exact Hu).
      unfold budget in Hb. rewrite gather_real_default_eq in Hb.
      destruct (gather_real_default s y 0 None k rv W) as (rows & Eg & Hf). rewrite gather_real_default_eq in Eg.
      change (T RNum) with R in *.
      destruct (rows_leaves RNum s (uc y)) as [ra|] eqn:Ea; [|discriminate]. cbn [bind] in Hb, Eg.
      destruct (rows_leaves RNum s (dc y)) as [rb|] eqn:Eb; [|discriminate]. cbn [bind default_opts o_trim o_key o_rev o_max] in Hb, Eg.
      injection Eg as <-.
      rewrite trim_zero_all in Hb by (eapply Forall2_nonneg; exact Hf).
      destruct (sort_rows RNum k rv (ra ++ rb)) as [srt|] eqn:Es; [|discriminate].
      cbn [bind cut_rows] in Hb. injection Hb as <-.
      rewrite (sumsq_perm _ _ (sort_rows_perm RNum _ _ _ _ Es)), sumsq_app.
      rewrite (sumsq_rows_leaves s _ _ Ea), (sumsq_rows_leaves s _ _ Eb). reflexivity.
    - intros k0 Hk0. destruct (wf_ld _ _ W k0 Hk0) as (l & El & _). exists l; exact El.
    - apply uncorrelated_sym; exact Hu. }
  unfold prop_u, node_u. change (T RNum) with R in *. rewrite Hn. cbn [bind]. rewrite Hv. cbn [bind libm1 RNum R_libm1].
  destruct (Rle_dec 0 (sumsq out)) as [_|n]; [reflexivity | exfalso; apply n, sumsq_nonneg].
Qed.

(* ---------- influences = [...] ---------- *)
(* the uncertain reals a list of influences stands for: a complex influence contributes its
   real and imaginary component as two separate entries (finding #14) *)
Fixpoint expand (l : list (infl RNum)) : option (list ureal) :=
  match l with
  | [] => Some []
  | IReal x :: l' => option_map (cons x) (expand l')
  | IComplex re im _ :: l' => option_map (fun t => re :: im :: t) (expand l')
  | IOther :: _ => None
  end.

Definition row_for (s : state) (y : ureal) (r : rrow) (x : ureal) : Prop :=
  r_uid r = uid_of RNum x /\ exists c, u_component RNum s y x = Ok c /\ r_u r = Rabs c.

Lemma row_real_spec s y x r : row_real RNum s y x = Ok r -> row_for s y r x.
Proof.
  unfold row_real. destruct (label_of RNum s x); [|discriminate]. cbn [bind].
  destruct (u_component RNum s y x) as [c|] eqn:E; [|discriminate]. cbn [bind]. intros H; injection H as <-.
  split; [reflexivity|]. exists c. split; [exact E|reflexivity].
Qed.

Theorem rows_infl_real_spec s y l rows :
  rows_infl_real RNum s y l = Ok rows ->
  exists xs, expand l = Some xs /\ Forall2 (row_for s y) rows xs.
Proof.
  revert rows; induction l as [|i l IH]; intros rows H; cbn [rows_infl_real] in H.
  - injection H as <-. exists []; split; [reflexivity|constructor].
  - destruct i as [x|re im lb|].
    + destruct (row_real RNum s y x) as [r|] eqn:Er; [|discriminate]. cbn [bind] in H.
      destruct (rows_infl_real RNum s y l) as [rs|]; [|discriminate]. cbn [bind] in H. injection H as <-.
      destruct (IH rs eq_refl) as (xs & Ex & Hf). exists (x :: xs). cbn [expand]. rewrite Ex. split; [reflexivity|].
      constructor; [apply row_real_spec; exact Er | exact Hf].
    + destruct (row_real RNum s y re) as [r1|] eqn:Er1; [|discriminate]. cbn [bind] in H.
      destruct (row_real RNum s y im) as [r2|] eqn:Er2; [|discriminate]. cbn [bind] in H.
      destruct (rows_infl_real RNum s y l) as [rs|]; [|discriminate]. cbn [bind] in H. injection H as <-.
      destruct (IH rs eq_refl) as (xs & Ex & Hf). exists (re :: im :: xs). cbn [expand]. rewrite Ex. split; [reflexivity|].
      constructor; [apply row_real_spec; exact Er1|]. constructor; [apply row_real_spec; exact Er2 | exact Hf].
    + discriminate.
Qed.

(* budget(y, influences=l, trim=0, key=None): exactly the requested ones, in the requested order *)
Theorem real_budget_influences s ncx y l rv out :
  budget RNum s ncx (@YReal RNum y) (@mkOpts RNum (Some l) 0 None false None rv) = Ok out ->
  exists xs, expand l = Some xs /\ Forall2 (row_for s y) out xs.
Proof.
  unfold budget, gather. cbn [o_interm o_infl andb gather_real]. intros H.
  destruct (rows_infl_real RNum s y l) as [rows|] eqn:Er; [|discriminate]. cbn [bind o_trim o_key o_rev o_max sort_rows cut_rows] in H.
  destruct (rows_infl_real_spec s y l rows Er) as (xs & Ex & Hf).
  rewrite trim_zero_all in H.
  - injection H as <-. exists xs; split; assumption.
  - clear -Hf. induction Hf as [|r x rows xs [_ (c & _ & Hc)] _ IH]; intros r' [ ]; subst; [rewrite Hc; apply Rabs_pos | apply IH; assumption].
Qed.

(* ---------- intermediate = True ---------- *)
Definition nodes_exist (s : state) (v : rvec) : Prop :=
  forall k, In k (keys (N:=RNum) v) -> exists n, node_of RNum s k = Ok n.

Definition not_self (ny : option key) (k : key) : bool :=
  negb (match ny with Some k' => keqb k k' | None => false end).

Definition nrow_is (s : state) (y : ureal) (r : rrow) (k : key) : Prop :=
  r_uid r = UInterm k /\
  exists c, (forall x : ureal, unode x = NodeRef k -> u_component RNum s y x = Ok c) /\ r_u r = Rabs c.

Lemma rows_nodes_spec s (y : ureal) ny (v : rvec) :
  nodes_exist s v ->
  (forall k u, In (k, u) v -> vget RNum (ic y) k = u) ->
  exists rows, rows_nodes RNum s ny v = Ok rows /\
               Forall2 (nrow_is s y) rows (filter (not_self ny) (keys (N:=RNum) v)).
Proof.
  induction v as [|[k u] v IH]; intros Hn Hc.
  - exists []; split; [reflexivity|constructor].
  - destruct IH as (rows & Er & Hf).
    + intros k' Hk'; apply Hn; right; exact Hk'.
    + intros k' u' Hin; apply Hc; right; exact Hin.
    + cbn [rows_nodes keys map filter fst]. unfold not_self at 1.
      destruct (match ny with Some k' => keqb k k' | None => false end) eqn:E; cbn [negb].
      * exists rows; split; assumption.
      * destruct (Hn k (or_introl eq_refl)) as (n & En). rewrite En. cbn [bind]. rewrite Er. cbn [bind].
        eexists; split; [reflexivity|]. constructor; [|exact Hf].
        split; [reflexivity|]. exists u. split; [|reflexivity].
        intros x Hx. unfold u_component. change (T RNum) with R in *. rewrite Hx. rewrite (Hc k u (or_introl eq_refl)). reflexivity.
Qed.

(* budget(y, intermediate=True, trim=0, key=None): the declared intermediate results y depends
   on, y itself left out, each with |u_component| *)
Theorem real_budget_intermediate s ncx y rv :
  sorted (N:=RNum) (ic y) -> nodes_exist s (ic y) ->
  exists out, budget RNum s ncx (@YReal RNum y) (@mkOpts RNum None 0 None true None rv) = Ok out /\
              Forall2 (nrow_is s y) out (filter (not_self (node_key RNum y)) (keys (N:=RNum) (ic y))).
Proof.
  intros S Hn. destruct (rows_nodes_spec s y (node_key RNum y) (ic y) Hn) as (rows & Er & Hf).
  { intros k u Hin. apply vget_in_sorted; assumption. }
  exists rows. split; [|exact Hf].
  unfold budget, gather. cbn [o_interm o_infl andb gather_real]. rewrite Er.
  cbn [bind o_trim o_key o_rev o_max sort_rows cut_rows]. rewrite trim_zero_all; [reflexivity|].
  clear -Hf. induction Hf as [|r x rows xs [_ (c & _ & Hc)] _ IH]; intros r' [ ]; subst; [rewrite Hc; apply Rabs_pos | apply IH; assumption].
Qed.

(* ---------- the rows of a real result and u_component(y, z) of a complex influence ---------- *)
(* UncertainReal.u_component(z) for z = (xr, xi) with elementary or intermediate parts is the pair
   of the components for the parts, followed by two zeros ... *)
Lemma ucomp_rc_parts (N : Num) s (y xr xi : KTypes.ureal (T N)) :
  (is_elementary N xr || is_intermediate N xr = true) ->
  (is_elementary N xi || is_intermediate N xi = true) ->
  ucomp_rc N s y xr xi =
  (a <- u_component N s y xr ;; b <- u_component N s y xi ;; Ok (a, b, Kernel.zero N, Kernel.zero N)).
Proof.
  intros Hr Hi. unfold ucomp_rc, ucomp_part, u_component, is_elementary, is_intermediate in *.
  destruct (unode xr); try discriminate Hr; destruct (unode xi); try discriminate Hi; reflexivity.
Qed.

(* ... so the two rows a real budget lists for a requested complex influence z (known finding
   C17-real-two-rows) are |u_component(y, z)[0]| and |u_component(y, z)[1]|, in this order, with
   the uids of z.real and z.imag, and u_component(y, z)[2] = [3] = 0 *)
Theorem real_rows_match_u_component_of_complex s ncx (y xr xi : ureal) lb rv out :
  (is_elementary RNum xr || is_intermediate RNum xr = true) ->
  (is_elementary RNum xi || is_intermediate RNum xi = true) ->
  budget RNum s ncx (@YReal RNum y) (@mkOpts RNum (Some [@IComplex RNum xr xi lb]) 0 None false None rv) = Ok out ->
  exists a b, u_component_any RNum s (@YReal RNum y) (@IComplex RNum xr xi lb) = Ok [a; b; 0; 0] /\
              map r_u out = [Rabs a; Rabs b] /\ map r_uid out = [uid_of RNum xr; uid_of RNum xi].
Proof.
  intros Hr Hi Hb.
  destruct (real_budget_influences s ncx y _ rv out Hb) as (xs & Ex & Hf).
  cbn [expand option_map] in Ex. injection Ex as <-.
  inversion Hf as [|r1 x1 l1 l1' [Hu1 (a & Ea & Ha)] Hf1]; subst.
  inversion Hf1 as [|r2 x2 l2 l2' [Hu2 (b & Eb & Hb2)] Hf2]; subst.
  inversion Hf2; subst.
  exists a, b. split.
  - unfold u_component_any. rewrite (ucomp_rc_parts RNum s y xr xi Hr Hi).
    change (T RNum) with R in *. rewrite Ea, Eb. reflexivity.
  - cbn [map]. rewrite Hu1, Hu2, Ha, Hb2. split; reflexivity.
Qed.

(* ---------- declared numbers ---------- *)
Lemma assoc_app_fresh {A} (l : list (key * A)) k a :
  Kernel.assoc l k = None -> Kernel.assoc (l ++ [(k, a)]) k = Some a.
Proof.
  induction l as [|[k' a'] l IH]; simpl; intros H.
  - rewrite keqb_refl. reflexivity.
  - destruct (keqb k k'); [discriminate | apply IH; exact H].
Qed.

Lemma Reqb_refl x : Reqb x x = true.
Proof. unfold Reqb. destruct (Req_EM_T x x); [reflexivity | contradiction]. Qed.

(* what Kernel.elementary (UncertainReal._elementary) returns satisfies Budget.decl_ok: the new
   leaf with its standard uncertainty -- zero included -- is the single entry of the
   independent or of the dependent vector *)
Theorem elementary_decl_ok (s : state) x u df lb indep s' (o : ureal) :
  Kernel.assoc (s_leaves s) (s_ctx s, (s_ne s + 1)%Z) = None ->
  elementary RNum s x u df lb indep = Ok (s', o) -> decl_ok RNum s' o = true.
Proof.
  intros Hf H. unfold elementary in H.
  destruct df as [| |d]; try discriminate;
    repeat match type of H with (if ?c then _ else _) = _ => destruct c; try discriminate end;
    injection H as <- <-; unfold decl_ok, leaf_of; destruct indep; cbn [unode uc dc ic s_leaves];
    rewrite (assoc_app_fresh _ _ _ Hf); cbn [l_indep l_u vec_eqb andb same RNum];
    rewrite ?keqb_refl, ?Reqb_refl; reflexivity.
Qed.

(* ====================================================================================== *)
(* Part 3: over the reals -- the complex budget under the pairing invariant               *)
(* ====================================================================================== *)
Lemma sorted_keys_unique (a b : rvec) :
  sorted (N:=RNum) a -> sorted (N:=RNum) b ->
  (forall k, In k (keys (N:=RNum) a) <-> In k (keys (N:=RNum) b)) -> keys (N:=RNum) a = keys (N:=RNum) b.
Proof.
  revert b; induction a as [|[ka ua] a IH]; intros b Sa Sb H.
  - destruct b as [|[kb ub] b]; [reflexivity|]. exfalso. apply (proj2 (H kb)). left; reflexivity.
  - destruct b as [|[kb ub] b]; [exfalso; apply (proj1 (H ka)); left; reflexivity|].
    assert (E : ka = kb).
    { destruct (proj1 (H ka) (or_introl eq_refl)) as [E|Hin]; [symmetry; exact E|].
      destruct (proj2 (H kb) (or_introl eq_refl)) as [E|Hin']; [exact E|]. exfalso.
      pose proof (sorted_head_lt RNum kb ub b ka Sb Hin) as L1.
      pose proof (sorted_head_lt RNum ka ua a kb Sa Hin') as L2.
      pose proof (kcmp_lt_trans _ _ _ L1 L2) as L3. rewrite kcmp_refl in L3. discriminate. }
    subst kb. cbn [keys map fst]. f_equal. apply IH.
    + exact (sorted_tail RNum _ _ _ Sa).
    + exact (sorted_tail RNum _ _ _ Sb).
    + intros k. split; intros Hk.
      * destruct (proj1 (H k) (or_intror Hk)) as [E|Hin]; [|exact Hin]. exfalso. subst k.
        pose proof (sorted_head_lt RNum ka ua a ka Sa Hk) as L. rewrite kcmp_refl in L. discriminate.
      * destruct (proj2 (H k) (or_intror Hk)) as [E|Hin]; [|exact Hin]. exfalso. subst k.
        pose proof (sorted_head_lt RNum ka ub b ka Sb Hk) as L. rewrite kcmp_refl in L. discriminate.
Qed.

Lemma sorted_as_map (v : rvec) :
  sorted (N:=RNum) v -> v = map (fun k => (k, get0 (N:=RNum) v k)) (keys (N:=RNum) v).
Proof.
  induction v as [|[k u] v IH]; intros S; [reflexivity|].
  change (keys (N:=RNum) ((k, u) :: v)) with (k :: keys (N:=RNum) v). cbn [map].
  assert (E1 : get0 (N:=RNum) ((k, u) :: v) k = u) by (unfold get0; cbn [get]; rewrite keqb_refl; reflexivity).
  rewrite E1. apply (f_equal (cons (k, u))).
  etransitivity; [apply IH; exact (sorted_tail RNum _ _ _ S)|]. apply map_ext_in. intros k' Hk'.
  f_equal. unfold get0. cbn [get].
  pose proof (sorted_head_lt RNum k u v k' S Hk') as L. destruct (keqb_neq _ _ L) as [E _]. rewrite E. reflexivity.
Qed.

(* both components of every complex influence are there, the imaginary one right after the
   real one *)
Inductive paired (s : state) : list key -> Prop :=
| p_nil : paired s []
| p_real k K l : leaf_of RNum s k = Ok l -> l_cplx l = None -> paired s K -> paired s (k :: K)
| p_cplx a b K l : leaf_of RNum s a = Ok l -> l_cplx l = Some (a, b) -> paired s K -> paired s (a :: b :: K).

(* one row per real influence, one row per complex influence; f, g: the components of the real
   and of the imaginary part of y *)
Inductive crows_fg (s : state) (f g : key -> R) : list key -> list rrow -> Prop :=
| cr_nil : crows_fg s f g [] []
| cr_real k K l (r : rrow) rs :
    leaf_of RNum s k = Ok l -> l_cplx l = None ->
    r_uid r = UElem k -> r_u r = ubar_R (f k) 0 (g k) 0 ->
    crows_fg s f g K rs -> crows_fg s f g (k :: K) (r :: rs)
| cr_cplx a b K l (r : rrow) rs :
    leaf_of RNum s a = Ok l -> l_cplx l = Some (a, b) ->
    r_uid r = UPair (UElem a) (UElem b) -> r_u r = ubar_R (f a) (f b) (g a) (g b) ->
    crows_fg s f g K rs -> crows_fg s f g (a :: b :: K) (r :: rs).

Lemma ploop_paired s f g K :
  paired s K ->
  exists rows,
    ploop RNum (acc_leaf RNum s) (fun _ _ => false)
          (map (fun k => (k, f k)) K) (map (fun k => (k, g k)) K) = Ok rows /\
    crows_fg s f g K rows.
Proof.
  induction 1 as [|k K l El Ec HP IH|a b K l El Ec HP IH].
  - exists []. split; [reflexivity|constructor].
  - destruct IH as (rs & Er & Hc). cbn [map ploop acc_leaf a_cplx a_label a_uid].
    change (T RNum) with R in *. rewrite El. cbn [bind]. rewrite Ec. rewrite u_bar4_R. cbn [bind].
    change (T RNum) with R in *. rewrite Er. cbn [bind].
    eexists. split; [reflexivity|]. eapply cr_real; [exact El | exact Ec | reflexivity | reflexivity | exact Hc].
  - destruct IH as (rs & Er & Hc). cbn [map ploop acc_leaf a_cplx a_label a_uid].
    change (T RNum) with R in *. rewrite El. cbn [bind]. rewrite Ec. rewrite u_bar4_R. cbn [bind].
    change (T RNum) with R in *. rewrite Er. cbn [bind].
    eexists. split; [reflexivity|]. eapply cr_cplx; [exact El | exact Ec | reflexivity | reflexivity | exact Hc].
Qed.

(* the component of uncertainty of a part of y for the leaf k, read off its two component
   vectors: the key sets of uc and dc are disjoint, so one of the two terms is 0 *)
Definition cval (y : ureal) (k : key) : R := vget RNum (uc y) k + vget RNum (dc y) k.

Lemma vget_absent (v : rvec) k : ~ In k (keys (N:=RNum) v) -> vget RNum v k = 0.
Proof. intros H. unfold vget. rewrite (get_none_notin RNum v k H). reflexivity. Qed.

(* ... and it IS Kernel.u_component, for independent and for dependent leaves alike *)
Lemma cval_is_u_component s (y x : ureal) k l :
  wf_real s y -> unode x = LeafRef k -> leaf_of RNum s k = Ok l ->
  u_component RNum s y x = Ok (cval y k).
Proof.
  intros [_ _ Lu Ld] Hx El. unfold u_component, cval. change (T RNum) with R in *. rewrite Hx, El. cbn [bind].
  destruct (l_indep l) eqn:Ei.
  - rewrite (vget_absent (dc y) k); [f_equal; symmetry; apply Rplus_0_r|].
    intros Hin. destruct (Ld k Hin) as (l' & El' & Ei'). change (T RNum) with R in *. rewrite El in El'. injection El' as <-. rewrite Ei in Ei'. discriminate.
  - rewrite (vget_absent (uc y) k); [f_equal; symmetry; apply Rplus_0_l|].
    intros Hin. destruct (Lu k Hin) as (l' & El' & Ei'). change (T RNum) with R in *. rewrite El in El'. injection El' as <-. rewrite Ei in Ei'. discriminate.
Qed.

(* the rows of the complex budget: u_bar of the block of components of uncertainty *)
Definition crows (s : state) (yre yim : ureal) : list key -> list rrow -> Prop :=
  crows_fg s (cval yre) (cval yim).

Lemma merged_sorted (y : ureal) :
  sorted (N:=RNum) (uc y) -> sorted (N:=RNum) (dc y) -> sorted (N:=RNum) (merge (N:=RNum) (uc y) (dc y)).
Proof. apply sorted_merge. Qed.

Lemma ext_re_sorted (yre yim : ureal) :
  sorted (N:=RNum) (uc yre) -> sorted (N:=RNum) (dc yre) -> sorted (N:=RNum) (uc yim) -> sorted (N:=RNum) (dc yim) ->
  sorted (N:=RNum) (ext_re RNum yre yim).
Proof. intros. unfold ext_re, extend. repeat apply sorted_merge_w; try assumption. apply sorted_merge; assumption. Qed.

Lemma ext_im_sorted (yre yim : ureal) :
  sorted (N:=RNum) (uc yre) -> sorted (N:=RNum) (dc yre) -> sorted (N:=RNum) (uc yim) -> sorted (N:=RNum) (dc yim) ->
  sorted (N:=RNum) (ext_im RNum yre yim).
Proof. intros. unfold ext_im, extend. repeat apply sorted_merge_w; try assumption. apply sorted_merge; assumption. Qed.

Lemma keys_merge (v1 v2 : rvec) k :
  In k (keys (N:=RNum) (merge (N:=RNum) v1 v2)) <-> In k (keys (N:=RNum) v1) \/ In k (keys (N:=RNum) v2).
Proof. apply keys_mloop. Qed.

Lemma ext_re_keys (yre yim : ureal) k :
  In k (keys (N:=RNum) (ext_re RNum yre yim)) <->
  (In k (keys (N:=RNum) (uc yre)) \/ In k (keys (N:=RNum) (dc yre))) \/ In k (keys (N:=RNum) (uc yim)) \/ In k (keys (N:=RNum) (dc yim)).
Proof. unfold ext_re, extend. rewrite !keys_merge_w, keys_merge. tauto. Qed.

Lemma ext_keys (yre yim : ureal) k :
  In k (keys (N:=RNum) (ext_re RNum yre yim)) <-> In k (keys (N:=RNum) (ext_im RNum yre yim)).
Proof. unfold ext_re, ext_im, extend. rewrite !keys_merge_w, !keys_merge. tauto. Qed.

Lemma ext_re_get (yre yim : ureal) k :
  sorted (N:=RNum) (uc yre) -> sorted (N:=RNum) (dc yre) -> sorted (N:=RNum) (uc yim) -> sorted (N:=RNum) (dc yim) ->
  get0 (N:=RNum) (ext_re RNum yre yim) k = cval yre k.
Proof.
  intros S1 S2 S3 S4. pose proof (sorted_merge _ _ S1 S2) as SM. unfold ext_re.
  rewrite get0_extend; [| unfold extend; apply sorted_merge_w; assumption | assumption].
  rewrite get0_extend by assumption. rewrite get0_merge by assumption. reflexivity.
Qed.

Lemma ext_im_get (yre yim : ureal) k :
  sorted (N:=RNum) (uc yre) -> sorted (N:=RNum) (dc yre) -> sorted (N:=RNum) (uc yim) -> sorted (N:=RNum) (dc yim) ->
  get0 (N:=RNum) (ext_im RNum yre yim) k = cval yim k.
Proof.
  intros S1 S2 S3 S4. pose proof (sorted_merge _ _ S3 S4) as SM. unfold ext_im.
  rewrite get0_extend; [| unfold extend; apply sorted_merge_w; assumption | assumption].
  rewrite get0_extend by assumption. rewrite get0_merge by assumption. reflexivity.
Qed.

(* C17 (complex): under the pairing invariant the default complex budget has one row per real
   influence and one row per complex influence, with u_bar of the 2x1 (resp. 2x2) block of
   components of uncertainty -- independent and dependent influences alike *)
Theorem complex_budget_paired s ncx (yre yim : ureal) t m k rv :
  wf_real s yre -> wf_real s yim ->
  paired s (keys (N:=RNum) (ext_re RNum yre yim)) ->
  exists rows, gather RNum s ncx (@YComplex RNum yre yim) (default_opts t m k rv) = Ok rows /\
               crows s yre yim (keys (N:=RNum) (ext_re RNum yre yim)) rows.
Proof.
  intros [S1 S2 _ _] [S3 S4 _ _] HP.
  pose proof (ext_re_sorted yre yim S1 S2 S3 S4) as SR.
  pose proof (ext_im_sorted yre yim S1 S2 S3 S4) as SI.
  assert (EK : keys (N:=RNum) (ext_im RNum yre yim) = keys (N:=RNum) (ext_re RNum yre yim)).
  { apply sorted_keys_unique; [exact SI | exact SR | intros k0; symmetry; apply ext_keys]. }
  destruct (ploop_paired s (cval yre) (cval yim) _ HP) as (rows & Er & Hc).
  exists rows. split; [|exact Hc].
  unfold gather, default_opts. cbn [o_interm o_infl andb gather_complex].
  rewrite (sorted_as_map _ SR) at 1. rewrite (sorted_as_map _ SI) at 1. rewrite EK.
  rewrite (map_ext _ (fun k0 => (k0, cval yre k0)))
    by (intros k0; rewrite ext_re_get by assumption; reflexivity).
  rewrite (map_ext (fun k0 => (k0, get0 (N:=RNum) (ext_im RNum yre yim) k0)) (fun k0 => (k0, cval yim k0)))
    by (intros k0; rewrite ext_im_get by assumption; reflexivity).
  exact Er.
Qed.

(* the block of components in a row is exactly what UncertainComplex.u_component returns for the
   influence, so the row is u_bar(u_component(y, influence)) -- no restriction to independent
   influences any more *)
Lemma ucomp_c_real s (yre yim x : ureal) k l :
  wf_real s yre -> wf_real s yim ->
  unode x = LeafRef k -> leaf_of RNum s k = Ok l ->
  ucomp_c RNum s yre yim (@IReal RNum x) = Ok (cval yre k, 0, cval yim k, 0).
Proof.
  intros W1 W2 Hx El. unfold ucomp_c, is_elem, is_elementary. change (T RNum) with R in *. rewrite Hx. cbn [orb].
  rewrite (cval_is_u_component s yre x k l W1 Hx El), (cval_is_u_component s yim x k l W2 Hx El). reflexivity.
Qed.

Lemma ucomp_c_complex s (yre yim xr xi : ureal) lb a b la lb' :
  wf_real s yre -> wf_real s yim ->
  unode xr = LeafRef a -> unode xi = LeafRef b ->
  leaf_of RNum s a = Ok la -> leaf_of RNum s b = Ok lb' ->
  ucomp_c RNum s yre yim (@IComplex RNum xr xi lb) =
  Ok (cval yre a, cval yre b, cval yim a, cval yim b).
Proof.
  intros W1 W2 Hr Hi Ea Eb. unfold ucomp_c, is_elem, is_elementary. change (T RNum) with R in *.
  rewrite Hr, Hi. cbn [andb orb].
  rewrite (cval_is_u_component s yre xr a la W1 Hr Ea), (cval_is_u_component s yre xi b lb' W1 Hi Eb),
          (cval_is_u_component s yim xr a la W2 Hr Ea), (cval_is_u_component s yim xi b lb' W2 Hi Eb). reflexivity.
Qed.

(* ====================================================================================== *)
(* Part 4: what is false of the faithful model (known findings), and the witnesses of the *)
(* two repaired defects, which now satisfy the property                                    *)
(* ====================================================================================== *)
Definition k1 : key := (1%Z, 1%Z).
Definition k2 : key := (1%Z, 2%Z).
Definition k3 : key := (1%Z, 3%Z).
Definition lf (indep : bool) (cx : option (key * key)) : leaf R := mkLeaf 1 DInf indep [] 0%nat cx None.

(* z = ucomplex(...) -> leaves k1 (z.real), k2 (z.imag); x = ureal(...) -> leaf k3 *)
Definition st_zx : state :=
  mkS 1%Z 3%Z 0%Z [(k1, lf true (Some (k1, k2))); (k2, lf true (Some (k1, k2))); (k3, lf true None)] [] [] [].

(* y = z.real*(1+2j) + x :  re = z.real + x,  im = 2 z.real *)
Definition yre_p : ureal := mkU 0 [(k1, 1); (k3, 1)] [] [] NoNode.
Definition yim_p : ureal := mkU 0 [(k1, 2)] [] [] NoNode.

Lemma wf_yre_p : wf_real st_zx yre_p.
Proof.
  split; cbn.
  - split; [intros k' [<-|[]]; reflexivity|]. split; [intros k' []|exact I].
  - exact I.
  - intros k [<-|[<-|[]]]; eexists; split; reflexivity.
  - intros k [].
Qed.

Lemma wf_yim_p : wf_real st_zx yim_p.
Proof.
  split; cbn.
  - split; [intros k' []|exact I].
  - exact I.
  - intros k [<-|[]]; eexists; split; reflexivity.
  - intros k [].
Qed.

Definition cplx_opts : opts RNum := @mkOpts RNum None 0 None false None true.

(* #13: the complex budget of a result that uses only the real component of z pairs z.real with
   the NEXT key -- the real influence x -- and x is missing from the complete budget, although
   its component of uncertainty is 1 *)
Theorem complex_partial_use_refuted :
  exists out,
    wf_real st_zx yre_p /\ wf_real st_zx yim_p /\
    comp_is st_zx yre_p k3 1 /\
    budget RNum st_zx [] (@YComplex RNum yre_p yim_p) cplx_opts = Ok out /\
    map r_uid out = [UPair (UElem k1) (UElem k2)] /\ ~ In (UElem k3) (map r_uid out).
Proof.
  eexists. split; [exact wf_yre_p|]. split; [exact wf_yim_p|].
  split; [apply comp_indep; [apply wf_yre_p | apply wf_yre_p | right; left; reflexivity]|].
  split.
  - unfold budget, gather, cplx_opts. cbn [o_interm o_infl andb gather_complex o_trim o_key o_rev o_max].
    unfold ext_re, ext_im, extend, merge_w, merge, yre_p, yim_p. cbn [uc dc].
    cbn [mloop vmap map fst snd kcmp k1 k3 Z.compare Pos.compare Pos.compare_cont].
    assert (L1 : leaf_of RNum st_zx k1 = Ok (lf true (Some (k1, k2)))) by reflexivity.
    cbn [ploop a_cplx acc_leaf a_label a_uid]. rewrite L1. cbn [bind lf l_cplx l_label].
    rewrite u_bar4_R. cbn [bind sort_rows cut_rows].
    rewrite trim_zero_all by (intros r [<-|[]]; apply ubar_R_nonneg). reflexivity.
  - cbn [map r_uid pair_uid acc_leaf a_uid fst snd]. split; [reflexivity|]. intros [H|[]]. discriminate.
Qed.

(* #14: a real result that depends on the complex influence z (say y = z.real + z.imag) lists
   it as two rows, one for each component, not once with u_bar *)
Definition y_two : ureal := mkU 0 [(k1, 1); (k2, 1)] [] [] NoNode.

Lemma wf_y_two : wf_real st_zx y_two.
Proof.
  split; cbn.
  - split; [intros k' [<-|[]]; reflexivity|]. split; [intros k' []|exact I].
  - exact I.
  - intros k [<-|[<-|[]]]; eexists; split; reflexivity.
  - intros k [].
Qed.

Theorem real_complex_influence_two_rows :
  exists out l1 l2 c,
    wf_real st_zx y_two /\
    budget RNum st_zx [] (@YReal RNum y_two) (default_opts 0 None None true) = Ok out /\
    map r_uid out = [UElem k1; UElem k2] /\
    leaf_of RNum st_zx k1 = Ok l1 /\ leaf_of RNum st_zx k2 = Ok l2 /\
    l_cplx l1 = Some c /\ l_cplx l2 = Some c.
Proof.
  destruct (real_budget_complete_unsorted st_zx y_two true wf_y_two) as (rows & Eb & Hf).
  exists rows. do 3 eexists. split; [exact wf_y_two|]. split; [exact Eb|].
  split; [rewrite (Forall2_uid _ _ _ _ Hf); reflexivity|].
  repeat split; reflexivity.
Qed.

(* #15 (repaired: `ir_0.uid`): components() and budget() build their rows with the same code for
   every y and every mode, so components() succeeds exactly when budget's rows exist and returns
   those rows (labels dropped), trimmed, sorted by u, truncated *)
Theorem components_rows_are_budget_rows (N : Num) s ncx y (o : opts N) rows :
  gather N s ncx y o = Ok rows ->
  components N s ncx y o =
  Ok (cut_rows N (o_max o) (isort N (before_u N true) (trim_rows N (o_trim o) (map (unlabel N) rows)))).
Proof. intros H. unfold components. rewrite H. reflexivity. Qed.

Theorem components_raises_iff_budget_rows_raise (N : Num) s ncx y (o : opts N) e :
  components N s ncx y o = Err e <-> gather N s ncx y o = Err e.
Proof.
  unfold components. destruct (gather N s ncx y o) as [rows|e']; cbn [bind]; split; intros H; try discriminate; exact H.
Qed.

(* the former witness: y = (1+2j)*r1 with r1 = result(2*x) a REAL intermediate *)
Definition n1 : key := (1%Z, 1%Z).
Definition st_n : state := mkS 1%Z 3%Z 1%Z [(k3, lf true None)] [(n1, mkNode 2 DInf None)] [] [].
Definition yre_n : ureal := mkU 0 [(k3, 2)] [] [(n1, 2)] NoNode.
Definition yim_n : ureal := mkU 0 [(k3, 4)] [] [(n1, 4)] NoNode.
Definition interm_opts : opts RNum := @mkOpts RNum None 0 None true None true.

Theorem components_intermediate_real_node :
  exists out, components RNum st_n [] (@YComplex RNum yre_n yim_n) interm_opts = Ok out /\
              map r_uid out = [UInterm n1] /\ map r_u out = [ubar_R 2 0 4 0].
Proof.
  assert (Eg : exists r, gather RNum st_n [] (@YComplex RNum yre_n yim_n) interm_opts = Ok [r] /\
                         r_uid r = UInterm n1 /\ r_u r = ubar_R 2 0 4 0).
  { eexists. split.
    - unfold gather, interm_opts. cbn [o_interm o_infl andb gather_complex].
      unfold extend, merge_w, yre_n, yim_n. cbn [ic node_key unode].
      cbn [mloop vmap map fst snd kcmp n1 Z.compare Pos.compare Pos.compare_cont].
      assert (L1 : node_of RNum st_n n1 = Ok (mkNode 2 DInf None)) by reflexivity.
      cbn [ploop a_cplx acc_node a_label a_uid assoc bind]. rewrite u_bar4_R. cbn [bind]. rewrite L1.
      cbn [bind n_label]. reflexivity.
    - cbn [r_uid r_u acc_node a_uid]. split; [reflexivity|].
      unfold ubar_R. f_equal. cbn [mul add of_Z RNum]. unfold Kernel.zero. cbn [of_Z RNum]. field. }
  destruct Eg as (r & Eg & Hu & Hv).
  eexists. split.
  - rewrite (components_rows_are_budget_rows RNum _ _ _ _ _ Eg).
    cbn [interm_opts o_trim o_max cut_rows map].
    rewrite trim_zero_all by (intros r' [<-|[]]; cbn [unlabel r_u]; rewrite Hv; apply ubar_R_nonneg). reflexivity.
  - cbn [isort fold_right insert map unlabel r_uid r_u]. rewrite Hu, Hv. split; reflexivity.
Qed.

(* former #28 (repaired: merge_vectors(u, d) before extending): a DEPENDENT influence of a complex
   result is reported with u_bar of its components.  y = (1+1j)*x, x declared independent=False:
   both components are 1 and the budget row says u_bar = sqrt((1+1)/2) = 1 (it said 0) *)
Definition st_d : state := mkS 1%Z 3%Z 0%Z [(k3, lf false None)] [] [] [].
Definition yre_d : ureal := mkU 0 [] [(k3, 1)] [] NoNode.
Definition yim_d : ureal := mkU 0 [] [(k3, 1)] [] NoNode.

Lemma wf_yre_d : wf_real st_d yre_d.
Proof.
  split; cbn.
  - exact I.
  - split; [intros k' []|exact I].
  - intros k [].
  - intros k [<-|[]]; eexists; split; reflexivity.
Qed.

Theorem complex_dependent_reported :
  exists r,
    wf_real st_d yre_d /\ wf_real st_d yim_d /\
    comp_is st_d yre_d k3 1 /\ comp_is st_d yim_d k3 1 /\
    budget RNum st_d [] (@YComplex RNum yre_d yim_d) cplx_opts = Ok [r] /\
    r_uid r = UElem k3 /\ r_u r = ubar_R 1 0 1 0 /\ r_u r = 1.
Proof.
  assert (HP : paired st_d (keys (N:=RNum) (ext_re RNum yre_d yim_d))).
  { change (keys (N:=RNum) (ext_re RNum yre_d yim_d)) with [k3].
    eapply p_real; [reflexivity | reflexivity | constructor]. }
  destruct (complex_budget_paired st_d [] yre_d yim_d 0 None None true wf_yre_d wf_yre_d HP) as (rows & Eg & Hc).
  change (keys (N:=RNum) (ext_re RNum yre_d yim_d)) with [k3] in Hc.
  inversion Hc as [|k K l r rs El Ec Hu Hv Hrest|a b K l r rs El Ec Hu Hv Hrest]; subst.
  inversion Hrest; subst.
  assert (Hc1 : cval yre_d k3 = 1).
  { unfold cval. change (vget RNum (uc yre_d) k3) with 0. change (vget RNum (dc yre_d) k3) with 1. ring. }
  assert (Hval : r_u r = ubar_R 1 0 1 0).
  { rewrite Hv. change (cval yim_d k3) with (cval yre_d k3). rewrite Hc1. reflexivity. }
  assert (H1 : ubar_R 1 0 1 0 = 1).
  { unfold ubar_R. replace ((1 * 1 + 0 * 0 + 1 * 1 + 0 * 0) / 2) with 1 by field. apply sqrt_1. }
  exists r. split; [exact wf_yre_d|]. split; [exact wf_yre_d|].
  split; [apply comp_dep; [apply wf_yre_d | apply wf_yre_d | left; reflexivity]|].
  split; [apply comp_dep; [apply wf_yre_d | apply wf_yre_d | left; reflexivity]|].
  split; [|split; [assumption | split; [exact Hval | rewrite Hval; exact H1]]].
  unfold budget. change cplx_opts with (default_opts 0 None None true). rewrite Eg.
  cbn [bind default_opts o_trim o_key o_rev o_max sort_rows cut_rows].
  rewrite trim_zero_all by (intros r' [<-|[]]; rewrite Hval; apply ubar_R_nonneg). reflexivity.
Qed.

(* non-vacuity of the pairing theorem: y = z * x uses z.real, z.imag and x *)
Definition yre_f : ureal := mkU 0 [(k1, 3); (k3, 1)] [] [] NoNode.
Definition yim_f : ureal := mkU 0 [(k2, 3); (k3, 2)] [] [] NoNode.

Lemma wf_yre_f : wf_real st_zx yre_f.
Proof.
  split; cbn.
  - split; [intros k' [<-|[]]; reflexivity|]. split; [intros k' []|exact I].
  - exact I.
  - intros k [<-|[<-|[]]]; eexists; split; reflexivity.
  - intros k [].
Qed.

Lemma wf_yim_f : wf_real st_zx yim_f.
Proof.
  split; cbn.
  - split; [intros k' [<-|[]]; reflexivity|]. split; [intros k' []|exact I].
  - exact I.
  - intros k [<-|[<-|[]]]; eexists; split; reflexivity.
  - intros k [].
Qed.

Theorem complex_nonvacuous :
  wf_real st_zx yre_f /\ wf_real st_zx yim_f /\
  paired st_zx (keys (N:=RNum) (ext_re RNum yre_f yim_f)) /\
  exists rows, gather RNum st_zx [] (@YComplex RNum yre_f yim_f) (default_opts 0 None None true) = Ok rows /\
               map r_uid rows = [UPair (UElem k1) (UElem k2); UElem k3].
Proof.
  assert (HP : paired st_zx (keys (N:=RNum) (ext_re RNum yre_f yim_f))).
  { change (keys (N:=RNum) (ext_re RNum yre_f yim_f)) with [k1; k2; k3].
    eapply p_cplx; [reflexivity | reflexivity |]. eapply p_real; [reflexivity | reflexivity | constructor]. }
  split; [exact wf_yre_f|]. split; [exact wf_yim_f|]. split; [exact HP|].
  destruct (complex_budget_paired st_zx [] yre_f yim_f 0 None None true wf_yre_f wf_yim_f HP) as (rows & Eg & Hc).
  exists rows. split; [exact Eg|].
  change (keys (N:=RNum) (ext_re RNum yre_f yim_f)) with [k1; k2; k3] in Hc.
  inversion Hc as [|k K l r rs El Ec Hu Hv Hrest|a b K l r rs El Ec Hu Hv Hrest]; subst.
  - exfalso. change (leaf_of RNum st_zx k1) with (Ok (lf true (Some (k1, k2)))) in El. injection El as <-. discriminate.
  - inversion Hrest as [|k K l' r' rs' El' Ec' Hu' Hv' Hrest'|a' b' K' l' r' rs' El' Ec' Hu' Hv' Hrest']; subst.
    inversion Hrest'; subst. cbn [map]. rewrite Hu, Hu'. reflexivity.
Qed.

(* BudgetCase.v -- support for the generated C17 correspondence files: one case is a session
   snapshot (leaves, nodes, Node.complex table), a result y and a list of calls
   (budget / components, options, what the implementation returned); the FNum model is run on
   every call.  -1 = all calls agree, otherwise 10000 * (index of the first differing call) +
   10 + the code of Budget.compare_res. *)
From Coq Require Import ZArith List Bool String PrimFloat.
From GTCV Require Import Num FNum Vector Opres KTypes Kernel Budget.
Import ListNotations.

Definition bcall (N : Num) := (bool * opts N * res (list (row N)))%type.

Definition run_call (N : Num) (s : state (T N)) (ncx : ncxt) (y : yval N) (c : bcall N) : Z :=
  let '(is_budget, o, expected) := c in
  let got := if is_budget then budget N s ncx y o else components N s ncx y o in
  match expected, got with
  | Err OtherExn, Err _ => (-1)%Z     (* the implementation raised while formatting its own error
                                         message (repr of the argument): only "raises" is compared *)
  | _, _ => compare_res N got expected
  end.

Fixpoint run_calls (N : Num) (s : state (T N)) (ncx : ncxt) (y : yval N) (i : Z) (cs : list (bcall N)) : Z :=
  match cs with
  | [] => (-1)%Z
  | c :: cs' => let r := run_call N s ncx y c in
                if (r =? -1)%Z then run_calls N s ncx y (i + 1)%Z cs' else (10000 * i + 10 + r)%Z
  end.

Definition run_bcase (tbl : list oracle_entry)
           (s : state float) (ncx : ncxt) (y : yval (FNum tbl)) (cs : list (bcall (FNum tbl))) : Z :=
  run_calls (FNum tbl) s ncx y 0%Z cs.

(* sequences of report calls on several objects of the same session (y, y.real, y.imag,
   magnitude(y), y again): every call names its target.  The model is pure -- the targets are
   the snapshots taken before the first call -- so a report that changed what a later report
   returns shows up as a difference. *)
Definition tcall (N : Num) := (yval N * bool * opts N * res (list (row N)))%type.

Fixpoint run_tcalls (N : Num) (s : state (T N)) (ncx : ncxt) (i : Z) (cs : list (tcall N)) : Z :=
  match cs with
  | [] => (-1)%Z
  | (y, b, o, e) :: cs' =>
      let r := run_call N s ncx y (b, o, e) in
      if (r =? -1)%Z then run_tcalls N s ncx (i + 1)%Z cs' else (10000 * i + 10 + r)%Z
  end.

(* the declared numbers of the session (parts of complex inputs included) must have the shape
   Kernel.elementary gives them (Budget.decl_ok) before any report is compared:
   90000000 + index of the first declared number that has not *)
Fixpoint decls_bad (N : Num) (s : state (T N)) (i : Z) (os : list (ureal (T N))) : Z :=
  match os with
  | [] => (-1)%Z
  | o :: os' => if decl_ok N s o then decls_bad N s (i + 1)%Z os' else i
  end.

Definition run_case17 (N : Num) (s : state (T N)) (ncx : ncxt) (decls : list (ureal (T N))) (cs : list (tcall N)) : Z :=
  let d := decls_bad N s 0%Z decls in
  if (d =? -1)%Z then run_tcalls N s ncx 0%Z cs else (90000000 + d)%Z.

(* reporting.u_component(y, x) as the user calls it (x the influence as held: an uncertain real,
   or the uncertain complex number itself), compared with Budget.u_component_any:
   80000000 + index of the first differing call *)
Definition ucall (N : Num) := (yval N * infl N * res (list (T N)))%type.

Fixpoint vals_eqb (N : Num) (a b : list (T N)) : bool :=
  match a, b with
  | [], [] => true
  | x :: a', y :: b' => same N x y && vals_eqb N a' b'
  | _, _ => false
  end.

Definition ucall_ok (N : Num) (s : state (T N)) (c : ucall N) : bool :=
  let '(y, i, expected) := c in
  match u_component_any N s y i, expected with
  | Ok a, Ok b => vals_eqb N a b
  | Err _, Err OtherExn => true          (* raised inside repr() of the error message *)
  | Err e, Err e' => exn_eqb e e'
  | _, _ => false
  end.

Fixpoint ucalls_bad (N : Num) (s : state (T N)) (i : Z) (cs : list (ucall N)) : Z :=
  match cs with
  | [] => (-1)%Z
  | c :: cs' => if ucall_ok N s c then ucalls_bad N s (i + 1)%Z cs' else i
  end.

Definition run_case17u (N : Num) (s : state (T N)) (ncx : ncxt) (decls : list (ureal (T N)))
           (us : list (ucall N)) (cs : list (tcall N)) : Z :=
  let d := decls_bad N s 0%Z decls in
  if negb (d =? -1)%Z then (90000000 + d)%Z
  else let u := ucalls_bad N s 0%Z us in
       if negb (u =? -1)%Z then (80000000 + u)%Z else run_tcalls N s ncx 0%Z cs.

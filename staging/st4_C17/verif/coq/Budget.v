(* Budget.v -- executable model of GTC/reporting.py: u_bar, budget, components (all branches:
   real / complex result, default / intermediate=True / influences=[...], trim, key, reverse,
   max_number) on top of the kernel types of KTypes.v / Kernel.v.

   An uncertain complex number is, as in GTC, a pair of uncertain reals (re, im).  The only
   state the kernel types lack is the `complex` attribute of an intermediate Node; it is passed
   as a separate table [ncx].  Labels are Python strings: the label code (Z) stored in a
   leaf / node is the big-endian base-256 value of a 0x01 byte followed by the bytes of the
   label (lab_of_Z decodes it), so the model really computes label[:-3], "uid(7_1,7_1)",
   "(7, 4)" and compares labels as strings when key='label'.

   Faithful, not tidy: the pairing loop of the complex branches takes the NEXT key of the
   uid-sorted, key-aligned vectors for the imaginary component (DESIGN 7 #13), a real result
   reports the two components of a complex influence as two rows (#14), the unlabelled complex
   label repeats the real uid ("uid(7_1,7_1)").  Repaired in /repo and therefore no longer in
   the model: components(z, intermediate=True) reading `.complex` of a real Node (#15; now
   `.uid`), and the zero-filling of the dependent components of a complex result (the
   key-aligned vectors now start from merge_vectors(u, d), not extend_vector(u, d)).
   Definitions only; the theorems are in BudgetFacts.v. *)
From Coq Require Import ZArith List Bool String Ascii DecimalString.
From GTCV Require Import Num Vector Opres KTypes Kernel.
Import ListNotations.

(* ---------- Python strings ---------- *)
Definition str_of_Z (z : Z) : string := NilZero.string_of_int (Z.to_int z).

Fixpoint lab_dec (fuel : nat) (z : Z) (acc : string) : string :=
  match fuel with
  | O => acc
  | S f => if (z <=? 1)%Z then acc
           else lab_dec f (z / 256)%Z (String (ascii_of_N (Z.to_N (z mod 256)%Z)) acc)
  end.
Definition lab_of_Z (z : Z) : string := lab_dec (Z.to_nat (Z.log2 z)) z EmptyString.

Definition sapp := String.append.
Fixpoint sconcat (l : list string) : string :=
  match l with [] => EmptyString | s :: l' => sapp s (sconcat l') end.

(* s[:-3] *)
Definition strip3 (s : string) : string := substring 0 (String.length s - 3) s.

(* Python's < on str (code point order) *)
Fixpoint str_ltb (a b : string) : bool :=
  match a, b with
  | EmptyString, EmptyString => false
  | EmptyString, String _ _ => true
  | String _ _, EmptyString => false
  | String x a', String y b' =>
      let nx := N_of_ascii x in let ny := N_of_ascii y in
      if N.ltb nx ny then true else if N.ltb ny nx then false else str_ltb a' b'
  end.

(* "{}".format(uid) of an elementary / intermediate uid *)
Definition fmt_leaf_uid (k : key) : string :=
  sconcat ["("%string; str_of_Z (fst k); ", "%string; str_of_Z (snd k); ")"%string].
Definition fmt_node_uid (k : key) : string :=
  sconcat ["("%string; str_of_Z (fst k); ", "%string; str_of_Z (snd k); ", 0)"%string].
(* reporting.uid_str *)
Definition uid_str (k : key) : string := sconcat [str_of_Z (fst k); "_"%string; str_of_Z (snd k)].

(* ---------- what a budget row identifies ---------- *)
Inductive ruid :=
| UNone                      (* None *)
| UElem (k : key)            (* (ctx, n) *)
| UInterm (k : key)          (* (ctx, n, 0) *)
| UPair (a b : ruid).        (* the uid of an uncertain complex number *)

Fixpoint ruid_eqb (a b : ruid) : bool :=
  match a, b with
  | UNone, UNone => true
  | UElem k, UElem k' => keqb k k'
  | UInterm k, UInterm k' => keqb k k'
  | UPair a1 a2, UPair b1 b2 => ruid_eqb a1 b1 && ruid_eqb a2 b2
  | _, _ => false
  end.

Inductive skey := KU | KLabel.

Section Budget.
  Variable N : Num.
  Notation V := (T N).
  Notation vec := (vec N).
  Notation ureal := (ureal V). Notation state := (state V).

  Record row := mkRow { r_label : option string; r_u : V; r_uid : ruid }.

  Inductive yval := YReal (o : ureal) | YComplex (re im : ureal) | YOther.
  (* an element of influences=[...]: uncertain real, uncertain complex (with its _label), other *)
  Inductive infl := IReal (o : ureal) | IComplex (re im : ureal) (lb : option Z) | IOther.

  Record opts := mkOpts {
    o_infl : option (list infl);
    o_trim : V;                    (* float(trim) *)
    o_max : option Z;              (* max_number *)
    o_interm : bool;
    o_key : option skey;           (* budget only; None = key=None (no sort) *)
    o_rev : bool }.

  Definition ncxt := list (key * (key * key)).   (* Node.complex, where set *)

  Notation zero := (Kernel.zero N).
  Notation two := (Kernel.two N).

  (* ---------- u_bar of a 4-sequence ---------- *)
  Definition u_bar4 (a b c d : V) : res V :=
    let s := add N (add N (add N (add N zero (mul N a a)) (mul N b b)) (mul N c c)) (mul N d d) in
    h <- div N s two ;; libm1 N F_sqrt h.

  (* ---------- uid / label of an uncertain real ---------- *)
  Definition uid_of (o : ureal) : ruid :=
    match unode o with
    | NoNode => UNone | ConstLeaf _ => UNone | LeafRef k => UElem k | NodeRef k => UInterm k
    end.

  Definition label_of (s : state) (o : ureal) : res (option string) :=
    match unode o with
    | NoNode => Ok None
    | ConstLeaf l => Ok (option_map lab_of_Z l)
    | LeafRef k => l <- leaf_of N s k ;; Ok (option_map lab_of_Z (l_label l))
    | NodeRef k => n <- node_of N s k ;; Ok (option_map lab_of_Z (n_label n))
    end.

  (* UncertainComplex.uid: AttributeError (-> None) only when a component has _node None *)
  Definition uid_c (re im : ureal) : ruid :=
    match unode re, unode im with
    | NoNode, _ => UNone
    | _, NoNode => UNone
    | _, _ => UPair (uid_of re) (uid_of im)
    end.

  Definition lab_or (l : option Z) (dflt : string) : string :=
    match l with Some z => lab_of_Z z | None => dflt end.

  (* ---------- real result ---------- *)
  (* default: one row per key of a component vector *)
  Fixpoint rows_leaves (s : state) (v : vec) : res (list row) :=
    match v with
    | [] => Ok []
    | (k, u) :: v' =>
        l <- leaf_of N s k ;;
        rs <- rows_leaves s v' ;;
        Ok (mkRow (Some (lab_or (l_label l) (fmt_leaf_uid k))) (nabs N u) (UElem k) :: rs)
    end.

  (* intermediate=True: the declared intermediate results, y itself left out *)
  Fixpoint rows_nodes (s : state) (ny : option key) (v : vec) : res (list row) :=
    match v with
    | [] => Ok []
    | (k, u) :: v' =>
        if (match ny with Some k' => keqb k k' | None => false end) then rows_nodes s ny v'
        else
          n <- node_of N s k ;;
          rs <- rows_nodes s ny v' ;;
          Ok (mkRow (Some (lab_or (n_label n) (fmt_node_uid k))) (nabs N u) (UInterm k) :: rs)
    end.

  Definition row_real (s : state) (y i : ureal) : res row :=
    lb <- label_of s i ;;
    c <- u_component N s y i ;;
    Ok (mkRow lb (nabs N c) (uid_of i)).

  (* influences=[...] *)
  Fixpoint rows_infl_real (s : state) (y : ureal) (l : list infl) : res (list row) :=
    match l with
    | [] => Ok []
    | IReal i :: l' =>
        r <- row_real s y i ;; rs <- rows_infl_real s y l' ;; Ok (r :: rs)
    | IComplex re im _ :: l' =>
        r1 <- row_real s y re ;; r2 <- row_real s y im ;;
        rs <- rows_infl_real s y l' ;; Ok (r1 :: r2 :: rs)
    | IOther :: _ => Err RuntimeError
    end.

  Definition node_key (o : ureal) : option key :=
    match unode o with NodeRef k => Some k | _ => None end.

  Definition gather_real (s : state) (y : ureal) (o : opts) : res (list row) :=
    match o_infl o, o_interm o with
    | None, false => a <- rows_leaves s (uc y) ;; b <- rows_leaves s (dc y) ;; Ok (a ++ b)
    | _, true => rows_nodes s (node_key y) (ic y)
    | Some l, false => rows_infl_real s y l
    end.

  (* ---------- complex result ---------- *)
  (* how the pairing loop looks at the keys of the vectors it walks (Leaf or Node objects) *)
  Record acc := mkAcc {
    a_cplx : key -> res (option (key * key));     (* hasattr(n,'complex') / n.complex *)
    a_label : key -> res (option Z);
    a_uid : key -> ruid }.

  Definition acc_leaf (s : state) : acc :=
    mkAcc (fun k => l <- leaf_of N s k ;; Ok (l_cplx l))
          (fun k => l <- leaf_of N s k ;; Ok (l_label l))
          UElem.

  Definition acc_node (s : state) (ncx : ncxt) : acc :=
    mkAcc (fun k => Ok (assoc ncx k))
          (fun k => n <- node_of N s k ;; Ok (n_label n))
          UInterm.

  Definition pair_uid (A : acc) (c : key * key) : ruid := UPair (a_uid A (fst c)) (a_uid A (snd c)).

  (* the `while True:` loop over it_re / it_im.  [skip k0 j0]: the `continue` of the
     intermediate branch.  Running out of items (StopIteration) ends the loop silently. *)
  Fixpoint ploop (A : acc) (skip : key -> key -> bool) (re im : vec) {struct re}
    : res (list row) :=
    match re with
    | [] => Ok []
    | (k0, ur0) :: re1 =>
      match im with
      | [] => Ok []
      | (j0, ui0) :: im1 =>
        c <- a_cplx A k0 ;;
        match c with
        | Some cid =>
            match re1 with
            | [] => Ok []
            | (k1, ur1) :: re2 =>
              match im1 with
              | [] => Ok []
              | (j1, ui1) :: im2 =>
                  if skip k0 j0 then ploop A skip re2 im2
                  else
                    u <- u_bar4 ur0 ur1 ui0 ui1 ;;
                    lb <- a_label A k0 ;;
                    let label := match lb with
                                 | None => sconcat ["uid("%string; uid_str k0; ","%string; uid_str j0; ")"%string]
                                 | Some z => strip3 (lab_of_Z z)
                                 end in
                    rs <- ploop A skip re2 im2 ;;
                    Ok (mkRow (Some label) u (pair_uid A cid) :: rs)
              end
            end
        | None =>
            u <- u_bar4 ur0 zero ui0 zero ;;
            lb <- a_label A k0 ;;
            let label := match lb with
                         | None => sconcat ["uid("%string; uid_str k0; ")"%string]
                         | Some z => lab_of_Z z
                         end in
            rs <- ploop A skip re1 im1 ;;
            Ok (mkRow (Some label) u (a_uid A k0) :: rs)
        end
      end
    end.

  (* the key-aligned vectors: merge_vectors(u, d) keeps the independent AND the dependent
     components of a part (their key sets are disjoint), extend_vector adds the keys of the other
     part with zeros *)
  Definition ext_re (yre yim : ureal) : vec :=
    extend (extend (merge (uc yre) (dc yre)) (uc yim)) (dc yim).
  Definition ext_im (yre yim : ureal) : vec :=
    extend (extend (merge (uc yim) (dc yim)) (uc yre)) (dc yre).

  Definition is_elem (o : ureal) : bool := is_elementary N o.
  Definition is_interm (o : ureal) : bool := is_intermediate N o.

  (* UncertainComplex.u_component(x) *)
  Definition ucomp_c (s : state) (yre yim : ureal) (i : infl) : res (V * V * V * V) :=
    match i with
    | IComplex xr xi _ =>
        if (is_elem xr && is_elem xi) || (is_interm xr && is_interm xi) then
          a <- u_component N s yre xr ;; b <- u_component N s yre xi ;;
          c <- u_component N s yim xr ;; d <- u_component N s yim xi ;;
          Ok (a, b, c, d)
        else if is_constant N xr && is_constant N xi then Ok (zero, zero, zero, zero)
        else Err RuntimeError
    | IReal x =>
        if is_elem x || is_interm x then
          a <- u_component N s yre x ;; c <- u_component N s yim x ;; Ok (a, zero, c, zero)
        else if is_constant N x then Ok (zero, zero, zero, zero)
        else Err TypeError
    | IOther => Err AttributeError
    end.

  Definition infl_uid (i : infl) : ruid :=
    match i with IReal x => uid_of x | IComplex xr xi _ => uid_c xr xi | IOther => UNone end.

  Definition infl_label (s : state) (i : infl) : res (option string) :=
    match i with
    | IReal x => label_of s x
    | IComplex _ _ lb => Ok (option_map lab_of_Z lb)
    | IOther => Err AttributeError
    end.

  Fixpoint rows_infl_c (s : state) (yre yim : ureal) (l : list infl) : res (list row) :=
    match l with
    | [] => Ok []
    | i :: l' =>
        lb <- infl_label s i ;;
        '(a, b, c, d) <- ucomp_c s yre yim i ;;
        u <- u_bar4 a b c d ;;
        rs <- rows_infl_c s yre yim l' ;;
        Ok (mkRow lb u (infl_uid i) :: rs)
    end.

  Definition is_other (i : infl) : bool := match i with IOther => true | _ => false end.

  Definition gather_complex (s : state) (ncx : ncxt) (yre yim : ureal) (o : opts)
    : res (list row) :=
    match o_infl o, o_interm o with
    | None, false =>
        ploop (acc_leaf s) (fun _ _ => false) (ext_re yre yim) (ext_im yre yim)
    | _, true =>
        let skip := match node_key yre, node_key yim with
                    | Some nr, Some ni => fun k0 j0 => keqb k0 nr || keqb j0 ni
                    | _, _ => fun _ _ => false
                    end in
        ploop (acc_node s ncx) skip (extend (ic yre) (ic yim)) (extend (ic yim) (ic yre))
    | Some l, false =>
        (* [i.uid for i in influences] is evaluated first *)
        if existsb is_other l then Err AttributeError else rows_infl_c s yre yim l
    end.

  Definition gather (s : state) (ncx : ncxt) (y : yval) (o : opts) : res (list row) :=
    if o_interm o && (match o_infl o with Some _ => true | None => false end) then Err RuntimeError
    else
      match y with
      | YReal yr => gather_real s yr o
      | YComplex yre yim => gather_complex s ncx yre yim o
      | YOther => Ok []
      end.

  (* ---------- trim, sort, max_number ---------- *)
  (* Python's max() *)
  Definition pymax (x : V) (l : list V) : V :=
    fold_left (fun m v => if ltb N m v then v else m) l x.

  Definition trim_rows (trim : V) (rows : list row) : list row :=
    match rows with
    | [] => []
    | r :: rs =>
        let cut := mul N (pymax (r_u r) (map r_u rs)) trim in
        filter (fun r => leb N cut (r_u r)) rows
    end.

  (* list.sort(key=..., reverse=...) is stable in both directions: [bef a b] = a must come
     before b; an element is inserted after everything that must come before it and before
     its ties to the right *)
  Fixpoint insert (bef : row -> row -> bool) (x : row) (l : list row) : list row :=
    match l with
    | [] => [x]
    | y :: l' => if bef y x then y :: insert bef x l' else x :: l
    end.
  Definition isort (bef : row -> row -> bool) (l : list row) : list row :=
    fold_right (insert bef) [] l.

  Definition before_u (rev : bool) (a b : row) : bool :=
    if rev then ltb N (r_u b) (r_u a) else ltb N (r_u a) (r_u b).

  Definition lab_ltb (a b : option string) : bool :=
    match a, b with Some x, Some y => str_ltb x y | _, _ => false end.
  Definition before_l (rev : bool) (a b : row) : bool :=
    if rev then lab_ltb (r_label b) (r_label a) else lab_ltb (r_label a) (r_label b).

  Definition no_label (r : row) : bool := match r_label r with None => true | Some _ => false end.

  Definition sort_rows (k : option skey) (rev : bool) (rows : list row) : res (list row) :=
    match k with
    | None => Ok rows
    | Some KU => Ok (isort (before_u rev) rows)
    | Some KLabel =>
        (* None < 'x' raises TypeError as soon as two elements are compared *)
        if Nat.leb 2 (List.length rows) && existsb no_label rows then Err TypeError
        else Ok (isort (before_l rev) rows)
    end.

  (* if max_number is not None and len(b) > max_number: b = b[:max_number] *)
  Definition cut_rows (m : option Z) (rows : list row) : list row :=
    match m with
    | None => rows
    | Some m =>
        let n := Z.of_nat (List.length rows) in
        if (m <? n)%Z then
          firstn (Z.to_nat (if (0 <=? m)%Z then m else (n + m)%Z)) rows
        else rows
    end.

  (* ---------- reporting.budget / reporting.components ---------- *)
  Definition budget (s : state) (ncx : ncxt) (y : yval) (o : opts) : res (list row) :=
    rows <- gather s ncx y o ;;
    srt <- sort_rows (o_key o) (o_rev o) (trim_rows (o_trim o) rows) ;;
    Ok (cut_rows (o_max o) srt).

  Definition unlabel (r : row) : row := mkRow None (r_u r) (r_uid r).

  Definition components (s : state) (ncx : ncxt) (y : yval) (o : opts) : res (list row) :=
    rows <- gather s ncx y o ;;
    Ok (cut_rows (o_max o) (isort (before_u true) (trim_rows (o_trim o) (map unlabel rows)))).

  (* ---------- reporting.u_component(y, x) for every kind of y and x ---------- *)
  (* UncertainReal.u_component(x) for an uncertain complex x = (xr, xi): one lookup per part, in
     the independent or the dependent vector according to the part's leaf *)
  Definition ucomp_part (s : state) (y xr xi x_i : ureal) : res V :=
    match unode x_i with
    | LeafRef k => l <- leaf_of N s k ;; Ok (if l_indep l then vget N (uc y) k else vget N (dc y) k)
    | NodeRef k => Ok (vget N (ic y) k)
    | _ => if is_constant N xr && is_constant N xi then Ok zero else Err TypeError
    end.

  Definition ucomp_rc (s : state) (y xr xi : ureal) : res (V * V * V * V) :=
    a <- ucomp_part s y xr xi xr ;; b <- ucomp_part s y xr xi xi ;; Ok (a, b, zero, zero).

  (* a float for real y and real x, else the 4-sequence ComponentOfUncertainty *)
  Definition u_component_any (s : state) (y : yval) (i : infl) : res (list V) :=
    match y, i with
    | YReal yr, IReal x => c <- u_component N s yr x ;; Ok [c]
    | YReal yr, IComplex xr xi _ => '(a, b, c, d) <- ucomp_rc s yr xr xi ;; Ok [a; b; c; d]
    | YComplex yre yim, IReal _ => '(a, b, c, d) <- ucomp_c s yre yim i ;; Ok [a; b; c; d]
    | YComplex yre yim, IComplex _ _ _ => '(a, b, c, d) <- ucomp_c s yre yim i ;; Ok [a; b; c; d]
    | _, _ => Err OtherExn
    end.

  (* ---------- what a declared (elementary / constant) number looks like ---------- *)
  (* UncertainReal._elementary (Kernel.elementary): the leaf itself, with its standard
     uncertainty -- EVEN WHEN THAT IS 0, as for one component of ucomplex(z,(u,0)) -- is the only
     entry of the independent (resp. dependent) vector; a constant has empty vectors.  The
     pairing loop of the complex reports relies on it: both leaves of a complex input are in
     the vectors of everything computed from it. *)
  Definition decl_ok (s : state) (o : ureal) : bool :=
    match unode o with
    | LeafRef k =>
        match leaf_of N s k with
        | Ok l => vec_eqb N (uc o) (if l_indep l then [(k, l_u l)] else [])
                  && vec_eqb N (dc o) (if l_indep l then [] else [(k, l_u l)])
                  && vec_eqb N (ic o) []
        | Err _ => false
        end
    | ConstLeaf _ => vec_eqb N (uc o) [] && vec_eqb N (dc o) [] && vec_eqb N (ic o) []
    | _ => true
    end.

  (* ---------- comparing with what the implementation returned ---------- *)
  Definition olab_eqb (a b : option string) : bool :=
    match a, b with
    | None, None => true
    | Some x, Some y => String.eqb x y
    | _, _ => false
    end.

  Definition row_eqb (a b : row) : bool :=
    olab_eqb (r_label a) (r_label b) && same N (r_u a) (r_u b) && ruid_eqb (r_uid a) (r_uid b).

  Fixpoint rows_mismatch (i : Z) (a b : list row) : Z :=
    match a, b with
    | [], [] => (-1)%Z
    | x :: a', y :: b' => if row_eqb x y then rows_mismatch (i + 1) a' b' else i
    | _, _ => (i + 1000)%Z
    end.

  (* -1: agreement; >= 0: index of the first differing row (+1000: different lengths);
     -2: one side raised and the other did not; -3: different exceptions *)
  Definition compare_res (got expected : res (list row)) : Z :=
    match got, expected with
    | Ok a, Ok b => rows_mismatch 0 a b
    | Err e, Err e' => if exn_eqb e e' then (-1)%Z else (-3)%Z
    | _, _ => (-2)%Z
    end.
End Budget.

Arguments mkRow {N}. Arguments r_label {N}. Arguments r_u {N}. Arguments r_uid {N}.
Arguments YReal {N}. Arguments YComplex {N}. Arguments YOther {N}.
Arguments IReal {N}. Arguments IComplex {N}. Arguments IOther {N}.
Arguments mkOpts {N}. Arguments o_infl {N}. Arguments o_trim {N}. Arguments o_max {N}.
Arguments o_interm {N}. Arguments o_key {N}. Arguments o_rev {N}.

(* props/C17.v -- Property C17: uncertainty budgets are complete and agree with the components
   of uncertainty.  Statements only, closed by lemmas of BudgetFacts.v, about the executable
   model Budget.v of reporting.budget / reporting.components (tied to /repo on every run by the
   bit-exact correspondence of harness/p_C17.py).  RNum = exact real arithmetic. *)
From Coq Require Import ZArith List Bool String Reals Lra Permutation Sorting.Sorted.
From GTCV Require Import Num RNum Vector VectorFacts Opres KTypes Kernel LPU Budget BudgetFacts BudgetPairing.
Import ListNotations.
Local Open Scope R_scope.

(* (1) real y, complete budget (trim=0, no max_number, any key/reverse): a permutation of one
   row per key of uc U dc; each row carries the leaf's uid and |u_component(y, leaf)| (for ANY
   uncertain-number object standing for that leaf); no uid twice; nothing else *)
Theorem C17_real :
  forall (s : KTypes.state R) (y : KTypes.ureal R) k rv out,
    wf_real s y ->
    budget RNum s [] (@YReal RNum y) (default_opts 0 None k rv) = Ok out ->
    exists rows, Permutation out rows /\ Forall2 (row_is s y) rows (infl_keys y) /\
                 NoDup (map r_uid out) /\ List.length out = List.length (infl_keys y).
Proof. exact real_budget_complete. Qed.
Print Assumptions C17_real.

Theorem C17_real_components :
  forall (s : KTypes.state R) (y : KTypes.ureal R) k rv out,
    wf_real s y ->
    components RNum s [] (@YReal RNum y) (default_opts 0 None k rv) = Ok out ->
    exists rows, Permutation out rows /\ Forall2 (row_is s y) rows (infl_keys y) /\ StronglySorted desc out.
Proof. exact real_components_complete. Qed.
Print Assumptions C17_real_components.

(* (2) root-sum-square of the complete real budget = u(y) when the influences are uncorrelated
   (all independent: dc y = [], or declared independent=False but never correlated); uses the
   LPU theorem of C04 for std_variance_real *)
Theorem C17_real_rss :
  forall (s : KTypes.state R) (y : KTypes.ureal R) k rv out,
    wf_real s y -> uncorrelated s (dc y) -> unode y = NoNode ->
    budget RNum s [] (@YReal RNum y) (default_opts 0 None k rv) = Ok out ->
    prop_u RNum s y None = Ok (sqrt (sumsq out), Some (sqrt (sumsq out))).
Proof. exact real_budget_rss. Qed.
Print Assumptions C17_real_rss.

(* (3) trim, key, reverse, max_number only filter, order and truncate -- for EVERY number
   instance (binary64 included), every y (real, complex, other), every mode *)
Theorem C17_options_filter_and_order :
  forall (N : Num) s ncx y (o : opts N) out,
    budget N s ncx y o = Ok out ->
    exists rows p n srt,
      gather N s ncx y o = Ok rows /\ Permutation srt (filter p rows) /\ out = firstn n srt.
Proof. exact budget_filters_and_orders. Qed.
Print Assumptions C17_options_filter_and_order.

Theorem C17_options_filter_and_order_components :
  forall (N : Num) s ncx y (o : opts N) out,
    components N s ncx y o = Ok out ->
    exists rows p n srt,
      gather N s ncx y o = Ok rows /\ Permutation srt (filter p (map (unlabel N) rows)) /\ out = firstn n srt.
Proof. exact components_filters_and_orders. Qed.
Print Assumptions C17_options_filter_and_order_components.

Theorem C17_rows_do_not_depend_on_options :
  forall (N : Num) s ncx y (o o' : opts N),
    o_infl o = o_infl o' -> o_interm o = o_interm o' ->
    gather N s ncx y o = gather N s ncx y o'.
Proof. exact gather_options_irrelevant. Qed.
Print Assumptions C17_rows_do_not_depend_on_options.

(* what trim keeps: exactly the rows with u >= trim * (largest u) *)
Theorem C17_trim :
  forall t (rows : list (row RNum)) r,
    In r (trim_rows RNum t rows) <->
    In r rows /\ exists m, In m (map r_u rows) /\ (forall v, In v (map r_u rows) -> v <= m) /\ m * t <= r_u r.
Proof. exact trim_rows_spec. Qed.
Print Assumptions C17_trim.

(* max_number = m >= 0 keeps the first m rows of the ordered list *)
Theorem C17_max_number :
  forall (N : Num) m (l : list (row N)), (0 <= m)%Z -> cut_rows N (Some m) l = firstn (Z.to_nat m) l.
Proof. exact cut_rows_nonneg. Qed.
Print Assumptions C17_max_number.

(* default order (key='u', reverse=True) and components(): descending in u; reverse=False: ascending *)
Theorem C17_sorted_descending :
  forall s ncx y (o : opts RNum) out,
    o_key o = Some KU -> o_rev o = true -> budget RNum s ncx y o = Ok out -> StronglySorted desc out.
Proof. exact budget_default_sorted. Qed.
Print Assumptions C17_sorted_descending.

Theorem C17_sorted_ascending :
  forall s ncx y (o : opts RNum) out,
    o_key o = Some KU -> o_rev o = false -> budget RNum s ncx y o = Ok out -> StronglySorted asc out.
Proof. exact budget_ascending_sorted. Qed.
Print Assumptions C17_sorted_ascending.

Theorem C17_components_sorted :
  forall s ncx y (o : opts RNum) out, components RNum s ncx y o = Ok out -> StronglySorted desc out.
Proof. exact components_sorted. Qed.
Print Assumptions C17_components_sorted.

(* (4) influences=[...] (real y): exactly the requested ones, in the requested order, each with
   |u_component(y, influence)|; a complex influence stands for its two components (see
   C17_real_complex_influence_refuted) *)
Theorem C17_real_influences :
  forall (s : KTypes.state R) ncx (y : KTypes.ureal R) l rv out,
    budget RNum s ncx (@YReal RNum y) (@mkOpts RNum (Some l) 0 None false None rv) = Ok out ->
    exists xs, expand l = Some xs /\ Forall2 (row_for s y) out xs.
Proof. exact real_budget_influences. Qed.
Print Assumptions C17_real_influences.

(* (5) intermediate=True (real y): the declared intermediates in y's intermediate vector, y
   itself left out, each with |u_component(y, intermediate)| *)
Theorem C17_real_intermediate :
  forall (s : KTypes.state R) ncx (y : KTypes.ureal R) rv,
    Vector.sorted (N:=RNum) (ic y) -> nodes_exist s (ic y) ->
    exists out, budget RNum s ncx (@YReal RNum y) (@mkOpts RNum None 0 None true None rv) = Ok out /\
                Forall2 (nrow_is s y) out (filter (not_self (node_key RNum y)) (Vector.keys (N:=RNum) (ic y))).
Proof. exact real_budget_intermediate. Qed.
Print Assumptions C17_real_intermediate.

(* (6) complex y, default mode, under the pairing invariant (both components of every complex
   influence present, the imaginary one right after the real one in the merged key list): one
   row per real influence and ONE row per complex influence, u = u_bar of the block of
   components of uncertainty [cval] -- independent and dependent influences alike (the
   restriction to independent influences fell with the repair of C17-dependent-zero) *)
Theorem C17_complex :
  forall (s : KTypes.state R) ncx (yre yim : KTypes.ureal R) t m k rv,
    wf_real s yre -> wf_real s yim ->
    paired s (Vector.keys (N:=RNum) (ext_re RNum yre yim)) ->
    exists rows, gather RNum s ncx (@YComplex RNum yre yim) (default_opts t m k rv) = Ok rows /\
                 crows s yre yim (Vector.keys (N:=RNum) (ext_re RNum yre yim)) rows.
Proof. exact complex_budget_paired. Qed.
Print Assumptions C17_complex.

(* the positional invariant follows from the hypothesis of the property text (both components of
   every complex influence present) and the session invariant of UncertainComplex._elementary
   (consecutive uids, both leaves carry the same `complex` id) *)
Theorem C17_complex_invariant :
  forall (s : KTypes.state R) (K : list key),
    cplx_inv s -> key_sorted K -> all_leaves s K -> both_present s K -> paired s K.
Proof. exact paired_of_present. Qed.
Print Assumptions C17_complex_invariant.

Theorem C17_complex_both_present :
  forall (s : KTypes.state R) ncx (yre yim : KTypes.ureal R) t m k rv,
    wf_real s yre -> wf_real s yim -> cplx_inv s ->
    both_present s (Vector.keys (N:=RNum) (ext_re RNum yre yim)) ->
    exists rows, gather RNum s ncx (@YComplex RNum yre yim) (default_opts t m k rv) = Ok rows /\
                 crows s yre yim (Vector.keys (N:=RNum) (ext_re RNum yre yim)) rows.
Proof. exact complex_budget_present. Qed.
Print Assumptions C17_complex_both_present.

(* ... and that block is exactly UncertainComplex.u_component(y, influence), for every leaf of a
   well-formed y: each row is u_bar(u_component(y, influence)) *)
Theorem C17_cval_is_u_component :
  forall (s : KTypes.state R) (y x : KTypes.ureal R) k l,
    wf_real s y -> unode x = LeafRef k -> leaf_of RNum s k = Ok l ->
    u_component RNum s y x = Ok (cval y k).
Proof. exact cval_is_u_component. Qed.
Print Assumptions C17_cval_is_u_component.

Theorem C17_complex_row_is_ubar_of_u_component_real :
  forall (s : KTypes.state R) (yre yim x : KTypes.ureal R) k l,
    wf_real s yre -> wf_real s yim ->
    unode x = LeafRef k -> leaf_of RNum s k = Ok l ->
    ucomp_c RNum s yre yim (@IReal RNum x) = Ok (cval yre k, 0, cval yim k, 0).
Proof. exact ucomp_c_real. Qed.
Print Assumptions C17_complex_row_is_ubar_of_u_component_real.

Theorem C17_complex_row_is_ubar_of_u_component_complex :
  forall (s : KTypes.state R) (yre yim xr xi : KTypes.ureal R) lb a b la lb',
    wf_real s yre -> wf_real s yim ->
    unode xr = LeafRef a -> unode xi = LeafRef b ->
    leaf_of RNum s a = Ok la -> leaf_of RNum s b = Ok lb' ->
    ucomp_c RNum s yre yim (@IComplex RNum xr xi lb) =
    Ok (cval yre a, cval yre b, cval yim a, cval yim b).
Proof. exact ucomp_c_complex. Qed.
Print Assumptions C17_complex_row_is_ubar_of_u_component_complex.

(* ---------- the full statement is false of the faithful model: two known findings ---------- *)
(* #13 partial use of a complex input: z.real is paired with the next influence x, x is dropped *)
Theorem C17_complex_partial_use_refuted :
  exists out,
    wf_real st_zx yre_p /\ wf_real st_zx yim_p /\
    comp_is st_zx yre_p k3 1 /\
    budget RNum st_zx [] (@YComplex RNum yre_p yim_p) cplx_opts = Ok out /\
    map r_uid out = [UPair (UElem k1) (UElem k2)] /\ ~ In (UElem k3) (map r_uid out).
Proof. exact complex_partial_use_refuted. Qed.
Print Assumptions C17_complex_partial_use_refuted.

(* #14 real y with a complex influence: two rows (one per component), not one u_bar row *)
Theorem C17_real_complex_influence_refuted :
  exists out l1 l2 c,
    wf_real st_zx y_two /\
    budget RNum st_zx [] (@YReal RNum y_two) (default_opts 0 None None true) = Ok out /\
    map r_uid out = [UElem k1; UElem k2] /\
    leaf_of RNum st_zx k1 = Ok l1 /\ leaf_of RNum st_zx k2 = Ok l2 /\
    l_cplx l1 = Some c /\ l_cplx l2 = Some c.
Proof. exact real_complex_influence_two_rows. Qed.
Print Assumptions C17_real_complex_influence_refuted.

(* ---------- repaired defects: the statements their _refuted lemmas were blocking ---------- *)
(* former #15 (fix: ir_0.uid): components() returns budget's rows (labels dropped, trimmed, sorted,
   truncated) for EVERY number instance, y and mode, and raises exactly when those rows cannot
   be built; the former witness (complex y with a real intermediate) now yields its row *)
Theorem C17_components_rows_are_budget_rows :
  forall (N : Num) s ncx y (o : opts N) rows,
    gather N s ncx y o = Ok rows ->
    components N s ncx y o =
    Ok (cut_rows N (o_max o) (isort N (before_u N true) (trim_rows N (o_trim o) (map (unlabel N) rows)))).
Proof. exact components_rows_are_budget_rows. Qed.
Print Assumptions C17_components_rows_are_budget_rows.

Theorem C17_components_raises_iff_rows_raise :
  forall (N : Num) s ncx y (o : opts N) e,
    components N s ncx y o = Err e <-> gather N s ncx y o = Err e.
Proof. exact components_raises_iff_budget_rows_raise. Qed.
Print Assumptions C17_components_raises_iff_rows_raise.

Theorem C17_components_intermediate_real_node :
  exists out, components RNum st_n [] (@YComplex RNum yre_n yim_n) interm_opts = Ok out /\
              map r_uid out = [UInterm n1] /\ map r_u out = [ubar_R 2 0 4 0].
Proof. exact components_intermediate_real_node. Qed.
Print Assumptions C17_components_intermediate_real_node.

(* former C17-dependent-zero (fix: merge_vectors(u, d) before extending): C17_complex above now
   covers dependent influences; the former witness y = (1+1j)*x, x dependent, reports u_bar = 1 *)
Theorem C17_complex_dependent_reported :
  exists r,
    wf_real st_d yre_d /\ wf_real st_d yim_d /\
    comp_is st_d yre_d k3 1 /\ comp_is st_d yim_d k3 1 /\
    budget RNum st_d [] (@YComplex RNum yre_d yim_d) cplx_opts = Ok [r] /\
    r_uid r = UElem k3 /\ r_u r = ubar_R 1 0 1 0 /\ r_u r = 1.
Proof. exact complex_dependent_reported. Qed.
Print Assumptions C17_complex_dependent_reported.

(* consistency of the rows with reporting.u_component(y, z) for the complex influence AS THE USER
   HOLDS IT (model: Budget.u_component_any, compared with the implementation on every session):
   a real y lists z as two rows (known finding C17-real-two-rows); those rows are
   |u_component(y, z)[0]|, |u_component(y, z)[1]| with the uids of z.real, z.imag, and the other
   two entries of u_component(y, z) are 0 -- for independent and dependent z alike *)
Theorem C17_real_rows_match_u_component_of_complex :
  forall (s : KTypes.state R) ncx (y xr xi : KTypes.ureal R) lb rv out,
    (is_elementary RNum xr || is_intermediate RNum xr = true) ->
    (is_elementary RNum xi || is_intermediate RNum xi = true) ->
    budget RNum s ncx (@YReal RNum y) (@mkOpts RNum (Some [@IComplex RNum xr xi lb]) 0 None false None rv) = Ok out ->
    exists a b, u_component_any RNum s (@YReal RNum y) (@IComplex RNum xr xi lb) = Ok [a; b; 0; 0] /\
                map r_u out = [Rabs a; Rabs b] /\ map r_uid out = [uid_of RNum xr; uid_of RNum xi].
Proof. exact real_rows_match_u_component_of_complex. Qed.
Print Assumptions C17_real_rows_match_u_component_of_complex.

Theorem C17_u_component_of_complex_is_by_parts :
  forall (N : Num) s (y xr xi : KTypes.ureal (T N)),
    (is_elementary N xr || is_intermediate N xr = true) ->
    (is_elementary N xi || is_intermediate N xi = true) ->
    ucomp_rc N s y xr xi =
    (a <- u_component N s y xr ;; b <- u_component N s y xi ;; Ok (a, b, Kernel.zero N, Kernel.zero N)).
Proof. exact ucomp_rc_parts. Qed.
Print Assumptions C17_u_component_of_complex_is_by_parts.

(* what the pairing relies on at declaration time: Kernel.elementary (UncertainReal._elementary)
   seeds the vector of the new number with its own leaf and standard uncertainty, zero included
   (a component of ucomplex(z,(u,0))); the correspondence checks [decl_ok] on every declared
   number of every generated session *)
Theorem C17_declared_number_shape :
  forall (s : KTypes.state R) x u df lb indep s' (o : KTypes.ureal R),
    Kernel.assoc (s_leaves s) (s_ctx s, (s_ne s + 1)%Z) = None ->
    elementary RNum s x u df lb indep = Ok (s', o) -> decl_ok RNum s' o = true.
Proof. exact elementary_decl_ok. Qed.
Print Assumptions C17_declared_number_shape.

Example C17_declared_zero_uncertainty_nonvacuous :
  exists s' o, elementary RNum (init RNum 7) 2 0 DInf None true = Ok (s', o) /\
               uc o = [((7%Z, 1%Z), 0)] /\ decl_ok RNum s' o = true.
Proof.
  assert (E : exists s' o, elementary RNum (init RNum 7) 2 0 DInf None true = Ok (s', o) /\ uc o = [((7%Z, 1%Z), 0)]).
  { unfold elementary. cbn [ltb RNum]. unfold Rltb, Kernel.zero. cbn [of_Z RNum].
    destruct (Rlt_dec 0 0) as [H|_]; [exfalso; lra|]. do 2 eexists. split; reflexivity. }
  destruct E as (s' & o & E & Hu). exists s', o. split; [exact E|]. split; [exact Hu|].
  eapply elementary_decl_ok; [|exact E]. reflexivity.
Qed.

(* ---------- non-vacuity ---------- *)
(* the hypotheses of (1), (2) are met by y = z.real + z.imag in the session {z, x}; the budget
   call succeeds and has two rows *)
Example C17_real_nonvacuous :
  wf_real st_zx y_two /\ uncorrelated st_zx (dc y_two) /\ unode y_two = NoNode /\
  exists out, budget RNum st_zx [] (@YReal RNum y_two) (default_opts 0 None None true) = Ok out /\
              List.length out = 2%nat.
Proof.
  split; [exact wf_y_two|]. split; [intros k k' []|]. split; [reflexivity|].
  destruct (real_budget_complete_unsorted st_zx y_two true wf_y_two) as (rows & Eb & Hf).
  exists rows. split; [exact Eb|]. apply (Forall2_len _ _ _ Hf).
Qed.

(* the pairing invariant is met by y = z * x in the same session (all three keys, z.real and
   z.imag adjacent) and the complex budget has two rows: the pair and x *)
Example C17_complex_nonvacuous :
  wf_real st_zx yre_f /\ wf_real st_zx yim_f /\
  paired st_zx (Vector.keys (N:=RNum) (ext_re RNum yre_f yim_f)) /\
  exists rows, gather RNum st_zx [] (@YComplex RNum yre_f yim_f) (default_opts 0 None None true) = Ok rows /\
               map r_uid rows = [UPair (UElem k1) (UElem k2); UElem k3].
Proof. exact complex_nonvacuous. Qed.

Example C17_complex_present_nonvacuous :
  cplx_inv st_zx /\ both_present st_zx (Vector.keys (N:=RNum) (ext_re RNum yre_f yim_f)).
Proof. split; [exact cplx_inv_st_zx | exact both_present_f]. Qed.

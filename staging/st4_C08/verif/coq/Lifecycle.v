(* Lifecycle.v -- executable model of the Archive lifecycle of GTC/archive.py (+ the
   persistence.py entry points and the parts of context.py / lib.py / core.py an archive
   history touches).  Faithful, not tidy: the order of side effects inside _setitem, add,
   _freeze and _thaw is the order of the source, so that a failing operation leaves behind
   exactly what the implementation leaves behind.

   Python dicts keep insertion order; they are association lists in insertion order here
   ([dset] replaces in place or appends).  Tags are strings (the "_re"/"_im" suffix rules are
   string rules).  uids of leaves are (context id, n); uids of intermediate nodes
   (context id, n, 0) are kept in separate tables as (context id, n); a constant's Leaf has
   uid None.  Numeric content (values, component values) is not modelled here (C07): a real
   uncertain number is its node kind + the key sets of its u- and d-component vectors. *)
From Coq Require Import ZArith List Bool String Ascii.
From GTCV Require Import Num.
Import ListNotations.
Open Scope Z_scope.

(* ------------------------------------------------------------------ identifiers *)
Definition uid := (Z * Z)%type.
Definition uid_eqb (a b : uid) : bool := (fst a =? fst b) && (snd a =? snd b).
Definition uid_ltb (a b : uid) : bool := (fst a <? fst b) || ((fst a =? fst b) && (snd a <? snd b)).
Definition ouid := option uid.
Definition ouid_eqb (a b : ouid) : bool :=
  match a, b with None, None => true | Some x, Some y => uid_eqb x y | _, _ => false end.
Definition ostr_eqb (a b : option string) : bool :=
  match a, b with None, None => true | Some x, Some y => String.eqb x y | _, _ => false end.

(* ------------------------------------------------------------------ ordered dicts *)
Section Dict.
  Context {K V : Type} (keq : K -> K -> bool).
  Fixpoint dget (d : list (K * V)) (k : K) : option V :=
    match d with [] => None | (k', v) :: t => if keq k' k then Some v else dget t k end.
  Definition dmem (d : list (K * V)) (k : K) : bool :=
    match dget d k with Some _ => true | None => false end.
  Fixpoint dset (d : list (K * V)) (k : K) (v : V) : list (K * V) :=
    match d with
    | [] => [(k, v)]
    | (k', v') :: t => if keq k' k then (k', v) :: t else (k', v') :: dset t k v
    end.
End Dict.

(* sorted union of two key lists (the index of a merged Vector) *)
Fixpoint insert_uid (u : uid) (l : list uid) : list uid :=
  match l with
  | [] => [u]
  | h :: t => if uid_eqb u h then l else if uid_ltb u h then u :: l else h :: insert_uid u t
  end.
Definition union_uid (a b : list uid) : list uid := fold_left (fun acc u => insert_uid u acc) b a.

(* ------------------------------------------------------------------ nodes, numbers *)
(* l_u, l_df: codes of the float attributes (compared with == by new_leaf); l_df = -1 is inf.
   l_corr: the `correlation` dict (absent on independent leaves), values are codes of r (r*8).
   l_ens: the `ensemble` set (absent on independent leaves) as a list of uids sorted by uid. *)
Record leaf := mkLeaf {
  l_label : option string; l_u : Z; l_df : Z; l_indep : bool;
  l_complex : option (uid * uid);              (* the `complex` attribute: a tuple of two uids (every reader builds a tuple) *)
  l_corr : option (list (uid * Z));
  l_ens : option (list uid) }.

Definition isig := (option string * Z)%type.      (* Node: label, code of (u, df) *)

Inductive node :=
| NNone                 (* _node is None: an undeclared intermediate *)
| NConst                (* a Leaf with uid None: a constant *)
| NLeaf (u : uid)       (* elementary *)
| NInt (u : ouid) (sg : isig).   (* a Node with its label and (u, df): declared intermediate (uid None: a restored constant) *)

(* r_snap: Some h when the object is a deep copy (Archive.copy): its Leaf objects are private
   copies with the attributes they had when copied *)
Record robj := mkR { r_node : node; r_u : list uid; r_d : list uid;
                     r_snap : option (list (uid * leaf)) }.
Inductive pyobj := PReal (r : robj) | PComplex (re im : robj) | POther.

Definition is_elem (r : robj) : bool := match r_node r with NLeaf _ => true | _ => false end.
Definition is_interm (r : robj) : bool := match r_node r with NInt _ _ => true | _ => false end.
(* obj._node.uid : AttributeError when _node is None *)
Definition node_uid (r : robj) : res ouid :=
  match r_node r with
  | NNone => Err AttributeError | NConst => Ok None | NLeaf u => Ok (Some u) | NInt u _ => Ok u
  end.

(* ------------------------------------------------------------------ archives *)
Inductive rval :=
| RLive (r : robj)                              (* an UncertainReal *)
| RElem (u : ouid)                              (* archive.ElementaryReal *)
| RInterm (u : ouid) (us ds : list uid).        (* archive.IntermediateReal *)
Inductive cval :=
| CLive (re im : robj)                          (* an UncertainComplex *)
| CFrozen (n_re n_im : string).                 (* archive.Complex *)

Record archive := mkA {
  a_dump : bool; a_ready : bool;
  a_treal : list (string * rval);               (* _tagged_real *)
  a_tcomplex : list (string * cval);            (* _tagged_complex *)
  a_ureal : list (string * rval);               (* _untagged_real *)
  a_u2i : option (list ouid);                   (* keys of _uid_to_intermediate; None: attribute deleted *)
  a_leafn : option (list (uid * leaf));         (* _leaf_nodes *)
  a_iuids : option (list (ouid * isig)) }.      (* _intermediate_uids *)

Definition empty_archive : archive := mkA true true [] [] [] (Some []) None None.

Definition w_flags a d r := mkA d r (a_treal a) (a_tcomplex a) (a_ureal a) (a_u2i a) (a_leafn a) (a_iuids a).
Definition w_treal a x := mkA (a_dump a) (a_ready a) x (a_tcomplex a) (a_ureal a) (a_u2i a) (a_leafn a) (a_iuids a).
Definition w_tcomplex a x := mkA (a_dump a) (a_ready a) (a_treal a) x (a_ureal a) (a_u2i a) (a_leafn a) (a_iuids a).
Definition w_ureal a x := mkA (a_dump a) (a_ready a) (a_treal a) (a_tcomplex a) x (a_u2i a) (a_leafn a) (a_iuids a).
Definition w_u2i a x := mkA (a_dump a) (a_ready a) (a_treal a) (a_tcomplex a) (a_ureal a) x (a_leafn a) (a_iuids a).
Definition w_leafn a x := mkA (a_dump a) (a_ready a) (a_treal a) (a_tcomplex a) (a_ureal a) (a_u2i a) x (a_iuids a).
Definition w_iuids a x := mkA (a_dump a) (a_ready a) (a_treal a) (a_tcomplex a) (a_ureal a) (a_u2i a) (a_leafn a) x.

Definition smem {V} (d : list (string * V)) (k : string) : bool := dmem String.eqb d k.
Definition sget {V} (d : list (string * V)) (k : string) : option V := dget String.eqb d k.
Definition sset {V} (d : list (string * V)) (k : string) (v : V) := dset String.eqb d k v.

Definition tag_re (k : string) : string := String.append k "_re".
Definition tag_im (k : string) : string := String.append k "_im".

(* self._uid_to_intermediate[uid] = obj : AttributeError once _freeze has deleted the dict *)
Definition u2i_add (a : archive) (u : ouid) : res archive :=
  match a_u2i a with
  | None => Err AttributeError
  | Some l => Ok (w_u2i a (Some (if existsb (ouid_eqb u) l then l else l ++ [u])))
  end.

(* ---- Archive._setitem (archive.py 305-371) *)
Definition setitem (a : archive) (key : string) (o : pyobj) : archive * res unit :=
  if a_dump a && a_ready a then
    if smem (a_treal a) key || smem (a_tcomplex a) key then (a, Err RuntimeError)
    else match o with
    | PReal r =>
        if smem (a_ureal a) key then (a, Err RuntimeError)
        else if is_elem r then (w_treal a (sset (a_treal a) key (RLive r)), Ok tt)
        else match node_uid r with
             | Err _ => (a, Err RuntimeError)           (* not declared intermediate *)
             | Ok u => match u2i_add a u with
                       | Err e => (a, Err e)
                       | Ok a1 => (w_treal a1 (sset (a_treal a1) key (RLive r)), Ok tt)
                       end
             end
    | PComplex re im =>
        let n_re := tag_re key in
        if smem (a_treal a) n_re || smem (a_ureal a) n_re then (a, Err RuntimeError) else
        let n_im := tag_im key in
        if smem (a_treal a) n_im || smem (a_ureal a) n_im then (a, Err RuntimeError) else
        (* nothing is recorded until all the checks have passed (fix: checks before side effects) *)
        let store (a0 : archive) : archive :=
            let a1 := w_ureal a0 (sset (sset (a_ureal a0) n_re (RLive re)) n_im (RLive im)) in
            w_tcomplex a1 (sset (a_tcomplex a1) key (CLive re im)) in
        if is_elem re || is_elem im then (store a, Ok tt)
        else match node_uid re, node_uid im with
             | Ok ur, Ok ui =>
                 match u2i_add a ur with
                 | Err e => (a, Err e)
                 | Ok a2 => match u2i_add a2 ui with
                            | Err e => (a, Err e)       (* cannot happen: a2 has the dict *)
                            | Ok a3 => (store a3, Ok tt)
                            end
                 end
             | _, _ => (a, Err RuntimeError)            (* not declared intermediate *)
             end
    | POther => (a, Err RuntimeError)
    end
  else (a, Err RuntimeError).

(* ---- Archive.add with kwargs: one _setitem per keyword, in order; if one of them raises, the
   four dicts are restored to what they were before the call (all or nothing) *)
Fixpoint add_loop (a : archive) (kw : list (string * pyobj)) : archive * res unit :=
  match kw with
  | [] => (a, Ok tt)
  | (k, o) :: t => match setitem a k o with
                   | (a1, Ok _) => add_loop a1 t
                   | (a1, Err e) => (a1, Err e)
                   end
  end.
Definition add (a : archive) (kw : list (string * pyobj)) : archive * res unit :=
  match add_loop a kw with
  | (a1, Ok _) => (a1, Ok tt)
  | (_, Err e) => (a, Err e)
  end.

(* ---- Archive._getitem / extract *)
Definition getitem (a : archive) (key : string) : res pyobj :=
  if negb (a_dump a) && a_ready a then
    match sget (a_treal a) key with
    | Some (RLive r) => Ok (PReal r)
    | Some _ => Ok POther
    | None => match sget (a_tcomplex a) key with
              | Some (CLive re im) => Ok (PComplex re im)
              | Some _ => Ok POther
              | None => Err RuntimeError
              end
    end
  else Err RuntimeError.

Fixpoint getitems (a : archive) (names : list string) : res (list pyobj) :=
  match names with
  | [] => Ok []
  | n :: t => x <- getitem a n ;; xs <- getitems a t ;; Ok (x :: xs)
  end.
(* lst if len(lst) > 1 else lst[0] : IndexError without names *)
Definition extract (a : archive) (names : list string) : res (list pyobj) :=
  match names with [] => Err IndexError | _ => getitems a names end.

(* ------------------------------------------------------------------ the session (context.py) *)
Record session := mkSes { s_id : Z; s_ne : Z; s_ni : Z;
                          s_leaves : list (uid * leaf);        (* _registered_leaf_nodes *)
                          s_nodes : list (ouid * isig) }.      (* _registered_intermediate_nodes *)
Definition w_leaves s x := mkSes (s_id s) (s_ne s) (s_ni s) x (s_nodes s).
Definition w_nodes s x := mkSes (s_id s) (s_ne s) (s_ni s) (s_leaves s) x.

Definition lget (d : list (uid * leaf)) (u : uid) := dget uid_eqb d u.
Definition lset (d : list (uid * leaf)) (u : uid) (l : leaf) := dset uid_eqb d u l.

Definition leaf_same (label : option string) (u df : Z) (indep : bool) (l : leaf) : bool :=
  ostr_eqb label (l_label l) && (u =? l_u l) && (df =? l_df l) && Bool.eqb indep (l_indep l).

Definition fresh_leaf (u : uid) (label : option string) (lu df : Z) (indep : bool) : leaf :=
  mkLeaf label lu df indep None (if indep then None else Some [(u, 8)]) (if indep then None else Some []).

(* Context.new_leaf: reuse a registered indistinguishable node, raise if it differs, else create *)
Definition new_leaf (s : session) (u : uid) (label : option string) (lu df : Z) (indep : bool)
  : res (session * leaf) :=
  match lget (s_leaves s) u with
  | Some l => if leaf_same label lu df indep l then Ok (s, l) else Err RuntimeError
  | None => let l := fresh_leaf u label lu df indep in Ok (w_leaves s (lset (s_leaves s) u l), l)
  end.

Definition new_node (s : session) (u : ouid) (sg : isig) : res session :=
  match dget ouid_eqb (s_nodes s) u with
  | Some sg' => if ostr_eqb (fst sg) (fst sg') && (snd sg =? snd sg') then Ok s else Err RuntimeError
  | None => Ok (w_nodes s (dset ouid_eqb (s_nodes s) u sg))
  end.

(* the attributes of the Leaf object an uncertain number refers to *)
Definition leaf_of (s : session) (r : robj) (u : uid) : option leaf :=
  match r_snap r with Some h => lget h u | None => lget (s_leaves s) u end.

(* ------------------------------------------------------------------ _freeze (archive.py 492-645) *)
Definition unreals (a : archive) : list rval := map snd (a_treal a) ++ map snd (a_ureal a).

(* _leaf_nodes = { n_i.uid : LeafNode(n_i) for un in _iter_unreals() for n_i in chain(u keys, d keys) } *)
Fixpoint leafnodes_un (s : session) (r : robj) (us : list uid) (acc : list (uid * leaf))
  : res (list (uid * leaf)) :=
  match us with
  | [] => Ok acc
  | u :: t => match leaf_of s r u with
              | None => Err OracleMissing
              | Some l => leafnodes_un s r t (lset acc u l)
              end
  end.
Fixpoint leafnodes (s : session) (vs : list rval) (acc : list (uid * leaf)) : res (list (uid * leaf)) :=
  match vs with
  | [] => Ok acc
  | RLive r :: t => acc1 <- leafnodes_un s r (r_u r ++ r_d r) acc ;; leafnodes s t acc1
  | _ :: t => Err AttributeError
  end.

Definition node_sig (s : session) (r : robj) : res isig :=
  match r_node r with
  | NConst => Ok (None, 0)
  | NInt _ sg => Ok sg                 (* n_i.label, n_i.u, n_i.df of the Node the number holds *)
  | _ => Err AttributeError
  end.

(* _intermediate_node_to_uid then _intermediate_uids: keyed by uid, first position, last value *)
Fixpoint interm_uids (s : session) (vs : list rval) (acc : list (ouid * isig)) : res (list (ouid * isig)) :=
  match vs with
  | [] => Ok acc
  | RLive r :: t =>
      if is_elem r then interm_uids s t acc
      else u <- node_uid r ;; sg <- node_sig s r ;; interm_uids s t (dset ouid_eqb acc u sg)
  | _ :: t => Err AttributeError
  end.

Definition conv_real (r : robj) : res rval :=
  u <- node_uid r ;;
  Ok (if is_elem r then RElem u else RInterm u (r_u r) (r_d r)).

Fixpoint convert_reals (a : archive) (items : list (string * rval)) : archive * res unit :=
  match items with
  | [] => (a, Ok tt)
  | (n, RLive r) :: t => match conv_real r with
                         | Ok v => convert_reals (w_treal a (sset (a_treal a) n v)) t
                         | Err e => (a, Err e)
                         end
  | _ :: t => (a, Err AttributeError)
  end.

Definition conv_part (elem : bool) (r : robj) : res rval :=
  u <- node_uid r ;; Ok (if elem then RElem u else RInterm u (r_u r) (r_d r)).

Fixpoint convert_complexes (a : archive) (items : list (string * cval)) : archive * res unit :=
  match items with
  | [] => (a, Ok tt)
  | (n, CLive re im) :: t =>
      let el := is_elem re || is_elem im in
      match conv_part el re with
      | Err e => (a, Err e)
      | Ok vre =>
          match conv_part el im with
          | Err e => (a, Err e)
          | Ok vim =>
              let a1 := w_ureal a (sset (sset (a_ureal a) (tag_re n) vre) (tag_im n) vim) in
              convert_complexes (w_tcomplex a1 (sset (a_tcomplex a1) n (CFrozen (tag_re n) (tag_im n)))) t
          end
      end
  | _ :: t => (a, Err AttributeError)
  end.

Definition alen (a : archive) : nat := (List.length (a_treal a) + List.length (a_tcomplex a))%nat.

Definition freeze (s : session) (a : archive) : archive * res unit :=
  if Nat.eqb (alen a) 0 then (a, Err RuntimeError)
  else if a_dump a then
    if negb (a_ready a) then (a, Ok tt)
    else match a_u2i a with
    | None => (a, Err AttributeError)                       (* del self._uid_to_intermediate *)
    | Some _ =>
        let a1 := w_u2i a None in
        match leafnodes s (unreals a1) [] with
        | Err e => (a1, Err e)
        | Ok ln =>
            let a2 := w_leafn a1 (Some ln) in
            match interm_uids s (unreals a2) [] with
            | Err e => (a2, Err e)
            | Ok iu =>
                let a3 := w_iuids a2 (Some iu) in
                match convert_reals a3 (a_treal a3) with
                | (a4, Err e) => (a4, Err e)
                | (a4, Ok _) =>
                    match convert_complexes a4 (a_tcomplex a4) with
                    | (a5, Err e) => (a5, Err e)
                    | (a5, Ok _) => (w_flags a5 true false, Ok tt)
                    end
                end
            end
        end
    end
  else (a, Err RuntimeError).

(* ------------------------------------------------------------------ _thaw (archive.py 648-752) *)
(* phase 1: one new_leaf per archived leaf; `complex` is assigned onto the leaf that new_leaf
   returned (possibly a live one).  Correlations: when the uid was registered already (a live
   node of this session) the archived entries are MERGED into the dict the node has
   (l.correlation.setdefault: the session's entries win, archived entries it lacks are
   appended); a node that was just created gets the archived dict assigned, as before *)
Fixpoint corr_merge (c arch : list (uid * Z)) : list (uid * Z) :=
  match arch with
  | [] => c
  | (k, v) :: t => corr_merge (if dmem uid_eqb c k then c else c ++ [(k, v)]) t
  end.
Definition thaw_corr (live archived : option (list (uid * Z))) : option (list (uid * Z)) :=
  match archived with
  | None => live
  | Some c' => match live with Some c => Some (corr_merge c c') | None => Some c' end
  end.
Fixpoint thaw_leaves (s : session) (ln : list (uid * leaf)) : session * res unit :=
  match ln with
  | [] => (s, Ok tt)
  | (u, fl) :: t =>
      match new_leaf s u (l_label fl) (l_u fl) (l_df fl) (l_indep fl) with
      | Err e => (s, Err e)
      | Ok (s1, l) =>
          let l1 := mkLeaf (l_label l) (l_u l) (l_df l) (l_indep l)
                           (match l_complex fl with Some c => Some c | None => l_complex l end)
                           (if dmem uid_eqb (s_leaves s) u then thaw_corr (l_corr l) (l_corr fl)
                            else match l_corr fl with Some c => Some c | None => l_corr l end)
                           (* l.ensemble = set(fl_i.ensemble): assigned, also onto a live node *)
                           (match l_ens fl with Some e => Some e | None => l_ens l end) in
          thaw_leaves (w_leaves s1 (lset (s_leaves s1) u l1)) t
      end
  end.

Fixpoint thaw_nodes (s : session) (iu : list (ouid * isig)) : session * res unit :=
  match iu with
  | [] => (s, Ok tt)
  | (u, sg) :: t => match new_node s u sg with
                    | Err e => (s, Err e)
                    | Ok s1 => thaw_nodes s1 t
                    end
  end.

Fixpoint all_registered (s : session) (us : list uid) : bool :=
  match us with [] => true | u :: t => dmem uid_eqb (s_leaves s) u && all_registered s t end.

(* archive._builder *)
Definition builder (s : session) (iu : list (ouid * isig)) (v : rval) : res robj :=
  match v with
  | RElem None => Err KeyError
  | RElem (Some u) => match lget (s_leaves s) u with
                      | None => Err KeyError
                      | Some l => Ok (if l_indep l then mkR (NLeaf u) [u] [] None else mkR (NLeaf u) [] [u] None)
                      end
  | RInterm u us ds =>
      match dget ouid_eqb iu u with
      | None => Err KeyError
      | Some sg => if all_registered s us && all_registered s ds then Ok (mkR (NInt u sg) us ds None)
                   else Err KeyError
      end
  | RLive _ => Err AssertionError
  end.

Fixpoint thaw_reals (s : session) (iu : list (ouid * isig)) (a : archive) (items : list (string * rval))
  : archive * res unit :=
  match items with
  | [] => (a, Ok tt)
  | (n, v) :: t =>
      match v with
      | RLive _ => (a, Err AssertionError)
      | _ => match sget (a_treal a) n with
             | None => (a, Err KeyError)
             | Some v' =>
                 match builder s iu v' with
                 | Err e => (a, Err e)
                 | Ok r =>
                     let a1 := w_treal a (sset (a_treal a) n (RLive r)) in
                     match v with
                     | RInterm _ _ _ => match node_uid r with
                                        | Ok u => match u2i_add a1 u with
                                                  | Ok a2 => thaw_reals s iu a2 t
                                                  | Err e => (a1, Err e)
                                                  end
                                        | Err e => (a1, Err e)
                                        end
                     | _ => thaw_reals s iu a1 t
                     end
                 end
             end
      end
  end.

Definition set_complex (s : session) (u : uid) (c : uid * uid) : session :=
  match lget (s_leaves s) u with
  | None => s
  | Some l => w_leaves s (lset (s_leaves s) u (mkLeaf (l_label l) (l_u l) (l_df l) (l_indep l) (Some c) (l_corr l) (l_ens l)))
  end.

Fixpoint thaw_complexes (s : session) (iu : list (ouid * isig)) (a : archive) (items : list (string * cval))
  : session * archive * res unit :=
  match items with
  | [] => (s, a, Ok tt)
  | (n, CFrozen n_re n_im) :: t =>
      match sget (a_ureal a) n_re with
      | None => (s, a, Err KeyError)
      | Some vre =>
          match builder s iu vre with
          | Err e => (s, a, Err e)
          | Ok re =>
              let a1 := w_ureal a (sset (a_ureal a) n_re (RLive re)) in
              match sget (a_ureal a1) n_im with
              | None => (s, a1, Err KeyError)
              | Some vim =>
                  match builder s iu vim with
                  | Err e => (s, a1, Err e)
                  | Ok im =>
                      let a2 := w_ureal a1 (sset (a_ureal a1) n_im (RLive im)) in
                      if negb (Bool.eqb (is_elem re) (is_elem im)) then (s, a2, Err AssertionError)
                      else if negb (Bool.eqb (is_interm re) (is_interm im)) then (s, a2, Err AssertionError)
                      else
                        (* unc.real._node.complex = unc.imag._node.complex = (uid_re, uid_im) *)
                        let s1 := match r_node re, r_node im with
                                  | NLeaf ur, NLeaf ui => set_complex (set_complex s ur (ur, ui)) ui (ur, ui)
                                  | _, _ => s
                                  end in
                        let a3 := w_tcomplex a2 (sset (a_tcomplex a2) n (CLive re im)) in
                        if is_interm re then
                          match node_uid re, node_uid im with
                          | Ok ur, Ok ui =>
                              match u2i_add a3 ur with
                              | Ok a4 => match u2i_add a4 ui with
                                         | Ok a5 => thaw_complexes s1 iu a5 t
                                         | Err e => (s1, a4, Err e)
                                         end
                              | Err e => (s1, a3, Err e)
                              end
                          | _, _ => (s1, a3, Err AttributeError)
                          end
                        else thaw_complexes s1 iu a3 t
                  end
              end
          end
      end
  | _ :: t => (s, a, Err AssertionError)
  end.

(* the registries hold their nodes weakly: when _thaw fails, the Leaf/Node objects it created
   and nothing else refers to disappear again.  [keep] = uids still referenced (by numbers the
   half-thawed archive already holds, when that archive object itself survives) *)
Definition rv_leaf_refs (v : rval) : list uid :=
  match v with RLive r => r_u r ++ r_d r | _ => [] end.
Definition rv_node_refs (v : rval) : list ouid :=
  match v with RLive r => match r_node r with NInt u _ => [u] | _ => [] end | _ => [] end.
Definition live_leaf_refs (a : archive) : list uid := flat_map rv_leaf_refs (unreals a).
Definition live_node_refs (a : archive) : list ouid := flat_map rv_node_refs (unreals a).

Definition collect (s0 s : session) (kl : list uid) (kn : list ouid) : session :=
  mkSes (s_id s) (s_ne s) (s_ni s)
        (filter (fun p => dmem uid_eqb (s_leaves s0) (fst p) || existsb (uid_eqb (fst p)) kl) (s_leaves s))
        (filter (fun p => dmem ouid_eqb (s_nodes s0) (fst p) || existsb (ouid_eqb (fst p)) kn) (s_nodes s)).

(* survives = true: the archive object outlives a failing _thaw (a direct call);
   false: it is a temporary of loads()/copy() *)
Definition thaw (s : session) (a : archive) (survives : bool) : session * archive * res unit :=
  if a_dump a then (s, a, Err RuntimeError)
  else if a_ready a then (s, a, Ok tt)
  else
    match a_leafn a, a_iuids a with
    | Some ln, Some iu =>
        match thaw_leaves s ln with
        | (s1, Err e) => (collect s s1 [] [], a, Err e)
        | (s1, Ok _) =>
            match thaw_nodes s1 iu with
            | (s2, Err e) => (collect s s2 [] [], a, Err e)
            | (s2, Ok _) =>
                let a1 := w_u2i a (Some []) in
                match thaw_reals s2 iu a1 (a_treal a1) with
                | (a2, Err e) =>
                    (if survives then collect s s2 (live_leaf_refs a2) (live_node_refs a2) else collect s s2 [] [],
                     a2, Err e)
                | (a2, Ok _) =>
                    match thaw_complexes s2 iu a2 (a_tcomplex a2) with
                    | (s3, a3, Err e) =>
                        (if survives then collect s s3 (live_leaf_refs a3) (live_node_refs a3) else collect s s3 [] [],
                         a3, Err e)
                    | (s3, a3, Ok _) => (s3, w_flags a3 false true, Ok tt)
                    end
                end
            end
        end
    | _, _ => (s, a, Err AttributeError)
    end.

(* ------------------------------------------------------------------ Archive.copy (archive.py 184-223) *)
Fixpoint snap_list (s : session) (us : list uid) : list (uid * leaf) :=
  match us with
  | [] => []
  | u :: t => match lget (s_leaves s) u with Some l => (u, l) :: snap_list s t | None => snap_list s t end
  end.
Definition snap_r (s : session) (r : robj) : robj :=
  match r_snap r with
  | Some _ => r
  | None => mkR (r_node r) (r_u r) (r_d r) (Some (snap_list s (r_u r ++ r_d r)))
  end.
Definition snap_rv (s : session) (v : rval) : rval := match v with RLive r => RLive (snap_r s r) | _ => v end.
Definition snap_cv (s : session) (v : cval) : cval :=
  match v with CLive re im => CLive (snap_r s re) (snap_r s im) | _ => v end.
Definition deepcopy (s : session) (a : archive) : archive :=
  mkA (a_dump a) (a_ready a)
      (map (fun p => (fst p, snap_rv s (snd p))) (a_treal a))
      (map (fun p => (fst p, snap_cv s (snd p))) (a_tcomplex a))
      (map (fun p => (fst p, snap_rv s (snd p))) (a_ureal a))
      (a_u2i a) (a_leafn a) (a_iuids a).

Definition copy (s : session) (a : archive) : session * res archive :=
  let a0 := deepcopy s a in
  if a_ready a0 then (s, Ok (w_flags a0 true true))
  else match thaw s (w_flags a0 false false) false with
       | (s1, a1, Ok _) => (s1, Ok (w_flags a1 true true))
       | (s1, _, Err e) => (s1, Err e)
       end.

(* ------------------------------------------------------------------ persistence.py *)
Inductive fmt := FPickle | FJson | FXml.
Definition doc := (fmt * archive)%type.

Definition rv_none_uid (v : rval) : bool :=
  match v with RElem None => true | RInterm None _ _ => true | _ => false end.
(* ElementTree cannot serialise uid=None ("cannot serialize None") *)
Definition xml_unserialisable (a : archive) : bool :=
  existsb rv_none_uid (unreals a)
  || match a_iuids a with Some iu => existsb (fun p => ouid_eqb (fst p) None) iu | None => false end.

(* dumps / dumps_json / dumps_xml : _freeze, then encode *)
Definition write (s : session) (a : archive) (f : fmt) : archive * res doc :=
  match freeze s a with
  | (a1, Err e) => (a1, Err e)
  | (a1, Ok _) =>
      match f with
      | FXml => if xml_unserialisable a1 then (a1, Err TypeError) else (a1, Ok (f, a1))
      | _ => (a1, Ok (f, a1))
      end
  end.

(* XML text cannot tell label "" from no label *)
Definition xml_label (l : option string) : option string :=
  match l with Some EmptyString => None | _ => l end.
Definition xml_leaf (l : leaf) : leaf :=
  mkLeaf (xml_label (l_label l)) (l_u l) (l_df l) (l_indep l) (l_complex l) (l_corr l) (l_ens l).

(* what the decoder hands to _thaw *)
Definition decode (d : doc) : archive :=
  let '(f, a) := d in
  match f with
  | FPickle => w_flags a false false
  | FJson => w_u2i (w_flags a false false) (Some [])     (* jason_to_leaf: `complex` is a tuple again *)
  | FXml =>
      mkA false false (a_treal a) (a_tcomplex a) (a_ureal a) (Some [])
          (option_map (map (fun p => (fst p, xml_leaf (snd p)))) (a_leafn a))
          (option_map (map (fun p => (fst p, (xml_label (fst (snd p)), snd (snd p))))) (a_iuids a))
  end.

Definition read (s : session) (d : doc) : session * res archive :=
  match thaw s (decode d) false with
  | (s1, a1, Ok _) => (s1, Ok a1)
  | (s1, _, Err e) => (s1, Err e)
  end.

(* ------------------------------------------------------------------ session histories *)
Record state := mkSt { st_ses : session; st_objs : list pyobj; st_ars : list archive; st_docs : list doc }.

Inductive op :=
| ONewSession (k : Z)                                           (* a new interpreter: fresh Context(id=k) *)
| ODeclReal (lbl : option string) (u df : Z) (indep : bool)     (* ureal *)
| ODeclComplex (lbl : option string) (ure uim df : Z) (indep : bool)   (* ucomplex(z,(u_re,u_im)) *)
| ODeclEnsemble (specs : list (option string * Z)) (df : Z)      (* multiple_ureal(x_seq, u_seq, df, label_seq) *)
| OConst | OConstC                                              (* constant(real) / constant(complex) *)
| OOther                                                        (* a plain float: not an uncertain number *)
| OPart (a : nat) (imag : bool)                                 (* z.real / z.imag *)
| OMul (a b : nat)                                              (* a * b *)
| OResult (a : nat) (lbl : option string) (sg1 sg2 : Z)         (* result(a, label) *)
| OSetCorr (a b : nat) (r : Z)                                  (* set_correlation(r/8, a, b) *)
| OArchive                                                      (* Archive() *)
| OAdd (ar : nat) (kw : list (string * nat))                    (* ar.add with keyword arguments kw *)
| OExtract (ar : nat) (names : list string)                     (* ar.extract with the given names *)
| OWrite (ar : nat) (f : fmt)                                   (* dumps / dumps_json / dumps_xml *)
| ORead (d : nat)                                               (* loads / loads_json / loads_xml *)
| OReadRaw (d : nat)                                            (* the decoder alone: a loaded, not thawed archive *)
| OFreeze (ar : nat) | OThaw (ar : nat)                         (* direct _freeze() / _thaw() *)
| OCopy (ar : nat).                                             (* Archive.copy(ar) *)

Inductive out :=
| OutOk | OutErr (e : exn) | OutObjs (os : list pyobj) | OutSkip.   (* OutSkip: outside the modelled domain *)

Definition init_session (k : Z) : session := mkSes k 0 0 [] [].
Definition init_state (k : Z) : state := mkSt (init_session k) [] [] [].

Definition w_ses st x := mkSt x (st_objs st) (st_ars st) (st_docs st).
Definition w_objs st x := mkSt (st_ses st) x (st_ars st) (st_docs st).
Definition w_ars st x := mkSt (st_ses st) (st_objs st) x (st_docs st).
Definition w_docs st x := mkSt (st_ses st) (st_objs st) (st_ars st) x.

Fixpoint set_nth {A} (l : list A) (n : nat) (x : A) : list A :=
  match l, n with
  | [], _ => []
  | _ :: t, O => x :: t
  | h :: t, S n' => h :: set_nth t n' x
  end.

Fixpoint resolve_kw (objs : list pyobj) (kw : list (string * nat)) : option (list (string * pyobj)) :=
  match kw with
  | [] => Some []
  | (k, i) :: t => match nth_error objs i, resolve_kw objs t with
                   | Some o, Some r => Some ((k, o) :: r)
                   | _, _ => None
                   end
  end.

Definition push_obj (st : state) (o : pyobj) : state * out := (w_objs st (st_objs st ++ [o]), OutObjs [o]).

(* UncertainReal._elementary: _next_elementary_id then new_leaf *)
Definition decl_real (s : session) (lbl : option string) (u df : Z) (indep : bool) : session * res robj :=
  let id := (s_id s, s_ne s + 1) in
  let s1 := mkSes (s_id s) (s_ne s + 1) (s_ni s) (s_leaves s) (s_nodes s) in
  match new_leaf s1 id lbl u df indep with
  | Err e => (s1, Err e)
  | Ok (s2, _) => (s2, Ok (if indep then mkR (NLeaf id) [id] [] None else mkR (NLeaf id) [] [id] None))
  end.

(* UncertainReal._intermediate *)
Definition result_real (s : session) (r : robj) (lbl : option string) (sg : Z) : session * res robj :=
  match r_node r with
  | NLeaf u =>
      (* an elementary number is returned as it is; a label is assigned if it had none *)
      match lbl, lget (s_leaves s) u with
      | Some _, Some l =>
          match l_label l with
          | None => (w_leaves s (lset (s_leaves s) u (mkLeaf lbl (l_u l) (l_df l) (l_indep l) (l_complex l) (l_corr l) (l_ens l))), Ok r)
          | Some _ => (s, Ok r)
          end
      | _, _ => (s, Ok r)
      end
  | NInt _ _ => (s, Ok r)
  | _ =>
      let id := Some (s_id s, s_ni s + 1) in
      let s1 := mkSes (s_id s) (s_ne s) (s_ni s + 1) (s_leaves s) (s_nodes s) in
      match new_node s1 id (lbl, sg) with
      | Err e => (s1, Err e)
      | Ok s2 => (s2, Ok (mkR (NInt id (lbl, sg)) (r_u r) (r_d r) None))
      end
  end.

Definition lbl_suffix (l : option string) (sfx : string) : option string :=
  match l with None => None | Some x => Some (String.append x sfx) end.

(* UncertainReal.set_correlation: both dof infinite, or the second number is in the first one's ensemble *)
Definition leaf_dep (s : session) (u : uid) : bool :=
  match lget (s_leaves s) u with
  | Some l => negb (l_indep l) && match l_corr l with Some _ => true | None => false end
  | None => false
  end.
Definition corr_allowed (s : session) (u v : uid) : bool :=
  match lget (s_leaves s) u, lget (s_leaves s) v with
  | Some lu, Some lv =>
      ((l_df lu =? -1) && (l_df lv =? -1))
      || match l_ens lu with Some e => existsb (uid_eqb v) e | None => false end
  | _, _ => false
  end.
Definition corr_set (s : session) (u v : uid) (r : Z) : session :=
  match lget (s_leaves s) u with
  | Some l => match l_corr l with
              | Some c => w_leaves s (lset (s_leaves s) u (mkLeaf (l_label l) (l_u l) (l_df l) (l_indep l) (l_complex l)
                                                                     (Some (dset uid_eqb c v r)) (l_ens l)))
              | None => s
              end
  | None => s
  end.

(* core.multiple_ureal: one dependent ureal per (label, u), then lib.real_ensemble gives every member
   the set of all the uids *)
Fixpoint decl_many (s : session) (specs : list (option string * Z)) (df : Z) : session * res (list robj) :=
  match specs with
  | [] => (s, Ok [])
  | (lbl, u) :: t =>
      match decl_real s lbl u df false with
      | (s1, Err e) => (s1, Err e)
      | (s1, Ok r) => match decl_many s1 t df with
                      | (s2, Ok rs) => (s2, Ok (r :: rs))
                      | (s2, Err e) => (s2, Err e)
                      end
      end
  end.
Definition robj_uid (r : robj) : list uid := match r_node r with NLeaf u => [u] | _ => [] end.
Definition set_ens (s : session) (e : list uid) (u : uid) : session :=
  match lget (s_leaves s) u with
  | Some l => w_leaves s (lset (s_leaves s) u (mkLeaf (l_label l) (l_u l) (l_df l) (l_indep l) (l_complex l) (l_corr l) (Some e)))
  | None => s
  end.

Definition same_kind (re im : robj) : bool :=
  match r_node re, r_node im with
  | NLeaf _, NLeaf _ | NInt _ _, NInt _ _ | NNone, NNone | NConst, NConst => true
  | _, _ => false
  end.

Definition plain (r : robj) : bool := match r_snap r with None => true | Some _ => false end.

Definition step0 (st : state) (o : op) : state * out :=
  let s := st_ses st in
  match o with
  | ONewSession k => (mkSt (init_session k) [] [] (st_docs st), OutOk)
  | ODeclReal lbl u df indep =>
      match decl_real s lbl u df indep with
      | (s1, Ok r) => push_obj (w_ses st s1) (PReal r)
      | (s1, Err e) => (w_ses st s1, OutErr e)
      end
  | ODeclEnsemble specs df =>
      match decl_many s specs df with
      | (s1, Err e) => (w_ses st s1, OutErr e)
      | (s1, Ok rs) =>
          let us := flat_map robj_uid rs in
          let e := fold_left (fun acc u => insert_uid u acc) us [] in
          (mkSt (fold_left (fun acc u => set_ens acc e u) us s1) (st_objs st ++ map PReal rs) (st_ars st) (st_docs st),
           OutObjs (map PReal rs))
      end
  | ODeclComplex lbl ure uim df indep =>
      match decl_real s (lbl_suffix lbl "_re") ure df indep with
      | (s1, Err e) => (w_ses st s1, OutErr e)
      | (s1, Ok re) =>
          match decl_real s1 (lbl_suffix lbl "_im") uim df indep with
          | (s2, Err e) => (w_ses st (collect s s2 [] []), OutErr e)   (* the first Leaf is garbage again *)
          | (s2, Ok im) =>
              match r_node re, r_node im with
              | NLeaf ur, NLeaf ui =>
                  push_obj (w_ses st (set_complex (set_complex s2 ur (ur, ui)) ui (ur, ui))) (PComplex re im)
              | _, _ => (st, OutSkip)
              end
          end
      end
  | OConst => push_obj st (PReal (mkR NConst [] [] None))
  | OConstC => push_obj st (PComplex (mkR NConst [] [] None) (mkR NConst [] [] None))
  | OOther => push_obj st POther
  | OPart a imag =>
      match nth_error (st_objs st) a with
      | Some (PComplex re im) => push_obj st (PReal (if imag then im else re))
      | _ => (st, OutSkip)
      end
  | OMul a b =>
      match nth_error (st_objs st) a, nth_error (st_objs st) b with
      | Some (PReal x), Some (PReal y) =>
          push_obj st (PReal (mkR NNone (union_uid (r_u x) (r_u y)) (union_uid (r_d x) (r_d y)) None))
      | Some (PComplex xr xi), Some (PComplex yr yi) =>
          let r := mkR NNone (union_uid (union_uid (r_u xr) (r_u xi)) (union_uid (r_u yr) (r_u yi)))
                       (union_uid (union_uid (r_d xr) (r_d xi)) (union_uid (r_d yr) (r_d yi))) None in
          push_obj st (PComplex r r)
      | Some (PReal x), Some (PComplex yr yi) | Some (PComplex yr yi), Some (PReal x) =>
          let r := mkR NNone (union_uid (r_u x) (union_uid (r_u yr) (r_u yi)))
                       (union_uid (r_d x) (union_uid (r_d yr) (r_d yi))) None in
          push_obj st (PComplex r r)
      | _, _ => (st, OutSkip)
      end
  | OResult a lbl sg1 sg2 =>
      match nth_error (st_objs st) a with
      | Some (PReal r) =>
          match result_real s r lbl sg1 with
          | (s1, Ok r') => push_obj (w_ses st s1) (PReal r')
          | (s1, Err e) => (w_ses st s1, OutErr e)
          end
      | Some (PComplex re im) =>
          if same_kind re im
          then
            match result_real s re (lbl_suffix lbl "_re") sg1 with
            | (s1, Err e) => (w_ses st s1, OutErr e)
            | (s1, Ok re') =>
                match result_real s1 im (lbl_suffix lbl "_im") sg2 with
                | (s2, Err e) => (w_ses st s2, OutErr e)
                | (s2, Ok im') =>
                    (* un.real._node.complex = un.imag._node.complex = (uid_re, uid_im): a tuple again *)
                    let s3 := match r_node re', r_node im' with
                              | NLeaf ur, NLeaf ui => set_complex (set_complex s2 ur (ur, ui)) ui (ur, ui)
                              | _, _ => s2
                              end in
                    push_obj (w_ses st s3) (PComplex re' im')
                end
            end
          else (st, OutSkip)
      | _ => (st, OutSkip)
      end
  | OSetCorr a b r =>
      match nth_error (st_objs st) a, nth_error (st_objs st) b with
      | Some (PReal x), Some (PReal y) =>
          match r_node x, r_node y with
          | NLeaf ux, NLeaf uy =>
              if negb (uid_eqb ux uy) && leaf_dep s ux && leaf_dep s uy && corr_allowed s ux uy && plain x && plain y
                 && negb (r =? 0) && (-8 <=? r) && (r <=? 8)
              then (w_ses st (corr_set (corr_set s ux uy r) uy ux r), OutOk)
              else (st, OutSkip)
          | _, _ => (st, OutSkip)
          end
      | _, _ => (st, OutSkip)
      end
  | OArchive => (w_ars st (st_ars st ++ [empty_archive]), OutOk)
  | OAdd ar kw =>
      match nth_error (st_ars st) ar with
      | None => (st, OutSkip)
      | Some a =>
          match resolve_kw (st_objs st) kw with
          | None => (st, OutSkip)
          | Some kwo =>
              match add a kwo with
              | (a1, Ok _) => (w_ars st (set_nth (st_ars st) ar a1), OutOk)
              | (a1, Err e) => (w_ars st (set_nth (st_ars st) ar a1), OutErr e)
              end
          end
      end
  | OExtract ar names =>
      match nth_error (st_ars st) ar with
      | None => (st, OutSkip)
      | Some a => match extract a names with
                  | Ok os => (w_objs st (st_objs st ++ os), OutObjs os)
                  | Err e => (st, OutErr e)
                  end
      end
  | OWrite ar f =>
      match nth_error (st_ars st) ar with
      | None => (st, OutSkip)
      | Some a => match write s a f with
                  | (a1, Ok d) => (mkSt s (st_objs st) (set_nth (st_ars st) ar a1) (st_docs st ++ [d]), OutOk)
                  | (a1, Err e) => (w_ars st (set_nth (st_ars st) ar a1), OutErr e)
                  end
      end
  | ORead d =>
      match nth_error (st_docs st) d with
      | None => (st, OutSkip)
      | Some dc => match read s dc with
                   | (s1, Ok a) => (mkSt s1 (st_objs st) (st_ars st ++ [a]) (st_docs st), OutOk)
                   | (s1, Err e) => (w_ses st s1, OutErr e)
                   end
      end
  | OReadRaw d =>
      match nth_error (st_docs st) d with
      | Some (FXml, _) | None => (st, OutSkip)
      | Some dc => (w_ars st (st_ars st ++ [decode dc]), OutOk)
      end
  | OFreeze ar =>
      match nth_error (st_ars st) ar with
      | None => (st, OutSkip)
      | Some a => match freeze s a with
                  | (a1, Ok _) => (w_ars st (set_nth (st_ars st) ar a1), OutOk)
                  | (a1, Err e) => (w_ars st (set_nth (st_ars st) ar a1), OutErr e)
                  end
      end
  | OThaw ar =>
      match nth_error (st_ars st) ar with
      | None => (st, OutSkip)
      | Some a => match thaw s a true with
                  | (s1, a1, Ok _) => (mkSt s1 (st_objs st) (set_nth (st_ars st) ar a1) (st_docs st), OutOk)
                  | (s1, a1, Err e) => (mkSt s1 (st_objs st) (set_nth (st_ars st) ar a1) (st_docs st), OutErr e)
                  end
      end
  | OCopy ar =>
      match nth_error (st_ars st) ar with
      | None => (st, OutSkip)
      | Some a => match copy s a with
                  | (s1, Ok a1) => (mkSt s1 (st_objs st) (st_ars st ++ [a1]) (st_docs st), OutOk)
                  | (s1, Err e) => (w_ses st s1, OutErr e)
                  end
      end
  end.

(* The registries are WeakValueDictionaries: a Leaf / Node stays registered exactly as long as a
   live uncertain number refers to it (the harness holds every number it created or extracted and
   every archive).  _freeze replaces the numbers an archive holds by plain records, a failed
   load drops what it built: after each operation the registries are cut down to the nodes
   that are still referenced.  Deep copies (r_snap) refer to their private node copies. *)
Definition robj_leaf_refs (r : robj) : list uid :=
  match r_snap r with
  | Some _ => []
  | None => match r_node r with NLeaf u => [u] | _ => [] end ++ r_u r ++ r_d r
  end.
Definition robj_node_refs (r : robj) : list ouid :=
  match r_snap r with
  | Some _ => []
  | None => match r_node r with NInt u _ => [u] | _ => [] end
  end.
Definition pyobj_leaf_refs (o : pyobj) : list uid :=
  match o with PReal r => robj_leaf_refs r | PComplex re im => robj_leaf_refs re ++ robj_leaf_refs im | POther => [] end.
Definition pyobj_node_refs (o : pyobj) : list ouid :=
  match o with PReal r => robj_node_refs r | PComplex re im => robj_node_refs re ++ robj_node_refs im | POther => [] end.
Definition rval_obj (v : rval) : list pyobj := match v with RLive r => [PReal r] | _ => [] end.
Definition cval_obj (v : cval) : list pyobj := match v with CLive re im => [PComplex re im] | _ => [] end.
Definition archive_objs (a : archive) : list pyobj :=
  flat_map (fun p => rval_obj (snd p)) (a_treal a) ++ flat_map (fun p => cval_obj (snd p)) (a_tcomplex a)
  ++ flat_map (fun p => rval_obj (snd p)) (a_ureal a).
Definition live_objs (st : state) : list pyobj := st_objs st ++ flat_map archive_objs (st_ars st).
Definition leaf_refs (st : state) : list uid := flat_map pyobj_leaf_refs (live_objs st).
Definition node_refs (st : state) : list ouid := flat_map pyobj_node_refs (live_objs st).

Definition gc_state (st : state) : state :=
  let s := st_ses st in
  let lr := leaf_refs st in let nr := node_refs st in
  mkSt (mkSes (s_id s) (s_ne s) (s_ni s)
              (filter (fun p => existsb (uid_eqb (fst p)) lr) (s_leaves s))
              (filter (fun p => existsb (ouid_eqb (fst p)) nr) (s_nodes s)))
       (st_objs st) (st_ars st) (st_docs st).

Definition step (st : state) (o : op) : state * out :=
  let r := step0 st o in (gc_state (fst r), snd r).

Fixpoint run (st : state) (ops : list op) : state :=
  match ops with [] => st | o :: t => run (fst (step st o)) t end.

(* the trace of (state after, outcome) pairs *)
Fixpoint trace (st : state) (ops : list op) : list (state * out) :=
  match ops with
  | [] => []
  | o :: t => let r := step st o in r :: trace (fst r) t
  end.

(* LifecycleObs.v -- what the correspondence check compares: after every step of a history, the
   outcome and the WHOLE observable state (every archive's flags, dicts in order, kinds and
   uids of the values, _uid_to_intermediate keys, _leaf_nodes with the archived attributes,
   _intermediate_uids; the context's counters and both registries with every leaf's label,
   u, df, independent, complex, correlation) as a tree; the harness builds the same tree from
   the real objects.  Trees are compared through a 63-bit polynomial hash computed on both
   sides (keeps the generated files small); [obs_at] prints the model's tree for diagnosis. *)
From Coq Require Import ZArith List Bool String Ascii Uint63.
From GTCV Require Import Num Lifecycle.
Import ListNotations.
Open Scope Z_scope.

Inductive tree := TZ (z : Z) | TS (s : string) | TL (l : list tree).

Definition mix (h x : int) : int := (h * 1000003 + x + 12345)%uint63.
Fixpoint hash_string (s : string) (h : int) : int :=
  match s with
  | EmptyString => mix h 255
  | String c t => hash_string t (mix h (Uint63.of_Z (Z.of_N (N_of_ascii c))))
  end.
Fixpoint hash_tree (t : tree) (h : int) : int :=
  match t with
  | TZ z => mix (mix h 1) (Uint63.of_Z (z + 1000))
  | TS s => hash_string s (mix h 2)
  | TL l => mix ((fix go (l : list tree) (h : int) : int :=
                    match l with [] => h | x :: r => go r (hash_tree x h) end) l (mix h 3)) 4
  end.
Definition hash (t : tree) : int := hash_tree t 7%uint63.

(* ------------------------------------------------------------------ trees of model values *)
Definition tb (b : bool) : tree := TZ (if b then 1 else 0).
Definition tuid (u : uid) : tree := TL [TZ (fst u); TZ (snd u)].
Definition touid (u : ouid) : tree := match u with None => TZ 0 | Some x => tuid x end.
Definition tostr (s : option string) : tree := match s with None => TZ 0 | Some x => TS x end.
Definition tleaf (l : leaf) : tree :=
  TL [tostr (l_label l); TZ (l_u l); TZ (l_df l); tb (l_indep l);
      (* first slot: 1 if the attribute is a list (never, in the model; the harness reports what it sees) *)
      match l_complex l with None => TZ 0 | Some (a, b) => TL [TZ 0; tuid a; tuid b] end;
      match l_corr l with None => TZ 0 | Some c => TL (map (fun p => TL [tuid (fst p); TZ (snd p)]) c) end;
      match l_ens l with None => TZ 0 | Some e => TL (map tuid e) end].
Definition tnode (n : node) : tree :=
  match n with NNone => TZ 0 | NConst => TZ 1 | NLeaf u => TL [TZ 2; tuid u] | NInt u sg => TL [TZ 3; touid u; tostr (fst sg); TZ (snd sg)] end.
Definition trobj (r : robj) : tree :=
  TL [tnode (r_node r); TL (map tuid (r_u r)); TL (map tuid (r_d r));
      match r_snap r with None | Some [] => TZ 0 | Some h => TL (map (fun p => TL [tuid (fst p); tleaf (snd p)]) h) end].
Definition tpyobj (o : pyobj) : tree :=
  match o with PReal r => TL [TZ 0; trobj r] | PComplex re im => TL [TZ 1; trobj re; trobj im] | POther => TZ 2 end.
Definition trval (v : rval) : tree :=
  match v with
  | RLive r => TL [TZ 0; trobj r]
  | RElem u => TL [TZ 1; touid u]
  | RInterm u us ds => TL [TZ 2; touid u; TL (map tuid us); TL (map tuid ds)]
  end.
Definition tcval (v : cval) : tree :=
  match v with CLive re im => TL [TZ 0; trobj re; trobj im] | CFrozen a b => TL [TZ 1; TS a; TS b] end.
Definition tarchive (a : archive) : tree :=
  TL [tb (a_dump a); tb (a_ready a);
      TL (map (fun p => TL [TS (fst p); trval (snd p)]) (a_treal a));
      TL (map (fun p => TL [TS (fst p); tcval (snd p)]) (a_tcomplex a));
      TL (map (fun p => TL [TS (fst p); trval (snd p)]) (a_ureal a));
      match a_u2i a with None => TZ 0 | Some l => TL (map touid l) end;
      match a_leafn a with None => TZ 0 | Some l => TL (map (fun p => TL [tuid (fst p); tleaf (snd p)]) l) end;
      match a_iuids a with None => TZ 0
                         | Some l => TL (map (fun p => TL [touid (fst p); tostr (fst (snd p)); TZ (snd (snd p))]) l) end].

(* the registries are weak dictionaries without a meaningful order: sorted by uid *)
Definition ouid_ltb (a b : ouid) : bool :=
  match a, b with None, Some _ => true | Some x, Some y => uid_ltb x y | _, _ => false end.
Section Sort.
  Context {K V : Type} (lt : K -> K -> bool).
  Fixpoint ins (p : K * V) (l : list (K * V)) : list (K * V) :=
    match l with [] => [p] | h :: t => if lt (fst p) (fst h) then p :: l else h :: ins p t end.
  Definition sort (l : list (K * V)) : list (K * V) := fold_right ins [] l.
End Sort.
Definition tsession (s : session) : tree :=
  TL [TZ (s_id s); TZ (s_ne s); TZ (s_ni s);
      TL (map (fun p => TL [tuid (fst p); tleaf (snd p)]) (sort uid_ltb (s_leaves s)));
      TL (map (fun p => TL [touid (fst p); tostr (fst (snd p)); TZ (snd (snd p))]) (sort ouid_ltb (s_nodes s)))].
Definition exn_code (e : exn) : Z :=
  match e with
  | RuntimeError => 1 | AttributeError => 2 | KeyError => 3 | IndexError => 4 | TypeError => 5
  | AssertionError => 6 | ValueError => 7 | OracleMissing => 99 | _ => 9
  end.
Definition tout (o : out) : tree :=
  match o with
  | OutOk => TZ 0 | OutErr e => TL [TZ 1; TZ (exn_code e)]
  | OutObjs os => TL [TZ 2; TL (map tpyobj os)] | OutSkip => TZ 3
  end.
Definition tstate (st : state) : tree :=
  TL [tsession (st_ses st); TL (map tarchive (st_ars st));
      TZ (Z.of_nat (List.length (st_docs st))); TZ (Z.of_nat (List.length (st_objs st)))].
Definition obs (r : state * out) : tree := TL [tout (snd r); tstate (fst r)].

(* ------------------------------------------------------------------ the comparison *)
Fixpoint first_diff (i : Z) (got : list (state * out)) (expected : list int) : Z :=
  match got, expected with
  | [], [] => -1
  | g :: gt, e :: et => if Uint63.eqb (hash (obs g)) e then first_diff (i + 1) gt et else i
  | _, _ => -2
  end.
(* -1: model and implementation agree after every step; i >= 0: first step that differs *)
Definition check (k0 : Z) (ops : list op) (expected : list int) : Z :=
  first_diff 0 (trace (init_state k0) ops) expected.

Definition obs_at (k0 : Z) (ops : list op) (i : nat) : option tree :=
  option_map obs (nth_error (trace (init_state k0) ops) i).

(* LifecycleFacts.v -- theorems about the Archive lifecycle model (Lifecycle.v).
   Part 1: the lifecycle table.  Every row is about an ARBITRARY archive record (not only
   reachable ones) and an arbitrary session, so it holds at every point of every history.
   Part 2: the rows that are false of the faithful model (witnesses).
   Part 3: copy, write-twice, purity facts.  Part 4: uid freshness by induction over histories. *)
From Coq Require Import ZArith List Bool String Ascii Lia.
From GTCV Require Import Num Lifecycle.
Import ListNotations.
Open Scope Z_scope.

Definition is_open (a : archive) : bool := a_dump a && a_ready a.
Definition is_written (a : archive) : bool := a_dump a && negb (a_ready a).
Definition is_thawed (a : archive) : bool := negb (a_dump a) && a_ready a.     (* what loads() returns *)
Definition is_loaded (a : archive) : bool := negb (a_dump a) && negb (a_ready a).

Lemma state_cases : forall a,
  (is_open a = true /\ is_written a = false /\ is_thawed a = false /\ is_loaded a = false) \/
  (is_open a = false /\ is_written a = true /\ is_thawed a = false /\ is_loaded a = false) \/
  (is_open a = false /\ is_written a = false /\ is_thawed a = true /\ is_loaded a = false) \/
  (is_open a = false /\ is_written a = false /\ is_thawed a = false /\ is_loaded a = true).
Proof.
  intros a. unfold is_open, is_written, is_thawed, is_loaded.
  destruct (a_dump a), (a_ready a); simpl; tauto.
Qed.

(* ------------------------------------------------------------------ Part 1: rejections *)
Lemma setitem_rejects : forall a k o, is_open a = false -> setitem a k o = (a, Err RuntimeError).
Proof. intros a k o H. unfold setitem. unfold is_open in H. rewrite H. reflexivity. Qed.

Lemma add_rejects : forall a kw, is_open a = false -> kw <> [] -> add a kw = (a, Err RuntimeError).
Proof.
  intros a kw H Hkw. destruct kw as [|[k o] t]; [congruence|].
  unfold add. simpl. rewrite (setitem_rejects a k o H). reflexivity.
Qed.

Lemma getitem_rejects : forall a k, is_thawed a = false -> getitem a k = Err RuntimeError.
Proof. intros a k H. unfold getitem. unfold is_thawed in H. rewrite H. reflexivity. Qed.

Lemma extract_rejects : forall a names, is_thawed a = false -> names <> [] -> extract a names = Err RuntimeError.
Proof.
  intros a names H Hn. destruct names as [|n t]; [congruence|].
  unfold extract. simpl. rewrite (getitem_rejects a n H). reflexivity.
Qed.

Lemma freeze_rejects : forall s a, a_dump a = false -> freeze s a = (a, Err RuntimeError).
Proof. intros s a H. unfold freeze. rewrite H. destruct (Nat.eqb (alen a) 0); reflexivity. Qed.

Lemma freeze_empty : forall s a, alen a = 0%nat -> freeze s a = (a, Err RuntimeError).
Proof. intros s a H. unfold freeze. rewrite H. reflexivity. Qed.

Lemma freeze_written_noop : forall s a, is_written a = true -> alen a <> 0%nat -> freeze s a = (a, Ok tt).
Proof.
  intros s a H Hn. unfold freeze. unfold is_written in H. apply andb_prop in H as [Hd Hr].
  rewrite Hd. apply negb_true_iff in Hr. rewrite Hr. simpl.
  destruct (Nat.eqb (alen a) 0) eqn:E; [apply Nat.eqb_eq in E; congruence | reflexivity].
Qed.

Lemma write_rejects : forall s a f, a_dump a = false -> write s a f = (a, Err RuntimeError).
Proof. intros s a f H. unfold write. rewrite (freeze_rejects s a H). reflexivity. Qed.

Lemma write_empty : forall s a f, alen a = 0%nat -> write s a f = (a, Err RuntimeError).
Proof. intros s a f H. unfold write. rewrite (freeze_empty s a H). reflexivity. Qed.

Lemma thaw_rejects : forall s a b, a_dump a = true -> thaw s a b = (s, a, Err RuntimeError).
Proof. intros s a b H. unfold thaw. rewrite H. reflexivity. Qed.

Lemma thaw_thawed_noop : forall s a b, is_thawed a = true -> thaw s a b = (s, a, Ok tt).
Proof.
  intros s a b H. unfold is_thawed in H. apply andb_prop in H as [Hd Hr]. apply negb_true_iff in Hd.
  unfold thaw. rewrite Hd, Hr. reflexivity.
Qed.

(* ------------------------------------------------------------------ add on an open archive *)
(* the acceptance rule of _setitem written as one flat predicate *)
Definition declared (r : robj) : bool := match r_node r with NNone => false | _ => true end.
Definition add_ok (a : archive) (key : string) (o : pyobj) : bool :=
  negb (smem (a_treal a) key) && negb (smem (a_tcomplex a) key) &&
  match o with
  | PReal r => negb (smem (a_ureal a) key) &&
               (is_elem r || (declared r && match a_u2i a with Some _ => true | None => false end))
  | PComplex re im =>
      negb (smem (a_treal a) (tag_re key)) && negb (smem (a_ureal a) (tag_re key)) &&
      negb (smem (a_treal a) (tag_im key)) && negb (smem (a_ureal a) (tag_im key)) &&
      (is_elem re || is_elem im ||
       (declared re && declared im && match a_u2i a with Some _ => true | None => false end))
  | POther => false
  end.

Lemma node_uid_declared : forall r, declared r = true -> exists u, node_uid r = Ok u.
Proof. intros r. unfold declared, node_uid. destruct (r_node r); intros; try discriminate; eauto. Qed.
Lemma node_uid_undeclared : forall r, declared r = false -> node_uid r = Err AttributeError.
Proof. intros r. unfold declared, node_uid. destruct (r_node r); intros; try discriminate; auto. Qed.

Lemma u2i_add_some : forall a u l, a_u2i a = Some l -> exists a', u2i_add a u = Ok a' /\
   a_dump a' = a_dump a /\ a_ready a' = a_ready a /\ a_treal a' = a_treal a /\ a_tcomplex a' = a_tcomplex a /\
   a_ureal a' = a_ureal a /\ (exists l', a_u2i a' = Some l').
Proof. intros a u l H. unfold u2i_add. rewrite H. eexists; split; [reflexivity|]. simpl. repeat split; eauto. Qed.

(* accepted exactly when the rule says so *)
Theorem setitem_accepts_iff : forall a key o,
  is_open a = true -> (snd (setitem a key o) = Ok tt <-> add_ok a key o = true).
Proof.
  intros a key o Ho. unfold is_open in Ho. unfold setitem, add_ok. rewrite Ho.
  destruct (smem (a_treal a) key); simpl; [split; discriminate|].
  destruct (smem (a_tcomplex a) key); simpl; [split; discriminate|].
  destruct o as [r|re im|]; [| |simpl; split; discriminate].
  - destruct (smem (a_ureal a) key); simpl; [split; discriminate|].
    destruct (is_elem r) eqn:Ee; simpl; [tauto|].
    destruct (declared r) eqn:Ed; simpl.
    + destruct (node_uid_declared r Ed) as [u Hu]. rewrite Hu.
      unfold u2i_add. destruct (a_u2i a); simpl; [tauto | split; discriminate].
    + rewrite (node_uid_undeclared r Ed). simpl. split; discriminate.
  - destruct (smem (a_treal a) (tag_re key)); simpl; [split; discriminate|].
    destruct (smem (a_ureal a) (tag_re key)); simpl; [split; discriminate|].
    destruct (smem (a_treal a) (tag_im key)); simpl; [split; discriminate|].
    destruct (smem (a_ureal a) (tag_im key)); simpl; [split; discriminate|].
    destruct (is_elem re || is_elem im) eqn:Ee; simpl; [tauto|].
    destruct (declared re) eqn:Edr; simpl.
    + destruct (node_uid_declared re Edr) as [ur Hur]. rewrite Hur.
      destruct (declared im) eqn:Edi; simpl.
      * destruct (node_uid_declared im Edi) as [ui Hui]. rewrite Hui.
        unfold u2i_add; simpl. destruct (a_u2i a); simpl; [tauto | split; discriminate].
      * rewrite (node_uid_undeclared im Edi). simpl. split; discriminate.
    + rewrite (node_uid_undeclared re Edr). simpl. split; discriminate.
Qed.

(* EVERY rejected _setitem leaves the archive exactly as it was (all checks precede the side
   effects), and the exception is RuntimeError -- or AttributeError when _uid_to_intermediate
   has been deleted *)
Theorem setitem_atomic : forall a key o a' e,
  setitem a key o = (a', Err e) -> a' = a /\ (e = RuntimeError \/ (e = AttributeError /\ a_u2i a = None)).
Proof.
  intros a key o a' e H. unfold setitem in H.
  destruct (a_dump a && a_ready a); [|injection H as <- <-; auto].
  destruct (smem (a_treal a) key || smem (a_tcomplex a) key); [injection H as <- <-; auto|].
  destruct o as [r|re im|]; [| |injection H as <- <-; auto].
  - destruct (smem (a_ureal a) key); [injection H as <- <-; auto|].
    destruct (is_elem r); [discriminate|].
    destruct (node_uid r); [|injection H as <- <-; auto].
    unfold u2i_add in H. destruct (a_u2i a) eqn:Eu; [discriminate|]. injection H as <- <-. auto.
  - destruct (smem (a_treal a) (tag_re key) || smem (a_ureal a) (tag_re key)); [injection H as <- <-; auto|].
    destruct (smem (a_treal a) (tag_im key) || smem (a_ureal a) (tag_im key)); [injection H as <- <-; auto|].
    destruct (is_elem re || is_elem im); [discriminate|].
    destruct (node_uid re); [|injection H as <- <-; auto].
    destruct (node_uid im); [|injection H as <- <-; auto].
    unfold u2i_add in H. destruct (a_u2i a) eqn:Eu; simpl in H; [discriminate|]. injection H as <- <-. auto.
Qed.

(* hence Archive.add with any kwargs is all or nothing *)
Theorem add_atomic : forall a kw a' e,
  add a kw = (a', Err e) -> a' = a /\ (e = RuntimeError \/ e = AttributeError).
Proof.
  intros a kw a' e H. unfold add in H. destruct (add_loop a kw) as [a1 r] eqn:E. destruct r as [[]|e1]; [discriminate|].
  injection H as <- <-. split; [reflexivity|].
  revert a a1 E. induction kw as [|[k o] t IH]; intros a a1 E; simpl in E; [discriminate|].
  destruct (setitem a k o) as [a2 r2] eqn:Es. destruct r2 as [[]|e2].
  - eapply IH; eauto.
  - injection E as _ <-. apply setitem_atomic in Es. destruct Es as (_ & [->|[-> _]]); auto.
Qed.

(* so a rejected add cannot spoil a later write (before the repair it could: the components of
   a rejected undeclared complex stayed in _untagged_real and _freeze raised AttributeError) *)
Corollary write_after_rejected_add : forall s a kw a' e f,
  add a kw = (a', Err e) -> write s a' f = write s a f.
Proof. intros s a kw a' e f H. apply add_atomic in H. destruct H as (-> & _). reflexivity. Qed.

(* an accepted add really stores the number under its tag and touches no other tag *)
Lemma sget_sset_same : forall V (d : list (string * V)) k v, sget (sset d k v) k = Some v.
Proof.
  intros V d k v. unfold sget, sset. induction d as [|[k' v'] t IH]; simpl.
  - rewrite String.eqb_refl. reflexivity.
  - destruct (String.eqb k' k) eqn:E; simpl; rewrite E; auto.
Qed.
Lemma sget_sset_other : forall V (d : list (string * V)) k k' v, k' <> k -> sget (sset d k v) k' = sget d k'.
Proof.
  intros V d k k' v Hne. unfold sget, sset. induction d as [|[k0 v0] t IH]; simpl.
  - destruct (String.eqb k k') eqn:E; [apply String.eqb_eq in E; congruence | reflexivity].
  - destruct (String.eqb k0 k) eqn:E; simpl.
    + apply String.eqb_eq in E. subst k0.
      destruct (String.eqb k k') eqn:E2; [apply String.eqb_eq in E2; congruence | reflexivity].
    + destruct (String.eqb k0 k'); auto.
Qed.

Theorem setitem_real_stored : forall a key r a',
  setitem a key (PReal r) = (a', Ok tt) ->
  sget (a_treal a') key = Some (RLive r) /\
  (forall k', k' <> key -> sget (a_treal a') k' = sget (a_treal a) k') /\
  a_tcomplex a' = a_tcomplex a /\ a_ureal a' = a_ureal a /\ is_open a' = true.
Proof.
  intros a key r a' H. unfold setitem in H.
  destruct (a_dump a && a_ready a) eqn:Ho; [|discriminate].
  destruct (smem (a_treal a) key || smem (a_tcomplex a) key); [discriminate|].
  destruct (smem (a_ureal a) key); [discriminate|].
  destruct (is_elem r).
  - injection H as <-. simpl. unfold is_open; simpl. rewrite Ho.
    repeat split; auto using sget_sset_same, sget_sset_other.
  - destruct (node_uid r); [|discriminate]. unfold u2i_add in H. destruct (a_u2i a); [|discriminate].
    injection H as <-. simpl. unfold is_open; simpl. rewrite Ho.
    repeat split; auto using sget_sset_same, sget_sset_other.
Qed.

(* ------------------------------------------------------------------ Part 2: the formerly refuted rows, on concrete inputs *)
Open Scope string_scope.
Definition x_elem : robj := mkR (NLeaf (1, 1)) [(1, 1)] [] None.
Definition p_plain : robj := mkR NNone [(1, 1)] [] None.
Definition ses1 : session :=
  mkSes 1 1 1 [((1, 1), mkLeaf None 16 (-1) true None None None)] [(Some (1, 1), (None, 1))].
Definition m_interm : robj := mkR (NInt (Some (1, 1)) (None, 1)) [(1, 1)] [] None.

(* the three witnesses of the defects, now with the repaired outcome: add(a=ok, b=undeclared)
   leaves nothing behind; a rejected undeclared complex leaves nothing behind; the archive is
   then written without complaint and accepts a declared intermediate *)
Lemma former_witnesses_repaired :
  add empty_archive [("a", PReal x_elem); ("b", PReal p_plain)] = (empty_archive, Err RuntimeError) /\
  setitem empty_archive "z" (PComplex p_plain p_plain) = (empty_archive, Err RuntimeError) /\
  exists a0 a1, add empty_archive [("a", PReal x_elem)] = (a0, Ok tt) /\
    setitem a0 "z" (PComplex p_plain p_plain) = (a0, Err RuntimeError) /\
    (forall f, exists d, write ses1 a0 f = (a1, Ok d)) /\ is_written a1 = true /\
    snd (setitem a0 "m" (PReal m_interm)) = Ok tt.
Proof.
  split; [vm_compute; reflexivity|]. split; [vm_compute; reflexivity|].
  do 2 eexists. split; [vm_compute; reflexivity|]. split; [vm_compute; reflexivity|].
  split; [intros f; destruct f; eexists; vm_compute; reflexivity|]. split; vm_compute; reflexivity.
Qed.

(* extract() without names raises IndexError (not RuntimeError) in every state *)
Lemma extract_no_names : forall a, extract a [] = Err IndexError.
Proof. reflexivity. Qed.
(* add() without keywords is accepted in every state *)
Lemma add_no_kw : forall a, add a [] = (a, Ok tt).
Proof. reflexivity. Qed.
Close Scope string_scope.

(* ------------------------------------------------------------------ Part 3: write twice, copy *)
Lemma dset_length : forall K V (keq : K -> K -> bool) (d : list (K * V)) k v,
  (List.length d <= List.length (dset keq d k v))%nat.
Proof.
  intros K V keq d k v. induction d as [|[k' v'] t IH]; simpl; [lia|].
  destruct (keq k' k); simpl; lia.
Qed.

Lemma convert_reals_shape : forall items a a' r,
  convert_reals a items = (a', r) ->
  a_dump a' = a_dump a /\ a_ready a' = a_ready a /\ (alen a <= alen a')%nat.
Proof.
  induction items as [|[n v] t IH]; intros a a' r H; simpl in H.
  - injection H as <- _. auto.
  - destruct v; try (injection H as <- _; auto).
    destruct (conv_real r0); [|injection H as <- _; auto].
    apply IH in H. simpl in H. destruct H as (Hd & Hr & Hl). repeat split; auto.
    unfold alen in *. simpl in Hl. pose proof (dset_length _ _ String.eqb (a_treal a) n a0). unfold sset in Hl. lia.
Qed.

Lemma convert_complexes_shape : forall items a a' r,
  convert_complexes a items = (a', r) ->
  a_dump a' = a_dump a /\ a_ready a' = a_ready a /\ (alen a <= alen a')%nat.
Proof.
  induction items as [|[n v] t IH]; intros a a' r H; simpl in H.
  - injection H as <- _. auto.
  - destruct v; try (injection H as <- _; auto).
    destruct (conv_part _ re); [|injection H as <- _; auto].
    destruct (conv_part _ im); [|injection H as <- _; auto].
    apply IH in H. simpl in H. destruct H as (Hd & Hr & Hl). repeat split; auto.
    unfold alen in *. simpl in Hl.
    pose proof (dset_length _ _ String.eqb (a_tcomplex a) n (CFrozen (tag_re n) (tag_im n))). unfold sset in Hl. lia.
Qed.

(* a successful _freeze ends in the written state with at least as many entries *)
Lemma freeze_ok_written : forall s a a', freeze s a = (a', Ok tt) -> is_written a' = true /\ alen a' <> 0%nat.
Proof.
  intros s a a' H. unfold freeze in H.
  destruct (Nat.eqb (alen a) 0) eqn:En; [discriminate|]. apply Nat.eqb_neq in En.
  destruct (a_dump a) eqn:Hd; [|discriminate].
  destruct (a_ready a) eqn:Hr; simpl in H.
  - destruct (a_u2i a); [|discriminate].
    destruct (leafnodes _ _ _); [|discriminate].
    destruct (interm_uids _ _ _); [|discriminate].
    match type of H with context [convert_reals ?x ?y] => destruct (convert_reals x y) as [a4 r4] eqn:E4 end.
    destruct r4; [|discriminate].
    match type of H with context [convert_complexes ?x ?y] => destruct (convert_complexes x y) as [a5 r5] eqn:E5 end.
    destruct r5; [|discriminate].
    injection H as <-.
    apply convert_reals_shape in E4. apply convert_complexes_shape in E5. simpl in *.
    destruct E4 as (_ & _ & L4). destruct E5 as (_ & _ & L5).
    split; [reflexivity|]. unfold alen in *. simpl in *. lia.
  - injection H as <-. unfold is_written. rewrite Hd, Hr. auto.
Qed.

(* written: write again gives the same document, whatever happened to the session in between *)
Theorem write_twice_same : forall s a f a1 d s',
  write s a f = (a1, Ok d) -> write s' a1 f = (a1, Ok d).
Proof.
  intros s a f a1 d s' H. unfold write in *.
  destruct (freeze s a) as [a0 r] eqn:E. destruct r as [[]|]; [|discriminate].
  apply freeze_ok_written in E. destruct E as [Hw Hn].
  assert (Ha : a1 = a0 /\ d = (f, a0) /\ (f = FXml -> xml_unserialisable a0 = false)).
  { destruct f; try (injection H as <- <-; repeat split; auto; discriminate).
    destruct (xml_unserialisable a0) eqn:X; [discriminate|]. injection H as <- <-. auto. }
  destruct Ha as (-> & -> & Hx).
  rewrite (freeze_written_noop s' a0 Hw Hn).
  destruct f; try reflexivity. rewrite (Hx eq_refl). reflexivity.
Qed.

(* Archive.copy of anything returns an open archive ... *)
Theorem copy_is_open : forall s a s' a', copy s a = (s', Ok a') -> is_open a' = true.
Proof.
  intros s a s' a' H. unfold copy in H.
  destruct (a_ready (deepcopy s a)).
  - injection H as _ <-. reflexivity.
  - destruct (thaw s _ false) as [[s1 a1] r]. destruct r; [|discriminate]. injection H as _ <-. reflexivity.
Qed.

(* ... with the same tags (content) *)
Definition tags (a : archive) : list string * list string * list string :=
  (map fst (a_treal a), map fst (a_tcomplex a), map fst (a_ureal a)).

Lemma map_fst_sset_present : forall V (d : list (string * V)) k v v0,
  sget d k = Some v0 -> map fst (sset d k v) = map fst d.
Proof.
  intros V d k v v0. unfold sget, sset. induction d as [|[k' v'] t IH]; simpl; [discriminate|].
  destruct (String.eqb k' k) eqn:E; simpl; intros H; [reflexivity|]. f_equal. auto.
Qed.

Lemma sget_in_keys : forall V (d : list (string * V)) k, In k (map fst d) -> exists v, sget d k = Some v.
Proof.
  intros V d k. unfold sget. induction d as [|[k' v'] t IH]; simpl; [tauto|].
  intros [->|H]; [rewrite String.eqb_refl; eauto|]. destruct (String.eqb k' k); eauto.
Qed.

Lemma u2i_add_tags : forall a u a', u2i_add a u = Ok a' -> tags a' = tags a /\ a_dump a' = a_dump a /\ a_ready a' = a_ready a.
Proof. intros a u a' H. unfold u2i_add in H. destruct (a_u2i a); [|discriminate]. injection H as <-. auto. Qed.

Lemma thaw_reals_tags : forall s iu items a a' r,
  thaw_reals s iu a items = (a', r) -> tags a' = tags a.
Proof.
  induction items as [|[n v] t IH]; intros a a' r H; simpl in H.
  - injection H as <- _. reflexivity.
  - assert (G : forall a1, (match sget (a_treal a) n with
             | None => (a, Err KeyError)
             | Some v' => match builder s iu v' with
                 | Err e => (a, Err e)
                 | Ok r0 => a1 r0 end end) = (a', r) ->
             (forall r0 v', sget (a_treal a) n = Some v' -> a1 r0 = (a', r) -> tags a' = tags a) -> tags a' = tags a).
    { intros a1 H1 K. destruct (sget (a_treal a) n) eqn:Eg; [|injection H1 as <- _; reflexivity].
      destruct (builder s iu r0); [|injection H1 as <- _; reflexivity]. eapply K; eauto. }
    destruct v.
    + injection H as <- _. reflexivity.
    + eapply G; [exact H|]. intros r0 v' Eg H1. simpl in H1. apply IH in H1. rewrite H1.
      unfold tags; simpl. rewrite (map_fst_sset_present _ _ _ _ _ Eg). reflexivity.
    + eapply G; [exact H|]. intros r0 v' Eg H1. simpl in H1.
      assert (T : tags (w_treal a (sset (a_treal a) n (RLive r0))) = tags a).
      { unfold tags; simpl. rewrite (map_fst_sset_present _ _ _ _ _ Eg). reflexivity. }
      destruct (node_uid r0) as [u0|]; [|injection H1 as <- _; exact T].
      destruct (u2i_add _ u0) eqn:Eu; [|injection H1 as <- _; exact T].
      apply u2i_add_tags in Eu. destruct Eu as (Eu & _). apply IH in H1. congruence.
Qed.

Lemma thaw_complexes_tags : forall iu items s a s' a' r,
  (forall n v, In (n, v) items -> In n (map fst (a_tcomplex a))) ->
  thaw_complexes s iu a items = (s', a', r) -> tags a' = tags a.
Proof.
  induction items as [|[n v] t IH]; intros s a s' a' r Hin H; cbn [thaw_complexes] in H.
  - injection H as _ <- _. reflexivity.
  - destruct v as [|n_re n_im]; [injection H as _ <- _; reflexivity|].
    destruct (sget (a_ureal a) n_re) eqn:Ere; [|injection H as _ <- _; reflexivity].
    destruct (builder s iu r0) as [re|]; [|injection H as _ <- _; reflexivity].
    set (a1 := w_ureal a (sset (a_ureal a) n_re (RLive re))) in *.
    assert (T1 : tags a1 = tags a).
    { unfold tags, a1; simpl. rewrite (map_fst_sset_present _ _ _ _ _ Ere). reflexivity. }
    destruct (sget (a_ureal a1) n_im) eqn:Eim; [|injection H as _ <- _; exact T1].
    destruct (builder s iu r1) as [im|]; [|injection H as _ <- _; exact T1].
    set (a2 := w_ureal a1 (sset (a_ureal a1) n_im (RLive im))) in *.
    assert (T2 : tags a2 = tags a).
    { rewrite <- T1. unfold tags, a2; simpl. rewrite (map_fst_sset_present _ _ _ _ _ Eim). reflexivity. }
    destruct (negb (Bool.eqb (is_elem re) (is_elem im))); [injection H as _ <- _; exact T2|].
    destruct (negb (Bool.eqb (is_interm re) (is_interm im))); [injection H as _ <- _; exact T2|].
    match type of H with context [thaw_complexes ?ss _ _ _] => set (s1 := ss) in * end.
    set (a3 := w_tcomplex a2 (sset (a_tcomplex a2) n (CLive re im))) in *.
    assert (Hn : In n (map fst (a_tcomplex a))) by (eapply Hin; left; reflexivity).
    assert (T3 : tags a3 = tags a).
    { rewrite <- T2. unfold tags, a3; simpl.
      assert (Hn2 : In n (map fst (a_tcomplex a2))) by (unfold a2, a1; simpl; exact Hn).
      destruct (sget_in_keys _ _ _ Hn2) as [v0 Hv0].
      rewrite (map_fst_sset_present _ _ _ _ _ Hv0). reflexivity. }
    assert (Hin3 : forall a4, tags a4 = tags a -> forall n0 v0, In (n0, v0) t -> In n0 (map fst (a_tcomplex a4))).
    { intros a4 T4 n0 v0 Hi. assert (Q : map fst (a_tcomplex a4) = map fst (a_tcomplex a)) by (unfold tags in T4; congruence).
      rewrite Q. eapply Hin. right. exact Hi. }
    destruct (is_interm re).
    + destruct (node_uid re) as [ur|]; [|injection H as _ <- _; exact T3].
      destruct (node_uid im) as [ui|]; [|injection H as _ <- _; exact T3].
      destruct (u2i_add a3 ur) as [a4|] eqn:E4; [|injection H as _ <- _; exact T3].
      apply u2i_add_tags in E4. destruct E4 as (E4 & _).
      destruct (u2i_add a4 ui) as [a5|] eqn:E5; [|injection H as _ <- _; congruence].
      apply u2i_add_tags in E5. destruct E5 as (E5 & _).
      apply IH in H; [congruence|]. apply Hin3. congruence.
    + apply IH in H; [congruence|]. apply Hin3. exact T3.
Qed.

Lemma thaw_tags : forall s a b s' a' r, thaw s a b = (s', a', r) -> tags a' = tags a.
Proof.
  intros s a b s' a' r H. unfold thaw in H.
  destruct (a_dump a); [injection H as _ <- _; reflexivity|].
  destruct (a_ready a); [injection H as _ <- _; reflexivity|].
  destruct (a_leafn a) as [ln|]; [|injection H as _ <- _; reflexivity].
  destruct (a_iuids a) as [iu|]; [|injection H as _ <- _; reflexivity].
  destruct (thaw_leaves s ln) as [s1 r1]. destruct r1 as [[]|e1]; [|injection H as _ <- _; reflexivity].
  destruct (thaw_nodes s1 iu) as [s2 r2]. destruct r2 as [[]|e2]; [|injection H as _ <- _; reflexivity].
  destruct (thaw_reals s2 iu _ _) as [a2 r3] eqn:E3. apply thaw_reals_tags in E3.
  assert (T0 : tags (w_u2i a (Some [])) = tags a) by reflexivity.
  destruct r3 as [[]|e3]; [|injection H as _ <- _; congruence].
  destruct (thaw_complexes s2 iu a2 _) as [[s3 a3] r4] eqn:E4.
  apply thaw_complexes_tags in E4.
  - destruct r4 as [[]|e4]; injection H as _ <- _; unfold tags in *; simpl; congruence.
  - intros n v Hi. apply (in_map fst) in Hi. exact Hi.
Qed.

Lemma deepcopy_tags : forall s a, tags (deepcopy s a) = tags a.
Proof. intros s a. unfold tags, deepcopy; simpl. rewrite !map_map. simpl. reflexivity. Qed.

Theorem copy_same_tags : forall s a s' a', copy s a = (s', Ok a') -> tags a' = tags a.
Proof.
  intros s a s' a' H. unfold copy in H.
  destruct (a_ready (deepcopy s a)).
  - injection H as _ <-. rewrite <- (deepcopy_tags s a). reflexivity.
  - destruct (thaw s _ false) as [[s1 a1] r] eqn:E. destruct r; [|discriminate]. injection H as _ <-.
    apply thaw_tags in E. rewrite <- (deepcopy_tags s a). unfold tags in *. simpl in *. exact E.
Qed.

(* copying an open or thawed archive touches nothing else *)
Theorem copy_ready_pure : forall s a, a_ready a = true -> fst (copy s a) = s.
Proof. intros s a H. unfold copy. replace (a_ready (deepcopy s a)) with true by (simpl; auto). reflexivity. Qed.

(* ------------------------------------------------------------------ Part 3b: the rows at the level of [step] *)
Lemma set_nth_same : forall A (l : list A) n x, nth_error l n = Some x -> set_nth l n x = l.
Proof.
  induction l as [|h t IH]; intros n x H; destruct n; simpl in *; try discriminate.
  - injection H as ->. reflexivity.
  - f_equal. auto.
Qed.

Lemma resolve_kw_nonempty : forall objs kw kwo, resolve_kw objs kw = Some kwo -> kw <> [] -> kwo <> [].
Proof.
  intros objs kw kwo H Hn. destruct kw as [|[k i] t]; [congruence|]. simpl in H.
  destruct (nth_error objs i); [|discriminate]. destruct (resolve_kw objs t); [|discriminate].
  injection H as <-. discriminate.
Qed.

(* the weak registries: [gc_state] only removes nodes nothing refers to *)
Lemma uid_eqb_eq : forall a b, uid_eqb a b = true <-> a = b.
Proof.
  intros [a1 a2] [b1 b2]. unfold uid_eqb; simpl. rewrite andb_true_iff, !Z.eqb_eq.
  split; [intros [-> ->]; reflexivity | intros H; injection H; auto].
Qed.

Lemma filter_idem : forall A (f : A -> bool) l, filter f (filter f l) = filter f l.
Proof.
  intros A f l. induction l as [|h t IH]; simpl; [reflexivity|].
  destruct (f h) eqn:E; simpl; [rewrite E, IH; reflexivity | exact IH].
Qed.

Lemma lget_filter_kept : forall (g : uid -> bool) (d : list (uid * leaf)) u,
  g u = true -> lget (filter (fun p => g (fst p)) d) u = lget d u.
Proof.
  intros g d u Hg. unfold lget. induction d as [|[k v] t IH]; simpl; [reflexivity|].
  destruct (uid_eqb k u) eqn:E.
  - apply uid_eqb_eq in E. subst k. rewrite Hg. simpl.
    replace (uid_eqb u u) with true by (symmetry; apply uid_eqb_eq; reflexivity). reflexivity.
  - destruct (g k); simpl; [rewrite E|]; exact IH.
Qed.

Lemma lget_filter_sub : forall (g : uid -> bool) (d : list (uid * leaf)) u l,
  lget (filter (fun p => g (fst p)) d) u = Some l -> lget d u = Some l.
Proof.
  intros g d u l. unfold lget. induction d as [|[k v] t IH]; simpl; [discriminate|].
  destruct (uid_eqb k u) eqn:E.
  - apply uid_eqb_eq in E. subst k. destruct (g u) eqn:Hg; simpl.
    + replace (uid_eqb u u) with true by (symmetry; apply uid_eqb_eq; reflexivity). auto.
    + intros H. exfalso. clear IH.
      induction t as [|[k' v'] t' IH']; simpl in H; [discriminate|].
      destruct (g k') eqn:Hg'; simpl in H; [|auto].
      destruct (uid_eqb k' u) eqn:E'; [apply uid_eqb_eq in E'; congruence | auto].
  - destruct (g k); simpl; [rewrite E|]; exact IH.
Qed.

Definition stable (st : state) : Prop := gc_state st = st.

Lemma gc_idem : forall st, gc_state (gc_state st) = gc_state st.
Proof.
  intros st. unfold gc_state at 1. simpl.
  change (leaf_refs (gc_state st)) with (leaf_refs st). change (node_refs (gc_state st)) with (node_refs st).
  rewrite !filter_idem. reflexivity.
Qed.

Lemma step_stable : forall st o, stable (fst (step st o)).
Proof. intros st o. unfold step, stable. simpl. apply gc_idem. Qed.

Lemma run_stable_from : forall h st, stable st -> stable (run st h).
Proof. induction h as [|o t IH]; intros st H; simpl; [exact H|]. apply IH. apply step_stable. Qed.

(* every state a history reaches is stable *)
Theorem run_stable : forall k0 h, stable (run (init_state k0) h).
Proof. intros k0 h. apply run_stable_from. reflexivity. Qed.

Lemma step_of_step0_same : forall st o x, stable st -> step0 st o = (st, x) -> step st o = (st, x).
Proof. intros st o x Hs H. unfold step. rewrite H. simpl. rewrite Hs. reflexivity. Qed.

(* gc never changes an attribute, and keeps every leaf a live number refers to *)
Lemma gc_sub : forall st u l,
  lget (s_leaves (st_ses (gc_state st))) u = Some l -> lget (s_leaves (st_ses st)) u = Some l.
Proof. intros st u l. unfold gc_state; simpl. apply (lget_filter_sub (fun k => existsb (uid_eqb k) (leaf_refs st))). Qed.

Lemma existsb_uid_in : forall u l, In u l -> existsb (uid_eqb u) l = true.
Proof. intros u l H. apply existsb_exists. exists u. split; [exact H | apply uid_eqb_eq; reflexivity]. Qed.

Lemma gc_keeps : forall st u, In u (leaf_refs st) ->
  lget (s_leaves (st_ses (gc_state st))) u = lget (s_leaves (st_ses st)) u.
Proof.
  intros st u H. unfold gc_state; simpl.
  apply (lget_filter_kept (fun k => existsb (uid_eqb k) (leaf_refs st))). apply existsb_uid_in. exact H.
Qed.

Lemma gc_counters : forall st, s_id (st_ses (gc_state st)) = s_id (st_ses st) /\ s_ne (st_ses (gc_state st)) = s_ne (st_ses st)
  /\ s_ni (st_ses (gc_state st)) = s_ni (st_ses st) /\ st_objs (gc_state st) = st_objs st /\ st_ars (gc_state st) = st_ars st
  /\ st_docs (gc_state st) = st_docs st.
Proof. intros st. unfold gc_state; simpl. repeat split. Qed.

(* a rejected operation returns RuntimeError and leaves the WHOLE state (every archive, the
   session, the live numbers, the documents) exactly as it was *)
Theorem step_rejections : forall st ar a,
  stable st -> nth_error (st_ars st) ar = Some a ->
  (is_open a = false -> forall kw kwo, kw <> [] -> resolve_kw (st_objs st) kw = Some kwo ->
      step st (OAdd ar kw) = (st, OutErr RuntimeError)) /\
  (is_thawed a = false -> forall names, names <> [] -> step st (OExtract ar names) = (st, OutErr RuntimeError)) /\
  (a_dump a = false -> forall f, step st (OWrite ar f) = (st, OutErr RuntimeError)) /\
  (alen a = 0%nat -> forall f, step st (OWrite ar f) = (st, OutErr RuntimeError)) /\
  (a_dump a = true -> step st (OThaw ar) = (st, OutErr RuntimeError)).
Proof.
  intros st ar a Hs Ha.
  repeat split.
  - intros Ho kw kwo Hkw Hr. apply step_of_step0_same; [exact Hs|].
    destruct st as [ses objs ars docs]; simpl in *. rewrite Ha, Hr.
    rewrite (add_rejects a kwo Ho (resolve_kw_nonempty _ _ _ Hr Hkw)).
    unfold w_ars; simpl. rewrite (set_nth_same _ _ _ _ Ha). reflexivity.
  - intros Ht names Hn. apply step_of_step0_same; [exact Hs|].
    destruct st as [ses objs ars docs]; simpl in *. rewrite Ha. rewrite (extract_rejects a names Ht Hn). reflexivity.
  - intros Hd f. apply step_of_step0_same; [exact Hs|].
    destruct st as [ses objs ars docs]; simpl in *. rewrite Ha. rewrite (write_rejects ses a f Hd).
    unfold w_ars; simpl. rewrite (set_nth_same _ _ _ _ Ha). reflexivity.
  - intros He f. apply step_of_step0_same; [exact Hs|].
    destruct st as [ses objs ars docs]; simpl in *. rewrite Ha. rewrite (write_empty ses a f He).
    unfold w_ars; simpl. rewrite (set_nth_same _ _ _ _ Ha). reflexivity.
  - intros Hd. apply step_of_step0_same; [exact Hs|].
    destruct st as [ses objs ars docs]; simpl in *. rewrite Ha. rewrite (thaw_rejects ses a true Hd).
    rewrite (set_nth_same _ _ _ _ Ha). reflexivity.
Qed.

(* isolation: add / write / extract do not touch the session (step0); the registries afterwards
   are the old ones minus nodes no live number refers to any more (a written archive no longer
   holds numbers): every leaf still registered has the attributes it had, and every leaf that a
   live number (st_objs) refers to is still there *)
Definition session_preserved (st st' : state) : Prop :=
  s_id (st_ses st') = s_id (st_ses st) /\ s_ne (st_ses st') = s_ne (st_ses st) /\ s_ni (st_ses st') = s_ni (st_ses st) /\
  (forall u l, lget (s_leaves (st_ses st')) u = Some l -> lget (s_leaves (st_ses st)) u = Some l) /\
  (forall u, In u (flat_map pyobj_leaf_refs (st_objs st')) ->
             lget (s_leaves (st_ses st')) u = lget (s_leaves (st_ses st)) u).

Lemma session_preserved_gc : forall st st0,
  st_ses st0 = st_ses st -> session_preserved st (gc_state st0).
Proof.
  intros st st0 Hs. destruct (gc_counters st0) as (H1 & H2 & H3 & H4 & _).
  unfold session_preserved. rewrite H1, H2, H3, Hs. repeat split; auto.
  - intros u l H. rewrite <- Hs. apply gc_sub. exact H.
  - intros u H. rewrite <- Hs. apply gc_keeps. rewrite H4 in H.
    unfold leaf_refs, live_objs. rewrite flat_map_app. apply in_or_app. left. exact H.
Qed.

Lemma step0_extract_pure : forall st ar names,
  st_ses (fst (step0 st (OExtract ar names))) = st_ses st /\
  st_ars (fst (step0 st (OExtract ar names))) = st_ars st /\
  st_docs (fst (step0 st (OExtract ar names))) = st_docs st.
Proof.
  intros st ar names. simpl. destruct (nth_error (st_ars st) ar); [|auto].
  destruct (extract a names); simpl; auto.
Qed.

Lemma step0_write_pure : forall st ar f,
  st_ses (fst (step0 st (OWrite ar f))) = st_ses st /\ st_objs (fst (step0 st (OWrite ar f))) = st_objs st.
Proof.
  intros st ar f. simpl. destruct (nth_error (st_ars st) ar); [|auto].
  destruct (write (st_ses st) a f) as [a1 r]. destruct r; simpl; auto.
Qed.

Lemma step0_add_pure : forall st ar kw,
  st_ses (fst (step0 st (OAdd ar kw))) = st_ses st /\ st_objs (fst (step0 st (OAdd ar kw))) = st_objs st /\
  st_docs (fst (step0 st (OAdd ar kw))) = st_docs st.
Proof.
  intros st ar kw. simpl. destruct (nth_error (st_ars st) ar); [|auto].
  destruct (resolve_kw (st_objs st) kw); [|auto]. destruct (add a l) as [a1 r]. destruct r; simpl; auto.
Qed.

Lemma step_fst : forall st o, fst (step st o) = gc_state (fst (step0 st o)).
Proof. reflexivity. Qed.
Lemma step_snd : forall st o, snd (step st o) = snd (step0 st o).
Proof. reflexivity. Qed.
Opaque step0.

Theorem step_write_pure : forall st ar f,
  session_preserved st (fst (step st (OWrite ar f))) /\ st_objs (fst (step st (OWrite ar f))) = st_objs st.
Proof.
  intros st ar f. destruct (step0_write_pure st ar f) as [H1 H2]. rewrite !step_fst. split.
  - apply session_preserved_gc. exact H1.
  - destruct (gc_counters (fst (step0 st (OWrite ar f)))) as (_ & _ & _ & H4 & _). congruence.
Qed.

Theorem step_add_pure : forall st ar kw,
  session_preserved st (fst (step st (OAdd ar kw))) /\ st_objs (fst (step st (OAdd ar kw))) = st_objs st /\
  st_docs (fst (step st (OAdd ar kw))) = st_docs st.
Proof.
  intros st ar kw. destruct (step0_add_pure st ar kw) as (H1 & H2 & H3). rewrite !step_fst.
  destruct (gc_counters (fst (step0 st (OAdd ar kw)))) as (_ & _ & _ & H4 & _ & H6).
  split; [apply session_preserved_gc; exact H1 | split; congruence].
Qed.

Theorem step_extract_pure : forall st ar names,
  session_preserved st (fst (step st (OExtract ar names))) /\
  st_ars (fst (step st (OExtract ar names))) = st_ars st /\
  st_docs (fst (step st (OExtract ar names))) = st_docs st.
Proof.
  intros st ar names. destruct (step0_extract_pure st ar names) as (H1 & H2 & H3). rewrite !step_fst.
  destruct (gc_counters (fst (step0 st (OExtract ar names)))) as (_ & _ & _ & _ & H5 & H6).
  split; [apply session_preserved_gc; exact H1 | split; congruence].
Qed.

Theorem step_write_again : forall st ar f a d,
  stable st -> nth_error (st_ars st) ar = Some a -> is_written a = true -> alen a <> 0%nat ->
  write (st_ses st) a f = (a, Ok d) ->
  fst (step st (OWrite ar f)) = w_docs st (st_docs st ++ [d]) /\ snd (step st (OWrite ar f)) = OutOk.
Proof.
  intros st ar f a d Hs Ha Hw Hn Hwr.
  assert (E : step0 st (OWrite ar f) = (w_docs st (st_docs st ++ [d]), OutOk)).
  { Transparent step0. destruct st as [ses objs ars docs]. simpl in *. rewrite Ha, Hwr. rewrite (set_nth_same _ _ _ _ Ha). reflexivity. }
  Opaque step0.
  rewrite step_fst, step_snd, E. simpl. split; [|reflexivity].
  unfold stable in Hs. unfold gc_state in *. destruct st as [ses objs ars docs]; simpl in *.
  unfold w_docs; simpl. injection Hs as Hs1. f_equal.
  change (leaf_refs (mkSt ses objs ars (docs ++ [d]))) with (leaf_refs (mkSt ses objs ars docs)).
  change (node_refs (mkSt ses objs ars (docs ++ [d]))) with (node_refs (mkSt ses objs ars docs)). exact Hs1.
Qed.

Transparent step0.
Transparent step0.
(* ------------------------------------------------------------------ Part 3c: reading keeps what live leaves know *)
(* [leaf_le l l']: l' is the same node (label, u, df, independent) and knows every correlation l knows *)
Definition leaf_le (l l' : leaf) : Prop :=
  l_label l' = l_label l /\ l_u l' = l_u l /\ l_df l' = l_df l /\ l_indep l' = l_indep l /\
  forall c v r, l_corr l = Some c -> dget uid_eqb c v = Some r ->
                exists c', l_corr l' = Some c' /\ dget uid_eqb c' v = Some r.
Lemma leaf_le_refl : forall l, leaf_le l l.
Proof. intros l. unfold leaf_le. repeat split; auto. intros c v r H1 H2. eauto. Qed.
Lemma leaf_le_trans : forall a b c, leaf_le a b -> leaf_le b c -> leaf_le a c.
Proof.
  intros a b c (A1 & A2 & A3 & A4 & A5) (B1 & B2 & B3 & B4 & B5). unfold leaf_le.
  repeat split; try congruence. intros x v r H1 H2. destruct (A5 _ _ _ H1 H2) as (c' & H3 & H4). eauto.
Qed.

Definition keeps (s s' : session) : Prop :=
  forall u l, lget (s_leaves s) u = Some l -> exists l', lget (s_leaves s') u = Some l' /\ leaf_le l l'.
Lemma keeps_refl : forall s, keeps s s.
Proof. intros s u l H. exists l. split; [exact H | apply leaf_le_refl]. Qed.
Lemma keeps_trans : forall a b c, keeps a b -> keeps b c -> keeps a c.
Proof.
  intros a b c H1 H2 u l H. destruct (H1 _ _ H) as (l1 & G1 & L1). destruct (H2 _ _ G1) as (l2 & G2 & L2).
  exists l2. split; [exact G2 | eapply leaf_le_trans; eauto].
Qed.
Lemma keeps_same_leaves : forall s s', s_leaves s' = s_leaves s -> keeps s s'.
Proof. intros s s' H u l G. exists l. rewrite H. split; [exact G | apply leaf_le_refl]. Qed.

Lemma uid_eqb_refl : forall u, uid_eqb u u = true.
Proof. intros u. apply uid_eqb_eq. reflexivity. Qed.

Lemma lget_lset : forall d u l u', lget (lset d u l) u' = if uid_eqb u u' then Some l else lget d u'.
Proof.
  intros d u l u'. unfold lget, lset. induction d as [|[k v] t IH]; simpl; [reflexivity|].
  destruct (uid_eqb k u) eqn:E; simpl.
  - apply uid_eqb_eq in E. subst k. destruct (uid_eqb u u'); reflexivity.
  - rewrite IH. destruct (uid_eqb k u') eqn:E2; [|reflexivity].
    destruct (uid_eqb u u') eqn:E3; [|reflexivity].
    apply uid_eqb_eq in E2. apply uid_eqb_eq in E3. subst. rewrite uid_eqb_refl in E. discriminate.
Qed.

Lemma dget_app_keep : forall (c : list (uid * Z)) x v r, dget uid_eqb c v = Some r -> dget uid_eqb (c ++ x) v = Some r.
Proof.
  induction c as [|[k w] t IH]; intros x v r H; simpl in *; [discriminate|].
  destruct (uid_eqb k v); auto.
Qed.

Lemma corr_merge_keeps : forall arch c v r, dget uid_eqb c v = Some r -> dget uid_eqb (corr_merge c arch) v = Some r.
Proof.
  induction arch as [|[k w] t IH]; intros c v r H; simpl; [exact H|].
  apply IH. destruct (dmem uid_eqb c k); [exact H | apply dget_app_keep; exact H].
Qed.

Lemma thaw_leaves_keeps : forall ln s s' r, thaw_leaves s ln = (s', r) -> keeps s s'.
Proof.
  induction ln as [|[u fl] t IH]; intros s s' r H; simpl in H.
  - injection H as <- _. apply keeps_refl.
  - unfold new_leaf in H. unfold dmem in H. fold (lget (s_leaves s) u) in H.
    destruct (lget (s_leaves s) u) as [l0|] eqn:E0.
    + destruct (leaf_same _ _ _ _ l0); [|injection H as <- _; apply keeps_refl].
      apply IH in H. eapply keeps_trans; [|exact H].
      intros u' l Hl. simpl. rewrite lget_lset. destruct (uid_eqb u u') eqn:E.
      * apply uid_eqb_eq in E. subst u'. rewrite E0 in Hl. injection Hl as <-.
        eexists. split; [reflexivity|]. unfold leaf_le; simpl. repeat split; auto.
        intros c v r0 Hc Hv. rewrite Hc. unfold thaw_corr. destruct (l_corr fl) as [c'|]; eauto.
        eexists. split; [reflexivity|]. apply corr_merge_keeps. exact Hv.
      * exists l. split; [exact Hl | apply leaf_le_refl].
    + apply IH in H. eapply keeps_trans; [|exact H].
      intros u' l Hl. simpl. rewrite !lget_lset. destruct (uid_eqb u u') eqn:E.
      * apply uid_eqb_eq in E. subst u'. congruence.
      * exists l. split; [exact Hl | apply leaf_le_refl].
Qed.

Lemma thaw_nodes_leaves : forall iu s s' r, thaw_nodes s iu = (s', r) -> s_leaves s' = s_leaves s.
Proof.
  induction iu as [|[u sg] t IH]; intros s s' r H; simpl in H.
  - injection H as <- _. reflexivity.
  - unfold new_node in H. destruct (dget ouid_eqb (s_nodes s) u).
    + destruct (_ && _); [|injection H as <- _; reflexivity]. apply IH in H. exact H.
    + apply IH in H. simpl in H. exact H.
Qed.

Lemma set_complex_keeps : forall s u c, keeps s (set_complex s u c).
Proof.
  intros s u c. unfold set_complex. destruct (lget (s_leaves s) u) as [l0|] eqn:E0; [|apply keeps_refl].
  intros u' l Hl. simpl. rewrite lget_lset. destruct (uid_eqb u u') eqn:E.
  - apply uid_eqb_eq in E. subst u'. rewrite E0 in Hl. injection Hl as <-.
    eexists. split; [reflexivity|]. unfold leaf_le; simpl. repeat split; auto. intros; eauto.
  - exists l. split; [exact Hl | apply leaf_le_refl].
Qed.

Lemma thaw_complexes_keeps : forall iu items s a s' a' r,
  thaw_complexes s iu a items = (s', a', r) -> keeps s s'.
Proof.
  induction items as [|[n v] t IH]; intros s a s' a' r H; cbn [thaw_complexes] in H.
  - injection H as <- _ _. apply keeps_refl.
  - destruct v as [|n_re n_im]; [injection H as <- _ _; apply keeps_refl|].
    destruct (sget (a_ureal a) n_re); [|injection H as <- _ _; apply keeps_refl].
    destruct (builder s iu r0) as [re|]; [|injection H as <- _ _; apply keeps_refl].
    destruct (sget _ n_im); [|injection H as <- _ _; apply keeps_refl].
    destruct (builder s iu r1) as [im|]; [|injection H as <- _ _; apply keeps_refl].
    destruct (negb (Bool.eqb (is_elem re) (is_elem im))); [injection H as <- _ _; apply keeps_refl|].
    destruct (negb (Bool.eqb (is_interm re) (is_interm im))); [injection H as <- _ _; apply keeps_refl|].
    match type of H with context [thaw_complexes ?ss _ _ _] => set (s1 := ss) in * end.
    assert (C1 : keeps s s1).
    { unfold s1. destruct (r_node re); try apply keeps_refl. destruct (r_node im); try apply keeps_refl.
      eapply keeps_trans; apply set_complex_keeps. }
    destruct (is_interm re).
    + destruct (node_uid re) as [o1|]; [|injection H as <- _ _; exact C1].
      destruct (node_uid im) as [o2|]; [|injection H as <- _ _; exact C1].
      destruct (u2i_add _ o1); [|injection H as <- _ _; exact C1].
      destruct (u2i_add _ o2); [|injection H as <- _ _; exact C1].
      apply IH in H. eapply keeps_trans; eauto.
    + apply IH in H. eapply keeps_trans; eauto.
Qed.

(* what _thaw created and nothing refers to is dropped again, never a node that was registered before *)
Lemma collect_keeps : forall s0 s kl kn, keeps s0 s -> keeps s0 (collect s0 s kl kn).
Proof.
  intros s0 s kl kn H u l Hl. destruct (H _ _ Hl) as (l' & G & L). exists l'. split; [|exact L].
  unfold collect; simpl.
  rewrite (lget_filter_kept (fun k => dmem uid_eqb (s_leaves s0) k || existsb (uid_eqb k) kl)); [exact G|].
  unfold dmem. fold (lget (s_leaves s0) u). rewrite Hl. reflexivity.
Qed.

Theorem thaw_keeps : forall s a b s' a' r, thaw s a b = (s', a', r) -> keeps s s'.
Proof.
  intros s a b s' a' r H. unfold thaw in H.
  destruct (a_dump a); [injection H as <- _ _; apply keeps_refl|].
  destruct (a_ready a); [injection H as <- _ _; apply keeps_refl|].
  destruct (a_leafn a) as [ln|]; [|injection H as <- _ _; apply keeps_refl].
  destruct (a_iuids a) as [iu|]; [|injection H as <- _ _; apply keeps_refl].
  destruct (thaw_leaves s ln) as [s1 r1] eqn:E1. apply thaw_leaves_keeps in E1.
  destruct r1 as [[]|e1]; [|injection H as <- _ _; apply collect_keeps; exact E1].
  destruct (thaw_nodes s1 iu) as [s2 r2] eqn:E2. apply thaw_nodes_leaves in E2.
  assert (C2 : keeps s s2) by (eapply keeps_trans; [exact E1 | apply keeps_same_leaves; exact E2]).
  destruct r2 as [[]|e2]; [|injection H as <- _ _; apply collect_keeps; exact C2].
  destruct (thaw_reals s2 iu _ _) as [a2 r3].
  destruct r3 as [[]|e3]; [|injection H as <- _ _; destruct b; apply collect_keeps; exact C2].
  destruct (thaw_complexes s2 iu a2 _) as [[s3 a3] r4] eqn:E4. apply thaw_complexes_keeps in E4.
  assert (C3 : keeps s s3) by (eapply keeps_trans; eauto).
  destruct r4 as [[]|e4]; injection H as <- _ _; [exact C3 | destruct b; apply collect_keeps; exact C3].
Qed.

Lemma read_keeps : forall s d s' r, read s d = (s', r) -> keeps s s'.
Proof.
  intros s d s' r H. unfold read in H. destruct (thaw s (decode d) false) as [[s1 a1] r1] eqn:E.
  apply thaw_keeps in E. destruct r1; injection H as <- _; exact E.
Qed.
Lemma copy_keeps : forall s a s' r, copy s a = (s', r) -> keeps s s'.
Proof.
  intros s a s' r H. unfold copy in H. destruct (a_ready (deepcopy s a)); [injection H as <- _; apply keeps_refl|].
  destruct (thaw s _ false) as [[s1 a1] r1] eqn:E. apply thaw_keeps in E. destruct r1; injection H as <- _; exact E.
Qed.

(* at the level of histories: loading a document, copying an archive or thawing one, succeeding
   or failing, never removes a leaf a live number refers to, never changes its label, u, df,
   independent, and never removes or changes a correlation it knows *)
Definition load_op (o : op) : bool :=
  match o with ORead _ | OCopy _ | OThaw _ | OReadRaw _ => true | _ => false end.

Lemma step0_load_keeps : forall st o, load_op o = true ->
  keeps (st_ses st) (st_ses (fst (step0 st o))) /\ st_objs (fst (step0 st o)) = st_objs st.
Proof.
  intros st o Ho. destruct o; try discriminate; simpl.
  - destruct (nth_error (st_docs st) d); [|split; [apply keeps_refl | reflexivity]].
    destruct (read (st_ses st) d0) as [s1 r] eqn:E. apply read_keeps in E. destruct r; simpl; auto.
  - destruct (nth_error (st_docs st) d) as [[[] a]|]; simpl; split; try apply keeps_refl; reflexivity.
  - destruct (nth_error (st_ars st) ar); [|split; [apply keeps_refl | reflexivity]].
    destruct (thaw (st_ses st) a true) as [[s1 a1] r] eqn:E. apply thaw_keeps in E. destruct r; simpl; auto.
  - destruct (nth_error (st_ars st) ar); [|split; [apply keeps_refl | reflexivity]].
    destruct (copy (st_ses st) a) as [s1 r] eqn:E. apply copy_keeps in E. destruct r; simpl; auto.
Qed.

Theorem step_load_keeps : forall st o u l,
  load_op o = true ->
  In u (flat_map pyobj_leaf_refs (st_objs st)) -> lget (s_leaves (st_ses st)) u = Some l ->
  exists l', lget (s_leaves (st_ses (fst (step st o)))) u = Some l' /\ leaf_le l l'.
Proof.
  intros st o u l Ho Hin Hl. destruct (step0_load_keeps st o Ho) as [K Hobjs].
  destruct (K _ _ Hl) as (l' & G & L). exists l'. split; [|exact L].
  change (fst (step st o)) with (gc_state (fst (step0 st o))).
  rewrite gc_keeps; [exact G|].
  unfold leaf_refs, live_objs. rewrite flat_map_app. apply in_or_app. left. rewrite Hobjs. exact Hin.
Qed.

(* the history that used to lose a correlation (r(y1,y3) declared after the dump of {y1,y2}) *)
Open Scope string_scope.
Definition hist17 : list op :=
  [ODeclReal None 16 (-1) false; ODeclReal None 16 (-1) false; ODeclReal None 16 (-1) false;
   OSetCorr 0 1 4; OArchive; OAdd 0 [("y1", 0%nat); ("y2", 1%nat)]; OWrite 0 FJson; OSetCorr 0 2 2].
Close Scope string_scope.
Definition corr_of (st : state) (u v : uid) : option Z :=
  match lget (s_leaves (st_ses st)) u with
  | Some l => match l_corr l with Some c => dget uid_eqb c v | None => None end
  | None => None
  end.
Lemma hist17_repaired :
  let st := run (init_state 1) hist17 in
  snd (step st (ORead 0)) = OutOk /\ snd (step st (OCopy 0)) = OutOk /\
  corr_of st (1, 1) (1, 3) = Some 2 /\ corr_of st (1, 3) (1, 1) = Some 2 /\
  corr_of (fst (step st (ORead 0))) (1, 1) (1, 3) = Some 2 /\ corr_of (fst (step st (ORead 0))) (1, 1) (1, 2) = Some 4 /\
  corr_of (fst (step st (OCopy 0))) (1, 1) (1, 3) = Some 2 /\
  s_leaves (st_ses (fst (step st (ORead 0)))) = s_leaves (st_ses st).
Proof. vm_compute. repeat split; reflexivity. Qed.

(* a JSON document is read exactly as the pickled frozen archive is: jason_to_leaf restores the
   `complex` pairing as the tuple the other readers build (before the repair it was a list, the
   live leaves were overwritten with it and live numbers reported another dof) *)
Theorem read_json_as_pickle : forall s a, read s (FJson, a) = read s (FPickle, a).
Proof.
  intros s a. unfold read, decode, thaw. simpl.
  destruct (a_leafn a) as [ln|]; [|reflexivity].
  destruct (a_iuids a) as [iu|]; [|reflexivity].
  destruct (thaw_leaves s ln) as [s1 [[]|e1]]; [|reflexivity].
  destruct (thaw_nodes s1 iu) as [s2 [[]|e2]]; reflexivity.
Qed.

Open Scope string_scope.
Definition hist20 : list op :=
  [ODeclComplex None 16 8 5 false; OMul 0 0; OResult 1 None 1 2; OArchive; OAdd 0 [("q", 2%nat)]; OWrite 0 FJson].
Close Scope string_scope.
Lemma hist20_repaired :
  let st := run (init_state 1) hist20 in
  snd (step st (ORead 0)) = OutOk /\ st_ses (fst (step st (ORead 0))) = st_ses st.
Proof. vm_compute. split; reflexivity. Qed.

(* ------------------------------------------------------------------ Part 4: fresh uids *)
(* loading never touches the context id or the counters ... *)
Lemma new_leaf_counters : forall s u lbl lu df ind s' l,
  new_leaf s u lbl lu df ind = Ok (s', l) -> s_id s' = s_id s /\ s_ne s' = s_ne s /\ s_ni s' = s_ni s.
Proof.
  intros s u lbl lu df ind s' l H. unfold new_leaf in H. destruct (lget (s_leaves s) u).
  - destruct (leaf_same _ _ _ _ _); [|discriminate]. injection H as <- _. auto.
  - injection H as <- _. auto.
Qed.

Lemma thaw_leaves_counters : forall ln s s' r,
  thaw_leaves s ln = (s', r) -> s_id s' = s_id s /\ s_ne s' = s_ne s /\ s_ni s' = s_ni s.
Proof.
  induction ln as [|[u fl] t IH]; intros s s' r H; simpl in H.
  - injection H as <- _. auto.
  - destruct (new_leaf s u _ _ _ _) as [[s1 l]|] eqn:E; [|injection H as <- _; auto].
    apply new_leaf_counters in E. apply IH in H. simpl in H. intuition congruence.
Qed.

Lemma thaw_nodes_counters : forall iu s s' r,
  thaw_nodes s iu = (s', r) -> s_id s' = s_id s /\ s_ne s' = s_ne s /\ s_ni s' = s_ni s.
Proof.
  induction iu as [|[u sg] t IH]; intros s s' r H; simpl in H.
  - injection H as <- _. auto.
  - unfold new_node in H. destruct (dget ouid_eqb (s_nodes s) u).
    + destruct (_ && _); [|injection H as <- _; auto]. apply IH in H. exact H.
    + apply IH in H. simpl in H. exact H.
Qed.

Lemma set_complex_counters : forall s u c,
  s_id (set_complex s u c) = s_id s /\ s_ne (set_complex s u c) = s_ne s /\ s_ni (set_complex s u c) = s_ni s.
Proof. intros s u c. unfold set_complex. destruct (lget (s_leaves s) u); simpl; auto. Qed.

Lemma thaw_complexes_counters : forall iu items s a s' a' r,
  thaw_complexes s iu a items = (s', a', r) -> s_id s' = s_id s /\ s_ne s' = s_ne s /\ s_ni s' = s_ni s.
Proof.
  induction items as [|[n v] t IH]; intros s a s' a' r H; cbn [thaw_complexes] in H.
  - injection H as <- _ _. auto.
  - destruct v as [|n_re n_im]; [injection H as <- _ _; auto|].
    destruct (sget (a_ureal a) n_re); [|injection H as <- _ _; auto].
    destruct (builder s iu r0) as [re|]; [|injection H as <- _ _; auto].
    destruct (sget _ n_im); [|injection H as <- _ _; auto].
    destruct (builder s iu r1) as [im|]; [|injection H as <- _ _; auto].
    destruct (negb (Bool.eqb (is_elem re) (is_elem im))); [injection H as <- _ _; auto|].
    destruct (negb (Bool.eqb (is_interm re) (is_interm im))); [injection H as <- _ _; auto|].
    match type of H with context [thaw_complexes ?ss _ _ _] => set (s1 := ss) in * end.
    assert (C1 : s_id s1 = s_id s /\ s_ne s1 = s_ne s /\ s_ni s1 = s_ni s).
    { unfold s1. destruct (r_node re); auto. destruct (r_node im); auto.
      destruct (set_complex_counters (set_complex s u (u, u0)) u0 (u, u0)) as (A & B & C).
      destruct (set_complex_counters s u (u, u0)) as (A' & B' & C'). intuition congruence. }
    destruct (is_interm re).
    + destruct (node_uid re) as [o1|]; [|injection H as <- _ _; exact C1].
      destruct (node_uid im) as [o2|]; [|injection H as <- _ _; exact C1].
      destruct (u2i_add _ o1); [|injection H as <- _ _; exact C1].
      destruct (u2i_add _ o2); [|injection H as <- _ _; exact C1].
      apply IH in H. intuition congruence.
    + apply IH in H. intuition congruence.
Qed.

Lemma thaw_counters : forall s a b s' a' r,
  thaw s a b = (s', a', r) -> s_id s' = s_id s /\ s_ne s' = s_ne s /\ s_ni s' = s_ni s.
Proof.
  intros s a b s' a' r H. unfold thaw in H.
  destruct (a_dump a); [injection H as <- _ _; auto|].
  destruct (a_ready a); [injection H as <- _ _; auto|].
  destruct (a_leafn a) as [ln|]; [|injection H as <- _ _; auto].
  destruct (a_iuids a) as [iu|]; [|injection H as <- _ _; auto].
  destruct (thaw_leaves s ln) as [s1 r1] eqn:E1. apply thaw_leaves_counters in E1.
  destruct r1 as [[]|e1]; [|injection H as <- _ _; simpl; exact E1].
  destruct (thaw_nodes s1 iu) as [s2 r2] eqn:E2. apply thaw_nodes_counters in E2.
  assert (C2 : s_id s2 = s_id s /\ s_ne s2 = s_ne s /\ s_ni s2 = s_ni s) by intuition congruence.
  destruct r2 as [[]|e2]; [|injection H as <- _ _; simpl; exact C2].
  destruct (thaw_reals s2 iu _ _) as [a2 r3].
  destruct r3 as [[]|e3]; [|injection H as <- _ _; destruct b; simpl; exact C2].
  destruct (thaw_complexes s2 iu a2 _) as [[s3 a3] r4] eqn:E4. apply thaw_complexes_counters in E4.
  assert (C3 : s_id s3 = s_id s /\ s_ne s3 = s_ne s /\ s_ni s3 = s_ni s) by intuition congruence.
  destruct r4 as [[]|e4]; injection H as <- _ _; [exact C3 | destruct b; simpl; exact C3].
Qed.

Lemma read_counters : forall s d s' r, read s d = (s', r) -> s_id s' = s_id s /\ s_ne s' = s_ne s /\ s_ni s' = s_ni s.
Proof.
  intros s d s' r H. unfold read in H. destruct (thaw s (decode d) false) as [[s1 a1] r1] eqn:E.
  apply thaw_counters in E. destruct r1; injection H as <- _; exact E.
Qed.

Lemma copy_counters : forall s a s' r, copy s a = (s', r) -> s_id s' = s_id s /\ s_ne s' = s_ne s /\ s_ni s' = s_ni s.
Proof.
  intros s a s' r H. unfold copy in H. destruct (a_ready (deepcopy s a)); [injection H as <- _; auto|].
  destruct (thaw s _ false) as [[s1 a1] r1] eqn:E. apply thaw_counters in E. destruct r1; injection H as <- _; exact E.
Qed.

(* ... and a declaration takes the next counter value *)
Lemma decl_real_uid : forall s lbl u df ind s' r,
  decl_real s lbl u df ind = (s', Ok r) ->
  r_node r = NLeaf (s_id s, s_ne s + 1) /\ s_id s' = s_id s /\ s_ne s' = s_ne s + 1.
Proof.
  intros s lbl u df ind s' r H. unfold decl_real in H.
  destruct (new_leaf _ _ _ _ _ _) as [[s2 l]|] eqn:E; [|discriminate].
  apply new_leaf_counters in E. simpl in E. injection H as <- <-. destruct ind; simpl; intuition.
Qed.

(* the uids a document can bring back: its leaf nodes and its restored elementary numbers *)
Definition elem_uid (p : string * rval) : list uid := match snd p with RElem (Some u) => [u] | _ => [] end.
Definition doc_uids (a : archive) : list uid :=
  match a_leafn a with Some ln => map fst ln | None => [] end ++ flat_map elem_uid (a_treal a ++ a_ureal a).
(* every uid of the document either carries another context id (a document of another session:
   uuid4 ids differ) or was allocated earlier by this context *)
Definition bounded (s : session) (us : list uid) : Prop :=
  forall u, In u us -> fst u <> s_id s \/ snd u <= s_ne s.

Theorem fresh_uid_after_read : forall s d s' a' lbl u df ind s'' r,
  bounded s (doc_uids (snd d)) ->
  read s d = (s', Ok a') -> decl_real s' lbl u df ind = (s'', Ok r) ->
  r_node r = NLeaf (s_id s, s_ne s + 1) /\ ~ In (s_id s, s_ne s + 1) (doc_uids (snd d)) /\ bounded s'' (doc_uids (snd d)).
Proof.
  intros s d s' a' lbl u df ind s'' r Hb Hr Hd.
  apply read_counters in Hr. destruct Hr as (I & N & _).
  apply decl_real_uid in Hd. destruct Hd as (Hn & I2 & N2). rewrite I, N in *.
  split; [exact Hn|]. split.
  - intros Hin. destruct (Hb _ Hin) as [H|H]; simpl in H; [congruence | lia].
  - intros v Hv. destruct (Hb _ Hv) as [H|H]; [left; congruence | right; lia].
Qed.

Corollary fresh_uid_other_session : forall s d s' a' lbl u df ind s'' r,
  (forall v, In v (doc_uids (snd d)) -> fst v <> s_id s) ->
  read s d = (s', Ok a') -> decl_real s' lbl u df ind = (s'', Ok r) ->
  exists id, r_node r = NLeaf id /\ ~ In id (doc_uids (snd d)).
Proof.
  intros s d s' a' lbl u df ind s'' r H Hr Hd.
  destruct (fresh_uid_after_read s d s' a' lbl u df ind s'' r) as (A & B & _); auto.
  - intros v Hv. left. auto.
  - eauto.
Qed.

(* ------------------------------------------------------------------ Part 5: load order and correlations *)
(* what a leaf knows after the archived record [b] has been merged into its record [a]:
   its own entries, then the archived ones it lacked *)
Lemma dget_app_none : forall (c x : list (uid * Z)) v, dget uid_eqb c v = None -> dget uid_eqb (c ++ x) v = dget uid_eqb x v.
Proof.
  induction c as [|[k w] t IH]; intros x v H; simpl in *; [reflexivity|].
  destruct (uid_eqb k v); [discriminate | auto].
Qed.

Theorem dget_corr_merge : forall b a v,
  dget uid_eqb (corr_merge a b) v = match dget uid_eqb a v with Some r => Some r | None => dget uid_eqb b v end.
Proof.
  induction b as [|[k w] t IH]; intros a v; simpl.
  - destruct (dget uid_eqb a v); reflexivity.
  - rewrite IH. unfold dmem. destruct (dget uid_eqb a k) eqn:Ek.
    + destruct (dget uid_eqb a v) eqn:Ev; [reflexivity|].
      destruct (uid_eqb k v) eqn:E; [|reflexivity]. apply uid_eqb_eq in E. subst. congruence.
    + destruct (dget uid_eqb a v) eqn:Ev.
      * rewrite (dget_app_keep _ _ _ _ Ev). reflexivity.
      * rewrite (dget_app_none _ _ _ Ev). simpl. destruct (uid_eqb k v); reflexivity.
Qed.

(* two records of the same leaf that agree wherever both speak (archives written at different
   times: the later one only ADDS correlations) merge to the same knowledge in either order *)
Theorem corr_merge_order : forall a b,
  (forall v r r', dget uid_eqb a v = Some r -> dget uid_eqb b v = Some r' -> r = r') ->
  forall v, dget uid_eqb (corr_merge a b) v = dget uid_eqb (corr_merge b a) v.
Proof.
  intros a b H v. rewrite !dget_corr_merge.
  destruct (dget uid_eqb a v) eqn:Ea, (dget uid_eqb b v) eqn:Eb; try reflexivity.
  f_equal. eapply H; eauto.
Qed.

(* the scenario: A = {x,y} written, THEN r(x,z) declared, THEN B = {x,z} written; a fresh session
   reads A,B or B,A: x knows z (and z knows x) in both orders *)
Open Scope string_scope.
Definition hist_ab : list op :=
  [ODeclReal None 16 (-1) false; ODeclReal None 16 (-1) false; OSetCorr 0 1 4;
   OArchive; OAdd 0 [("x", 0%nat); ("y", 1%nat)]; OWrite 0 FJson;
   ODeclReal None 16 (-1) false; OSetCorr 0 2 2;
   OArchive; OAdd 1 [("x", 0%nat); ("z", 2%nat)]; OWrite 1 FJson; ONewSession 2].
Close Scope string_scope.
Lemma order_ab_ba :
  let st := run (init_state 1) hist_ab in
  let ab := run st [ORead 0; ORead 1] in
  let ba := run st [ORead 1; ORead 0] in
  corr_of ab (1, 1) (1, 3) = Some 2 /\ corr_of ab (1, 3) (1, 1) = Some 2 /\ corr_of ab (1, 1) (1, 2) = Some 4 /\
  corr_of ba (1, 1) (1, 3) = Some 2 /\ corr_of ba (1, 3) (1, 1) = Some 2 /\ corr_of ba (1, 1) (1, 2) = Some 4.
Proof. vm_compute. repeat split; reflexivity. Qed.

(* ------------------------------------------------------------------ Part 6: ensembles *)
(* _thaw ASSIGNS the archived ensemble onto the leaf new_leaf returned.  A live leaf therefore keeps
   its ensemble exactly when the archived record agrees with it -- which holds for every document
   written in the session as long as no member was appended after the dump (multiple_ureal ensembles
   never change; line-fit ensembles grow after x_from_y / y_from_x: reported, not generated) *)
Lemma thaw_leaves_ens : forall ln s s' r,
  thaw_leaves s ln = (s', r) -> NoDup (map fst ln) ->
  (forall u fl l, In (u, fl) ln -> lget (s_leaves s) u = Some l -> l_ens fl = None \/ l_ens fl = l_ens l) ->
  forall u l, lget (s_leaves s) u = Some l -> exists l', lget (s_leaves s') u = Some l' /\ l_ens l' = l_ens l.
Proof.
  induction ln as [|[u0 fl0] t IH]; intros s s' r H ND Hag u l Hl; simpl in H.
  - injection H as <- _. eauto.
  - inversion ND as [|? ? Hnot ND']; subst.
    unfold new_leaf in H. unfold dmem in H. fold (lget (s_leaves s) u0) in H.
    destruct (lget (s_leaves s) u0) as [l0|] eqn:E0.
    + destruct (leaf_same _ _ _ _ l0); [|injection H as <- _; eauto].
      assert (Hens : match l_ens fl0 with Some e => Some e | None => l_ens l0 end = l_ens l0).
      { destruct (Hag u0 fl0 l0 (or_introl eq_refl) E0) as [-> | ->]; [reflexivity|]. destruct (l_ens l0); reflexivity. }
      match type of H with thaw_leaves ?s1 _ = _ => set (S1 := s1) in * end.
      assert (Hag1 : forall u1 fl1 l1, In (u1, fl1) t -> lget (s_leaves S1) u1 = Some l1 -> l_ens fl1 = None \/ l_ens fl1 = l_ens l1).
      { intros u1 fl1 l1 Hin Hg. unfold S1 in Hg. simpl in Hg. rewrite lget_lset in Hg. destruct (uid_eqb u0 u1) eqn:E.
        - apply uid_eqb_eq in E. subst u1. exfalso. apply Hnot. apply (in_map fst) in Hin. exact Hin.
        - eapply Hag; [right; exact Hin | exact Hg]. }
      assert (Hl1 : exists lx, lget (s_leaves S1) u = Some lx /\ l_ens lx = l_ens l).
      { unfold S1. simpl. rewrite lget_lset. destruct (uid_eqb u0 u) eqn:E.
        - apply uid_eqb_eq in E. subst u. rewrite E0 in Hl. injection Hl as <-. eexists. split; [reflexivity|]. simpl. exact Hens.
        - eauto. }
      destruct Hl1 as (lx & G & Ex). destruct (IH S1 s' r H ND' Hag1 u lx G) as (l' & G' & E'). exists l'. split; congruence.
    + match type of H with thaw_leaves ?s1 _ = _ => set (S1 := s1) in * end.
      assert (Hne : uid_eqb u0 u = false).
      { destruct (uid_eqb u0 u) eqn:E; [|reflexivity]. apply uid_eqb_eq in E. subst u. congruence. }
      assert (Hag1 : forall u1 fl1 l1, In (u1, fl1) t -> lget (s_leaves S1) u1 = Some l1 -> l_ens fl1 = None \/ l_ens fl1 = l_ens l1).
      { intros u1 fl1 l1 Hin Hg. unfold S1 in Hg. simpl in Hg. rewrite !lget_lset in Hg. destruct (uid_eqb u0 u1) eqn:E.
        - apply uid_eqb_eq in E. subst u1. exfalso. apply Hnot. apply (in_map fst) in Hin. exact Hin.
        - eapply Hag; [right; exact Hin | exact Hg]. }
      assert (Hl1 : lget (s_leaves S1) u = Some l).
      { unfold S1. simpl. rewrite !lget_lset. rewrite Hne. exact Hl. }
      exact (IH S1 s' r H ND' Hag1 u l Hl1).
Qed.

"""C08 -- archives are isolated, order-independent and follow their lifecycle."""
import gc, math, random, warnings, json
from common import *
import lifecycle as arch

COQ_PROPS = 'props/C08.v'
PARTIAL = ('PROVED (all archives / every state any history reaches, no bound): every rejection row of the lifecycle table '
           '(RuntimeError, whole state unchanged); add accepted iff the tag/type/declaration rule; EVERY rejected _setitem and '
           'every failing add(**kw) leaves the archive exactly as it was (C08_add_reject_unchanged, C08_add_atomic: after the '
           'fix: commits); write-again = same document; copy = open archive with the same tags; add/write/extract preserve the '
           'session; loading / Archive.copy / _thaw never unregister a leaf a live number uses, never change its label, u, df, '
           'independent nor any correlation it knows (C08_read_pure, after the merge fix); a JSON document is read exactly as '
           'the pickled record (C08_read_json_as_pickle); loads never touch the context id/counters and a number declared after '
           'loading a document of another context id has a uid the document does not contain. PARTIAL: same-session freshness '
           'assumes the invariant "same-context uids <= counter" (C08_fresh_uid_partial); C08_read_pure does not speak of the '
           '`complex` pairing (assigned by _thaw; equal in value whenever uids are unique) nor of ensembles (not modelled). '
           'STILL KNOWN (no small safe repair): constants accepted by add, result(x,label) relabelling a live leaf, XML label "". '
           'ONLY VALIDATED (correspondence + oracle): acceptance of write/read on well-formed reachable archives, order '
           'independence of loads and equality of restored covariances (numeric content is C07).')
ASSUMPTIONS = ['uuid4 context ids of different sessions differ (hypothesis of the freshness theorem)',
               'the registries are WeakValueDictionaries: the model assumes CPython reference counting frees the nodes a '
               'failed _thaw created (the harness holds every live number and archive, and calls gc.collect() each step)',
               'numeric content of archived numbers is abstracted to node kinds and component key sets (C07 covers values)']
TRUSTED = ['harness/lifecycle.py: history generator, GTC executor, observation-tree builder and its 63-bit polynomial hash '
           '(model and implementation observations are compared through the hash; collision probability ~2^-63 per step)',
           'pickle / json / xml.etree parse what they print (documents are not modelled below the frozen archive record)']

def correspondence(rng, tier):
    return arch.run_corr(rng, tier)

# ---------------------------------------------------------------- oracle (search only)
# An independent restatement of the property, evaluated on the implementation alone.
KNOWN_KINDS = {
    'constant-accepted': 'constants / numbers with a constant component are accepted by add although not declared',
    'extract-no-names': 'extract() without names raises IndexError',
    'result-label-blocks-reload': 'result(x, label) relabels a live elementary leaf; an earlier archive of x cannot be read',
    'xml-empty-label': 'XML stores label "" as no label; the same-session reload raises RuntimeError (uid in use)',
    'redeclared-correlation-order': 'two documents record DIFFERENT coefficients for the same pair of leaves (r re-declared between '
                                    'the writes): the document read first wins, covariances depend on the load order',
}
# repaired in /repo (fix: commits); the oracle reports them as failures again if they come back:
FIXED_KINDS = ('add-partial', 'add-undeclared-complex-residue', 'write-after-failed-add', 'load-overwrites-correlation',
               'json-load-relists-complex')

def reports(s):
    """what every live number reports (exact floats), and all pairwise correlations of elementary reals"""
    core, lib = s.core, s.lib
    rows = []; elem = []
    def one(x):
        try:
            df = x.df
            df = df if not math.isnan(df) else 'nan'
        except Exception as ex:
            df = 'raised %s' % type(ex).__name__
        return (x.x, x.u, df, x.label, x.uid)
    for o in s.objs:
        if isinstance(o, lib.UncertainReal):
            rows.append(one(o))
            if o.is_elementary: elem.append(o)
        elif isinstance(o, lib.UncertainComplex):
            rows.append((one(o.real), one(o.imag)))
            if o.real.is_elementary: elem.append(o.real)
            if o.imag.is_elementary: elem.append(o.imag)
        else: rows.append(None)
    seen = {};
    for e in elem: seen.setdefault(e.uid, e)
    es = list(seen.values())[:14]
    corr = {}
    for i in range(len(es)):
        for j in range(len(es)):
            if i != j: corr[(es[i].uid, es[j].uid)] = es[i].get_correlation(es[j])
    return rows, corr

def has_residue(a):
    return any(getattr(v, '_node', 0) is None for v in a._untagged_real.values())

def has_constant(s, a):
    lib = s.lib
    def c(v):
        if isinstance(v, lib.UncertainReal): return v._node is not None and v._node.uid is None
        return getattr(v, 'uid', 0) is None          # frozen ElementaryReal / IntermediateReal of a constant
    return any(c(v) for v in list(a._tagged_real.values()) + list(a._untagged_real.values()))

def check_history(k0, ops, fresh_ids=True):
    """run a history on the implementation and check the property around every step.
    Returns a list of failing descriptions (each a dict with 'kind')."""
    warnings.simplefilter('ignore')
    s = arch.ASession(k0)
    fails = []
    restored = set()                      # uids seen in loaded archives of this session
    def fail(kind, i, o, **kw):
        d = {'kind': kind, 'step': i, 'op': o, 'k0': k0, 'history': [list(x) for x in ops[:i + 1]]}
        d.update(kw); fails.append(d)
    for i, o in enumerate(ops):
        o = list(o); k = o[0]
        if k == 'add': o[2] = [tuple(p) for p in o[2]]
        target = o[1] if k in ('add', 'extract', 'write', 'freeze', 'thaw', 'copy') and o[1] < len(s.ars) else None
        state = s.archive_state(target) if target is not None else None
        a = s.ars[target] if target is not None else None
        before_a = s.t_archive(a) if a is not None else None
        before_all = [s.t_archive(x) for x in s.ars]
        before_rep = reports(s) if k in ('add', 'extract', 'write', 'read', 'copy', 'freeze', 'thaw') else None
        n_before = len(a) if a is not None else 0
        residue = has_residue(a) if a is not None else False
        const = has_constant(s, a) if a is not None else False
        names_before = ((set(a._tagged_real), set(a._tagged_complex), set(a._untagged_real))
                        if (k == 'add' and a is not None) else None)
        old_doc = None
        if k == 'write' and state == 'written':
            try: old_doc = {'pickle': s.pr.dumps, 'json': s.pr.dumps_json, 'xml': s.pr.dumps_xml}[o[2]](a)
            except Exception: old_doc = None
        outcome = s.do(o)
        after_a = s.t_archive(a) if a is not None else None
        # ---- lifecycle table
        if k == 'add' and a is not None and o[2]:
            if state != 'open':
                if outcome != 'RuntimeError' or after_a != before_a: fail('lifecycle-add-not-rejected', i, o, state=state, outcome=outcome)
            elif outcome != 'ok' and after_a != before_a:
                objs = [s.objs[j] for _, j in o[2]]
                und_c = any(isinstance(x, s.lib.UncertainComplex) and not x.is_elementary and
                            (x.real._node is None or x.imag._node is None) for x in objs)
                fail('add-undeclared-complex-residue' if und_c and has_residue(a) and not residue else 'add-partial', i, o, outcome=outcome)
            elif outcome not in ('ok', 'RuntimeError'):
                fail('write-after-failed-add' if not hasattr(a, '_uid_to_intermediate') else 'lifecycle-add-wrong-exception', i, o, outcome=outcome)
            elif outcome == 'ok' and has_constant(s, a) and not const:
                fail('constant-accepted', i, o)
            if state == 'open' and outcome == 'ok':
                # the tag rules, restated: no duplicate tag; a real's tag must not be a component tag in use; a complex
                # number's '<tag>_re' / '<tag>_im' must not be in use as the tag of a real or as a component tag
                treal, tcplx, untag = [set(x) for x in names_before]
                for tag, j in o[2]:
                    x = s.objs[j]; clash = tag in treal or tag in tcplx
                    if isinstance(x, s.lib.UncertainReal):
                        clash = clash or tag in untag; treal.add(tag)
                    elif isinstance(x, s.lib.UncertainComplex):
                        clash = clash or any(t in treal or t in untag for t in (tag + '_re', tag + '_im'))
                        tcplx.add(tag); untag.update((tag + '_re', tag + '_im'))
                    if clash: fail('lifecycle-add-clashing-tag-accepted', i, o, tag=tag); break
        if k == 'extract' and a is not None:
            if not o[2]:
                if outcome != 'RuntimeError' and state != 'thawed': fail('extract-no-names', i, o, outcome=outcome)
            elif state != 'thawed':
                if outcome != 'RuntimeError' or after_a != before_a: fail('lifecycle-extract-not-rejected', i, o, state=state, outcome=outcome)
            else:
                have = set(a._tagged_real) | set(a._tagged_complex)
                if all(n in have for n in o[2]):
                    if outcome != 'objs': fail('lifecycle-extract-refused', i, o, outcome=outcome)
                elif outcome != 'RuntimeError': fail('lifecycle-extract-missing-name', i, o, outcome=outcome)
                if after_a != before_a: fail('lifecycle-extract-changes-archive', i, o)
        if k == 'write' and a is not None:
            if state in ('loaded', 'thawed') or n_before == 0:
                if outcome != 'RuntimeError' or after_a != before_a: fail('lifecycle-write-not-rejected', i, o, state=state, outcome=outcome)
            elif state == 'written':
                if outcome == 'ok':
                    if after_a != before_a: fail('lifecycle-rewrite-changes-archive', i, o)
                    if old_doc is not None and s.docs[-1][1] != old_doc: fail('lifecycle-rewrite-differs', i, o)
                elif not const: fail('lifecycle-rewrite-refused', i, o, outcome=outcome)
            elif outcome != 'ok':       # open, non-empty
                if residue: fail('write-after-failed-add', i, o, outcome=outcome)
                elif const: fail('constant-accepted', i, o, outcome=outcome)
                else: fail('lifecycle-write-refused', i, o, outcome=outcome)
        if k == 'copy' and a is not None and outcome == 'ok':
            c = s.ars[-1]
            if not (c._dump and c._ready): fail('copy-not-open', i, o)
            if (list(c._tagged_real), list(c._tagged_complex)) != (list(a._tagged_real), list(a._tagged_complex)): fail('copy-content-differs', i, o)
            if after_a != before_a: fail('copy-changes-original', i, o)
        # ---- isolation: no operation on one archive changes another archive
        if k in ('add', 'extract', 'write', 'freeze', 'thaw', 'copy', 'read'):
            for j, t in enumerate(before_all):
                if j != target and s.t_archive(s.ars[j]) != t: fail('isolation-other-archive-changed', i, o, other=j)
        # ---- purity: what live numbers report
        if before_rep is not None:
            rows, corr = before_rep
            rows2, corr2 = reports(s)
            ch_rows = rows2[:len(rows)] != rows
            ch_corr = any(corr2.get(kk) != v for kk, v in corr.items())
            if ch_rows or ch_corr:
                listed = any(isinstance(getattr(n, 'complex', None), list) for n in list(s.ctx()._registered_leaf_nodes.values()))
                if k in ('read', 'copy', 'thaw') and ch_corr: fail('load-overwrites-correlation', i, o)
                elif k in ('read', 'copy', 'thaw') and listed: fail('json-load-relists-complex', i, o)
                else: fail('purity-reports-changed', i, o, rows=ch_rows, correlations=ch_corr)
        # ---- same-session read of a document written in this session must succeed
        if k == 'read' and outcome not in ('ok',):
            f, _ = s.docs[o[1]]
            fail('read-refused', i, o, outcome=outcome, fmt=f)
        # ---- fresh uids
        if k in ('read', 'copy') and outcome == 'ok':
            c = s.ars[-1]
            for v in list(c._tagged_real.values()) + list(c._untagged_real.values()):
                if getattr(v, 'is_elementary', False): restored.add(v.uid)
        if k == 'new': restored = set()
        if fresh_ids and outcome == 'objs' and k in ('real', 'complex'):
            x = s.objs[-1]
            uids = [x.uid] if k == 'real' else [x.real.uid, x.imag.uid]
            if any(u in restored for u in uids): fail('uid-collision-with-restored', i, o, uids=[list(u) for u in uids])
    return fails, s

def classify_read_refusals(fails, ops):
    """a refused read is a known finding only when its recorded cause is present in the history"""
    out = []
    for f in fails:
        if f['kind'] == 'read-refused':
            hist = f['history']
            relabel = any(o[0] == 'result' and o[2] is not None for o in hist)
            empty = any((o[0] in ('real', 'complex', 'result') and (o[1] if o[0] != 'result' else o[2]) == '') or
                        (o[0] == 'ens' and any(l == '' for l, _ in o[1])) for o in hist)
            const = any(o[0] in ('const', 'constc') for o in hist)
            part = any(o[0] == 'part' for o in hist)
            xml_doc = any(o[0] == 'write' and o[2] == 'xml' for o in hist)
            # a label '' archived through XML comes back as None: the XML document itself cannot be re-read in the
            # session, and any other document of the same number cannot be read next to the XML one
            if empty and (f.get('fmt') == 'xml' or xml_doc): f['kind'] = 'xml-empty-label'
            elif relabel: f['kind'] = 'result-label-blocks-reload'
            elif const or part: f['kind'] = 'constant-accepted'
        out.append(f)
    return out

def _close(a, b):
    if isinstance(a, float) and isinstance(b, float):
        if math.isnan(a) or math.isnan(b): return math.isnan(a) and math.isnan(b)
        if math.isinf(a) or math.isinf(b): return a == b
        return abs(a - b) <= 1e-11 * max(1.0, abs(a), abs(b))
    if isinstance(a, tuple) and isinstance(b, tuple) and len(a) == len(b): return all(_close(x, y) for x, y in zip(a, b))
    return a == b

def order_check(case_seed):
    """Several archives written at DIFFERENT TIMES that share dependent influence quantities, with correlations
    declared between the writes, are read back (a) in fresh sessions in every order and with one document twice,
    (b) in the writing session with the shared leaves alive.  The restored numbers must report the same x, u, df,
    label, uid and the same covariances among ALL restored numbers of all archives, whatever the order; in (b) also
    the same covariances as the original numbers.  Returns None or a failing description (replay: the case_seed)."""
    from GTC import core, persistence as pr
    import itertools
    warnings.simplefilter('ignore')
    rng = random.Random(case_seed)
    k0 = 500 + case_seed % 1000
    new_context(k0)
    script = []
    n = rng.randint(3, 5)
    xs = [core.ureal(float(i + 1), 0.5 + i / 8.0, independent=False, label=rng.choice([None, 'x%d' % i])) for i in range(n)]
    script.append('x0..x%d = ureal(i+1, 0.5+i/8, independent=False)' % (n - 1))
    DUMP = {'json': pr.dumps_json, 'xml': pr.dumps_xml, 'pickle': pr.dumps}
    LOAD = {'json': pr.loads_json, 'xml': pr.loads_xml, 'pickle': pr.loads}
    docs = []; originals = {}; current = {}; records = []
    ens = []
    if rng.random() < 0.5:
        # a finite-dof ensemble (multiple_ureal): each archive below holds only a PART of it
        m = rng.randint(3, 4)
        ens = core.multiple_ureal([10.0 + i for i in range(m)], [0.25 + i / 16.0 for i in range(m)], rng.choice([4, 9]),
                                  label_seq=['e%d' % i for i in range(m)])
        script.append('e0..e%d = multiple_ureal([10+i], [0.25+i/16], df=%g)' % (m - 1, ens[0].df))
        for _ in range(rng.randint(0, 2)):
            i, j = rng.sample(range(m), 2); r = rng.choice([0.25, 0.5, -0.25])
            if not any(frozenset((i, j)) == q for q in current.get('_ens', [])):
                current.setdefault('_ens', []).append(frozenset((i, j)))
                core.set_correlation(r, ens[i], ens[j]); script.append('set_correlation(%r, e%d, e%d)' % (r, i, j))
        current.pop('_ens', None)
    same_time = rng.random() < 0.3          # all archives written at one time: nothing declared between the writes
    for t in range(rng.randint(2, 3)):
        for _ in range(rng.randint(0 if t == 0 else 1, 2) if not (same_time and t > 0) else 0):
            i, j = rng.sample(range(n), 2); r = rng.choice([0.25, 0.5, -0.5, -0.25])
            # a pair may be RE-DECLARED with another value between two writes: the archives then contradict each
            # other (known finding C08-redeclared-correlation-order); which pairs are concerned is computed below
            # from this writer history, never from the outcome
            current[frozenset((i, j))] = r
            core.set_correlation(r, xs[i], xs[j]); script.append('set_correlation(%r, x%d, x%d)' % (r, i, j))
        members = rng.sample(range(n), rng.randint(1, 3))
        i, j, k = (rng.randrange(n) for _ in range(3))
        y = core.result(xs[i] * xs[j] + xs[k], label='y%d' % t)
        ar = pr.Archive(); kw = {'x%d' % m: xs[m] for m in members}; kw['y%d' % t] = y
        if ens:
            part = rng.sample(range(len(ens)), rng.randint(1, len(ens) - 1))
            for m in part: kw['e%d' % m] = ens[m]
            script.append('  archive %d also holds %s' % (t, sorted('e%d' % m for m in part)))
        ar.add(**kw)
        fmt = rng.choice(['json', 'json', 'xml', 'pickle'])
        docs.append((fmt, DUMP[fmt](ar)))
        for tag, v in kw.items(): originals[(t, tag)] = v
        held = set(members) | {i, j, k}                     # the leaves this document holds (each with its whole record)
        records.append({pr_: r_ for pr_, r_ in current.items() if pr_ & held})
        script.append('archive %d (%s) <- %s, y%d = result(x%d*x%d + x%d); written' % (t, fmt, sorted('x%d' % m for m in members), t, i, j, k))
    live_ens = []
    def observe(got):
        keys = sorted(got)
        rep = {kk: (got[kk].x, got[kk].u, got[kk].df, got[kk].label, got[kk].uid) for kk in keys}
        def rd(f):
            try: return f()
            except Exception as ex: return 'raised %s' % type(ex).__name__
        rep = {kk: (got[kk].x, got[kk].u, rd(lambda: got[kk].df), got[kk].label, got[kk].uid) for kk in keys}
        cov = {(p, q): core.get_covariance(got[p], got[q]) for p in keys for q in keys}
        # combinations of two numbers (and of a number with a LIVE ensemble member): u and dof
        for p in keys:
            for q in keys:
                if p < q: cov[('sum', p, q)] = (rd(lambda: (got[p] + got[q]).u), rd(lambda: (got[p] + got[q]).df))
            for i, e in enumerate(live_ens):
                cov[('live', p, i)] = (rd(lambda: (got[p] * e).u), rd(lambda: (got[p] * e).df))
        return rep, cov
    def load(order, k):
        if k is not None: new_context(k)
        got = {}
        for d in order:
            ar = LOAD[docs[d][0]](docs[d][1])
            for tag in ar.keys(): got[(d, tag)] = ar[tag]
        return observe(got)
    def differ(r1, r2, common_only=False):
        for part, (a, b) in zip(('report', 'covariance'), zip(r1, r2)):
            for kk in a:
                if common_only and kk not in b: continue
                if not _close(a[kk], b.get(kk)): return {'what': part, 'of': repr(kk),
                                                      'first_order': repr(a[kk]), 'other_order': repr(b.get(kk))}
        return None
    nd = len(docs)
    # pairs for which two documents record different coefficients
    contradictions = [{'pair': sorted('x%d' % m for m in pr_), 'documents': [t1, t2], 'coefficients': [records[t1][pr_], records[t2][pr_]]}
                      for t1 in range(nd) for t2 in range(t1 + 1, nd) for pr_ in records[t1]
                      if pr_ in records[t2] and records[t1][pr_] != records[t2][pr_]]
    orders = [list(p) for p in itertools.permutations(range(nd))]
    orders += [o + [o[0]] for o in orders[:2]]
    try:
        live_ens[:] = list(ens)
        ref_alive = observe(originals)
        alive = load(list(range(nd)), None)                         # (b) the shared leaves are alive
        after_alive = observe(originals)                            # what the LIVE numbers report after the loads
        live_ens[:] = []
        results = [(o, load(o, k0 + 1 + i)) for i, o in enumerate(orders)]     # (a) fresh sessions
    except Exception as ex:
        if any(f == 'xml' for f, _ in docs) and any(x.label == '' for x in xs): return None
        return {'kind': 'order-load-raises', 'exception': '%s: %s' % (type(ex).__name__, ex), 'case_seed': case_seed, 'script': script}
    d = differ(ref_alive, after_alive)
    if d: return {'kind': 'read-changes-live-numbers', 'case_seed': case_seed, 'script': script, 'difference': d}
    d = differ(ref_alive, alive)
    if d: return {'kind': 'reload-differs-from-live-numbers', 'case_seed': case_seed, 'script': script, 'difference': d}
    for o, r in results[1:]:
        d = differ(results[0][1], r)
        if d: return {'kind': 'redeclared-correlation-order' if contradictions else 'order-dependence', 'case_seed': case_seed,
                      'script': script, 'first_order': results[0][0], 'other_order': o, 'difference': d,
                      'contradictions': contradictions}
    if same_time:
        # archives of one moment carry the complete correlation record of every leaf they hold: the covariances
        # among all restored numbers are those of the original numbers
        d = differ((ref_alive[0], ref_alive[1]), results[0][1], common_only=True)
        if d and d['what'] == 'covariance':
            return {'kind': 'restored-covariance-differs-from-original', 'case_seed': case_seed, 'script': script,
                    'order': results[0][0], 'difference': d}
    return None

def is_known(f):
    if not isinstance(f, dict) or f.get('kind') not in KNOWN_KINDS: return False
    if f['kind'] == 'redeclared-correlation-order':
        # precisely: an order dependence of a multi-archive case in which two documents record different
        # coefficients for the same pair of leaves
        c = f.get('contradictions')
        return bool(c) and all(x['coefficients'][0] != x['coefficients'][1] for x in c)
    return True

def search(rng, tier, broken):
    n = 120 if tier == 'quick' else 1500
    tried = 0; known_seen = {}
    first = []
    for kind, detail in broken:            # first: the histories on which model and implementation disagreed
        if kind == 'correspondence':
            for mm in detail:
                if isinstance(mm, dict) and 'ops' in mm: first.append((mm['k0'], mm['ops']))
    def run(k0, ops):
        fails, _ = check_history(k0, ops)
        for f in classify_read_refusals(fails, ops):
            if is_known(f): known_seen[f['kind']] = known_seen.get(f['kind'], 0) + 1
            else: return f
        return None
    for k0, ops in first:
        tried += 1
        f = run(k0, ops)
        if f: return {'tried': tried, 'failing': f, 'known_kinds_seen': known_seen}
    for i in range(100 if tier == 'quick' else 400):     # load-order independence across archives written at different times
        tried += 1
        f = order_check(rng.randrange(10 ** 6))
        if f:
            if is_known(f): known_seen[f['kind']] = known_seen.get(f['kind'], 0) + 1
            else: return {'tried': tried, 'failing': f, 'known_kinds_seen': known_seen}
    for st in arch.ROW_STATES:
        for op in arch.ROW_OPS:
            s, _ = arch.gen_row(31, st, op); ops = s.ops; s.close(); tried += 1
            f = run(31, ops)
            if f: return {'tried': tried, 'failing': f, 'known_kinds_seen': known_seen}
    for i in range(n):
        # (multi-archive reader sessions are the business of order_check: there a newer document legitimately ADDS
        #  correlations to numbers restored from an older one -- reported, not fed to the purity check)
        s = arch.gen_history(rng, 40 + i % 7, rng.randint(12, 40), rng.random() < 0.2)
        ops = s.ops; k0 = s.k0; s.close(); tried += 1
        if any(o[0] == 'new' and o[1] <= k0 for o in ops): continue       # reused context ids: outside the property
        f = run(k0, ops)
        if f: return {'tried': tried, 'failing': f, 'known_kinds_seen': known_seen}
    return {'tried': tried, 'failing': None, 'known_kinds_seen': known_seen}

def replay(payload):
    print(json.dumps(payload.get('broken'), indent=1, default=str)[:4000])
    f = payload.get('failing_input')
    if f and 'history' in f:
        fails, _ = check_history(f['k0'], f['history'])
        fails = [x for x in classify_read_refusals(fails, f['history']) if not is_known(x)]
        print('replayed the failing history on the implementation:',
              'STILL FAILS: %s' % json.dumps(fails[0], default=str)[:1500] if fails else 'passes now')
        return 1 if fails else 0
    if f and 'case_seed' in f:
        r = order_check(f['case_seed'])
        print('replayed the multi-archive load-order case %d on the implementation:' % f['case_seed'],
              'STILL FAILS: %s' % json.dumps(r, default=str)[:1500] if r else 'passes now')
        return 1 if r and not is_known(r) else 0
    return 0

# ---------------------------------------------------------------- known findings (run on the implementation)
def _fresh(k=901):
    warnings.simplefilter('ignore')
    from GTC import core, persistence as pr
    new_context(k)
    return core, pr

def kf_add_partial():
    core, pr = _fresh()
    x = core.ureal(1, 1); p = x * x
    a = pr.Archive()
    try: a.add(a=x, b=p)
    except RuntimeError: return ('a' in a._tagged_real and len(a) == 1), 'add(a=ok, b=undeclared) raised RuntimeError; keys now %r' % list(a.keys())
    return False, 'add did not raise'

def kf_add_undeclared_complex_residue():
    core, pr = _fresh()
    x = core.ureal(1, 1); z = core.ucomplex(1 + 2j, 1)
    a = pr.Archive(); a.add(x=x)
    try: a.add(k=z * x)
    except RuntimeError: pass
    else: return False, 'add did not raise'
    residue = sorted(a._untagged_real)
    try: pr.dumps_json(a)
    except AttributeError as ex:
        broken = not hasattr(a, '_uid_to_intermediate')
        try: a.add(m=core.result(x * x)); second = 'accepted'
        except AttributeError: second = 'AttributeError'
        except Exception as ex2: second = type(ex2).__name__
        return (residue == ['k_im', 'k_re'] and broken and second == 'AttributeError'), \
            'residue %r; dumps_json -> AttributeError; _uid_to_intermediate deleted=%s; add(result) -> %s' % (residue, broken, second)
    except Exception as ex:
        return False, 'dumps_json raised %s' % type(ex).__name__
    return False, 'dumps_json succeeded (residue %r)' % residue

def kf_load_overwrites_correlation():
    core, pr = _fresh()
    y1, y2, y3 = [core.ureal(1, 1, independent=False) for _ in range(3)]
    core.set_correlation(0.5, y1, y2)
    a = pr.Archive(); a.add(y1=y1, y2=y2); s = pr.dumps_json(a)
    core.set_correlation(0.25, y1, y3)
    before = (core.get_correlation(y1, y3), core.get_correlation(y3, y1))
    pr.loads_json(s)
    after = (core.get_correlation(y1, y3), core.get_correlation(y3, y1))
    core.set_correlation(0.25, y1, y3)
    pr.Archive.copy(a)
    after_copy = (core.get_correlation(y1, y3), core.get_correlation(y3, y1))
    return (before == (0.25, 0.25) and after == (0.0, 0.25) and after_copy == (0.0, 0.25)), \
        'get_correlation(y1,y3),(y3,y1): before %r, after loads_json %r, after Archive.copy(written) %r' % (before, after, after_copy)

def kf_constant_accepted():
    core, pr = _fresh()
    x = core.ureal(1, 1)
    a = pr.Archive()
    try: a.add(c=core.constant(3.0), zc=x + 1j)
    except Exception as ex: return False, 'add raised %s' % type(ex).__name__
    s = pr.dumps_json(a)
    try: pr.loads_json(s)
    except KeyError: r = 'KeyError'
    except Exception as ex: r = type(ex).__name__
    else: r = 'ok'
    b = pr.Archive(); b.add(c=core.constant(3.0))
    try: pr.dumps_xml(b); x = 'ok'
    except TypeError: x = 'TypeError'
    return (r == 'KeyError' and x == 'TypeError' and not b._ready), \
        'add(constant, ureal+1j) accepted; dumps_json ok but loads_json -> %s; dumps_xml(constant) -> %s leaving the archive frozen' % (r, x)

def kf_result_label_blocks_reload():
    core, pr = _fresh()
    x = core.ureal(1, 1)
    a = pr.Archive(); a.add(x=x); s = pr.dumps_json(a)
    core.result(x, label='late')
    try: pr.loads_json(s)
    except RuntimeError as ex: return True, 'result(x, label) after the dump; loads_json in the same session -> RuntimeError: %s' % ex
    return False, 'load succeeded'

def kf_xml_empty_label():
    core, pr = _fresh()
    x = core.ureal(1, 1, label='')
    a = pr.Archive(); a.add(x=x); s = pr.dumps_xml(a)
    try: pr.loads_xml(s)
    except RuntimeError as ex: return True, 'label "" -> XML -> same-session loads_xml -> RuntimeError: %s' % ex
    return False, 'load succeeded'

def kf_json_load_relists_complex():
    core, pr = _fresh()
    z = core.ucomplex(1 + 2j, (1, 0.5), 5, independent=False)
    w = z * z
    before = (w.real.df, w.imag.df)
    a = pr.Archive(); a.add(q=core.result(z * z)); s = pr.dumps_json(a)
    pr.loads_json(s)
    after = (w.real.df, w.imag.df)
    return (before != after and isinstance(z.real._node.complex, list)), \
        'w = z*z (z dependent ucomplex, df=5): (w.real.df, w.imag.df) before %r, after loads_json of an archive holding result(z*z): %r' % (before, after)

def kf_redeclared_correlation_order():
    core, pr = _fresh(903)
    x0, x1, x2 = [core.ureal(float(i + 1), 0.5 + i / 8.0, independent=False) for i in range(3)]
    core.set_correlation(-0.5, x2, x1); core.set_correlation(0.25, x2, x0)
    a = pr.Archive(); a.add(x0=x0, x1=x1, x2=x2); d0 = pr.dumps_xml(a)             # archive 0
    core.set_correlation(0.25, x2, x1); core.set_correlation(-0.25, x0, x1)         # r(x2,x1) RE-DECLARED
    b = pr.Archive(); b.add(x1=x1, x2=x2); d1 = pr.dumps_json(b)                    # archive 1
    def cov(first):
        new_context(904 if first == 0 else 905)
        if first == 0: a0 = pr.loads_xml(d0); a1 = pr.loads_json(d1)
        else: a1 = pr.loads_json(d1); a0 = pr.loads_xml(d0)
        return core.get_covariance(a0['x1'], a0['x2']), core.get_covariance(a1['x1'], a1['x2'])
    c01, c10 = cov(0), cov(1)
    return (c01 == (-0.234375, -0.234375) and c10 == (0.1171875, 0.1171875)), \
        'fresh session, cov(x1,x2): reading archive 0 then 1 -> %r, reading 1 then 0 -> %r' % (c01[0], c10[0])

"""lu_cases.py -- case generator, implementation runner, Coq printers and the search oracle for
C15 (GTC/LU.py and the linear-algebra wrappers of GTC/linear_algebra.py).

A case is a JSON-able dict: {'ctx', 'fn', 'pool': [(x,u,independent)...], 'a': rows of element
descriptors, 'b': rows / list / None}.  Element descriptors:
  ['i', z] int   ['f', x] float   ['p', k] the elementary uncertain real pool[k] itself (the SAME
  object wherever it is used: shared influences between a and b)   ['m', [[k,c],...], c0, lab]
  the intermediate sum(c*pool[k]) + c0, passed through result() when lab   ['q', k1, k2]
  pool[k1]*pool[k2]   ['c', x] an uncertain constant   ['zc', re, im] complex and ['zu', re, im, u]
  uncertain complex (oracle search only: not modelled)."""
import math, random, collections, hashlib, numbers, itertools
from common import *
from kernel import ckey, cvec

class Unmodelled(Exception):
    pass

# ------------------------------------------------------------------ building the arrays
def build_elem(d, pool, core):
    k = d[0]
    if k == 'i': return int(d[1])
    if k == 'f': return float(d[1])
    if k == 'p': return pool[d[1]]
    if k == 'm':
        acc = None
        for j, c in d[1]:
            t = pool[j] * c
            acc = t if acc is None else acc + t
        acc = acc + d[2]
        return core.result(acc) if d[3] else acc
    if k == 'q': return pool[d[1]] * pool[d[2]]
    if k == 'c': return core.constant(float(d[1]))
    if k == 'zc': return complex(d[1], d[2])
    if k == 'zu': return core.ucomplex(complex(d[1], d[2]), d[3])
    raise ValueError(d)

VIEWS2 = ['plain', 'T', 'dotT', 'F', 'slice', 'step', 'Tslice']
VIEWS1 = ['plain', 'slice', 'step', 'rev']

def make_view(elems, mode, la):
    """(array passed to the function, base array that owns the memory).  `elems` is the LOGICAL
    content (element [i][j] of what is passed); the memory layout differs by mode:
    T / dotT: transpose view of a C-ordered base; F: Fortran-ordered array; slice / step: a window /
    every second row and column of a larger base; Tslice: a window of a transposed base; rev (1-D):
    reversed view."""
    import numpy as np
    from GTC.uncertain_array import UncertainArray
    two = bool(elems) and isinstance(elems[0], list)
    if mode in (None, 'plain'):
        a = la.uarray(elems); return a, a
    if not two:
        n = len(elems)
        if mode == 'slice':
            base = la.uarray([91.5] + list(elems) + [92.5, 93.5]); return base[1:n + 1], base
        if mode == 'step':
            full = []
            for e in elems: full += [e, 94.5]
            base = la.uarray(full); return base[::2], base
        if mode == 'rev':
            base = la.uarray(list(reversed(elems))); return base[::-1], base
        raise ValueError(mode)
    n, m = len(elems), len(elems[0])
    tr = [[elems[i][j] for i in range(n)] for j in range(m)]
    if mode == 'T':
        base = la.uarray(tr); return la.transpose(base), base
    if mode == 'dotT':
        base = la.uarray(tr); return base.T, base
    if mode == 'F':
        o = np.empty((n, m), dtype=object, order='F')
        for i in range(n):
            for j in range(m): o[i, j] = elems[i][j]
        base = UncertainArray(o); return base, base
    if mode == 'slice':
        big = [[95.5] * (m + 3)] + [[96.5] + list(r) + [97.5, 98.5] for r in elems] + [[99.5] * (m + 3)]
        base = la.uarray(big); return base[1:n + 1, 1:m + 1], base
    if mode == 'step':
        big = []
        for r in elems:
            row = []
            for e in r: row += [81.5, e]
            big.append(row); big.append([82.5] * (2 * m))
        base = la.uarray(big); return base[::2, 1::2], base
    if mode == 'Tslice':
        big = [[83.5] * (n + 2)] + [[84.5] + list(r) + [85.5] for r in tr]
        base = la.uarray(big); return base.T[1:n + 1, 1:m + 1], base
    raise ValueError(mode)

def build(case, want_bases=False):
    from GTC import core, la
    new_context(case['ctx'])
    pool = [core.ureal(x, u, independent=bool(ind)) for x, u, ind in case['pool']]
    def arr(rows, mode):
        if rows is None: return None, None
        if rows and isinstance(rows[0], list) and rows[0] and isinstance(rows[0][0], list):
            elems = [[build_elem(e, pool, core) for e in r] for r in rows]
            if not all(len(r) == len(elems[0]) for r in elems): mode = 'plain'
        else:
            elems = [build_elem(e, pool, core) for e in rows]
        return make_view(elems, mode, la)
    a, abase = arr(case['a'], case.get('a_view'))
    b, bbase = arr(case.get('b'), case.get('b_view'))
    if want_bases: return pool, a, b, (abase, bbase)
    return pool, a, b

def rows_of(x):
    """any result as rows of elements"""
    import numpy as np
    if isinstance(x, np.ndarray):
        if x.ndim == 0: return [[x.item()]]
        if x.ndim == 1: return [[e] for e in x]
        if x.ndim == 2: return [list(r) for r in x]
        raise Unmodelled('ndim %d' % x.ndim)
    return [[x]]

def call_impl(case, a, b):
    from GTC import la, LU
    fn = case['fn']
    if fn == 'solve': return la.solve(a, b)
    if fn == 'inv': return la.inv(a)
    if fn == 'det': return la.det(a)
    if fn == 'invab': return LU.invab(a, b)
    if fn == 'matmul': return la.matmul(a, b)
    if fn == 'at': return a @ b
    if fn == 'dot': return la.dot(a, b)
    if fn == 'transpose': return la.transpose(a)
    raise ValueError(fn)

# ------------------------------------------------------------------ Coq literals
def cnode(o):
    n = o._node
    if n is None: return 'NoNode'
    if o.is_elementary: return '(LeafRef %s)' % ckey(n.uid)
    if o.is_intermediate: return '(NodeRef %s)' % ckey(n.uid)
    return '(ConstLeaf None)'

def celt(e):
    from GTC import lib
    if isinstance(e, bool): raise Unmodelled('bool')
    if isinstance(e, numbers.Integral): return '(@EI NF %s)' % cz(int(e))
    if isinstance(e, float): return '(@EN NF %s)' % cf(e)
    if isinstance(e, lib.UncertainReal):
        return '(@EU NF (mkU %s %s %s %s %s))' % (cf(e._x), cvec(e._u_components), cvec(e._d_components),
                                                   cvec(e._i_components), cnode(e))
    raise Unmodelled(type(e).__name__)

def crows(rows):
    return clist([clist([celt(e) for e in r]) for r in rows])

# ------------------------------------------------------------------ history of the argument arrays
PRE_OPS = ['add', 'sub', 'mul', 'div']
PRE_OTHER = ['bigger', 'bigger', 'same', 'scalar', 'row', 'col', 'bad']
PRE_FORM = ['uarray', 'ndarray', 'list']

def gen_prelude(rng, case):
    """array operations performed on the operands BEFORE the linear-algebra call (results thrown
    away, exceptions caught): broadcasting binary operations with the operand first or second,
    against larger / equal / smaller / scalar / incompatible partners, some of which raise
    (zero divisors) ; unary operations and views.  The la functions depend on contents only."""
    steps = []
    for _ in range(rng.randint(1, 4)):
        t = rng.choice(['a', 'b']) if case.get('b') is not None else 'a'
        if rng.random() < 0.2:
            steps.append({'k': 'unary', 't': t, 'on': rng.choice(['arg', 'base']),
                          'f': rng.choice(['neg', 'pos', 'T', 'transpose', 'slice', 'abs', 'sqrt', 'log'])})
        else:
            steps.append({'k': 'bin', 't': t, 'on': rng.choice(['arg', 'arg', 'base']),
                          'pos': rng.choice(['first', 'second']), 'op': rng.choice(PRE_OPS + ['div']),
                          'other': rng.choice(PRE_OTHER), 'form': rng.choice(PRE_FORM),
                          'zero': rng.random() < 0.5, 'lead': rng.randint(2, 3)})
    return steps

def _other_array(step, shape):
    """the partner of a binary prelude operation, as nested lists of floats (or a scalar)"""
    import numpy as np
    kind = step['other']
    if kind == 'scalar':
        return 0.0 if step['zero'] else 2.5
    if kind == 'bigger': shp = (step['lead'],) + tuple(shape)
    elif kind == 'same': shp = tuple(shape)
    elif kind == 'row': shp = (shape[-1],)
    elif kind == 'col': shp = (shape[0], 1) if len(shape) == 2 else (1,)
    else: shp = (shape[-1] + 1,)
    cnt = int(np.prod(shp)) if shp else 1
    vals = [1.0 + 0.5 * i for i in range(cnt)]
    if step['zero'] and cnt: vals[cnt // 2] = 0.0
    return np.array(vals, dtype=object).reshape(shp)

def run_prelude(case, a, b, bases):
    """returns the list of outcome tags (for the distribution); never raises"""
    import operator, numpy as np
    from GTC import la, core
    tags = []
    for st in case.get('prelude') or []:
        arr = {'a': a, 'b': b}[st['t']]
        if st.get('on') == 'base': arr = bases[0 if st['t'] == 'a' else 1]
        if arr is None: continue
        try:
            if st['k'] == 'unary':
                f = st['f']
                if f == 'neg': -arr
                elif f == 'pos': +arr
                elif f == 'T': arr.T
                elif f == 'transpose': la.transpose(arr)
                elif f == 'slice': arr[::-1]
                elif f == 'abs': abs(arr)
                elif f == 'sqrt': core.sqrt(arr)
                elif f == 'log': core.log(arr)
                tags.append('pre-unary-ok')
                continue
            other = _other_array(st, arr.shape)
            if isinstance(other, np.ndarray):
                if st['form'] == 'uarray': other = la.uarray(other)
                elif st['form'] == 'list': other = other.tolist()
            op = {'add': operator.add, 'sub': operator.sub, 'mul': operator.mul, 'div': operator.truediv}[st['op']]
            if st['pos'] == 'first': op(arr, other)
            else: op(other, arr)
            tags.append('pre-bin-ok')
        except Exception as ex:
            tags.append('pre-raises-' + type(ex).__name__)
    return tags

def snapshot(x):
    return None if x is None else (crows(rows_of(x)), [id(e) for e in x.flat])

def case_term(case):
    """run the implementation; return (gallina term of type Z, info)"""
    pool, a, b, bases = build(case, want_bases=True)
    fn = case['fn']
    ra = rows_of(a); rb = rows_of(b) if b is not None else []
    A = crows(ra); B = crows(rb)
    snap_all = lambda: (snapshot(a), snapshot(b), snapshot(bases[0]), snapshot(bases[1]),
                        a.shape, a.strides, None if b is None else (b.shape, b.strides))
    before = snap_all()
    info = {'exn': None, 'args_modified': False}
    info['prelude'] = run_prelude(case, a, b, bases)
    try:
        r = call_impl(case, a, b)
        R = crows(rows_of(r))
        A2 = crows(rows_of(a)); B2 = crows(rows_of(b)) if b is not None else '[]'
        expected = '(Ok (%s, %s, %s))' % (R, A2, B2)
    except Unmodelled:
        raise
    except Exception as ex:
        info['exn'] = type(ex).__name__
        expected = '(Err %s)' % cexn(type(ex).__name__)
    if snap_all() != before:
        info['args_modified'] = True
    n = len(ra); m = len(ra[0]) if ra else 0
    nat = lambda k: '%d%%nat' % k
    if fn == 'solve':
        call = '(CSolve NF %s %s %s)' % (nat(n), A, clist([celt(r[0]) for r in rb]))
        if info['exn'] is None:   # model reports b as a column
            pass
    elif fn == 'inv': call = '(CInv NF %s %s)' % (nat(n), A)
    elif fn == 'det': call = '(CDet NF %s %s)' % (nat(n), A)
    elif fn == 'invab':
        call = '(CInvab NF %s %s %s %s)' % (nat(n), nat(len(rb[0]) if rb else 0), A, B)
    elif fn in ('matmul', 'at', 'dot'):
        # 1-D operands: lhs (m,) is a 1 x m row, rhs (m,) an m x 1 column
        if a.ndim == 1:
            ra = [[r[0] for r in ra]]; n, m = 1, len(ra[0])
        p = 1 if b.ndim == 1 else (len(rb[0]) if rb else 0)
        A = crows(ra)
        if info['exn'] is None:
            rr = rows_of(r)
            if a.ndim == 1 and b.ndim == 2: rr = [[x[0] for x in rr]]
            expected = '(Ok (%s, %s, %s))' % (crows(rr), A, B)
        call = '(CMatmul NF %s %s %s %s %s)' % (nat(n), nat(m), nat(p), A, B)
    elif fn == 'transpose':
        call = '(CTranspose NF %s %s %s)' % (nat(n), nat(m), A)
        if info['exn'] is None:
            expected = '(Ok (%s, %s, []))' % (R, A2)
    else:
        raise ValueError(fn)
    return '(check_call NF %s %s)' % (call, expected), info

HEADER = '''From Coq Require Import ZArith List PrimFloat.
From GTCV Require Import Num FNum Vector Opres KTypes Kernel LU LUInst.
Import ListNotations.
Local Open Scope float_scope.
Definition NF : Num := FNum [].
'''

# ------------------------------------------------------------------ generator
NICE = [1.0, -1.0, 2.0, 0.5, -0.5, 3.0, 4.0, -2.0, 0.25, 1.5, -3.0, 5.0, 8.0, 0.75, 10.0, -7.0]

def rnd_val(rng, zero_ok=True):
    c = rng.random()
    if zero_ok and c < 0.10: return 0.0
    if c < 0.45: return rng.choice(NICE)
    if c < 0.55: return float(rng.randint(-9, 9)) or 1.0
    return round(rng.uniform(-6, 6), rng.choice([1, 3, 12])) or 0.5

def gen_pool(rng):
    pool = []
    for _ in range(rng.randint(1, 6)):
        x = rnd_val(rng) if rng.random() > 0.12 else 0.0
        u = rng.choice([0.1, 0.25, 1.0, 0.5, round(rng.uniform(0.01, 2.0), 3)])
        if rng.random() < 0.05: u = 0.0
        pool.append([x, u, rng.random() < 0.8])
    return pool

def gen_elem(rng, kind, pool, val=None):
    """one element descriptor of the requested array kind, with value val when given"""
    npool = len(pool)
    if kind == 'int': return ['i', int(round(val)) if val is not None else rng.randint(-9, 9)]
    if kind == 'float': return ['f', val if val is not None else rnd_val(rng)]
    # uncertain / mixed
    c = rng.random()
    if kind == 'mixed' and c < 0.45:
        return ['i', int(round(val)) if val is not None else rng.randint(-6, 6)] if rng.random() < 0.4 \
            else ['f', val if val is not None else rnd_val(rng)]
    c = rng.random()
    if c < 0.40: return ['p', rng.randrange(npool)]
    if c < 0.75:
        ks = rng.sample(range(npool), rng.randint(1, min(3, npool)))
        return ['m', [[k, rng.choice([1.0, -1.0, 2.0, 0.5, round(rng.uniform(-2, 2), 2) or 1.0])] for k in ks],
                rng.choice([0.0, 0.0, rnd_val(rng)]), rng.random() < 0.2]
    if c < 0.87: return ['q', rng.randrange(npool), rng.randrange(npool)]
    if c < 0.93: return ['c', rnd_val(rng)]
    return ['f', rnd_val(rng)]

def gen_matrix_vals(rng, n, style, integer=False):
    """plain values of an n x n matrix.  styles: 'dom' row-permuted diagonally dominant (needs
    pivoting, well conditioned), 'rand', 'zero00' zero in the leading position, 'singular',
    'zerorow'"""
    if style == 'dom':
        m = [[rnd_val(rng) for _ in range(n)] for _ in range(n)]
        if integer: m = [[float(round(v)) for v in r] for r in m]
        for i in range(n):
            m[i][i] = (sum(abs(v) for j, v in enumerate(m[i]) if j != i) + rng.choice([1.0, 2.0] if integer else [1.0, 2.0, 0.5])) * rng.choice([1, -1])
        rng.shuffle(m)
        return m
    m = [[rnd_val(rng) for _ in range(n)] for _ in range(n)]
    if style == 'zero00':
        m[0][0] = 0.0
        if n > 2: m[1][1] = 0.0
    elif style == 'singular' and n > 1:
        i, j = rng.sample(range(n), 2)
        c = rng.choice([1.0, 2.0, -1.0, 0.5])
        m[i] = [c * v for v in m[j]]
    elif style == 'zerorow':
        m[rng.randrange(n)] = [0.0] * n
    return m

KINDS = ['float', 'int', 'unc', 'mixed']
FNS = ['solve', 'solve', 'inv', 'det', 'invab', 'matmul', 'at', 'dot', 'transpose']

def elem_with_value(rng, kind, pool, v):
    """an element of the array kind whose VALUE is v (so that the pivoting pattern is controlled)"""
    if kind == 'int': return ['i', int(round(v))]
    if kind == 'float': return ['f', v]
    c = rng.random()
    if kind == 'mixed' and c < 0.5:
        return ['i', int(round(v))] if (v == round(v) and rng.random() < 0.5) else ['f', v]
    # an uncertain element with exactly this value: an intermediate  pool-combination + constant
    if rng.random() < 0.35 or not pool:
        pool.append([v, rng.choice([0.1, 0.5, 1.0, round(rng.uniform(0.01, 1.5), 3)]), rng.random() < 0.8])
        return ['p', len(pool) - 1]
    ks = rng.sample(range(len(pool)), rng.randint(1, min(2, len(pool))))
    terms = [[k, rng.choice([1.0, -1.0, 2.0, 0.5])] for k in ks]
    base = sum(c * pool[k][0] for k, c in terms)
    return ['m', terms, v - base, rng.random() < 0.15]

def gen_case(rng, ctx, malformed=False):
    fn = rng.choice(FNS)
    kind = rng.choice(KINDS)
    n = rng.choice([1, 2, 2, 3, 3, 4, 4, 5, 6])
    pool = gen_pool(rng) if kind in ('unc', 'mixed') else []
    case = {'ctx': ctx, 'fn': fn, 'kind': kind, 'n': n, 'pool': pool, 'b': None}
    if fn in ('solve', 'inv', 'det', 'invab'):
        style = rng.choice(['dom', 'dom', 'rand', 'rand', 'zero00', 'tiny'])
        if malformed: style = rng.choice(['singular', 'zerorow', 'nonsquare'])
        case['style'] = style
        if style == 'nonsquare':
            vals = [[rnd_val(rng) for _ in range(n + 1)] for _ in range(n)]
        elif style == 'tiny':      # a well-conditioned matrix scaled far down: pivots are tiny, not zero
            sc = rng.choice([2.0 ** -50, 1e-13, 1e-17, 2.0 ** -400])
            vals = [[v * sc for v in r] for r in gen_matrix_vals(rng, n, 'dom')]
        else:
            vals = gen_matrix_vals(rng, n, style)
        if kind == 'int' and style == 'tiny': style = case['style'] = 'dom'; vals = gen_matrix_vals(rng, n, 'dom')
        if kind == 'int': vals = [[float(round(v)) for v in r] for r in vals]
        case['a'] = [[elem_with_value(rng, kind, pool, v) for v in r] for r in vals]
        if fn == 'solve':
            case['b'] = [gen_rhs(rng, kind, pool) for _ in range(n)]
        elif fn == 'invab':
            m = rng.randint(1, 3)
            case['b'] = [[gen_rhs(rng, kind, pool) for _ in range(m)] for _ in range(n)]
    elif fn == 'transpose':
        m = rng.randint(1, 5)
        case['a'] = [[gen_elem(rng, kind, pool or [[1.0, 0.1, True]]) for _ in range(m)] for _ in range(n)]
        if not pool and kind in ('unc', 'mixed'): case['pool'] = [[1.0, 0.1, True]]
    else:
        m = rng.randint(1, 5); p = rng.randint(1, 4)
        shape = rng.choice(['22', '22', '22', '21', '12', '11']) if fn == 'dot' else rng.choice(['22', '22', '21'])
        if not pool and kind in ('unc', 'mixed'): pool = case['pool'] = gen_pool(rng)
        bm = m + 1 if malformed else m
        if shape[0] == '2': case['a'] = [[gen_elem(rng, kind, pool) for _ in range(m)] for _ in range(n)]
        else: case['a'] = [gen_elem(rng, kind, pool) for _ in range(m)]
        if shape[1] == '2': case['b'] = [[gen_elem(rng, kind, pool) for _ in range(p)] for _ in range(bm)]
        else: case['b'] = [gen_elem(rng, kind, pool) for _ in range(bm)]
        case['style'] = 'shape' + shape + ('-misaligned' if malformed else '')
    add_history(rng, case)
    return case

def is2d(rows):
    return bool(rows) and isinstance(rows[0], list) and bool(rows[0]) and isinstance(rows[0][0], list)

def add_history(rng, case):
    add_views(rng, case)
    if rng.random() < 0.4:
        case['prelude'] = gen_prelude(rng, case)

def add_views(rng, case):
    """how the arguments are laid out in memory: half of the calls get a transpose view, a
    Fortran-ordered array, or a window / strided / reversed view of a larger base array"""
    for key in ('a', 'b'):
        rows = case.get(key)
        if rows is None: continue
        if rng.random() < 0.5:
            case[key + '_view'] = 'plain'
        else:
            case[key + '_view'] = rng.choice(VIEWS2[1:] if is2d(rows) else VIEWS1[1:])

def gen_rhs(rng, kind, pool):
    """right-hand sides: zero values (with and without uncertainty) are common on purpose"""
    c = rng.random()
    if kind == 'int': return ['i', 0 if c < 0.25 else rng.randint(-9, 9)]
    if kind != 'int' and rng.random() < 0.06:          # tiny but non-zero values
        t = rng.choice([1e-13, -3e-17, 2.0 ** -60, 5e-324, -1e-200])
        if kind == 'float' or (kind == 'mixed' and rng.random() < 0.5): return ['f', t]
        pool.append([t, rng.choice([1.0, 0.1]), True]); return ['p', len(pool) - 1]
    if kind == 'float': return ['f', 0.0 if c < 0.25 else rnd_val(rng)]
    if c < 0.15:
        pool.append([0.0, rng.choice([1.0, 0.5, 0.1]), True]); return ['p', len(pool) - 1]
    if c < 0.25: return ['f', 0.0] if kind == 'mixed' else ['c', 0.0]
    return gen_elem(rng, kind, pool)

# ------------------------------------------------------------------ correspondence run
def classify(case, info):
    tags = [case['fn'], 'kind=' + case['kind'], 'n=%d' % case['n'], 'style=' + str(case.get('style')),
            'a_view=' + str(case.get('a_view'))]
    if case.get('b') is not None: tags.append('b_view=' + str(case.get('b_view')))
    if info['exn']: tags.append('raises=' + info['exn'])
    tags.extend(info.get('prelude') or [])
    if case.get('prelude'): tags.append('with-prelude')
    return tags

def run_corr(rng, ncases, name):
    cases = []; terms = []; infos = []; mism = []
    stats = collections.Counter()
    i = 0
    while len(cases) < ncases:
        i += 1
        case = gen_case(rng, 100 + i, malformed=(i % 8 == 0))
        try:
            t, info = case_term(case)
        except Unmodelled as ex:
            stats['skipped-unmodelled'] += 1
            continue
        cases.append(case); terms.append(t); infos.append(info)
        stats.update(classify(case, info))
        if info['args_modified']:
            mism.append({'kind': 'argument-modified', 'case': case})
    vals, errors = coq_eval_cases('lu_' + name, HEADER, terms, per_file=28)
    for e in errors:
        mism.append({'kind': 'coqc-failed', 'file': e['file'], 'rc': e['rc'], 'output': e['output'][-1500:]})
    WHAT = {1: 'result differs', 2: 'argument a after the call differs', 3: 'argument b after the call differs',
            4: 'exception / no exception differs'}
    for case, v, info in zip(cases, vals, infos):
        if v is not None and v != -1:
            mism.append({'kind': 'model-vs-implementation', 'what': WHAT.get(v, str(v)), 'case': case,
                         'implementation_exception': info['exn']})
    distinct = len(set(hashlib.sha1(json_key(c)).hexdigest() for c in cases if c['n'] > 1))
    return {'programs': len(cases), 'steps': len(cases), 'mismatches': mism, 'distinct': distinct,
            'distribution': dict(stats),
            'rule': 'random calls of la.solve/inv/det, LU.invab, la.matmul/dot/@, la.transpose on arrays of int / float / '
                    'uncertain-real / mixed elements (elementary inputs shared between a and b, intermediates, result() nodes, '
                    'constants, zero values with uncertainty), n = 1..6, row-permuted diagonally dominant / random / zero-leading '
                    'matrices, every 8th case singular, zero-row, non-square or misaligned; half of the arguments are views; 40 % of the calls '
                    'are preceded by a random history of array operations on the operands or their base arrays (broadcasting binary '
                    'operations as first / second operand that succeed or raise and are caught, unary operations, views) which the model '
                    'ignores; result elements, argument contents '
                    'after the call and exception classes compared bit for bit with the FElt model; non-trivial = n > 1; '
                    'distinct by hash of the case',
            'samples': [{'case': c} for c in cases[:2]]}

def json_key(c):
    import json
    return json.dumps(c, sort_keys=True).encode()

# ------------------------------------------------------------------ oracle (search only)
def gen_oracle_case(rng):
    """well-conditioned systems (row-permuted diagonally dominant), all element kinds incl. complex"""
    kind = rng.choice(['float', 'int', 'unc', 'mixed', 'complex', 'ucomplex'])
    fn = rng.choice(['solve', 'solve', 'inv', 'det', 'invab', 'matmul', 'transpose'])
    n = rng.randint(1, 6)
    base = kind if kind in KINDS else 'mixed'
    pool = gen_pool(rng) if kind != 'float' and kind != 'int' else []
    vals = gen_matrix_vals(rng, n, 'dom', integer=(kind == 'int'))
    if kind == 'float' and rng.random() < 0.3:      # tiny pivots, same conditioning (plain floats only: exact values)
        sc = rng.choice([2.0 ** -50, 1e-13, 1e-17, 2.0 ** -200])
        vals = [[v * sc for v in r] for r in vals]
    def el(v):
        if kind == 'complex' and rng.random() < 0.5: return ['zc', v, rnd_val(rng) * 0.1]
        if kind == 'ucomplex' and rng.random() < 0.5: return ['zu', v, rnd_val(rng) * 0.1, 0.1]
        return elem_with_value(rng, base, pool, v)
    def rhs():
        if kind in ('complex', 'ucomplex') and rng.random() < 0.5: return el(rnd_val(rng))
        return gen_rhs(rng, base, pool)
    case = {'ctx': 77, 'fn': fn, 'kind': kind, 'n': n, 'pool': pool, 'b': None,
            'a': [[el(v) for v in r] for r in vals]}
    if fn == 'solve': case['b'] = [rhs() for _ in range(n)]
    if fn in ('invab', 'matmul'):
        m = rng.randint(1, 3)
        case['b'] = [[rhs() for _ in range(m)] for _ in range(n)]
    add_history(rng, case)
    return case

def flat_descr(rows):
    if rows is None: return []
    out = []
    for r in rows:
        if r and isinstance(r[0], list): out.extend(r)
        else: out.append(r)
    return out

def _val(e):
    from GTC import lib
    if isinstance(e, (lib.UncertainReal, lib.UncertainComplex)): return e.x
    return e

def _comp(e, x):
    """magnitude of the component of uncertainty of element e due to the elementary input x"""
    from GTC import lib, reporting
    if not isinstance(e, (lib.UncertainReal, lib.UncertainComplex)): return 0.0
    c = reporting.u_component(e, x)
    try:
        return max(abs(float(v)) for v in c)
    except TypeError:
        return abs(float(c))

def _sumprod(a, x):
    """plain-Python sum of products, elementwise (the defining equation of matmul)"""
    n, m = len(a), len(a[0]); p = len(x[0])
    out = []
    for i in range(n):
        row = []
        for j in range(p):
            acc = a[i][0] * x[0][j]
            for k in range(1, m): acc = acc + a[i][k] * x[k][j]
            row.append(acc)
        out.append(row)
    return out

def _residual_fail(lhs_rows, rhs_rows, terms_scale, pool, tol, what):
    """lhs - rhs must vanish in value and in every component, relative to the size of the terms"""
    for i, (lr, rr) in enumerate(zip(lhs_rows, rhs_rows)):
        for j, (l, r) in enumerate(zip(lr, rr)):
            d = l - r
            sv, sc = terms_scale(i, j)
            if abs(_val(d)) > tol * max(sv, 1e-300) and abs(_val(d)) > 1e-300:
                return '%s: element (%d,%d) value residual %r (scale %r)' % (what, i, j, _val(d), sv)
            for k, x in enumerate(pool):
                c = _comp(d, x)
                if c > tol * max(sc(x), 1e-300) + 1e-300 and c > 1e-14 * sv:
                    return '%s: element (%d,%d) residual component w.r.t. input %d is %r (scale %r)' % (what, i, j, k, c, sc(x))
    return None

def oracle_check(case):
    """None if the property holds on this input (to conservative tolerances), else a dict"""
    import numpy as np
    from GTC import la, LU, lib
    try:
        pool, a, b, bases = build(case, want_bases=True)
    except Exception:
        return None
    fn = case['fn']
    tol = 1e-8
    snap = lambda arr: None if arr is None else [(id(e), repr(e)) for e in arr.flat]
    snap_all = lambda: (snap(a), snap(b), snap(bases[0]), snap(bases[1]))
    before = snap_all()
    run_prelude(case, a, b, bases)
    try:
        r = call_impl(case, a, b)
    except Exception as ex:
        # well-conditioned non-singular input: an exception is a failure of the property
        return dict(case, why='%s raised %s: %s' % (fn, type(ex).__name__, ex),
                    rhs_zero_uncertain=rhs_zero_uncertain(case))
    why = None
    if snap_all() != before:
        why = '%s modified its arguments (or the base array of a view)' % fn
    A = [list(row) for row in a]
    def scale_of(A_, X_):
        def f(i, j):
            sv = sum(abs(_val(A_[i][k])) * abs(_val(X_[k][j])) for k in range(len(X_))) + 1.0
            def sc(x):
                return sum(_comp(A_[i][k], x) * abs(_val(X_[k][j])) + abs(_val(A_[i][k])) * _comp(X_[k][j], x)
                           for k in range(len(X_))) + 1e-12
            return sv, sc
        return f
    if why is None and fn in ('solve', 'invab'):
        X = [[e] for e in r] if fn == 'solve' else [list(row) for row in r]
        Bm = [[e] for e in b] if fn == 'solve' else [list(row) for row in b]
        why = _residual_fail(_sumprod(A, X), Bm, scale_of(A, X), pool, tol, 'a.x - b')
    elif why is None and fn == 'inv':
        n = len(A); X = [list(row) for row in r]
        I = [[1 if i == j else 0 for j in range(n)] for i in range(n)]
        why = _residual_fail(_sumprod(A, X), I, scale_of(A, X), pool, tol, 'a.inv(a) - I') or \
              _residual_fail(_sumprod(X, A), I, scale_of(X, A), pool, tol, 'inv(a).a - I')
    elif why is None and fn == 'det':
        V = np.array([[complex(_val(e)) for e in row] for row in A])
        d = np.linalg.det(V); sc = float(np.prod([np.linalg.norm(row) for row in V])) + 1e-300
        if abs(complex(_val(r)) - d) > tol * sc:
            why = 'det value %r differs from the determinant %r' % (_val(r), d)
        else:
            # cofactor sensitivities: for an elementary input used in exactly one element, alone
            flat = [e for row in case['a'] for e in row]
            n = len(A)
            for k, x in enumerate(pool):
                uses = [idx for idx, e in enumerate(flat) if e == ['p', k]]
                others = [e for e in flat if e[0] in ('m', 'q') and (k in [t[0] for t in e[1]] if e[0] == 'm' else k in e[1:3])]
                if len(uses) != 1 or others or not isinstance(r, lib.UncertainReal): continue
                i, j = divmod(uses[0], n)
                minor = np.delete(np.delete(V, i, 0), j, 1)
                cof = ((-1) ** (i + j)) * (np.linalg.det(minor) if n > 1 else 1.0)
                from GTC import reporting
                s = float(reporting.sensitivity(r, x))
                if abs(s - cof.real) > tol * sc / (abs(V[i][j]) + 1e-3) + 1e-9:
                    why = 'det sensitivity to a[%d,%d] is %r, cofactor is %r' % (i, j, s, cof.real); break
    elif why is None and fn == 'matmul':
        Bm = [list(row) for row in b]
        R = [list(row) for row in r]
        why = _residual_fail(R, _sumprod(A, Bm), scale_of(A, Bm), pool, 1e-12, 'matmul - sum of products')
        if why is None:
            R2 = [list(row) for row in (a @ b)]; R3 = [list(row) for row in la.dot(a, b)]
            why = _residual_fail(R2, R, scale_of(A, Bm), pool, 1e-12, '@ - matmul') or \
                  _residual_fail(R3, R, scale_of(A, Bm), pool, 1e-12, 'dot - matmul')
    elif why is None and fn == 'transpose':
        n, m = a.shape
        if r.shape != (m, n) or any(r[j, i] is not a[i, j] for i in range(n) for j in range(m)):
            why = 'transpose does not only permute'
    if why is None: return None
    return dict(case, why=why, rhs_zero_uncertain=rhs_zero_uncertain(case))

def rhs_zero_uncertain(case):
    """does b hold an element whose value is 0 while it carries uncertainty (finding C15-1)?"""
    from GTC import lib
    try:
        pool, a, b = build(case)
    except Exception:
        return False
    if b is None: return False
    return any(isinstance(e, (lib.UncertainReal, lib.UncertainComplex)) and e.x == 0 and
               any(_comp(e, x) != 0 for x in pool) for e in b.flat)

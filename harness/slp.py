"""slp.py -- random straight-line GTC programs as Python source (for the differential oracles
of C06 / C10): declarations, correlations, then operations t_i = f(t_j, t_k)."""
import math, random
from common import *

UN = ['sin', 'cos', 'exp', 'atan', 'tanh', 'sqrt', 'log']
BIN = ['+', '-', '*', '/']

def gen(rng, n_in=None, n_ops=None):
    """returns dict(decl=[lines], corr=[lines], ops=[(var, line, uses)], inputs=[names])"""
    n_in = n_in or rng.randint(2, 5)
    decl, inputs, dep = [], [], []
    for i in range(n_in):
        c = rng.random()
        x = round(rng.uniform(0.5, 3.0), 3); u = round(rng.uniform(0.05, 0.6), 3)
        if c < 0.5:
            df = rng.choice(['inf', '4', '7.5', '30'])
            decl.append('x%d = ureal(%r, %r, %s)' % (i, x, u, df)); inputs.append('x%d' % i)
        elif c < 0.8:
            decl.append('x%d = ureal(%r, %r, independent=False)' % (i, x, u)); inputs.append('x%d' % i); dep.append('x%d' % i)
        else:
            edf = rng.choice(['3', '6', 'inf'])
            decl.append('x%d, x%db = multiple_ureal([%r, %r], [%r, %r], %s)' % (i, i, x, x + 0.5, u, u / 2, edf))
            inputs += ['x%d' % i, 'x%db' % i]
            if edf == 'inf': dep += ['x%d' % i, 'x%db' % i]      # infinite-dof ensemble members may be correlated with outsiders
    corr = []
    for a in dep:
        for b in dep:
            if a < b and rng.random() < 0.6:
                corr.append('set_correlation(%r, %s, %s)' % (round(rng.uniform(-0.9, 0.9), 2), a, b))
    for i in range(n_in):
        if ('x%db' % i) in inputs and rng.random() < 0.7:
            corr.append('set_correlation(%r, x%d, x%db)' % (round(rng.uniform(-0.9, 0.9), 2), i, i))
    ops = []; avail = list(inputs)
    for j in range(n_ops or rng.randint(3, 10)):
        v = 't%d' % j
        if rng.random() < 0.4:
            f = rng.choice(UN); a = rng.choice(avail)
            if f in ('sqrt', 'log'): line = '%s = %s(magnitude(%s) + 1.5)' % (v, f, a)
            elif f == 'exp': line = '%s = exp(%s / 8)' % (v, a)
            else: line = '%s = %s(%s)' % (v, f, a)
            uses = [a]
        else:
            o = rng.choice(BIN); a = rng.choice(avail); b = rng.choice(avail + ['2.5', '0.5'])
            if o == '/': line = '%s = %s / (magnitude(%s) + 1.25)' % (v, a, b) if not b[0].isdigit() else '%s = %s / %s' % (v, a, b)
            else: line = '%s = %s %s %s' % (v, a, o, b)
            uses = [a] + ([b] if not b[0].isdigit() else [])
        ops.append((v, line, uses)); avail.append(v)
    return {'decl': decl, 'corr': corr, 'ops': ops, 'inputs': inputs}

def gen_c(rng):
    """complex straight-line programs: 2-3 uncertain complex inputs (70 % circular: one scalar uncertainty, so that the real
    and imaginary dofs of every derived number coincide), finite and infinite dof, optionally one real input; + - * /,
    scaling by plain real / complex numbers, exp, sqrt, conjugate"""
    n_in = rng.randint(2, 3); decl, inputs = [], []
    for i in range(n_in):
        z = complex(round(rng.uniform(0.5, 3.0), 3), round(rng.uniform(-3.0, 3.0), 3))
        u = repr(round(rng.uniform(0.05, 0.6), 3)) if rng.random() < 0.7 else \
            repr((round(rng.uniform(0.05, 0.6), 3), round(rng.uniform(0.05, 0.6), 3)))
        decl.append('z%d = ucomplex(%r, %s, %s)' % (i, z, u, rng.choice(['inf', '4', '7.5', '5', '5']))); inputs.append('z%d' % i)
    if rng.random() < 0.4:
        decl.append('x9 = ureal(%r, %r, %s)' % (round(rng.uniform(0.5, 3.0), 3), round(rng.uniform(0.05, 0.6), 3), rng.choice(['inf', '6'])))
        inputs.append('x9')
    ops = []; avail = list(inputs)
    for j in range(rng.randint(2, 6)):
        v = 't%d' % j; k = rng.random()
        if k < 0.25:
            f = rng.choice(['exp', 'sqrt', 'conjugate']); a = rng.choice(avail)
            line = '%s = exp(%s / 8)' % (v, a) if f == 'exp' else '%s = %s(%s)' % (v, f, a); uses = [a]
        elif k < 0.5:
            a = rng.choice(avail); c = rng.choice(['2.5', '(1+2j)', '(1.5+2j)', '(-0.5j)', '(3+0j)', '1j'])      # unit parts included: x*(1+2j) must not reuse x as a component (fixed 90e41db)
            line = rng.choice(['%s = %s * %s', '%s = %s / %s']) % (v, a, c) if rng.random() < 0.6 else '%s = %s * %s' % (v, c, a); uses = [a]
        else:
            o = rng.choice(['+', '-', '*', '/']); a = rng.choice(avail); b = rng.choice(avail)
            line = '%s = %s %s %s' % (v, a, o, b); uses = [a, b]
        ops.append((v, line, uses)); avail.append(v)
    return {'decl': decl, 'corr': [], 'ops': ops, 'inputs': inputs, 'complex': True}

def run(lines, ctx=21):
    new_context(ctx)
    ns = {}
    exec('from GTC import *\nfrom GTC import reporting\nimport math\n' + '\n'.join(lines), ns)
    return ns

def fbits(x):
    return float(x).hex() if isinstance(x, (int, float)) else repr(x)

def unbits(h):
    """inverse of fbits for floats (None for anything else)"""
    try: return float.fromhex(h)
    except Exception: return None

def sweep(ns, names, inputs):
    """bit-exact observations of the named variables"""
    from GTC import reporting, core
    out = {}
    for n in names:
        o = ns[n]
        rec = [fbits(o.x), fbits(o.u), fbits(o.v), fbits(o.df)]
        for i in inputs:
            rec.append(fbits(reporting.u_component(o, ns[i])))
        out[n] = rec
    for a in names[-3:]:
        for b in names[-3:]:
            out['cov(%s,%s)' % (a, b)] = [fbits(core.get_covariance(ns[a], ns[b]))]
    return out

"""decl.py -- correspondence plumbing for the declaration layer (Decl.v, property C11).

A DSession executes declaration-layer operations on the real GTC (in VERIF_REPO's working tree) and
records each one as a Gallina `dop float` term together with the observed outcome as a `dout float`
term (exception class, or the created objects with the attributes of their Leaf nodes: u, df,
independent, correlation dict, ensemble set, complex pair), plus every math.sqrt GTC called."""
import math, os, re
from common import *
from kernel import ckey, cvec, cdf

NAN, INF = math.nan, math.inf

def cuarg(u):
    if isinstance(u, (tuple, list)):
        return '(USeq %s)' % clist([cf(v) for v in u])
    return '(UScalar %s)' % cf(u)

def crarg(r):
    if isinstance(r, (tuple, list)):
        return '(RSeq %s)' % clist([cf(v) for v in r])
    return '(RScalar %s)' % cf(r)

def cdarg(a):
    if a is None: return 'ANone'
    if a == 'num': return 'ANumber'
    return '(ASlot %d)' % a

def intended_exception(ex):
    """if `ex` was raised inside __repr__/__str__/format while a GTC `raise X("...".format(obj))` statement was building
    its message, return 'X'; otherwise None"""
    import traceback, linecache
    frames = [(f, ln) for f, ln in traceback.walk_tb(ex.__traceback__)]
    for i, (f, ln) in enumerate(frames):
        if f.f_code.co_name in ('__repr__', '__str__') and i > 0:
            pf, pln = frames[i - 1]
            fn = pf.f_code.co_filename
            if os.sep + 'GTC' + os.sep not in fn:
                return None
            for k in range(pln, max(pln - 8, 0), -1):
                m = re.search(r'\braise\s+(\w+)\s*\(', linecache.getline(fn, k))
                if m:
                    return m.group(1)
            return None
    return None

class DSession(object):
    def __init__(self, ctx_id=1):
        from GTC import lib, core
        self.lib, self.core = lib, core
        self.ctx_id = ctx_id
        new_context(ctx_id)
        self.rec = record_math()
        self.rec.__enter__()
        self.ops, self.outs, self.slots, self.pyops = [], [], [], []
        self.stats = {}
        self.rejected = 0

    def close(self):
        self.rec.__exit__()

    # ---------------- observation
    def leafdump(self, n):
        corr = sorted(n.correlation.items()) if hasattr(n, 'correlation') else []
        ens = ('(Some %s)' % clist([ckey(k) for k in sorted(n.ensemble)])) if hasattr(n, 'ensemble') else 'None'
        cp = getattr(n, 'complex', None)
        cps = 'None' if cp is None else '(Some (%s, %s))' % (ckey(cp[0]), ckey(cp[1]))
        return '(mkLD %s %s %s %s %s %s %s)' % (ckey(n.uid), cf(n.u), cdf(n.df), cbool(n.independent),
                                                clist(['(%s, %s)' % (ckey(k), cf(v)) for k, v in corr]), ens, cps)

    def dump_real(self, o):
        n = o._node
        if n is None: k = 'KPlain'
        elif o.is_elementary: k = '(KElem %s)' % ckey(n.uid)
        elif o.is_intermediate: k = '(KInterm %s)' % ckey(n.uid)
        else: k = 'KConst'
        lf = '(Some %s)' % self.leafdump(n) if o.is_elementary else 'None'
        return '(DOReal %s %s %s %s %s)' % (cf(o._x), k, cvec(o._u_components), cvec(o._d_components), lf)

    def dump_any(self, o):
        if isinstance(o, self.lib.UncertainComplex):
            return '(DOCplx %s %s)' % (self.dump_real(o.real), self.dump_real(o.imag))
        return self.dump_real(o)

    def live_leaves(self):
        out = []
        for o in self.slots:
            if isinstance(o, self.lib.UncertainReal):
                if o.is_elementary: out.append(o._node)
            elif isinstance(o, self.lib.UncertainComplex):
                for c in (o.real, o.imag):
                    if c.is_elementary: out.append(c._node)
        return out

    def record(self, opterm, pyop, thunk, kind):
        self.ops.append(opterm); self.pyops.append(pyop)
        self.stats[pyop[0]] = self.stats.get(pyop[0], 0) + 1
        try:
            r = thunk()
        except Exception as ex:
            name = type(ex).__name__
            intended = intended_exception(ex)
            if intended is not None and intended != name:
                # the exception came out of repr() of an operand while the message of `raise <intended>(...)` was
                # being formatted (seen: repr of a ucomplex with one zero component after a NaN correlation was
                # accepted -- known finding C11-1 -- divides by zero).  The model has no message texts: the
                # rejection is compared by the class the code was raising; the occurrence is counted.
                self.stats['exn-while-formatting-message:%s->%s' % (name, intended)] = \
                    self.stats.get('exn-while-formatting-message:%s->%s' % (name, intended), 0) + 1
                name = intended
            self.outs.append('(DOExn %s)' % cexn(name))
            self.slots.append(None)
            self.stats['exn:' + name] = self.stats.get('exn:' + name, 0) + 1
            self.rejected += 1
            self.last = ('exn', name)
            return None
        self.last = ('ok', None)
        if kind == 'one':
            self.outs.append(self.dump_any(r)); self.slots.append(r)
        elif kind == 'many':
            self.outs.append('(DOList %s)' % clist([self.dump_any(o) for o in r])); self.slots.extend(r)
            if not r: pass
        elif kind == 'unit':
            self.outs.append('DOUnit'); self.slots.append(r)
        return r

    # ---------------- operations
    def ureal(self, x, u, df=INF, indep=True):
        return self.record('(DUreal %s %s %s %s)' % (cf(x), cf(u), cf(df), cbool(indep)), ('ureal', x, u, df, indep),
                           lambda: self.core.ureal(x, u, df, independent=indep), 'one')

    def ucomplex(self, z, u, df=INF, indep=True):
        z = complex(z)
        return self.record('(DUcomplex %s %s %s %s %s)' % (cf(z.real), cf(z.imag), cuarg(u), cf(df), cbool(indep)),
                           ('ucomplex', [z.real, z.imag], list(u) if isinstance(u, (tuple, list)) else u, df, indep),
                           lambda: self.core.ucomplex(z, u, df, independent=indep), 'one')

    def mult_real(self, xs, us, df):
        return self.record('(DMultReal %s %s %s)' % (clist([cf(x) for x in xs]), clist([cf(u) for u in us]), cf(df)),
                           ('mult_real', list(xs), list(us), df),
                           lambda: self.core.multiple_ureal(list(xs), list(us), df), 'many')

    def mult_cplx(self, zs, us, df):
        zs = [complex(z) for z in zs]
        return self.record('(DMultCplx %s %s %s)' % (clist(['(%s, %s)' % (cf(z.real), cf(z.imag)) for z in zs]),
                                                     clist([cuarg(u) for u in us]), cf(df)),
                           ('mult_cplx', [[z.real, z.imag] for z in zs], [list(u) if isinstance(u, (tuple, list)) else u for u in us], df),
                           lambda: self.core.multiple_ucomplex(zs, list(us), df), 'many')

    def plain(self):
        a = self.lib.UncertainReal._elementary  # not used: a plain result needs two numbers of another session
        def th():
            from GTC import context
            saved = context._context
            context._context = context.Context(id=9000 + self.ctx_id)   # keep this session's uid counter untouched
            try:
                x = self.core.ureal(1.0, 1.0) + self.core.ureal(2.0, 1.0)
            finally:
                context._context = saved
            return x
        return self.record('DPlain', ('plain',), th, 'unit')

    def plainc(self):
        def th():
            from GTC import context
            saved = context._context
            context._context = context.Context(id=9000 + self.ctx_id)
            try:
                z = self.core.ucomplex(1 + 1j, 1.0) + self.core.ucomplex(2 + 1j, 1.0)
            finally:
                context._context = saved
            return z
        return self.record('DPlainC', ('plainc',), th, 'unit')

    def _arg(self, a):
        if a is None: return None
        if a == 'num': return 2.5
        return self.slots[a]

    def set_corr(self, r, a, b):
        rr = tuple(r) if isinstance(r, (tuple, list)) else r
        def th():
            self.core.set_correlation(rr, self._arg(a), self._arg(b))
            return None
        return self.record('(DSetCorr %s %s %s)' % (crarg(r), cdarg(a), cdarg(b)),
                           ('set_corr', list(r) if isinstance(r, (tuple, list)) else r, a, b), th, 'unit')

    def snapshot(self):
        self.ops.append('DSnapshot'); self.pyops.append(('snapshot',))
        self.outs.append('(DOSnap %s)' % clist([self.leafdump(n) for n in self.live_leaves()]))
        self.slots.append(None)

    def case_term(self):
        tbl = oracle_table(self.rec.log)
        return '(%s, %s, %s, %s)' % (cz(self.ctx_id), tbl, clist(self.ops), clist(self.outs))


HEADER = '''From Coq Require Import ZArith List PrimFloat.
From GTCV Require Import Num FNum Vector Opres KTypes Kernel DeclTypes Decl DeclCase.
Import ListNotations.
Local Open Scope float_scope.
'''

def replay_pyops(pyops, ctx_id):
    """re-execute a recorded program on the implementation; returns the closed DSession"""
    s = DSession(ctx_id)
    for op in pyops:
        k = op[0]
        if k == 'ureal': s.ureal(op[1], op[2], op[3], op[4])
        elif k == 'ucomplex': s.ucomplex(complex(op[1][0], op[1][1]), tuple(op[2]) if isinstance(op[2], list) else op[2], op[3], op[4])
        elif k == 'mult_real': s.mult_real(op[1], op[2], op[3])
        elif k == 'mult_cplx': s.mult_cplx([complex(a, b) for a, b in op[1]], [tuple(u) if isinstance(u, list) else u for u in op[2]], op[3])
        elif k == 'plain': s.plain()
        elif k == 'plainc': s.plainc()
        elif k == 'set_corr': s.set_corr(tuple(op[1]) if isinstance(op[1], list) else op[1], op[2], op[3])
        elif k == 'snapshot': s.snapshot()
    s.close()
    return s

def run_sessions(name, sessions, per_file=12):
    """evaluate the FNum model on every session's program inside coqc; returns (values, errors)"""
    terms = ['run_dcase %s' % s.case_term() for s in sessions]
    return coq_eval_cases(name, HEADER, terms, per_file=per_file)

"""C12 -- Type-A estimates reproduce the sample statistics, jointly and under combination.

correspondence: the sample estimators of GTC/type_a.py are run on generated samples and the
FNum instance of the Gallina model coq/TypeAEst.v (whose formula bodies are regenerated from the
source by tools/tr_type_a_est.py) is evaluated on the same data inside coqc; x, u, df,
independent of every returned real component and get_correlation of every pair are compared
bit for bit (exceptions by class).
search: an independent restatement of the property in exact rational arithmetic (fractions),
used only after a break / in the thorough tier."""
import math, cmath, json, collections, hashlib
from fractions import Fraction as Fr
from common import *
import c12_sessions

COQ_PROPS = 'props/C12.v'
PARTIAL = ('proved over the reals for every N >= 2 and every M: estimate (real: value, u, df; complex: the 2x2 covariance of '
           'the mean for EVERY sample, always one dependent pair with the sample correlation -- 0 included -- registered), multi_estimate_real '
           '(closed form; u_k u_l r_kl = S_kl/(N(N-1)) incl. the cv != 0 guard; |r| <= 1 by Cauchy-Schwarz, so _clip_r is the '
           'identity in exact arithmetic), the bilinear combination identity (LPU double sum over the returned u, r = sample '
           'covariance of the combined series / N), estimate_digitized >= s/sqrt N, agreement of mean / standard_deviation / '
           'standard_uncertainty / variance_covariance_complex.  Float level (FNum, any oracle table): _clip_r returns r or '
           'exactly +-1 and a ValueError of set_correlation_real after it can only concern an unclipped value.  The step from '
           'the returned u, r to the variance / dof of a derived number is taken from the kernel as two named hypotheses (LPU = '
           'C04, single-ensemble Welch-Satterthwaite = C05).  multi_estimate_complex: per-entry covariance proved, assembly of '
           'the 2M x 2M matrix tied by correspondence only.  standard_deviation / standard_uncertainty applied directly to '
           'ucomplex data and labels are not modelled; rounding error of r beyond the 1e-10 band is not bounded by proof.')
ASSUMPTIONS = ['rounding error of float arithmetic is not bounded by proof (theorems are over the reals)',
               'kernel facts used as hypotheses of the combination theorem: LPU double sum (C04), single-ensemble Welch-Satterthwaite (C05)']
TRUSTED = ['translator tools/tr_type_a_est.py (Python ast -> Gallina, fail-closed) for gen/Gen_type_a_est.v',
           'CPython 3.12 semantics modelled by hand in TypeAEst.v: builtin sum (Neumaier for floats), complex/int division, max, min',
           'Coq Reals library (sqrt, Rabs) and lra/nra/field',
           'session-level suite: harness/c12_sessions.py (implementation vs specification: dof of a combination = N-1 whatever was evaluated before) '
           'and the complex kernel model CKernel.v through harness/cgen.py profile dof (dof histories incl. failing evaluations)']

# ---------------------------------------------------------------- sample generators
def gen_series(rng, n, style=None):
    style = style or rng.choice(['dec', 'dec', 'offset', 'const', 'dyadic', 'wide', 'int'])
    if style == 'dec':
        d = rng.randint(0, 4); s = rng.choice([1, 1, 10, 0.01])
        return [round(rng.uniform(-5, 5) * s, d + 2) for _ in range(n)]
    if style == 'offset':            # large mean, small scatter: cancellation in the deviations
        base = rng.choice([1e3, 1e6, 1e9, 123456.789, -4.2e7])
        sc = rng.choice([1e-3, 1e-1, 1.0])
        return [base + round(rng.uniform(-1, 1) * sc, 6) for _ in range(n)]
    if style == 'const':
        c = rng.choice([0.0, 1.0, -2.5, 0.1, 1e-3, 7.3e5])
        return [c] * n
    if style == 'dyadic':
        return [rng.randint(-64, 64) / 8.0 for _ in range(n)]
    if style == 'wide':
        return [rng.uniform(-1, 1) * 10.0 ** rng.randint(-6, 6) for _ in range(n)]
    return [float(rng.randint(-20, 20)) for _ in range(n)]

def gen_multi(rng, m, n):
    """m series of length n with constant components and exactly / nearly collinear ones"""
    out = []; tags = []
    for k in range(m):
        t = rng.random()
        if out and t < 0.22:          # exactly collinear in floating point (dyadic data, dyadic factor)
            src = rng.choice(out)
            if all(abs(v * 8) == int(abs(v * 8)) and abs(v) < 1e4 for v in src):
                f = rng.choice([2.0, -1.0, 0.5, -4.0, 1.0]); c = rng.choice([0.0, 1.0, -3.0])
                out.append([f * v + c for v in src]); tags.append('collinear-exact'); continue
            f = rng.choice([2.0, -3.0, 0.5, 1.7, -0.3]); c = rng.choice([0.0, 1.0, -2.5])
            out.append([f * v + c for v in src]); tags.append('collinear-rounded'); continue
        if t < 0.34:
            out.append(gen_series(rng, n, 'const')); tags.append('const'); continue
        if t < 0.5:
            out.append(gen_series(rng, n, 'dyadic')); tags.append('dyadic'); continue
        out.append(gen_series(rng, n)); tags.append('free')
    return out, tags

def gen_symmetric(rng):
    """complex sample whose components BOTH vary and have sample covariance exactly 0 in binary64: a symmetric design
    (x0 +- a, y0 +- b), every sign combination equally often, dyadic numbers so that all sums are exact"""
    x0 = rng.randint(-16, 16) / 4.0; y0 = rng.randint(-16, 16) / 4.0
    a = rng.randint(1, 12) / 4.0; b = rng.randint(1, 12) / 4.0
    l = [(x0 + sa * a, y0 + sb * b) for sa in (1, -1) for sb in (1, -1)] * rng.randint(1, 3)
    if rng.random() < 0.4: l += [(x0, y0)] * rng.randint(1, 2)          # centre points keep the symmetry
    rng.shuffle(l)
    return l

def gen_digitized(rng, n):
    delta = rng.choice([0.0001, 0.001, 0.01, 0.5, 1.0, 0.25])
    base = rng.randint(-100, 100)
    mode = rng.choice(['none', 'lsd', 'lsd', 'more', 'more'])
    if mode == 'none':  ks = [0] * n
    elif mode == 'lsd': ks = [rng.randint(0, 1) for _ in range(n)]
    else:               ks = [rng.randint(-3, 3) for _ in range(n)]
    kind = rng.choice(['mult', 'mult', 'round'])
    if kind == 'mult': seq = [(base + k) * delta for k in ks]
    else:
        nd = max(0, int(round(-math.log10(delta)))) if delta < 1 else 0
        seq = [round((base + k) * delta, nd) for k in ks]
    if rng.random() < 0.08: delta = -delta            # nonsense step: negative
    return seq, delta, mode

# ---------------------------------------------------------------- running the implementation
def leaf_obs(x):
    return (x.x, x.u, x.df, bool(x._node.independent))

def ens_obs(xs):
    """the ensemble of every returned component, as sorted positions in the result (-1: a foreign uid)"""
    uids = [x._node.uid for x in xs]
    out = []
    for x in xs:
        e = getattr(x._node, 'ensemble', None)
        out.append(sorted(uids.index(u) if u in uids else -1 for u in e) if e else [])
    return out

def run_impl(call, ctx):
    """call = (name, payload...) ; returns ('exn', name) | ('nums', [...]) | ('leaves', [...], corr rows), math log"""
    from GTC import type_a, core
    new_context(ctx)
    kind = call[0]
    def un_r(l): return [core.ureal(v, 0.1 + 0.01 * i, 3 + i) for i, v in enumerate(l)]
    def un_c(l): return [core.ucomplex(complex(*v), (0.1, 0.2), 5) for v in l]
    def cz(l): return [complex(*v) for v in l]
    with record_math() as rec:
        try:
            if kind == 'mean':
                k, l = call[1:]
                out = ('nums', [type_a.mean(un_r(l) if k == 'KUreal' else list(l))])
            elif kind == 'meanc':
                z = type_a.mean(cz(call[1])); out = ('nums', [z.real, z.imag])
            elif kind in ('sd', 'su'):
                k, l, mu = call[1:]
                f = type_a.standard_deviation if kind == 'sd' else type_a.standard_uncertainty
                out = ('nums', [f(un_r(l) if k == 'KUreal' else list(l), mu)])
            elif kind in ('sdc', 'suc'):
                l, mu = call[1:]
                f = type_a.standard_deviation if kind == 'sdc' else type_a.standard_uncertainty
                s, r = f(cz(l), None if mu is None else complex(*mu))
                out = ('nums', [s.real, s.imag, r])
            elif kind == 'vcc':
                l, mu, wrap = call[1:]
                v = type_a.variance_covariance_complex(un_c(l) if wrap else cz(l), None if mu is None else complex(*mu))
                out = ('nums', list(v))
            elif kind == 'est':
                l, wrap = call[1:]
                x = type_a.estimate(un_r(l) if wrap else list(l))
                out = ('leaves', [leaf_obs(x)], [], ens_obs([x]))
            elif kind == 'estc':
                l, wrap = call[1:]
                z = type_a.estimate(un_c(l) if wrap else cz(l))
                out = ('leaves', [leaf_obs(z.real), leaf_obs(z.imag)], [[core.get_correlation(z.real, z.imag)]], ens_obs([z.real, z.imag]))
            elif kind == 'dig':
                l, delta, trunc = call[1:]
                x = type_a.estimate_digitized(list(l), delta, truncate=trunc)
                out = ('leaves', [leaf_obs(x)], [], ens_obs([x]))
            elif kind == 'multi':
                k, ls = call[1:]
                xs = type_a.multi_estimate_real([un_r(l) if k == 'KUreal' else list(l) for l in ls])
                out = ('leaves', [leaf_obs(x) for x in xs],
                       [[core.get_correlation(xs[i], xs[j]) for j in range(i + 1, len(xs))] for i in range(len(xs))], ens_obs(xs))
            elif kind == 'multic':
                ls, wrap = call[1:]
                zs = type_a.multi_estimate_complex([un_c(l) if wrap else cz(l) for l in ls])
                cs = [c for z in zs for c in (z.real, z.imag)]
                out = ('leaves', [leaf_obs(x) for x in cs],
                       [[core.get_correlation(cs[i], cs[j]) for j in range(i + 1, len(cs))] for i in range(len(cs))], ens_obs(cs))
            else:
                raise KeyError(kind)
        except Exception as ex:
            out = ('exn', type(ex).__name__, str(ex)[:120])
    return out, rec.log

def series_of(call):
    """(real series, candidate means) for the rule-based `**` oracle entries"""
    kind = call[0]
    def parts(l): return [[v[0] for v in l], [v[1] for v in l]]
    res = []
    if kind in ('mean', 'sd', 'su'):
        res.append((call[2], [call[3]] if len(call) > 3 and call[3] is not None else []))
    elif kind in ('sdc', 'suc', 'vcc', 'estc'):
        l = call[1]; mu = call[2] if kind != 'estc' else None
        re, im = parts(l)
        zm = []
        if l:
            z = sum(complex(*v) for v in l) / len(l); zm = [z.real, z.imag]
        res.append((re, ([mu[0]] if mu else []) + zm[:1])); res.append((im, ([mu[1]] if mu else []) + zm[1:]))
    elif kind == 'est':
        res.append((call[1], []))
    elif kind == 'dig':
        l = call[1]
        res.append((l, []))
        if l: res.append(([(max(l) + min(l)) / 2.0], [sum(l) / len(l)]))
    elif kind == 'multi':
        for l in call[2]: res.append((l, []))
    elif kind == 'multic':
        for l in call[1]:
            re, im = parts(l); res.append((re, [])); res.append((im, []))
    return res

def pow_entries(call):
    ent = []
    for s, mus in series_of(call):
        if not s: continue
        n = len(s)
        cands = list(mus)
        cands.append(sum(s) / n)                       # builtin sum (compensated for floats)
        acc = s[0]
        for v in s[1:]: acc = acc + v
        cands.append(acc / n)                          # plain left fold (uncertain-number arithmetic)
        cands.append(math.fsum(s) / n)
        for mu in cands:
            for v in s:
                ent.append(pow_entry(v - mu, 2)); ent.append(pow_entry(mu - v, 2))
    return ent

# ---------------------------------------------------------------- Coq terms
def cpair(v): return '(%s, %s)' % (cf(v[0]), cf(v[1]))
def cflist(l): return clist([cf(v) for v in l])
def cplist(l): return clist([cpair(v) for v in l])

def call_term(call):
    k = call[0]
    if k == 'mean':  return '(CMean %s %s)' % (call[1], cflist(call[2]))
    if k == 'meanc': return '(CMeanC %s)' % cplist(call[1])
    if k == 'sd':    return '(CSd %s %s %s)' % (call[1], cflist(call[2]), copt(call[3], cf))
    if k == 'su':    return '(CSu %s %s %s)' % (call[1], cflist(call[2]), copt(call[3], cf))
    if k == 'sdc':   return '(CSdC %s %s)' % (cplist(call[1]), copt(call[2], cpair))
    if k == 'suc':   return '(CSuC %s %s)' % (cplist(call[1]), copt(call[2], cpair))
    if k == 'vcc':   return '(CVcc %s %s)' % (cplist(call[1]), copt(call[2], cpair))
    if k == 'est':   return '(CEst %s)' % cflist(call[1])
    if k == 'estc':  return '(CEstC %s)' % cplist(call[1])
    if k == 'dig':   return '(CDig %s %s %s)' % (cflist(call[1]), cf(call[2]), cbool(call[3]))
    if k == 'multi': return '(CMulti %s %s)' % (call[1], clist([cflist(l) for l in call[2]]))
    if k == 'multic': return '(CMultiC %s)' % clist([cplist(l) for l in call[1]])
    raise KeyError(k)

def out_term(out):
    if out[0] == 'exn':  return '(OExn %s)' % cexn(out[1])
    if out[0] == 'nums': return '(ONums %s)' % cflist(out[1])
    leaves = clist(['(mkLeaf %s %s %s %s)' % (cf(x), cf(u), cf(df), cbool(ind)) for x, u, df, ind in out[1]])
    return '(OLeaves %s %s %s)' % (leaves, clist([cflist(r) for r in out[2]]), clist([clist([cz(i) for i in e]) for e in out[3]]))

HEADER = """From Coq Require Import ZArith List Bool PrimFloat.
From GTCV Require Import Num FNum TypeAPre TypeAEst.
Import ListNotations.
Local Open Scope float_scope.
"""

def case_term(call, out, log):
    tbl = oracle_table(log, extra=pow_entries(call))
    return '(ta_case %s %s %s)' % (tbl, call_term(call), out_term(out))

# ---------------------------------------------------------------- case generation
def rand_mu(rng, l):
    if not l or rng.random() < 0.6: return None
    return rng.choice([sum(l) / len(l), l[0], 0.0, round(sum(l) / len(l), 2)])

def to_pairs(a, b): return [(x, y) for x, y in zip(a, b)]

def gen_call(rng, i):
    """one call; every 8th is from the malformed stream (N = 0, 1, ragged, empty outer sequence)"""
    malformed = (i % 8 == 7)
    n = rng.randint(2, 12)
    if malformed: n = rng.choice([0, 1, 1, n])
    kind = rng.choice(['mean', 'meanc', 'sd', 'su', 'sdc', 'suc', 'vcc', 'est', 'est', 'estc', 'estc', 'dig', 'dig',
                       'multi', 'multi', 'multi', 'multi', 'multic', 'multic', 'multic'])
    dk = lambda: rng.choice(['KFloat', 'KFloat', 'KUreal'])
    if kind == 'mean': return (kind, dk(), gen_series(rng, n)), 'n=%d' % n
    if kind in ('sd', 'su'):
        l = gen_series(rng, n); return (kind, dk(), l, rand_mu(rng, l)), 'n=%d' % n
    if kind in ('meanc', 'sdc', 'suc', 'vcc', 'estc'):
        (a, b), tags = gen_multi(rng, 2, n)
        if rng.random() < 0.3: rng.shuffle(b) if tags[1] != 'const' else None
        if not malformed and rng.random() < (0.35 if kind == 'estc' else 0.15):
            l0 = gen_symmetric(rng); a = [v[0] for v in l0]; b = [v[1] for v in l0]; n = len(l0); tags = ['free', 'symmetric']
        l = to_pairs(a, b)
        if kind == 'meanc': return (kind, l), 'n=%d' % n
        if kind == 'estc': return (kind, l, rng.random() < 0.25), 'n=%d %s' % (n, tags[1])
        mu = None
        if l and rng.random() < 0.4: mu = (rand_mu(rng, a) or 0.0, rand_mu(rng, b) or 0.0)
        if kind == 'vcc': return (kind, l, mu, rng.random() < 0.25), 'n=%d %s' % (n, tags[1])
        return (kind, l, mu), 'n=%d %s' % (n, tags[1])
    if kind == 'est': return (kind, gen_series(rng, n), rng.random() < 0.25), 'n=%d' % n
    if kind == 'dig':
        l, delta, mode = gen_digitized(rng, n)
        return (kind, l, delta, rng.random() < 0.4), 'n=%d %s' % (n, mode)
    m = rng.randint(1, 4)
    if malformed and rng.random() < 0.25: m = 0
    if kind == 'multi':
        ls, tags = gen_multi(rng, m, n)
        if malformed and m > 1 and rng.random() < 0.5: ls[rng.randrange(m)] = gen_series(rng, n + 1); tags.append('ragged')
        return (kind, dk(), ls), 'n=%d m=%d %s' % (n, m, '/'.join(sorted(set(tags))))
    ls, tags = gen_multi(rng, 2 * m, n)
    zs = [to_pairs(ls[2 * k], ls[2 * k + 1]) for k in range(m)]
    if malformed and m > 1 and rng.random() < 0.5:
        zs[rng.randrange(m)] = to_pairs(gen_series(rng, n + 1), gen_series(rng, n + 1)); tags.append('ragged')
    return (kind, zs, rng.random() < 0.25), 'n=%d m=%d %s' % (n, m, '/'.join(sorted(set(tags))))

def direct_checks(call, out):
    """implementation-only side conditions that the model does not carry (complex df through willink_hall)"""
    return None

def run_cases(calls, name):
    terms = []; outs = []
    for i, (call, _) in enumerate(calls):
        out, log = run_impl(call, 100 + i)
        outs.append(out)
        terms.append(case_term(call, out, log))
    vals, errs = coq_eval_cases(name, HEADER, terms, per_file=40)
    return outs, vals, errs

# ---------------------------------------------------------------- fixed block: the same uncertain-number data in every container form
# "mean, standard_deviation, standard_uncertainty and variance_covariance_complex ... use only the values of uncertain-number
# data": run in EVERY tier, no random choice.  The same data (UncertainReal / UncertainComplex objects with non-zero
# uncertainties) is handed over as list, tuple, uarray, object ndarray, iter(list), generator expression, dict.values() and
# deque (sets: uncertain numbers are unhashable); the result must be the result of the list form bit for bit, type included
# (float / complex / the x,u,df,r of the returned estimate), never an uncertain number where the list form gives a plain one.
# Cells where the unchanged library refuses the container (no len() on iterators; `float(UncertainReal)` for complex data in
# an object ndarray / dict view) may alternatively raise TypeError -- nothing else.
CONTAINER_REAL = [1.25, -0.5, 3.1, 2.2, 0.7]
CONTAINER_CPLX = [(1.25, 0.3), (-0.5, 1.1), (3.1, -2.0), (2.2, 0.4)]
CONTAINER_FORMS = ('list', 'tuple', 'uarray', 'ndarray', 'iter', 'genexp', 'dict.values', 'deque')
NO_LEN = ('iter', 'genexp')
VIEW = ('ndarray', 'dict.values')
def container_may_raise(fn, kind, form):
    """(function, data kind, form) for which TypeError is the documented-by-behaviour alternative on the pinned library"""
    if fn == 'mean': return False
    if form in NO_LEN: return True
    if kind == 'cplx' and form in VIEW and fn in ('standard_deviation', 'standard_uncertainty', 'estimate'): return True
    if fn == 'estimate_digitized' and form in VIEW: return True
    return False
# reported to the coordinator, excluded until answered: variance_covariance_complex of ucomplex data in an object ndarray or a
# dict view returns UncertainReal elements that carry the data's uncertainties (value_seq only converts sequences)
CONTAINER_PENDING = {('variance_covariance_complex', 'cplx', 'ndarray'), ('variance_covariance_complex', 'cplx', 'dict.values')}

def _canon(r):
    """a result as nested tuples of (type name, exact bits)"""
    from GTC import lib
    if isinstance(r, lib.UncertainReal): return ('UncertainReal', float(r.x).hex(), float(r.u).hex(), float(r.df).hex())
    if isinstance(r, lib.UncertainComplex): return ('UncertainComplex', _canon(r.real), _canon(r.imag), float(r.r).hex())
    if isinstance(r, bool) or r is None: return (type(r).__name__, r)
    if isinstance(r, complex): return ('complex', r.real.hex(), r.imag.hex())
    if isinstance(r, float): return ('float', r.hex())
    if isinstance(r, int): return ('int', r)
    if isinstance(r, (tuple, list)): return ('seq',) + tuple(_canon(x) for x in r)
    return (type(r).__name__, repr(r)[:60])

def _plain(c):
    """no uncertain number where a plain number is expected"""
    return 'Uncertain' not in repr(c)

def container_block():
    import numpy as np
    from collections import deque
    from GTC import type_a, core
    from GTC.uncertain_array import UncertainArray
    mism = []; n = 0
    def mk(form, l):
        return {'list': lambda: list(l), 'tuple': lambda: tuple(l), 'uarray': lambda: UncertainArray(list(l)),
                'ndarray': lambda: np.array(list(l), dtype=object), 'iter': lambda: iter(list(l)), 'genexp': lambda: (x for x in l),
                'dict.values': lambda: {i: x for i, x in enumerate(l)}.values(), 'deque': lambda: deque(l)}[form]()
    FN = [('mean', ('real', 'cplx'), lambda d: type_a.mean(d), True),
          ('standard_deviation', ('real', 'cplx'), lambda d: type_a.standard_deviation(d), True),
          ('standard_uncertainty', ('real', 'cplx'), lambda d: type_a.standard_uncertainty(d), True),
          ('variance_covariance_complex', ('cplx',), lambda d: type_a.variance_covariance_complex(d), True),
          ('estimate', ('real', 'cplx'), lambda d: type_a.estimate(d), False),
          ('estimate_digitized', ('real',), lambda d: type_a.estimate_digitized(d, 0.1), False)]
    for fn, kinds, f, plain in FN:
        for kind in kinds:
            results = {}
            for form in CONTAINER_FORMS:
                new_context(77)
                data = ([core.ureal(v, 0.1 + 0.01 * i, 3 + i) for i, v in enumerate(CONTAINER_REAL)] if kind == 'real' else
                        [core.ucomplex(complex(a, b), (0.1, 0.2), 5) for a, b in CONTAINER_CPLX])
                try: results[form] = ('ok', _canon(f(mk(form, data))))
                except Exception as ex: results[form] = ('exn', type(ex).__name__)
            ref = results['list']
            for form in CONTAINER_FORMS:
                if (fn, kind, form) in CONTAINER_PENDING: continue
                n += 1
                got = results[form]
                ok = (got == ref and got[0] == 'ok' and (not plain or _plain(got[1])))
                if not ok and container_may_raise(fn, kind, form) and got == ('exn', 'TypeError'): ok = True
                if not ok:
                    mism.append({'kind': 'container-form', 'function': fn, 'data': kind, 'form': form, 'got': repr(got)[:300],
                                 'list_form': repr(ref)[:300]})
    # the multi estimators: every series in the given form
    for fn, kind, f in (('multi_estimate_real', 'real', type_a.multi_estimate_real), ('multi_estimate_complex', 'cplx', type_a.multi_estimate_complex)):
        results = {}
        for form in CONTAINER_FORMS:
            new_context(78)
            if kind == 'real':
                d1 = [core.ureal(v, 0.1 + 0.01 * i, 3 + i) for i, v in enumerate(CONTAINER_REAL)]
                d2 = [core.ureal(v * v - 1.0, 0.2, 4) for v in CONTAINER_REAL]
            else:
                d1 = [core.ucomplex(complex(a, b), (0.1, 0.2), 5) for a, b in CONTAINER_CPLX]
                d2 = [core.ucomplex(complex(b, a * b), (0.3, 0.1), 6) for a, b in CONTAINER_CPLX]
            try:
                xs = f([mk(form, d1), mk(form, d2)])
                comps = [c for x in xs for c in ((x.real, x.imag) if kind == 'cplx' else (x,))]
                results[form] = ('ok', _canon(list(xs)), tuple(core.get_correlation(a, b).hex() for i, a in enumerate(comps) for b in comps[i + 1:]))
            except Exception as ex: results[form] = ('exn', type(ex).__name__)
        ref = results['list']
        for form in CONTAINER_FORMS:
            n += 1
            got = results[form]
            ok = (got == ref and got[0] == 'ok') or (form in NO_LEN and got == ('exn', 'TypeError'))
            if not ok:
                mism.append({'kind': 'container-form', 'function': fn, 'data': kind, 'form': form, 'got': repr(got)[:300], 'list_form': repr(ref)[:300]})
    return mism, n

def fixed_calls():
    """run in every tier, no random choice: the edge classes of the quantifier through every function -- constant series /
    components, all observations equal, N = 2, exactly collinear series, exact-zero covariance with both components varying,
    uncertain-number data, digitized data without scatter for N = 2, 3, 4, 5"""
    C = [1.0, 1.0, 1.0, 1.0, 1.0]; D = [0.75, 2.0, -1.5, 0.25]; E = [2.0 * v for v in D]; T = [0.1, 0.1, 0.1]
    sym = [(1.0, 2.0), (-1.0, 2.0), (1.0, -2.0), (-1.0, -2.0)]
    cc = [(v, 1.0) for v in D]; ce = [(1.0, 1.0)] * 3; col = [(v, 2.0 * v) for v in D]
    out = []
    for l in (C, T, D, [3.5, 3.5], [1.0, 2.0]):
        out += [('est', l, False), ('est', l, True), ('mean', 'KFloat', l), ('mean', 'KUreal', l), ('sd', 'KFloat', l, None), ('sd', 'KUreal', l, None),
                ('su', 'KFloat', l, None), ('su', 'KUreal', l, None)]
    for l in (sym, cc, ce, col, [(1.0, 2.0), (3.0, -1.0)]):
        out += [('estc', l, False), ('estc', l, True), ('meanc', l), ('sdc', l, None), ('suc', l, None), ('vcc', l, None, False), ('vcc', l, None, True)]
    for ls in ([C], [D], [D, E], [D, C], [C, T + [0.1, 0.1]], [D, E, C], [T, T]):
        if len(set(len(x) for x in ls)) == 1: out += [('multi', 'KFloat', ls), ('multi', 'KUreal', ls)]
    for zs in ([sym], [cc], [ce], [col], [sym, col], [cc, ce + [(1.0, 1.0)]]):
        out += [('multic', zs, False), ('multic', zs, True)]
    for k in (2, 3, 4, 5):
        out += [('dig', [0.5] * k, 0.1, False), ('dig', [0.5] * k, 0.1, True)]
    out += [('dig', [0.5, 0.6, 0.5, 0.6], 0.1, False), ('dig', [0.5, 0.75, 0.5, 1.0], 0.25, True)]
    return [(c, 'n=%d fixed' % 0) for c in out]

def correspondence(rng, tier):
    n = 360 if tier == 'quick' else 15000
    calls = fixed_calls() + [gen_call(rng, i) for i in range(n)]
    outs, vals, errs = run_cases(calls, 'C12')
    mism = []
    for e in errs:
        mism.append({'kind': 'coqc-failed', 'file': e['file'], 'rc': e['rc'], 'output': e['output'][-1200:]})
    stats = collections.Counter(); distinct = set()
    for (call, tag), out, v in zip(calls, outs, vals):
        stats['call:' + call[0]] += 1
        stats['result:' + (out[1] if out[0] == 'exn' else 'ok')] += 1
        for t in tag.split():
            if not t.startswith('n='):
                for t1 in t.split('/'): stats['data:' + t1] += 1
        if out[0] != 'exn':
            distinct.add(hashlib.sha1(repr(call).encode()).hexdigest())
        if v is not None and v != -1:
            mism.append({'kind': 'model-vs-implementation', 'call': call, 'implementation_output': out})
    # ---- fixed block (every tier, no random choice): the same uncertain-number data in every container form
    cmism, ncont = container_block()
    mism += cmism; stats['container-form cells'] = ncont
    # ---- session level: sequences of estimator calls and dof evaluations within one context
    #  (a) through type_a's own declarations, against the specification (dof of a combination = N-1 whatever came before)
    smism, sstats, sdistinct = c12_sessions.run_suite(rng, 60 if tier == 'quick' else 3000)
    mism += smism
    for k, v in sstats.items(): stats['session:' + k] += v
    #  (b) the kernel the claim rests on: willink_hall / welch_satterthwaite with the class-level accumulators, the complex
    #      kernel model CKernel.v bit for bit on histories that include failing dof evaluations followed by others
    ck = __import__('cgen').run_ckernel_corr(rng, 'dof', 'C12c', tier=tier, n=4 if tier == 'quick' else 12)
    mism += ck['mismatches']
    for k, v in ck['distribution'].items():
        if k.startswith('sessions_'): stats['kernel:' + k] += v
    nprog = len(calls) + sstats.get('sessions', 0) + ck['programs'] + ncont
    nsteps = len(calls) + sstats.get('steps', 0) + ck['steps']
    return {'programs': nprog, 'steps': nsteps, 'mismatches': mism, 'distinct': len(distinct) + sdistinct + ck['distinct'],
            'distribution': dict(stats),
            'rule': 'random samples (N in 2..12, M in 1..4; decimal, large-offset, wide-range, dyadic, integer, constant, exactly and '
                    'nearly collinear series; float / uncertain-number data; optional mu; digitized data with no / LSD-only / larger scatter) '
                    'through mean, standard_deviation, standard_uncertainty, variance_covariance_complex, estimate, estimate_digitized, '
                    'multi_estimate_real, multi_estimate_complex; every 8th case malformed (N = 0, 1, ragged, M = 0); x, u, df, independent of '
                    'every returned component and every pairwise get_correlation compared bit for bit with the FNum model, exceptions by class; '
                    'non-trivial = the implementation returned a value; distinct by hash of the call.  Session level: random scripts that '
                    'declare estimate / multi_estimate_real / multi_estimate_complex results, form linear combinations and results whose dof '
                    'evaluation fails (AssertionError, IndexError: known C05 findings), and read dofs in random order, targets after '
                    'disturbances and repeatedly; every target read must give N-1 (rel 1e-6) and the same value again (harness/c12_sessions.py); '
                    'plus the dof histories of the complex kernel model (cgen profile dof) bit for bit',
            'samples': [{'call': c[0]} for c in calls[:2]]}

# ---------------------------------------------------------------- oracle (search only): exact sample statistics
def F(x): return Fr(x)
def fmean(s): return sum(map(F, s), Fr(0)) / len(s)
def fcov(a, b):
    ma, mb = fmean(a), fmean(b)
    return sum(((F(x) - ma) * (F(y) - mb) for x, y in zip(a, b)), Fr(0)) / (len(a) - 1)

def close(got, want, scale, rel=1e-9):
    """conservative: absolute tolerance relative to the magnitudes that entered the computation"""
    want = float(want)
    if math.isnan(got): return False
    return abs(got - want) <= rel * max(abs(scale), abs(want), 1e-300)

def known_kind(failing):
    return failing.get('known')

def check_estimate_real(s):
    from GTC import type_a
    new_context(3)
    n = len(s); x = type_a.estimate(list(s))
    mag = max(abs(v) for v in s) or 1.0
    var = fcov(s, s) / n
    if not close(x.x, fmean(s), mag, 1e-12): return {'what': 'estimate value', 'data': s, 'got': x.x, 'want': float(fmean(s))}
    if not close(x.u ** 2, var, mag * mag * 1e-6): return {'what': 'estimate u', 'data': s, 'got': x.u, 'want': math.sqrt(var)}
    if x.df != n - 1: return {'what': 'estimate df', 'data': s, 'got': x.df, 'want': n - 1}
    sd = type_a.standard_deviation(list(s)); su = type_a.standard_uncertainty(list(s)); mu = type_a.mean(list(s))
    if not (close(sd ** 2, fcov(s, s), mag * mag * 1e-6) and close(su ** 2, var, mag * mag * 1e-6) and close(mu, fmean(s), mag, 1e-12)):
        return {'what': 'mean / standard_deviation / standard_uncertainty disagree with estimate', 'data': s}
    return None

def check_un_data(s):
    """only the values of uncertain-number data are used"""
    from GTC import type_a, core
    new_context(4)
    un = [core.ureal(v, 0.5 + i, 4) for i, v in enumerate(s)]
    mag = max(abs(v) for v in s) or 1.0
    a = type_a.estimate(un); b = type_a.estimate(list(s))
    if (a.x, a.u, a.df) != (b.x, b.u, b.df): return {'what': 'estimate depends on the uncertainty of its data', 'data': s}
    for f in (type_a.mean, type_a.standard_deviation, type_a.standard_uncertainty):
        p, q = f(un), f(list(s))
        if not isinstance(p, float) or not close(p, q, mag if f is type_a.mean else max(abs(q), mag * 1e-6), 1e-9):
            return {'what': '%s of uncertain-number data differs from the same on values' % f.__name__, 'data': s, 'got': repr(p), 'want': q}
    return None

def check_digitized(s, delta, trunc):
    from GTC import type_a
    new_context(5)
    try:
        x = type_a.estimate_digitized(list(s), delta, truncate=trunc)
    except ValueError:
        return None if delta < 0 else {'what': 'estimate_digitized raised', 'data': s, 'delta': delta}
    var = fcov(s, s) / len(s)
    mag = max(abs(v) for v in s) or 1.0
    if x.u ** 2 < float(var) - 1e-9 * max(float(var), mag * mag * 1e-6):
        return {'what': 'estimate_digitized below the type-A uncertainty', 'data': s, 'delta': delta, 'got': x.u, 'want': math.sqrt(var)}
    if x.df != len(s) - 1: return {'what': 'estimate_digitized df', 'data': s}
    return None

def check_multi_real(ls, coef):
    from GTC import type_a, core
    new_context(6)
    n = len(ls[0])
    try:
        xs = type_a.multi_estimate_real([list(l) for l in ls])
    except ValueError as ex:
        if 'correlation coefficient' in str(ex):      # fixed finding C12-multi-collinear-valueerror: a regression
            return {'what': 'multi_estimate_real raises ValueError (%s)' % str(ex)[:80], 'data': ls, 'regression': 'C12-multi-collinear-valueerror'}
        raise
    mags = [max(abs(v) for v in l) or 1.0 for l in ls]
    for k, l in enumerate(ls):
        if not close(xs[k].x, fmean(l), mags[k], 1e-12) or not close(xs[k].u ** 2, fcov(l, l) / n, mags[k] ** 2 * 1e-6) or xs[k].df != n - 1:
            return {'what': 'multi_estimate_real component %d' % k, 'data': ls}
    for i in range(len(ls)):
        for j in range(i + 1, len(ls)):
            c = core.get_covariance(xs[i], xs[j])
            if not close(c, fcov(ls[i], ls[j]) / n, mags[i] * mags[j] * 1e-6):
                return {'what': 'covariance (%d,%d)' % (i, j), 'data': ls, 'got': c, 'want': float(fcov(ls[i], ls[j]) / n)}
    y = sum((a * x for a, x in zip(coef, xs)), 0)
    comb = [sum((F(a) * F(l[j]) for a, l in zip(coef, ls)), Fr(0)) for j in range(n)]
    scale = sum(abs(a) * m for a, m in zip(coef, mags))
    var = fcov(comb, comb) / n
    vscale = sum((abs(a) * (math.sqrt(float(fcov(l, l) / n)) + 1e-6 * m) for a, l, m in zip(coef, ls, mags))) ** 2
    if not close(core.value(y), fmean(comb), scale, 1e-12):
        return {'what': 'value of the linear combination', 'data': ls, 'coef': coef}
    if not close(core.variance(y), var, vscale, 1e-8):
        return {'what': 'variance of the linear combination', 'data': ls, 'coef': coef, 'got': core.variance(y), 'want': float(var)}
    if float(var) > 1e-6 * vscale and vscale > 0:
        d = core.dof(y)
        if not (abs(d - (n - 1)) <= 1e-6 * (n - 1)):
            return {'what': 'dof of the linear combination', 'data': ls, 'coef': coef, 'got': d, 'want': n - 1}
    return None

def check_complex(zs, coef):
    """multi_estimate_complex vs estimate of the combined complex sample"""
    from GTC import type_a, core
    new_context(8)
    n = len(zs[0])
    try:
        us = type_a.multi_estimate_complex([[complex(*v) for v in l] for l in zs])
    except ValueError as ex:
        if 'correlation coefficient' in str(ex):      # fixed finding C12-multi-collinear-valueerror: a regression
            return {'what': 'multi_estimate_complex raises ValueError (%s)' % str(ex)[:80], 'data': zs, 'regression': 'C12-multi-collinear-valueerror'}
        raise
    y = sum((complex(*c) * u for c, u in zip(coef, us)), 0)
    # exact combined series
    re = []; im = []
    for j in range(n):
        a = Fr(0); b = Fr(0)
        for (cr, ci), l in zip(coef, zs):
            xr, xi = F(l[j][0]), F(l[j][1])
            a += F(cr) * xr - F(ci) * xi; b += F(cr) * xi + F(ci) * xr
        re.append(a); im.append(b)
    vr, vi, cri = fcov(re, re) / n, fcov(im, im) / n, fcov(re, im) / n
    mag = sum((abs(complex(*c)) * (max(abs(complex(*v)) for v in l) or 1.0) for c, l in zip(coef, zs)))
    vs = sum((abs(complex(*c)) * (math.sqrt(float((fcov([v[0] for v in l], [v[0] for v in l]) + fcov([v[1] for v in l], [v[1] for v in l])) / n))
                                  + 1e-6 * (max(abs(complex(*v)) for v in l) or 1.0))
              for c, l in zip(coef, zs))) ** 2
    v = core.variance(y); z = core.value(y)
    if not (close(z.real, fmean(re), mag, 1e-12) and close(z.imag, fmean(im), mag, 1e-12)):
        return {'what': 'value of the complex combination', 'data': zs, 'coef': coef}
    if not (close(v[0], vr, vs, 1e-8) and close(v[3], vi, vs, 1e-8) and close(v[1], cri, vs, 1e-8) and close(v[2], cri, vs, 1e-8)):
        return {'what': 'covariance matrix of the complex combination', 'data': zs, 'coef': coef, 'got': list(v), 'want': [float(vr), float(cri), float(cri), float(vi)]}
    det = float(vr * vi - cri * cri)
    if vs > 0 and det > 1e-6 * vs * vs:
        d = core.dof(y)
        if not (abs(d - (n - 1)) <= 1e-6 * (n - 1)):
            return {'what': 'dof of the complex combination', 'data': zs, 'coef': coef, 'got': d, 'want': n - 1}
    return None

def check_estimate_complex(l):
    from GTC import type_a, core
    new_context(9)
    n = len(l); re = [v[0] for v in l]; im = [v[1] for v in l]
    try:
        z = type_a.estimate([complex(*v) for v in l])
    except AttributeError:                            # fixed finding C12-estimate-complex-r0: a regression
        return {'what': 'estimate of complex data raises AttributeError', 'data': l, 'regression': 'C12-estimate-complex-r0'}
    mag = max(abs(complex(*v)) for v in l) or 1.0
    v = core.variance(z)
    want = [fcov(re, re) / n, fcov(re, im) / n, fcov(re, im) / n, fcov(im, im) / n]
    if not (close(z.x.real, fmean(re), mag, 1e-12) and close(z.x.imag, fmean(im), mag, 1e-12)):
        return {'what': 'complex estimate value', 'data': l}
    if not all(close(g, w, mag * mag * 1e-6) for g, w in zip(v, want)):
        return {'what': 'complex estimate covariance', 'data': l, 'got': list(v), 'want': [float(w) for w in want]}
    if z.real.df != n - 1 or z.imag.df != n - 1:
        return {'what': 'complex estimate df', 'data': l}
    vc = type_a.variance_covariance_complex([complex(*v) for v in l])
    if not all(close(g, w * n, mag * mag * 1e-6) for g, w in zip(vc, want)):
        return {'what': 'variance_covariance_complex', 'data': l}
    # the M = 1 complex case of the linear-combination clause: any combination of the two components has N-1 dof
    det = float(want[0] * want[3] - want[1] * want[2])
    if det > 1e-6 * float(want[0] + want[3]) ** 2 / 4:
        for name, y in (('z', z), ('(1+2j)*z', (1 + 2j) * z), ('(0.5-1.5j)*z', (0.5 - 1.5j) * z), ('z.real+z.imag', z.real + z.imag),
                        ('2*z.real-0.75*z.imag', 2 * z.real - 0.75 * z.imag)):
            d = core.dof(y)
            if not abs(d - (n - 1)) <= 1e-6 * (n - 1):
                return {'what': 'dof of %s is %r, N-1 = %d' % (name, d, n - 1), 'data': l, 'got': d, 'want': n - 1}
    return None

def one_search_case(rng):
    """-> (check function, arguments)"""
    n = rng.randint(2, 12)
    t = rng.randrange(7)
    rc = lambda: round(rng.uniform(-3, 3), 2)
    if t == 0: return check_estimate_real, [gen_series(rng, n)]
    if t == 1: return check_un_data, [gen_series(rng, n)]
    if t == 2:
        l, d, _ = gen_digitized(rng, n); return check_digitized, [l, d, rng.random() < 0.4]
    if t == 3:
        m = rng.randint(1, 4); ls, _ = gen_multi(rng, m, n)
        return check_multi_real, [ls, [rc() for _ in range(m)]]
    if t == 4:
        m = rng.randint(1, 3); ls, _ = gen_multi(rng, 2 * m, n)
        return check_complex, [[to_pairs(ls[2 * k], ls[2 * k + 1]) for k in range(m)], [(rc(), rc()) for _ in range(m)]]
    if t == 6: return c12_sessions.check_session, [c12_sessions.gen_session(rng)]
    if rng.random() < 0.4: return check_estimate_complex, [gen_symmetric(rng)]
    (a, b), _ = gen_multi(rng, 2, n)
    return check_estimate_complex, [to_pairs(a, b)]

CHECKS = {}

def run_check(fn, args):
    try:
        r = fn(*args)
    except Exception as ex:
        r = {'what': 'unexpected exception %s: %s' % (type(ex).__name__, str(ex)[:200])}
    if r is not None:
        r = dict(r); r['check'] = fn.__name__; r['args'] = args
    return r

def is_known(f):
    # C12 has no open known finding: C12-estimate-complex-r0 and C12-multi-collinear-valueerror are fixed, so an input
    # that reproduces either is a failing input like any other
    return False

def search(rng, tier, broken):
    n = 600 if tier == 'quick' else 6000
    tried = 0; known = collections.Counter()
    # a session that disagreed with the specification in the correspondence run is itself the failing input
    for kind, detail in broken or []:
        if kind != 'correspondence': continue
        for m in detail:
            if isinstance(m, dict) and m.get('kind') == 'session-vs-specification':
                tried += 1
                r = run_check(c12_sessions.check_session, [m['script']])
                if r is not None: return {'tried': tried, 'failing': r, 'known_skipped': {}}
    for _ in range(n):
        tried += 1
        fn, args = one_search_case(rng)
        r = run_check(fn, args)
        if r is None: continue
        if is_known(r):
            known[r['known']] += 1; continue
        return {'tried': tried, 'failing': r, 'known_skipped': dict(known)}
    return {'tried': tried, 'failing': None, 'known_skipped': dict(known)}

# ---------------------------------------------------------------- known findings (run on the implementation)
def estimate_complex_r0():
    """type_a.estimate of complex data whose sample correlation is exactly 0 raises AttributeError"""
    from GTC import type_a
    new_context(11)
    try:
        type_a.estimate([1 + 1j, 2 + 1j, 4 + 1j])
    except AttributeError as ex:
        return True, str(ex)
    return False, 'no exception'

COLLINEAR = ([0.75, 2.0, -1.5], [1.5, 4.0, -3.0])      # b = 2a exactly; the float witness of props/C12.v
def multi_collinear_valueerror():
    """multi_estimate_real of exactly collinear series: r rounds to 1 + ulp, set_correlation_real raises"""
    from GTC import type_a
    new_context(12)
    try:
        type_a.multi_estimate_real(COLLINEAR)
    except ValueError as ex:
        if 'correlation coefficient' in str(ex):
            return True, {'a': COLLINEAR[0], 'b': COLLINEAR[1], 'error': str(ex)}
    return False, 'no exception'

ZERO_COV = [1 + 2j, -1 + 2j, 1 - 2j, -1 - 2j]           # both components vary, sample covariance exactly 0
def estimate_complex_zero_cov_dof():
    """combinations of the two components of estimate(ZERO_COV) do not have N-1 = 3 degrees of freedom"""
    from GTC import type_a, core
    new_context(13)
    z = type_a.estimate(ZERO_COV)
    got = {'(1+2j)*z': core.dof((1 + 2j) * z), 'z.real+z.imag': core.dof(z.real + z.imag)}
    bad = {k: v for k, v in got.items() if not abs(v - 3) <= 1e-6}
    return bool(bad), {'data': [str(c) for c in ZERO_COV], 'dof': got, 'independent': bool(z.real._node.independent)}

# ---------------------------------------------------------------- replay
def detuple(x):
    return [detuple(v) for v in x] if isinstance(x, (list, tuple)) else x

def replay(payload):
    print(json.dumps(payload.get('broken'), indent=1, default=str)[:3000])
    f = payload.get('failing_input')
    if not f:
        return 0
    print('failing input:', json.dumps(f, default=str)[:2000])
    fn = {c.__name__: c for c in (check_estimate_real, check_un_data, check_digitized, check_multi_real, check_complex,
                                  check_estimate_complex, c12_sessions.check_session)}.get(f.get('check'))
    if fn is None:
        print('no replayable check recorded'); return 1
    args = f['args']
    if fn in (check_complex,):
        args = [[[tuple(v) for v in l] for l in args[0]], [tuple(c) for c in args[1]]]
    if fn is check_estimate_complex:
        args = [[tuple(v) for v in args[0]]]
    r = run_check(fn, args)
    if r is not None and is_known(r): r = None
    print('replayed on the implementation:', 'STILL FAILS %s' % r.get('what') if r else 'passes now')
    return 1 if r else 0

def kf_vcc_container_values():
    """known finding C12-vcc-container-values: variance_covariance_complex of ucomplex data in an object ndarray / dict view
    returns uncertain numbers (the data's uncertainties leak into the sample statistics)"""
    import numpy as np
    from GTC import core, type_a
    new_context(1212)
    zs = [core.ucomplex(1.25 + 0.3j, (0.1, 0.2), 5), core.ucomplex(-0.5 + 1.1j, (0.1, 0.2), 5),
          core.ucomplex(3.1 - 2j, (0.1, 0.2), 5), core.ucomplex(2.2 + 0.4j, (0.1, 0.2), 5)]
    want = type_a.variance_covariance_complex(zs)
    got = []
    for form, data in (('ndarray', np.array(zs, dtype=object)), ('dict.values', dict(enumerate(zs)).values())):
        try:
            r = type_a.variance_covariance_complex(data)
            got.append((form, all(isinstance(v, float) for v in r) and tuple(r) == tuple(want)))
        except Exception as ex:
            got.append((form, type(ex).__name__))
    return (any(g[1] is False for g in got), 'variance_covariance_complex on views of ucomplex data: %r (True = plain floats equal to the list form)' % (got,))

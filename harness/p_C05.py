"""C05 -- effective dof follows Welch-Satterthwaite / Willink-Hall, ensembles included."""
import math, random
from fractions import Fraction
from common import *
import kernel

COQ_PROPS = 'props/C05.v'
PARTIAL = ('proved: Welch-Satterthwaite for any number of independent inputs (finite/infinite dof mixed) in classical form; the '
           'all-infinite case; and for real results with DEPENDENT inputs (any number, any interleaving): the loop never reaches '
           'its assert-False path when every declared correlation joins two infinite-dof inputs, two members of one ensemble or '
           'the two components of one elementary complex number; it returns the LPU variance and 1/den with one term per '
           'independent input, per dependent input without ensemble, per ensemble accumulator (each holding exactly the total of '
           'its ensemble) and ONE term u_re^2 + 2 u_re r u_im + u_im^2 per adjacent (real, imaginary) pair of a dependent '
           'elementary complex number (WSPairs.v; a result on one such pair alone has the pair\'s dof); complex numbers that are '
           'ensemble members (multiple_ucomplex), independent complex inputs (known finding: two terms), partial use of a pair '
           '(known finding) and Willink-Hall (complex results) are tied by correspondence and checked by the oracle only')
ASSUMPTIONS = ['rounding not bounded by proof']
TRUSTED = ['Coq Reals library']

def _base_correspondence(rng, tier):
    n = 260 if tier == 'quick' else 4000
    r = kernel.run_kernel_corr(rng, n, 'df', 'C05')
    # ensembles extended by append_real_ensemble (regression predictions): the fit machine of C13
    import fit_a
    f = fit_a.fit_correspondence(rng, tier, n=80 if tier == 'quick' else 1500)
    r['mismatches'] += f.get('mismatches', [])
    r['programs'] += f.get('programs', 0); r['steps'] += f.get('steps', 0)
    r['distribution']['fit_programs'] = f.get('programs', 0)
    r['rule'] += '; plus type-A line-fit programs with several predictions per fit (append_real_ensemble), ensemble content of every live leaf observed after every step'
    return r

# ---------------------------------------------------------------- group specification (search only)
def build(rng, allow_complex=False):
    """python source of a partition-driven model: independent inputs, inf-dof correlated sets, real ensembles,
    dependent finite-dof singletons [, complex inputs]; a real result using a random subset"""
    src = ['from GTC import *']; names = []
    n = rng.randint(2, 6)
    for i in range(n):
        c = rng.random()
        x = round(rng.uniform(0.5, 3), 3); u = round(rng.uniform(0.1, 1), 3)
        if c < 0.3:
            src.append('a%d = ureal(%r, %r, %s)' % (i, x, u, rng.choice(['inf', '1', '1.5', '4', '30', '1e5', '100001'])))
            names.append('a%d' % i)
        elif c < 0.5:
            src.append('a%d = ureal(%r, %r, independent=False)' % (i, x, u)); names.append('a%d' % i)
        elif c < 0.6:
            src.append('a%d = ureal(%r, %r, %s, independent=False)' % (i, x, u, rng.choice(['3', '7.5']))); names.append('a%d' % i)
        elif c < 0.9 or not allow_complex:
            m = rng.randint(2, 3)
            vs = ', '.join('a%d_%d' % (i, j) for j in range(m))
            src.append('%s = multiple_ureal(%r, %r, %s)' % (vs, [round(x + j, 3) for j in range(m)], [round(u * (j + 1), 3) for j in range(m)],
                                                          rng.choice(['3', '5', '12', 'inf'])))
            names += ['a%d_%d' % (i, j) for j in range(m)]
            for j in range(m):
                for k in range(j + 1, m):
                    if rng.random() < 0.7:
                        src.append('set_correlation(%r, a%d_%d, a%d_%d)' % (round(rng.uniform(-0.6, 0.6), 2), i, j, i, k))
        else:
            kind = rng.random()
            df = rng.choice(['inf', '5', '9'])
            if kind < 0.5:
                src.append('z%d = ucomplex(%r+%rj, (%r, %r), %s)' % (i, x, x / 2, u, u / 2, df))
            else:
                src.append('z%d = ucomplex(%r+%rj, (%r, %r, %r, %r), %s)' % (i, x, x / 2, u * u, 0.3 * u * u / 2, 0.3 * u * u / 2, u * u / 4, df))
            names += ['z%d.real' % i, 'z%d.imag' % i]
    infdep = [l.split(' = ')[0] for l in src if 'independent=False)' in l and 'ureal(' in l and l.count(',') == 2]
    for a in infdep:
        for b in infdep:
            if a < b and rng.random() < 0.6:
                src.append('set_correlation(%r, %s, %s)' % (round(rng.uniform(-0.5, 0.5), 2), a, b))
    k = rng.randint(1, len(names))
    used = rng.sample(names, k)
    terms = ['%r*%s' % (round(rng.uniform(-2, 2), 2) or 1.0, v) for v in used]
    if rng.random() < 0.3 and len(used) >= 2: terms.append('%s*%s' % (used[0], used[1]))
    src.append('y = ' + ' + '.join(terms))
    if rng.random() < 0.3: src.append('y = result(y)')
    return src

def ws_spec(ns):
    """(variance, dof) of ns['y'] from components, leaf attributes and groups, exactly (Fractions)"""
    y = ns['y']
    leaves = list(y._u_components._index) + list(y._d_components._index)
    comps = {}
    for l, v in list(zip(y._u_components._index, y._u_components._value)) + list(zip(y._d_components._index, y._d_components._value)):
        comps[l.uid] = (l, Fraction(v))
    def r(a, b):
        if a.uid == b.uid: return Fraction(1)
        if a.independent or b.independent: return Fraction(0)
        return Fraction(a.correlation.get(b.uid, 0.0))
    var = sum(ca * cb * r(a, b) for a, ca in comps.values() for b, cb in comps.values())
    groups = {}
    for l, c in comps.values():
        cid = getattr(l, 'complex', None)
        if not l.independent and len(l.ensemble): g = ('ens', frozenset(l.ensemble))
        elif cid is not None: g = ('cplx', tuple(cid))
        else: g = ('single', l.uid)
        groups.setdefault(g, []).append((l, c))
    if var == 0: return var, math.nan
    den = Fraction(0)
    for g, mem in groups.items():
        nu = mem[0][0].df
        if math.isinf(nu): continue
        vg = sum(ca * cb * r(a, b) for a, ca in mem for b, cb in mem)
        den += (vg / var) ** 2 / Fraction(nu)
    return var, (math.inf if den == 0 else float(1 / den))

def run_src(src):
    new_context(14)
    ns = {}
    exec('\n'.join(src), ns)
    return ns

def check_src(src):
    """None if the implementation agrees with the group specification, else a description"""
    try:
        ns = run_src(src)
    except Exception as ex:
        return None      # declaration rejected: not a model the API allows
    y = ns['y']
    try:
        var, df = ws_spec(ns)
    except Exception:
        return None
    try:
        got = y.df
    except Exception as ex:
        return {'raised': repr(ex), 'expected_dof': df}
    if math.isnan(df):
        return None if math.isnan(got) else {'dof': got, 'expected_dof': 'nan'}
    if math.isinf(df) or df > 1e5:
        return None if (math.isinf(got) or got > 9e4) else {'dof': got, 'expected_dof': df}
    if math.isnan(got) or abs(got - df) > 1e-7 * df:
        return {'dof': got, 'expected_dof': df}
    # rescaling and result() leave dof unchanged
    try:
        g2 = (y * 3.5).df; g3 = ns['result'](y).df if hasattr(y, '_intermediate') else got
    except Exception as ex:
        return {'raised on rescale/result': repr(ex)}
    if abs(g2 - got) > 1e-9 * got or (g3 != got and not (math.isnan(g3) and math.isnan(got))):
        return {'dof': got, 'rescaled': g2, 'result': g3}
    return None

def search(rng, tier, broken):
    n = 400 if tier == 'quick' else 6000
    for i in range(n):
        src = build(rng, allow_complex=False)
        r = check_src(src)
        if r is not None and not is_known({'python': src, 'problem': r}):
            return {'tried': i + 1, 'failing': {'python': src, 'problem': r}}
    return {'tried': n, 'failing': None}

def is_known(f):
    return False

def replay(payload):
    print(json.dumps(payload.get('broken'), indent=1)[:3000])
    f = payload.get('failing_input')
    if f and 'python' in f:
        r = check_src(f['python'])
        print('replayed on the implementation:', 'STILL FAILS %r' % (r,) if r else 'passes now')
        return 1 if r else 0
    return 0

# ---------------------------------------------------------------- known findings (replayed on the implementation)
def kf_C05_indep_complex():
    from GTC import core
    new_context(15)
    z = core.ucomplex(1 + 1j, (1, 1), 5)
    d1 = (z.real + z.imag).df; d2 = (2 * z).df
    return (d1 != 5.0 or d2 != 5.0, '(z.real+z.imag).df = %r, (2*z).df = %r for z = ucomplex(1+1j,(1,1),5); one group with nu = 5 expected' % (d1, d2))

def kf_C05_real_ensemble_complex_result():
    from GTC import core
    new_context(16)
    a, b = core.multiple_ureal([1, 2], [1, 1], 5)
    w = a + 1j * b
    try:
        d = w.df
        return (False, 'dof = %r' % d)
    except AssertionError as ex:
        return (True, 'AssertionError from willink_hall')
    except Exception as ex:
        return (True, repr(ex))

def kf_C05_partial_complex_pair():
    from GTC import core
    new_context(17)
    z = core.ucomplex(1 + 1j, (1, 1), 5, independent=False)
    try:
        d = (z.real * (1 + 2j)).df
        return (False, 'dof = %r' % d)
    except IndexError:
        return (True, 'IndexError')
    except Exception as ex:
        return (True, repr(ex))

def correspondence(rng, tier):
    r = _base_correspondence(rng, tier)
    # extra_corr: complex_dof_programs: Willink-Hall and Welch-Satterthwaite with complex pairs (independent, ensemble, partial use, failing then succeeding dof, real-ensemble complex results), model CKernel.v
    f = __import__('cgen').run_ckernel_corr(rng, 'dof', 'C05c', tier=tier)
    r['mismatches'] += f.get('mismatches', [])
    r['programs'] += f.get('programs', 0); r['steps'] += f.get('steps', 0)
    r['distinct'] = r.get('distinct', 0) + f.get('distinct', 0)
    r.setdefault('distribution', {})['complex_dof_programs'] = f.get('programs', 0)
    r['rule'] = r.get('rule', '') + '; plus complex_dof_programs: Willink-Hall and Welch-Satterthwaite with complex pairs (independent, ensemble, partial use, failing then succeeding dof, real-ensemble complex results), model CKernel.v'
    return r

"""C01 -- uncertain-number arithmetic computes the same values as plain arithmetic."""
import math, random
from common import *
import kernel, p_C02

COQ_PROPS = 'props/C01.v'
COQ_PROPS_EXTRA = ['props/C03.v']     # the complex-value facts (assemblers, + - * / bodies, entire functions) live in C03's closure
PARTIAL = ('real kernel proved: value = plain evaluation for every tree; role irrelevance for every Num instance; totality: whatever a '
           'tree raises is an arithmetic error of the float operations on the values, the complex-result signal or a TypeError for a '
           'non-uncertain operand, never an internal error (Totality.v, every number instance whose primitives raise only arithmetic '
           'errors; proved for the reals); the complex kernel (values, promotion, its totality) is covered by correspondence and the '
           'oracle only (known finding: an intermediate real combined with a complex literal raises AssertionError)')
ASSUMPTIONS = ['rounding: values are computed by the same float operations as plain Python (validated bit-exactly by correspondence)']
TRUSTED = ['Coquelicot and the Coq Reals library']

def _base_correspondence(rng, tier):
    n = 240 if tier == 'quick' else 4000
    return kernel.run_kernel_corr(rng, n, 'value', 'C01', malformed_every=5)

def check_value(t, xs, us, roles):
    from GTC import core, lib
    new_context(9)
    ins = []
    for x, u, role in zip(xs, us, roles):
        if role == 'elem': ins.append(core.ureal(x, u))
        elif role == 'dep': ins.append(core.ureal(x, u, independent=False))
        elif role == 'const': ins.append(core.constant(x))
        elif role == 'interm': ins.append(core.result(core.ureal(x, u) * 1.5 / 1.5 if False else core.ureal(x - 1.0, u) + 1.0))
        else: ins.append(+core.ureal(x, u))
    xs2 = [core.value(i) for i in ins]
    try:
        y0 = p_C02.ev_plain(t, xs2)
    except (ArithmeticError, ValueError, OverflowError, ZeroDivisionError):
        return None
    if not math.isfinite(y0): return None
    try:
        y = p_C02.ev_gtc(t, ins, core)
    except ZeroDivisionError:
        return None     # derivative singularities (sqrt 0, asin 1, ...) are documented
    except Exception as ex:
        return {'tree': t, 'x': xs2, 'roles': roles, 'raised': repr(ex), 'plain': y0}
    v = core.value(y)
    if isinstance(v, complex): return None
    if abs(v - y0) > 4 * abs(math.ulp(y0)) + 1e-300:
        return {'tree': t, 'x': xs2, 'roles': roles, 'value': v, 'plain': y0}
    return None

NUMS_C = [0, 0.0, 1, 1.0, -1.0, 2.0, 0.5, 1 + 0j, 0j, 1j, 2 - 0.5j, 1 + 1j, 3]

def rand_ctree(rng, nin, depth):
    import p_C03
    if depth == 0 or rng.random() < 0.2:
        return ('var', rng.randrange(nin)) if rng.random() < 0.7 else ('num', rng.choice(NUMS_C))
    if rng.random() < 0.4:
        return ('un', rng.choice(list(p_C03.PLAIN)), rand_ctree(rng, nin, depth - 1))
    return ('bin', rng.choice(list(p_C03.BINP)), rand_ctree(rng, nin, depth - 1), rand_ctree(rng, nin, depth - 1))

def check_cvalue(t, vals, kinds, roles):
    """value of a tree over uncertain complex / real operands vs plain complex arithmetic"""
    import p_C03
    from GTC import core, lib
    new_context(10)
    try:
        y0 = complex(p_C03.ev_plain(t, vals))
    except (ArithmeticError, ValueError, OverflowError, ZeroDivisionError, TypeError):
        return None
    if not (math.isfinite(y0.real) and math.isfinite(y0.imag)) or abs(y0) > 1e6: return None
    ins = []
    for v, k, role in zip(vals, kinds, roles):
        o = core.ucomplex(v, (0.3, 0.2)) if k == 'c' else core.ureal(v, 0.3)
        if role == 'interm': o = core.result(o * 1.0 + 0.0 if False else (o + (0.25 if k == 'r' else 0.25 + 0j)) - (0.25 if k == 'r' else 0.25 + 0j))
        elif role == 'temp': o = +o
        elif role == 'const': o = core.constant(v)
        ins.append(o)
    vals2 = [complex(core.value(i)) if k == 'c' else float(core.value(i)) for i, k in zip(ins, kinds)]
    try:
        y0 = complex(p_C03.ev_plain(t, vals2))
    except (ArithmeticError, ValueError, OverflowError, ZeroDivisionError, TypeError):
        return None
    try:
        y = p_C03.ev_gtc(t, ins, core)
    except ZeroDivisionError:
        return None      # derivative singularities are documented
    except Exception as ex:
        f = {'ctree': t, 'x': [str(v) for v in vals2], 'kinds': kinds, 'roles': roles, 'raised': repr(ex), 'plain': str(y0)}
        return f
    v = complex(core.value(y))
    if abs(v - y0) > 1e-11 * max(1.0, abs(y0)):
        return {'ctree': t, 'x': [str(v_) for v_ in vals2], 'kinds': kinds, 'roles': roles, 'value': str(v), 'plain': str(y0)}
    return None

def search(rng, tier, broken):
    n = 1500 if tier == 'quick' else 20000
    tried = 0
    for _ in range(n):
        tried += 1
        if rng.random() < 0.4:
            nin = rng.randint(1, 3)
            t = rand_ctree(rng, nin, rng.randint(1, 3))
            kinds = [rng.choice(['c', 'c', 'r']) for _ in range(nin)]
            vals = [complex(round(rng.uniform(-2, 2), 2), round(rng.uniform(-2, 2), 2)) if k == 'c' else round(rng.uniform(0.3, 2.5), 2) for k in kinds]
            roles = [rng.choice(['elem', 'interm', 'temp', 'const']) for _ in range(nin)]
            r = check_cvalue(t, vals, kinds, roles)
            if r is not None and not is_known(r):
                return {'tried': tried, 'failing': r}
            continue
        nin = rng.randint(1, 4)
        t = p_C02.rand_tree(rng, nin, rng.randint(1, 5))
        xs = [round(rng.uniform(-2.5, 2.5), 3) for _ in range(nin)]
        us = [round(rng.uniform(0.05, 1.0), 3) for _ in range(nin)]
        roles = [rng.choice(['elem', 'dep', 'const', 'interm', 'temp']) for _ in range(nin)]
        r = check_value(t, xs, us, roles)
        if r is not None and not is_known(r):
            return {'tried': tried, 'failing': r}
    return {'tried': tried, 'failing': None}

def is_known(f):
    """known finding of C01 the oracle can meet: an uncertain real declared with result() combined with a plain complex
    number (AssertionError in UncertainComplex.__init__).  (ZeroDivisionError is never reported by check_*value, and the
    oracle keeps 0.05 away from the negative real axis for phase, so the phase finding cannot be met here.)"""
    if not isinstance(f, dict): return False
    def nontrivial_complex_literal(t):
        if isinstance(t, (list, tuple)):
            if len(t) == 2 and t[0] == 'num':
                try:
                    c = complex(t[1])
                except Exception:
                    return False
                return c.imag != 0
            return any(nontrivial_complex_literal(x) for x in t[1:])
        return False
    if ('AssertionError' in str(f.get('raised', '')) and 'interm' in f.get('roles', [])
            and nontrivial_complex_literal(f.get('ctree') or ())): return True
    return False

def replay(payload):
    f = payload.get('failing_input')
    print(json.dumps(payload.get('broken'), indent=1)[:3000])
    if f and 'ctree' in f:
        import p_C03
        vals = [complex(v) if k == 'c' else float(v) for v, k in zip(f['x'], f['kinds'])]
        r = check_cvalue(p_C02.tuple_tree(f['ctree']), vals, f['kinds'], f['roles'])
        print('replayed failing input on the implementation:', 'STILL FAILS %r' % (r,) if r else 'passes now')
        return 1 if r else 0
    if f and 'tree' in f:
        r = check_value(p_C02.tuple_tree(f['tree']), f['x'], [0.1] * len(f['x']), f['roles'])
        print('replayed failing input on the implementation:', 'STILL FAILS %r' % (r,) if r else 'passes now')
        return 1 if r else 0
    return 0

def correspondence(rng, tier):
    r = _base_correspondence(rng, tier)
    # extra_corr: complex_value_programs: complex kernel programs (functions x points around every branch cut x operand kinds, operators x operand-kind pairs, ureal x complex-literal promotion), model CKernel.v
    f = __import__('cgen').run_ckernel_corr(rng, 'value', 'C01c', tier=tier)
    r['mismatches'] += f.get('mismatches', [])
    r['programs'] += f.get('programs', 0); r['steps'] += f.get('steps', 0)
    r['distinct'] = r.get('distinct', 0) + f.get('distinct', 0)
    r.setdefault('distribution', {})['complex_value_programs'] = f.get('programs', 0)
    import p_C03
    r['mismatches'] += p_C03.pinned_drift()
    r['rule'] = r.get('rule', '') + '; plus complex_value_programs: complex kernel programs (functions x points around every branch cut x operand kinds, operators x operand-kind pairs, ureal x complex-literal promotion), model CKernel.v'
    # extra_corr: plain_fallback: core functions on plain numbers are Python's own functions
    import modcorr
    modcorr.add_to(r, plain_fallback_cases(rng, tier), 'plain_fallback', 'core.<function> applied to plain Python numbers only (int, float, complex; both orders of atan2 / pow / fmod) against math / cmath / the operators, bit for bit, same exception class')
    modcorr.add_to(r, modcorr.mod_correspondence(rng, tier, 'C01m'), 'mod_fmod', 'x % y and fmod(x, y) of uncertain reals of every structural kind (elementary, dependent, sum, scaled, declared intermediate, constant, mixed) against the model Special.v umod/ufmod (value and the three component vectors bit for bit)')
    return r

PLAIN_UN = ['cos', 'sin', 'tan', 'acos', 'asin', 'atan', 'exp', 'log', 'log10', 'sqrt', 'sinh', 'cosh', 'tanh', 'acosh', 'asinh', 'atanh']

def plain_fallback_cases(rng, tier):
    """core.f applied to PLAIN Python numbers (no uncertain operand at all) must be Python's own function: math.f for
    real arguments, cmath.f for complex ones, math.atan2 / x**y / math.fmod / abs / abs**2 / cmath.phase, same exception class
    when Python raises.  Implementation against the language specification (bit for bit); every core function, ints, floats,
    bools-as-ints excluded, complex numbers, argument orders of the two-argument functions."""
    import cmath
    from GTC import core
    def outcome(th):
        try:
            v = th()
        except Exception as ex:
            return ('exn', type(ex).__name__)
        if isinstance(v, complex): return ('c', v.real.hex(), v.imag.hex())
        if isinstance(v, (int, float)): return ('r', float(v).hex(), type(v).__name__)
        return ('other', repr(v))
    def rnum():
        c = rng.random()
        if c < 0.15: return rng.choice([0, 1, -1, 2, 3, -2])
        if c < 0.3: return rng.choice([0.0, -0.0, 1.0, -1.0, 0.5, -0.5, 2.0])
        return round(rng.uniform(-3, 3), 3)
    def cnum(): return complex(rnum(), rnum())
    cases = []
    n = 12 if tier == 'quick' else 120
    for f in PLAIN_UN:
        for _ in range(n):
            x = rnum() if rng.random() < 0.7 else cnum()
            want = (lambda f=f, x=x: getattr(cmath if isinstance(x, complex) else math, f)(x))
            cases.append(('%s(%r)' % (f, x), (lambda f=f, x=x: getattr(core, f)(x)), want))
    for _ in range(4 * n):
        y, x = rnum(), rnum()
        cases.append(('atan2(%r, %r)' % (y, x), (lambda y=y, x=x: core.atan2(y, x)), (lambda y=y, x=x: math.atan2(y, x))))
        cases.append(('pow(%r, %r)' % (y, x), (lambda y=y, x=x: core.pow(y, x)), (lambda y=y, x=x: y ** x)))
        cases.append(('fmod(%r, %r)' % (y, x), (lambda y=y, x=x: core.fmod(y, x)), (lambda y=y, x=x: math.fmod(y, x))))
        z = rnum() if rng.random() < 0.5 else cnum()
        cases.append(('magnitude(%r)' % (z,), (lambda z=z: core.magnitude(z)), (lambda z=z: abs(z))))
        cases.append(('mag_squared(%r)' % (z,), (lambda z=z: core.mag_squared(z)), (lambda z=z: abs(z) ** 2)))
        cases.append(('phase(%r)' % (z,), (lambda z=z: core.phase(z)), (lambda z=z: cmath.phase(z))))
    mism = []
    for name, got, want in cases:
        g, w = outcome(got), outcome(want)
        if g != w and not (g[0] == 'r' and w[0] == 'r' and g[1] == w[1]):      # int vs float of the same value is the same number
            mism.append({'kind': 'plain-number-fallback', 'call': name, 'implementation': g, 'python': w})
    return {'programs': len(cases), 'steps': len(cases), 'mismatches': mism[:10], 'distinct': len(set(c[0] for c in cases))}

def kf_C01_intermediate_times_complex():
    import p_C03
    return p_C03.kf_C01_intermediate_times_complex()

def kf_C01_phase_negative_real():
    from GTC import core
    import cmath
    new_context(18)
    v = core.value(core.phase(core.ureal(-1.0, 0.1)))
    return (v != cmath.phase(-1.0), 'phase(ureal(-1,0.1)) has value %r, cmath.phase(-1.0) = %r' % (v, cmath.phase(-1.0)))

def kf_C01_phase_atan2_range():
    """phase / atan2 on values whose squares overflow: plain cmath / math are defined, GTC raises OverflowError"""
    from GTC import core
    import cmath, math
    new_context(19)
    got = []
    for call, plain in ((lambda: core.phase(core.ucomplex(1e200 + 1e200j, 1e197)), cmath.phase(1e200 + 1e200j)),
                        (lambda: core.atan2(core.ureal(1e200, 1e190), core.ureal(1e200, 1e190)), math.atan2(1e200, 1e200))):
        try:
            got.append(('ok', core.value(call()) == plain))
        except Exception as ex:
            got.append((type(ex).__name__, False))
    return (any(g[0] != 'ok' or not g[1] for g in got), 'phase(ucomplex(1e200+1e200j,..)), atan2(ureal(1e200,..),ureal(1e200,..)): %r' % (got,))

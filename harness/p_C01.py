"""C01 -- uncertain-number arithmetic computes the same values as plain arithmetic."""
import math, random
from common import *
import kernel, p_C02

COQ_PROPS = 'props/C01.v'
PARTIAL = ('real kernel proved (value = plain evaluation for every tree; role irrelevance for every Num instance); '
           'complex kernel and totality ("never rejected") are covered by correspondence and the oracle only')
ASSUMPTIONS = ['rounding: values are computed by the same float operations as plain Python (validated bit-exactly by correspondence)']
TRUSTED = ['Coquelicot and the Coq Reals library']

def _base_correspondence(rng, tier):
    n = 240 if tier == 'quick' else 4000
    return kernel.run_kernel_corr(rng, n, 'value', 'C01', malformed_every=5)

def check_value(t, xs, us, roles):
    from GTC import core, lib
    new_context(9)
    ins = []
    for x, u, role in zip(xs, us, roles):
        if role == 'elem': ins.append(core.ureal(x, u))
        elif role == 'dep': ins.append(core.ureal(x, u, independent=False))
        elif role == 'const': ins.append(core.constant(x))
        elif role == 'interm': ins.append(core.result(core.ureal(x, u) * 1.5 / 1.5 if False else core.ureal(x - 1.0, u) + 1.0))
        else: ins.append(+core.ureal(x, u))
    xs2 = [core.value(i) for i in ins]
    try:
        y0 = p_C02.ev_plain(t, xs2)
    except (ArithmeticError, ValueError, OverflowError, ZeroDivisionError):
        return None
    if not math.isfinite(y0): return None
    try:
        y = p_C02.ev_gtc(t, ins, core)
    except ZeroDivisionError:
        return None     # derivative singularities (sqrt 0, asin 1, ...) are documented
    except Exception as ex:
        return {'tree': t, 'x': xs2, 'roles': roles, 'raised': repr(ex), 'plain': y0}
    v = core.value(y)
    if isinstance(v, complex): return None
    if abs(v - y0) > 4 * abs(math.ulp(y0)) + 1e-300:
        return {'tree': t, 'x': xs2, 'roles': roles, 'value': v, 'plain': y0}
    return None

def search(rng, tier, broken):
    n = 1500 if tier == 'quick' else 20000
    tried = 0
    for _ in range(n):
        nin = rng.randint(1, 4)
        t = p_C02.rand_tree(rng, nin, rng.randint(1, 5))
        xs = [round(rng.uniform(-2.5, 2.5), 3) for _ in range(nin)]
        us = [round(rng.uniform(0.05, 1.0), 3) for _ in range(nin)]
        roles = [rng.choice(['elem', 'dep', 'const', 'interm', 'temp']) for _ in range(nin)]
        tried += 1
        r = check_value(t, xs, us, roles)
        if r is not None:
            return {'tried': tried, 'failing': r}
    return {'tried': tried, 'failing': None}

def is_known(f):
    return False

def replay(payload):
    f = payload.get('failing_input')
    print(json.dumps(payload.get('broken'), indent=1)[:3000])
    if f and 'tree' in f:
        r = check_value(p_C02.tuple_tree(f['tree']), f['x'], [0.1] * len(f['x']), f['roles'])
        print('replayed failing input on the implementation:', 'STILL FAILS %r' % (r,) if r else 'passes now')
        return 1 if r else 0
    return 0

def correspondence(rng, tier):
    r = _base_correspondence(rng, tier)
    # extra_corr: complex_value_programs: complex kernel programs (functions x points around every branch cut x operand kinds, operators x operand-kind pairs, ureal x complex-literal promotion), model CKernel.v
    f = __import__('cgen').run_ckernel_corr(rng, 'value', 'C01c', tier=tier)
    r['mismatches'] += f.get('mismatches', [])
    r['programs'] += f.get('programs', 0); r['steps'] += f.get('steps', 0)
    r['distinct'] = r.get('distinct', 0) + f.get('distinct', 0)
    r.setdefault('distribution', {})['complex_value_programs'] = f.get('programs', 0)
    r['rule'] = r.get('rule', '') + '; plus complex_value_programs: complex kernel programs (functions x points around every branch cut x operand kinds, operators x operand-kind pairs, ureal x complex-literal promotion), model CKernel.v'
    return r

def kf_C01_intermediate_times_complex():
    import p_C03
    return p_C03.kf_C01_intermediate_times_complex()

"""c12_sessions.py -- C12 at session level: SEQUENCES of estimator calls and dof evaluations in one context.

The property says: a linear combination of the numbers returned by multi_estimate_complex /
multi_estimate_real, and the number returned by estimate, has N-1 degrees of freedom -- whatever was
calculated earlier in the session.  A session script declares estimates with the real type_a functions,
forms linear combinations (the *targets*), forms results whose dof evaluation is known to fail or to be
unreliable on the unchanged library (the *disturbances*: a complex result mixing a finite-dof complex
estimate with members of a real ensemble -> AssertionError, known finding C05-real-ensemble-complex-result;
one component only of a dependent complex pair -> IndexError, the partial-pair finding), and then reads
dofs in a random order: disturbances (whatever they give is ignored), targets before / after / between
them, every target possibly more than once.  Expected for every read of a target: N-1 (relative 1e-6),
and for complex targets the value the first read gave on every later read.

Implementation-vs-specification (no model): the dof algebra itself is C05's (CKernel.v models willink_hall
with its class-level accumulators bit-exactly; p_C12 runs that suite too); this file reaches the same state
through type_a's own declarations."""
import math, collections
from common import new_context

def _series(rng, n):
    while True:
        d = rng.randint(1, 3); sc = rng.choice([1.0, 10.0, 0.01])
        s = [round(rng.uniform(-5, 5) * sc, d + 2) for _ in range(n)]
        if max(s) - min(s) > 0.2 * sc: return s

def _cseries(rng, n):
    return [[a, b] for a, b in zip(_series(rng, n), _series(rng, n))]

def _sym(rng):
    """zero sample covariance with both components varying (symmetric design, dyadic: exact in binary64)"""
    x0 = rng.randint(-8, 8) / 4.0; y0 = rng.randint(-8, 8) / 4.0; a = rng.randint(1, 8) / 4.0; b = rng.randint(1, 8) / 4.0
    l = [[x0 + sa * a, y0 + sb * b] for sa in (1, -1) for sb in (1, -1)] * rng.randint(1, 2)
    rng.shuffle(l)
    return l

def gen_session(rng):
    """-> script: list of steps (JSON-able)"""
    S = []; targets = []; disturb = []
    rc = lambda: round(rng.uniform(-3, 3), 2) or 1.0
    nk = rng.randint(3, 8)
    kdata = _sym(rng) if rng.random() < 0.3 else _cseries(rng, nk); nk = len(kdata)
    S.append(['estc', 'k', kdata]); targets.append(('k', nk, 'c'))       # declared first: lowest uids
    order = ['mer', 'mec', 'estc2', 'est']; rng.shuffle(order)
    have = {}
    for what in order:
        if what == 'mer' and rng.random() < 0.85:
            n = rng.randint(3, 8); m = rng.randint(2, 3)
            names = ['r%d' % i for i in range(m)]
            S.append(['mer', names, [_series(rng, n) for _ in range(m)]]); have['mer'] = (names, n)
        elif what == 'mec' and rng.random() < 0.9:
            n = rng.randint(3, 8); m = rng.randint(1, 3)
            names = ['z%d' % i for i in range(m)]
            S.append(['mec', names, [_cseries(rng, n) for _ in range(m)]]); have['mec'] = (names, n)
        elif what == 'estc2' and rng.random() < 0.6:
            n = rng.randint(3, 8)
            S.append(['estc', 'w', _cseries(rng, n)]); have['w'] = n; targets.append(('w', n, 'c'))
        elif what == 'est' and rng.random() < 0.5:
            n = rng.randint(3, 8)
            S.append(['est', 'x', _series(rng, n)]); targets.append(('x', n, 'r'))
    # targets: linear combinations inside one joint estimate
    if 'mec' in have:
        names, n = have['mec']
        for t in range(rng.randint(1, 2)):
            nm = 'yc%d' % t
            S.append(['lin', nm, [[[rc(), rc()], z] for z in names]]); targets.append((nm, n, 'c'))
    if 'mer' in have:
        names, n = have['mer']
        S.append(['lin', 'yr', [[rc(), r] for r in names]]); targets.append(('yr', n, 'r'))
    S.append(['lin', 'yk', [[[rc(), rc()], 'k']]]); targets.append(('yk', nk, 'c'))
    S.append(['lin_components', 'yk2', rc(), rc(), 'k']); targets.append(('yk2', nk, 'r'))     # a*k.real + b*k.imag
    # disturbances: k (finite dof, declared first, so processed and accumulated first) times something that cannot be finished
    if 'mer' in have:
        names, _ = have['mer']
        S.append(['mix_real_ensemble', 'd_assert', 'k', names[0], names[1]]); disturb.append('d_assert')
    part = 'w' if 'w' in have else (have['mec'][0][0] if 'mec' in have else None)
    if part:
        S.append(['mix_one_component', 'd_index', 'k', part, rng.choice(['real', 'imag'])]); disturb.append('d_index')
    # the reads
    reads = []
    for nm, n, kind in targets:
        reads += [['df', nm, n - 1, kind]] * rng.choice([1, 1, 2])
    rng.shuffle(reads)
    reads = reads[:rng.randint(3, 8)]
    for d in disturb:
        for _ in range(rng.choice([1, 1, 2])):
            reads.insert(rng.randint(0, max(0, len(reads) - 1)), ['df', d, None, 'c'])     # never last: something is read after it
    return S + reads

def run_session(script, ctx=41):
    """run the script on the implementation; -> (problem or None, stats)"""
    from GTC import type_a, core
    new_context(ctx)
    env = {}; first = {}; stats = collections.Counter()
    for step_no, st in enumerate(script):
        op = st[0]
        if op == 'estc':
            env[st[1]] = type_a.estimate([complex(*v) for v in st[2]])
        elif op == 'est':
            env[st[1]] = type_a.estimate(list(st[2]))
        elif op == 'mec':
            for nm, z in zip(st[1], type_a.multi_estimate_complex([[complex(*v) for v in l] for l in st[2]])): env[nm] = z
        elif op == 'mer':
            for nm, x in zip(st[1], type_a.multi_estimate_real([list(l) for l in st[2]])): env[nm] = x
        elif op == 'lin':
            y = 0
            for c, nm in st[2]:
                y = y + (complex(*c) if isinstance(c, (list, tuple)) else c) * env[nm]
            env[st[1]] = y
        elif op == 'lin_components':
            env[st[1]] = st[2] * env[st[4]].real + st[3] * env[st[4]].imag
        elif op == 'mix_real_ensemble':
            env[st[1]] = env[st[2]] * (env[st[3]] + 1j * env[st[4]])
        elif op == 'mix_one_component':
            z = env[st[3]]
            env[st[1]] = env[st[2]] * ((z.real if st[4] == 'real' else z.imag) * (1 + 2j))
        elif op == 'df':
            nm, want, kind = st[1], st[2], st[3]
            y = env[nm]
            try:
                d = y.df
            except Exception as ex:
                stats['read:' + type(ex).__name__] += 1
                if want is None: continue
                return {'what': 'dof of %s raises %s: %s' % (nm, type(ex).__name__, str(ex)[:80]), 'step': step_no}, stats
            if want is None:
                stats['read:disturbance-value'] += 1; continue
            # only where the estimate is not degenerate (exactly collinear / constant components are C12's other cases)
            if kind == 'c':
                v = core.variance(y); det = v[0] * v[3] - v[1] * v[2]
                if not (det > 1e-6 * (0.5 * (v[0] + v[3])) ** 2): stats['read:degenerate'] += 1; continue
                leaves_dep = True
            else:
                if not core.variance(y) > 0: stats['read:degenerate'] += 1; continue
            stats['read:target'] += 1
            if not (isinstance(d, float) or isinstance(d, int)) or math.isnan(d) or abs(d - want) > 1e-6 * want:
                return {'what': 'dof of %s is %r; N-1 = %d (read no. %d of the session)' % (nm, d, want, step_no), 'step': step_no,
                        'got': d, 'want': want}, stats
            if nm in first and abs(first[nm] - d) > 1e-9 * want:
                return {'what': 'dof of %s read again gives %r instead of %r' % (nm, d, first[nm]), 'step': step_no}, stats
            first.setdefault(nm, d)
    return None, stats

def check_session(script):
    """the form p_C12's search / replay use: None or a dict describing the failure"""
    try:
        r, _ = run_session([list(s) for s in script])
    except Exception as ex:
        return {'what': 'session raised %s: %s' % (type(ex).__name__, str(ex)[:200])}
    return r

def run_suite(rng, n):
    """n random sessions -> (mismatches, stats, distinct)"""
    mism = []; stats = collections.Counter(); distinct = set()
    import random as _random
    fixed = [gen_session(_random.Random(977 + j)) for j in range(16)]      # the same 16 scripts in every run and tier
    for i in range(n + len(fixed)):
        sc = fixed[i] if i < len(fixed) else gen_session(rng)
        try:
            r, st = run_session(sc, ctx=200 + i)
        except Exception as ex:
            r, st = {'what': 'session raised %s: %s' % (type(ex).__name__, str(ex)[:200])}, {}
        stats.update(st); stats['sessions'] += 1
        stats['steps'] += len(sc)
        distinct.add(repr(sc))
        if r is not None:
            mism.append({'kind': 'session-vs-specification', 'problem': r['what'], 'script': sc})
    return mism, stats, len(distinct)

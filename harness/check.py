#!/venv/bin/python
"""check.py <Cnn> <quick|thorough> [--replay <path>]

One run = (1) regenerate the Gallina definitions from /repo's working tree (translator),
(2) rebuild the Coq development incrementally and require the property's theorem file
props/Cnn.v (and everything it depends on) to compile with no Admitted/axiom of ours,
(3) run the correspondence suites of the property (model evaluated inside coqc by vm_compute
vs the implementation, bit for bit), (4) replay the known findings, and only if (2) or (3)
failed (5) search for a concrete failing input with the property's oracle.
Exit 0 / exit 1 + 'VIOLATION property=<id> replay=<path>' as the interface requires."""
import sys, os, time, json, re, subprocess, importlib, random, traceback, glob, shutil
sys.path.insert(0, os.path.dirname(os.path.abspath(__file__)))
from common import *

HYGIENE = re.compile(r'\b(Admitted|admit|Axiom|Parameter|Conjecture|Admit Obligations|bypass_check)\b|Unset Guard|-type-in-type|impredicative-set')

def sh(cmd, timeout=1800, cwd=None):
    p = subprocess.run(cmd, shell=True, stdout=subprocess.PIPE, stderr=subprocess.STDOUT, text=True,
                       timeout=timeout, cwd=cwd)
    return p.returncode, p.stdout

def translate():
    """regenerate coq/gen/*.v; only touch files whose content changed (keeps make incremental)"""
    tmp = scratch('gen_tmp')
    rc, out = sh('%s %s/tools/translate.py %s %s' % (sys.executable, VERIF, REPO, tmp), timeout=300)
    for extra in sorted(glob.glob(os.path.join(VERIF, 'tools', 'tr_*.py'))):
        rc2, out2 = sh('%s %s %s %s' % (sys.executable, extra, REPO, tmp), timeout=300)
        rc = rc or rc2; out = out + '\n' + out2
    gen = os.path.join(COQ, 'gen')
    os.makedirs(gen, exist_ok=True)
    changed = []
    for f in sorted(os.listdir(tmp)):
        new = open(os.path.join(tmp, f)).read()
        dst = os.path.join(gen, f)
        if not os.path.exists(dst) or open(dst).read() != new:
            open(dst, 'w').write(new); changed.append(f)
    shutil.rmtree(tmp, ignore_errors=True)
    return rc, out.strip(), changed

def build():
    if not os.path.exists(os.path.join(COQ, 'Makefile')):
        sh('coq_makefile -f _CoqProject -o Makefile', cwd=COQ)
    rc, out = sh('timeout 3000 make -k -j%d 2>&1' % NCPU, timeout=3100, cwd=COQ)
    return rc, out

def closure(vfile):
    """the .v files of the development that vfile depends on (transitively), incl. itself"""
    seen = []; todo = [vfile]
    while todo:
        f = todo.pop()
        if f in seen: continue
        p = os.path.join(COQ, f)
        if not os.path.exists(p): continue
        seen.append(f)
        src = open(p).read()
        for m in re.finditer(r'From\s+GTCV(\.gen)?\s+Require\s+Import\s+([^.]*)\.', src):
            pre = 'gen/' if m.group(1) else ''
            for name in m.group(2).split():
                todo.append(pre + name + '.v')
    return sorted(seen)

def count_obligations(files):
    n = 0; names = []
    for f in files:
        for m in re.finditer(r'^\s*(Theorem|Lemma|Example|Corollary|Fact|Proposition)\s+(\w+)', open(os.path.join(COQ, f)).read(), re.M):
            n += 1; names.append(m.group(2))
    return n, names

def discharged_now(files):
    """obligations of the closure files whose .vo is currently up to date (used when a proof is broken)"""
    n = 0
    for f in files:
        v = os.path.join(COQ, f); vo = v[:-2] + '.vo'
        if os.path.exists(vo) and os.path.getmtime(vo) >= os.path.getmtime(v):
            n += count_obligations([f])[0]
    return n

def hygiene(files):
    bad = []
    for f in files:
        src = open(os.path.join(COQ, f)).read()
        src = re.sub(r'\(\*.*?\*\)', '', src, flags=re.S)
        for m in HYGIENE.finditer(src):
            bad.append('%s: %s' % (f, m.group(0)))
    return bad

def assumptions(vfile):
    """recompile the property file alone and collect what Print Assumptions prints"""
    rc, out = sh('coqc %s %s' % (' '.join(coq_args()), vfile), timeout=900, cwd=COQ)
    axioms = sorted(set(re.findall(r'^([A-Za-z_][\w\.]*)\s*$|^([A-Za-z_][\w\.]*)\s*:', out, re.M) and
                        [a or b for a, b in re.findall(r'^([A-Za-z_][\w\.]*)\s*$|^([A-Za-z_][\w\.]*)\s*:', out, re.M)]))
    axioms = [a for a in axioms if '.' in a]
    closed = out.count('Closed under the global context')
    return rc, axioms, closed, out

def violation(prop, payload, found):
    path = save_replay(prop, payload)
    print('VIOLATION property=%s replay=%s%s' % (prop, path, '' if found else ' no-failing-input-found'))
    sys.stdout.flush()

def main():
    prop = sys.argv[1]
    tier = os.environ.get('VERIF_TIER') or (sys.argv[2] if len(sys.argv) > 2 and not sys.argv[2].startswith('--') else 'quick')
    seed = int(os.environ.get('VERIF_SEED', '0'))
    t0 = time.time()
    mod = importlib.import_module('p_' + prop)
    if '--replay' in sys.argv:
        path = sys.argv[sys.argv.index('--replay') + 1]
        return mod.replay(json.load(open(path)))
    rng = random.Random(seed * 1000003 + int(prop[1:]))
    os.makedirs(BUILD, exist_ok=True)
    ev = {'property_id': prop, 'tier': tier, 'seed': seed, 'level': 'proof', 'violations': 0}
    broken = []            # (kind, detail)
    # ---- 0. one builder at a time: the Coq tree is shared by every check of this directory.  The translate + (clean) + build
    # phase holds an exclusive lock; the rest of the run (Print Assumptions, case files compiled against the .vo files) holds a
    # shared one, so a concurrent thorough run (which rebuilds from clean) waits until the runs that read the tree are done.
    import fcntl
    lockf = open(os.path.join(BUILD, 'tree.lock'), 'w')
    fcntl.flock(lockf, fcntl.LOCK_EX)
    # ---- 1. translator
    rc, tout, changed = translate()
    ev_tr = {'output': tout, 'regenerated_files_changed': changed}
    if rc != 0:
        broken.append(('translator', tout[-2000:]))
    # ---- 2. build
    if tier == 'thorough':
        sh('make clean', cwd=COQ) if os.path.exists(os.path.join(COQ, 'Makefile')) else None
    brc, bout = build()
    vfile = mod.COQ_PROPS
    files = closure(vfile)
    for extra_v in getattr(mod, 'COQ_PROPS_EXTRA', []):
        files = sorted(set(files) | set(closure(extra_v)))
    vo = os.path.join(COQ, vfile[:-2] + '.vo')
    def is_stale(v):
        vo_ = os.path.join(COQ, v[:-2] + '.vo')
        if not os.path.exists(vo_): return True
        return any(os.path.getmtime(os.path.join(COQ, f)) > os.path.getmtime(vo_)
                   for f in closure(v) if os.path.exists(os.path.join(COQ, f)))
    stale = any(is_stale(v) for v in [vfile] + list(getattr(mod, 'COQ_PROPS_EXTRA', [])))
    fcntl.flock(lockf, fcntl.LOCK_SH)        # downgrade: readers may run together, the next (re)build waits for them
    if stale:                                  # another run rebuilt from clean between our build and the downgrade: look again
        time.sleep(1); stale = any(is_stale(v) for v in [vfile] + list(getattr(mod, 'COQ_PROPS_EXTRA', [])))
    failed_files = re.findall(r'File "\./([^"]+)", line (\d+)[^\n]*\n((?:.*\n){0,6})', bout)
    if stale:
        mine = [(f, l, msg) for f, l, msg in failed_files if f in files]
        broken.append(('proof', {'theorem_file': vfile, 'failing': [{'file': f, 'line': int(l), 'message': msg.strip()[:600]} for f, l, msg in (mine or failed_files)[:5]]}))
    hyg = hygiene(files)
    if hyg:
        broken.append(('hygiene', hyg))
    nob, names = count_obligations(files)
    axioms, closed, aout = [], 0, ''
    if not stale:
        arc, axioms, closed, aout = assumptions(vfile)
        if arc != 0:
            broken.append(('proof', {'theorem_file': vfile, 'failing': [{'file': vfile, 'message': aout[-800:]}]}))
    # ---- 3. correspondence
    corr = {'programs': 0, 'steps': 0, 'mismatches': []}
    try:
        corr = mod.correspondence(rng, tier)
    except Exception:
        corr = {'programs': 0, 'steps': 0, 'mismatches': [], 'harness_error': traceback.format_exc()[-3000:]}
        broken.append(('harness', corr['harness_error']))
    if corr.get('mismatches'):
        broken.append(('correspondence', corr['mismatches'][:5]))
    # ---- 4. known findings
    known_seen = []; stale_known = []
    for kf in load_known():
        if kf['property'] != prop: continue
        fn = getattr(mod, kf['check'], None)
        if fn is None:
            continue
        try:
            reproduces, detail = fn()
        except Exception as ex:
            reproduces, detail = False, 'check raised %r' % (ex,)
        if kf['kind'] == 'known':
            if reproduces:
                print('KNOWN-FINDING: property=%s %s' % (prop, kf['what']))
                known_seen.append(kf['id'])
            else:
                stale_known.append(kf['id'])
        elif kf['kind'] == 'fixed' and reproduces:
            broken.append(('regression', {'id': kf['id'], 'what': kf['what'], 'detail': detail}))
    # ---- 5. search, only after a break (thorough: also to populate evidence)
    search = None
    rcode = 0
    if broken or tier == 'thorough':
        try:
            search = mod.search(rng, tier, broken)
        except Exception:
            search = {'tried': 0, 'failing': None, 'error': traceback.format_exc()[-2000:]}
    if broken:
        ev['violations'] = 1
        failing = search.get('failing') if search else None
        payload = {'property': prop, 'broken': [{'kind': k, 'detail': d} for k, d in broken],
                   'failing_input': failing, 'seed': seed, 'tier': tier,
                   'search': {k: v for k, v in (search or {}).items() if k != 'failing'}}
        violation(prop, payload, failing is not None)
        rcode = 1
    elif search and search.get('failing') is not None:
        # thorough-tier oracle sweep found a candidate on a tree whose proofs and
        # correspondence are intact: a finding about the property itself
        if not mod.is_known(search['failing']):
            ev['violations'] = 1
            violation(prop, {'property': prop, 'broken': [], 'failing_input': search['failing'], 'seed': seed,
                             'tier': tier, 'note': 'oracle sweep'}, True)
            rcode = 1
    # ---- 6. evidence
    tb = [
        'Coq 8.16.1 kernel (coqc); vm_compute used for correspondence evaluation and closed examples; native_compute not used',
        'axioms reported by Print Assumptions under the property theorems: ' + (', '.join(axioms) if axioms else '(none: closed under the global context)'),
        'translator tools/translate.py (Python ast -> Gallina, fail-closed) for the generated files: ' + ', '.join(f for f in files if f.startswith('gen/')),
        'correspondence harness (harness/*.py): program generator, GTC executor, libm recording proxies, bit-pattern printers',
        'CPython float arithmetic = IEEE-754 binary64 = Coq PrimFloat; math.fsum exactly rounded; libm results taken from the implementation run (oracle table)',
    ] + list(getattr(mod, 'TRUSTED', []))
    ev['coverage'] = {
        'obligations': nob, 'discharged': nob if not any(k in ('proof', 'hygiene', 'translator') for k, _ in broken) else discharged_now(files),
        'checker_cmd': 'cd /verif/coq && make -k -j%d && coqc %s %s' % (NCPU, ' '.join(coq_args()), vfile),
        'trusted_base': tb,
        'property_theorems': re.findall(r'^\s*(?:Theorem|Example)\s+(\w+)', open(os.path.join(COQ, vfile)).read(), re.M),
        'print_assumptions_blocks': closed + len(re.findall(r'^Axioms:', aout, re.M)),
        'closure_files': files,
        'translator': ev_tr,
        'programs': corr.get('programs', 0),
        'steps_compared': corr.get('steps', 0),
        'disagreements_checked': len(corr.get('mismatches', [])),
        'evaluations': corr.get('programs', 0),
        'distinct_nontrivial': corr.get('distinct', 0),
        'rule': corr.get('rule', ''),
        'samples': corr.get('samples', [])[:3],
        'input_distribution': corr.get('distribution', {}),
        'known_findings_seen': known_seen, 'known_findings_stale': stale_known,
        'oracle_search': {k: v for k, v in (search or {}).items() if k != 'failing'} if search else None,
        'partial': getattr(mod, 'PARTIAL', ''),
    }
    ev['assumptions'] = list(getattr(mod, 'ASSUMPTIONS', []))
    ev['wall_s'] = round(time.time() - t0, 2)
    write_json(os.path.join(EVIDENCE, prop + '.json'), ev)
    print('%s %s: %s  obligations=%d programs=%d steps=%d wall=%.1fs' %
          (prop, tier, 'VIOLATION' if rcode else 'ok', nob, corr.get('programs', 0), corr.get('steps', 0), ev['wall_s']))
    return rcode

if __name__ == '__main__':
    sys.exit(main())

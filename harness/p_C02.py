"""C02 -- real sensitivities and components are the first partial derivatives."""
import math, random
from common import *
import kernel

COQ_PROPS = 'props/C02.v'
COQ_PROPS_EXTRA = ['props/C02impl.v']
PARTIAL = ('chain rule proved for all trees over + - * / ** (positive base with any exponent; ANY base incl. negative and zero with a plain integer-valued exponent) atan2 (x>0 or y!=0: everywhere it is differentiable) and the 16 real functions, '
           'magnitude, mag_squared, phase, unary -/+, and the implicit-function form of the components returned by function.implicit; '
           '** with a non-positive base and an uncertain or non-integer exponent, and convergence of the implicit root search are covered by '
           'correspondence/oracle only')
ASSUMPTIONS = ['rounding error of float arithmetic is not bounded by proof (theorems are over the reals)']
TRUSTED = ['Coquelicot (is_derive, auto_derive) and the Coq Reals library']

def correspondence(rng, tier):
    n = 240 if tier == 'quick' else 4000
    r = kernel.run_kernel_corr(rng, n, 'sens', 'C02')
    # function.implicit (the implicit-function clause): the model of Special.v, cases of p_C20
    import p_C20, hashlib
    C = p_C20.Cases()
    for k in range(60 if tier == 'quick' else 1000): p_C20.gen_implicit(rng, C, k)
    vals, errs = coq_eval_cases('C02impl', p_C20.HEADER + p_C20.CASE2, C.terms, per_file=30, timeout=900)
    for e in errs:
        r['mismatches'].append({'kind': 'coqc-failed', 'file': e['file'], 'output': e['output'][-1200:]})
    kf = p_C20.kf_C20_implicit_end()[0]
    for v, m, t in zip(vals, C.meta, C.terms):
        if v is None or v == -1 or (v == -2 and not kf): continue
        r['mismatches'].append({'kind': 'model-vs-implementation', 'case': m, 'code': v, 'term': t[:1200]})
    r['programs'] += len(C.terms); r['steps'] += len(C.terms)
    r['distribution']['implicit_calls'] = len(C.terms)
    r['rule'] += '; plus function.implicit calls over 34 function families (see C20) compared bit for bit with the model of Special.v'
    return r

# ---------------------------------------------------------------- oracle (search only)
FUN = {
 'exp': (math.exp, lambda x: abs(x) < 20), 'log': (math.log, lambda x: x > 0.05), 'log10': (math.log10, lambda x: x > 0.05),
 'sqrt': (math.sqrt, lambda x: x > 0.05), 'sin': (math.sin, lambda x: True), 'cos': (math.cos, lambda x: True),
 'tan': (math.tan, lambda x: abs(math.cos(x)) > 0.2), 'asin': (math.asin, lambda x: abs(x) < 0.9),
 'acos': (math.acos, lambda x: abs(x) < 0.9), 'atan': (math.atan, lambda x: True), 'sinh': (math.sinh, lambda x: abs(x) < 20),
 'cosh': (math.cosh, lambda x: abs(x) < 20), 'tanh': (math.tanh, lambda x: True), 'asinh': (math.asinh, lambda x: True),
 'acosh': (math.acosh, lambda x: x > 1.1), 'atanh': (math.atanh, lambda x: abs(x) < 0.9),
 'magnitude': (abs, lambda x: abs(x) > 0.05), 'mag_squared': (lambda x: x * x, lambda x: True), 'neg': (lambda x: -x, lambda x: True),
}
BIN = {
 'add': (lambda a, b: a + b, lambda a, b: True), 'sub': (lambda a, b: a - b, lambda a, b: True),
 'mul': (lambda a, b: a * b, lambda a, b: True), 'div': (lambda a, b: a / b, lambda a, b: abs(b) > 0.05),
 'pow': (lambda a, b: a ** b, lambda a, b: a > 0.05 and abs(b) < 5), 'atan2': (math.atan2, lambda a, b: abs(a) + abs(b) > 0.1 and not (b <= 0 and abs(a) < 0.05)),
}

def rand_tree(rng, nin, depth):
    if depth == 0 or rng.random() < 0.15:
        return ('var', rng.randrange(nin)) if rng.random() < 0.8 else ('num', round(rng.uniform(-3, 3), 2))
    if rng.random() < 0.45:
        return ('un', rng.choice(list(FUN)), rand_tree(rng, nin, depth - 1))
    return ('bin', rng.choice(list(BIN)), rand_tree(rng, nin, depth - 1), rand_tree(rng, nin, depth - 1))

def ev_plain(t, xs):
    if t[0] == 'var': return xs[t[1]]
    if t[0] == 'num': return t[1]
    if t[0] == 'un':
        v = ev_plain(t[2], xs); f, dom = FUN[t[1]]
        if not dom(v): raise ArithmeticError('domain')
        return f(v)
    a = ev_plain(t[2], xs); b = ev_plain(t[3], xs); f, dom = BIN[t[1]]
    if not dom(a, b): raise ArithmeticError('domain')
    return f(a, b)

def ev_gtc(t, xs, core):
    if t[0] == 'var': return xs[t[1]]
    if t[0] == 'num': return t[1]
    if t[0] == 'un':
        v = ev_gtc(t[2], xs, core)
        if t[1] == 'neg': return -v
        return getattr(core, t[1])(v)
    a = ev_gtc(t[2], xs, core); b = ev_gtc(t[3], xs, core)
    return {'add': lambda: a + b, 'sub': lambda: a - b, 'mul': lambda: a * b, 'div': lambda: a / b,
            'pow': lambda: a ** b, 'atan2': lambda: core.atan2(a, b)}[t[1]]()

def num_deriv(t, xs, i):
    """Richardson-extrapolated central difference and an error estimate"""
    def f(h):
        a = list(xs); b = list(xs); a[i] += h; b[i] -= h
        return (ev_plain(t, a) - ev_plain(t, b)) / (2 * h)
    h = 1e-3 * max(1.0, abs(xs[i]))
    d1, d2 = f(h), f(h / 2)
    d = (4 * d2 - d1) / 3
    return d, abs(d2 - d1)

def check_tree(t, xs, us, indep):
    """returns None or a dict describing a failing input"""
    from GTC import core, reporting, lib
    new_context(7)
    ins = [core.ureal(x, u, independent=ind) for x, u, ind in zip(xs, us, indep)]
    try:
        y0 = ev_plain(t, xs)
        if not math.isfinite(y0) or abs(y0) > 1e6: return None
    except (ArithmeticError, ValueError, OverflowError, ZeroDivisionError):
        return None
    try:
        y = ev_gtc(t, ins, core)
    except Exception as ex:
        return None
    if not isinstance(y, lib.UncertainReal): return None
    for i, x in enumerate(ins):
        try:
            d, err = num_deriv(t, xs, i)
        except (ArithmeticError, ValueError, OverflowError, ZeroDivisionError):
            continue
        if not math.isfinite(d) or err > 1e-4 * max(1.0, abs(d)): continue   # ill-conditioned point
        s = reporting.sensitivity(y, x); c = reporting.u_component(y, x)
        tol = 1e-5 * max(1.0, abs(d)) + 10 * err
        if abs(s - d) > tol or abs(c - s * us[i]) > 1e-12 * max(1.0, abs(c)):
            return {'tree': t, 'x': xs, 'u': us, 'independent': indep, 'input': i,
                    'sensitivity': s, 'numerical_derivative': d, 'u_component': c}
    return None

SPECIAL = [0.0, 1.0, -1.0, 0.5, 2.0]

def search(rng, tier, broken):
    import p_C20
    n = 1500 if tier == 'quick' else 20000
    tried = 0
    for _ in range(n):
        tried += 1
        if rng.random() < 0.1:
            f = {'kind': 'implicit', 'family': rng.choice(['lin', 'sq', 'exp']), 'a0': rng.uniform(0.5, 4.0), 'ua': round(rng.uniform(0.05, 1), 3),
                 'lo': 0.05, 'hi': rng.uniform(2.5, 6.0), 'dep': rng.random() < 0.5}
            if f['family'] == 'exp': f['lo'] = -2.0
            if rng.random() < 0.4:      # a root exactly at a bracket end, linear and non-linear fn, independent and dependent inputs (regression oracle of the fixed finding C20-implicit-end)
                f = p_C20.rand_implicit_end(rng)
            try:
                p = p_C20.run_check(f)
            except Exception as ex:
                p = 'raised %r' % (ex,)
            if p:
                f['problem'] = p
                return {'tried': tried, 'failing': f}
            continue
        nin = rng.randint(1, 4)
        t = rand_tree(rng, nin, rng.randint(1, 5))
        # mostly generic points, sometimes exact special values (axes of atan2, integer exponents, ...)
        xs = [rng.choice(SPECIAL) if rng.random() < 0.2 else round(rng.uniform(-2.5, 2.5), 3) for _ in range(nin)]
        us = [round(rng.uniform(0.05, 1.0), 3) for _ in range(nin)]
        indep = [rng.random() < 0.6 for _ in range(nin)]
        r = check_tree(t, xs, us, indep)
        if r is not None:
            return {'tried': tried, 'failing': r}
    return {'tried': tried, 'failing': None}

def is_known(f):
    return False

def replay(payload):
    f = payload.get('failing_input')
    print(json.dumps(payload.get('broken'), indent=1)[:3000])
    if f and f.get('kind') in ('implicit', 'implicit_end'):
        import p_C20
        p = p_C20.run_check(f)
        print('replayed failing input on the implementation:', 'STILL FAILS %r' % (p,) if p else 'passes now')
        return 1 if p else 0
    if f:
        r = check_tree(tuple_tree(f['tree']), f['x'], f['u'], f['independent'])
        print('replayed failing input on the implementation:', 'STILL FAILS %r' % (r,) if r else 'passes now')
        return 1 if r else 0
    return 0

def tuple_tree(t):
    return tuple(tuple_tree(x) if isinstance(x, list) else x for x in t)

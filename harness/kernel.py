"""kernel.py -- correspondence for the uncertain-real kernel (Kernel.v).

A KSession executes operations on the real GTC (in /repo's working tree) while recording,
for each one, the operation as a Gallina `op float` term and the observed outcome as a
Gallina `out float` term, plus every libm call GTC made (the oracle table).  `emit_cases`
writes programs into cases_<k>.v files whose only output is, per program, the index of the
first step at which model and implementation differ (or `ok`)."""
import math, random, os, re, numbers
from common import *

UNOPS = ['exp','log','log10','sqrt','sin','cos','tan','asin','acos','atan','sinh','cosh','tanh',
         'asinh','acosh','atanh','magnitude','mag_squared','phase','neg','pos']
BINOPS = ['add','sub','mul','div','pow','atan2']

def ckey(uid):
    return '(%s, %s)' % (cz(uid[0]), cz(uid[1]))

def cvec(v):
    return clist(['(%s, %s)' % (ckey(k.uid), cf(x)) for k, x in zip(v._index, v._value)])

def cdf(df):
    if df is None: return 'DNaN'
    if math.isnan(df): return 'DNaN'
    if math.isinf(df) and df > 0: return 'DInf'
    return '(DFin %s)' % cf(df)

class KSession(object):
    def __init__(self, ctx_id=1):
        from GTC import lib, core, reporting, context
        self.lib, self.core, self.reporting = lib, core, reporting
        self.ctx_id = ctx_id
        new_context(ctx_id)
        self.rec = record_math()
        self.rec.__enter__()
        self.extra = []          # rule-based oracle rows
        self.ops = []            # gallina op terms
        self.outs = []           # gallina out terms
        self.slots = []          # python objects (or None)
        self.first = {}          # id(obj) -> first slot index
        self.pyops = []          # python-side description for replay (model ops and 'report' actions)
        self.opidx = []          # position in pyops of each model op
        self.stats = {}

    def close(self):
        self.rec.__exit__()

    # ---------------- observation
    def dump(self, o):
        try:
            return self._dump(o)
        except Exception:
            self.corrupt = True           # a component vector of the object is malformed (observed, not modelled)
            return '(OutExn OtherExn)'

    def _dump(self, o):
        n = o._node
        if n is None: k = 'KPlain'
        elif o.is_elementary: k = '(KElem %s)' % ckey(n.uid)
        elif o.is_intermediate: k = '(KInterm %s)' % ckey(n.uid)
        else: k = 'KConst'
        return '(OutObj %s %s %s %s %s)' % (cf(o._x), cvec(o._u_components), cvec(o._d_components),
                                            cvec(o._i_components), k)

    def check_heap(self):
        """every live vector must be well formed (the merge sentinels removed again)"""
        from GTC.vector import INF_UID
        for o in self.slots:
            if isinstance(o, self.lib.UncertainReal):
                for v in (o._u_components, o._d_components, o._i_components):
                    if len(v._index) != len(v._value) or any(k is INF_UID for k in v._index):
                        return False
        return not getattr(self, 'corrupt', False)

    def record(self, opterm, pyop, thunk, multi=False):
        self.ops.append(opterm)
        self.pyops.append(pyop)
        if not hasattr(self, 'opidx'): self.opidx = []     # subclasses with their own __init__
        self.opidx.append(len(self.pyops) - 1)
        self.stats[pyop[0]] = self.stats.get(pyop[0], 0) + 1
        try:
            r = thunk()
        except Exception as ex:
            self.outs.append('(OutExn %s)' % cexn(type(ex).__name__))
            self.slots.append(None)
            self.stats['exn'] = self.stats.get('exn', 0) + 1
            return None
        if multi:
            self.outs.append('(OutList %s)' % clist([self.dump(o) for o in r]))
            for o in r:
                self.first.setdefault(id(o), len(self.slots))
                self.slots.append(o)
            return r
        UR = self.lib.UncertainReal
        if isinstance(r, UR):
            if id(r) in self.first:
                self.outs.append('(OutSame %d)' % self.first[id(r)])
            else:
                self.first[id(r)] = len(self.slots)
                self.outs.append(self.dump(r))
            self.slots.append(r)
        elif isinstance(r, self.lib.UncertainComplex):
            self.outs.append('(OutExn ComplexResult)')
            self.slots.append(None)
        elif r is None:
            self.outs.append('OutUnit'); self.slots.append(None)
        elif isinstance(r, tuple) and r[0] == 'df':
            self.outs.append('(OutDof %s)' % cdf(r[1])); self.slots.append(None)
        elif isinstance(r, numbers.Real):
            self.outs.append('(OutVal %s)' % cf(r)); self.slots.append(None)
        else:
            self.outs.append('(OutExn OtherExn)'); self.slots.append(None)
        return r

    # ---------------- operations
    def ureal(self, x, u, df=math.inf, label=None, indep=True):
        t = '(OpUreal %s %s %s %s %s)' % (cf(x), cf(u), cdf(df), copt(label, cz), cbool(indep))
        lab = None if label is None else 'L%d' % label
        return self.record(t, ('ureal', x, u, df, label, indep),
                           lambda: self.core.ureal(x, u, df, label=lab, independent=indep))

    def constant(self, x, label=None):
        lab = None if label is None else 'L%d' % label
        return self.record('(OpConstant %s %s)' % (cf(x), copt(label, cz)), ('constant', x, label),
                           lambda: self.core.constant(x, label=lab))

    def multiple(self, xs, us, df):
        t = '(OpMultiple %s %s %s)' % (clist([cf(x) for x in xs]), clist([cf(u) for u in us]), cdf(df))
        return self.record(t, ('multiple', list(xs), list(us), df),
                           lambda: self.core.multiple_ureal(list(xs), list(us), df), multi=True)

    def un(self, f, a):
        o = self.slots[a]
        if f == 'asinh': self.extra.append(pow_entry(o._x, 2))
        def th():
            if f == 'neg': return -o
            if f == 'pos': return +o
            return getattr(self.core, f)(o)
        return self.record('(OpUn U_%s %d)' % (f, a), ('un', f, a), th)

    def _argterm(self, a):
        if a[0] == 'ref': return '(ARef %d)' % a[1]
        return '(ANum %s)' % cf(a[1])
    def _argval(self, a):
        return self.slots[a[1]] if a[0] == 'ref' else a[1]
    def _x(self, a):
        return self.slots[a[1]]._x if a[0] == 'ref' else float(a[1])

    def bin(self, f, a, b):
        va, vb = self._argval(a), self._argval(b)
        l, r = self._x(a), self._x(b)
        if f == 'pow':
            rr = vb if b[0] == 'num' else r
            self.extra.append(pow_entry(l, rr)); self.extra.append(pow_entry(l, rr - 1))
        if f == 'atan2':
            self.extra.append(pow_entry(l, 2)); self.extra.append(pow_entry(r, 2))
        inplace = bool(getattr(self, 'inplace_next', False)) and f != 'atan2' and a[0] == 'ref'
        self.inplace_next = False
        def th():
            if inplace:
                # augmented assignment on a second reference: `t = a; t op= b` must behave as `t = a op b` (a new object, `a` untouched)
                import operator
                t = va
                return {'add': operator.iadd, 'sub': operator.isub, 'mul': operator.imul, 'div': operator.itruediv,
                        'pow': operator.ipow}[f](t, vb)
            if f == 'add': return va + vb
            if f == 'sub': return va - vb
            if f == 'mul': return va * vb
            if f == 'div': return va / vb
            if f == 'pow': return va ** vb
            if f == 'atan2': return self.core.atan2(va, vb)
        if inplace: self.stats['inplace'] = self.stats.get('inplace', 0) + 1
        return self.record('(OpBin B_%s %s %s)' % (f, self._argterm(a), self._argterm(b)), ('bin', f, a, b, 'inplace') if inplace else ('bin', f, a, b), th)

    def report(self, a, kind='budget'):
        """a reporting call (reporting.budget / components / repr) on slot a: the model says it has NO effect on any
        number, so no operation is emitted; whatever it changes shows up in later steps or in the heap check"""
        o = self.slots[a]
        self.stats['report_' + kind] = self.stats.get('report_' + kind, 0) + 1
        self.pyops.append(('report', kind, a))
        try:
            if kind == 'budget': self.reporting.budget(o, trim=0)
            elif kind == 'budget_all': self.reporting.budget(o, trim=0, intermediate=True)
            elif kind == 'components': self.reporting.components(o, trim=0)
        except Exception:
            pass

    def result(self, a, label=None):
        lab = None if label is None else 'L%d' % label
        return self.record('(OpResult %d %s)' % (a, copt(label, cz)), ('result', a, label),
                           lambda: self.core.result(self.slots[a], label=lab))

    def set_corr(self, r, a, b):
        return self.record('(OpSetCorr %s %d %d)' % (cf(r), a, b), ('set_corr', r, a, b),
                           lambda: self.core.set_correlation(r, self.slots[a], self.slots[b]))

    def read(self, attr, a):
        o = self.slots[a]
        def th():
            if attr == 'x': return o.x
            if attr == 'u': return o.u
            if attr == 'v': return o.v
            if attr == 'df': return ('df', o.df)
        return self.record('(OpRead R_%s %d)' % (attr, a), ('read', attr, a), th)

    def sens(self, y, x):
        return self.record('(OpSens %d %d)' % (y, x), ('sens', y, x),
                           lambda: float(self.reporting.sensitivity(self.slots[y], self.slots[x])))
    def ucomp(self, y, x):
        return self.record('(OpUComp %d %d)' % (y, x), ('ucomp', y, x),
                           lambda: float(self.reporting.u_component(self.slots[y], self.slots[x])))
    def get_cov(self, a, b):
        oa, ob = self.slots[a], self.slots[b]
        if oa.is_elementary: self.extra.append(pow_entry(oa._node.u, 2))
        return self.record('(OpGetCov %d %d)' % (a, b), ('get_cov', a, b),
                           lambda: float(self.core.get_covariance(oa, ob)))
    def get_corr(self, a, b):
        return self.record('(OpGetCorr %d %d)' % (a, b), ('get_corr', a, b),
                           lambda: float(self.core.get_correlation(self.slots[a], self.slots[b])))

    # ---------------- emission
    def case_term(self):
        tbl = oracle_table(self.rec.log, self.extra)
        return '(%s, %s, %s, %s)' % (cz(self.ctx_id), tbl, clist(self.ops), clist(self.outs))


HEADER = '''From Coq Require Import ZArith List PrimFloat String.
From GTCV Require Import Num FNum Vector Opres KTypes Kernel CaseLib.
Import ListNotations.
Local Open Scope float_scope.
'''

def emit_cases(dirname, sessions, per_file=150, prefix='cases'):
    """sessions: list of KSession (closed).  Returns list of (file, [session indices])"""
    files = []
    for fi in range(0, len(sessions), per_file):
        chunk = sessions[fi:fi + per_file]
        path = os.path.join(dirname, '%s_%d.v' % (prefix, fi // per_file))
        with open(path, 'w') as f:
            f.write(HEADER)
            for j, s in enumerate(chunk):
                f.write('Definition c%d : kcase := %s.\n' % (j, s.case_term()))
            f.write('Definition all_cases : list kcase := %s.\n' % clist(['c%d' % j for j in range(len(chunk))]))
            f.write('Eval vm_compute in (report_cases all_cases).\n')
        files.append((path, list(range(fi, fi + len(chunk)))))
    return files

def parse_report(text):
    """CaseLib.report_cases prints a list of Z: -1 = agreement, k >= 0 = first mismatching step"""
    m = re.search(r'=\s*\[(.*?)\]\s*:\s*list Z', text, re.S)
    if not m: return None
    body = m.group(1).replace('%Z', '').replace('(', '').replace(')', '')
    if not body.strip(): return []
    return [int(t) for t in body.replace('\n', ' ').split(';')]

# ------------------------------------------------------------------ generator
NICE = [0.0, 1.0, -1.0, 2.0, 0.5, -0.5, 3.0, 10.0, 0.1, -2.5, 1e-3, 7.25, -0.75, 100.0]

def rnd_val(rng, lo=-5.0, hi=5.0):
    c = rng.random()
    if c < 0.25: return rng.choice(NICE)
    if c < 0.35: return float(rng.randint(-4, 4))
    return rng.uniform(lo, hi)

def rnd_df(rng):
    return rng.choice([math.inf, math.inf, 1.0, 1.5, 4.0, 7.0, 30.0, 1e5, 1e5 + 1])

PROFILES = {
    #            un    bin   result corr  read  sens  cov
    'mix':     (0.30, 0.35, 0.07, 0.04, 0.10, 0.07, 0.07),
    'value':   (0.38, 0.42, 0.05, 0.02, 0.09, 0.02, 0.02),
    'sens':    (0.28, 0.34, 0.04, 0.02, 0.04, 0.26, 0.02),
    'cov':     (0.18, 0.30, 0.04, 0.12, 0.12, 0.04, 0.20),
    'df':      (0.15, 0.33, 0.08, 0.08, 0.30, 0.03, 0.03),
    'result':  (0.20, 0.30, 0.25, 0.03, 0.10, 0.09, 0.03),
    'history': (0.15, 0.25, 0.08, 0.12, 0.28, 0.06, 0.06),
}

def gen_program(rng, ctx_id, size=None, malformed=False, profile='mix'):
    """build one random program by executing it: returns the closed KSession"""
    s = KSession(ctx_id)
    s.profile = profile
    UR = s.lib.UncertainReal
    size = size or rng.randint(8, 30)
    # scale of the declared uncertainties: usually 1, sometimes tiny (covariances ~1e-18 .. 1e-30 must still be exact)
    us_ = 1.0 if rng.random() < 0.82 else 10.0 ** -rng.choice([6, 9, 12, 13, 15, 17, 20, 30])
    s.uscale = us_
    W = PROFILES[profile]
    cum = [sum(W[:i + 1]) / sum(W) for i in range(len(W))]
    def reals():
        return [i for i, o in enumerate(s.slots) if isinstance(o, UR)]
    # declarations
    nd = rng.randint(1, 5)
    for _ in range(nd):
        c = rng.random()
        if c < 0.45:
            s.ureal(rnd_val(rng), us_ * abs(rnd_val(rng, 0.01, 2.0)) if rng.random() > 0.08 else 0.0, rnd_df(rng),
                    label=rng.choice([None, None, rng.randint(0, 9)]), indep=True)
        elif c < 0.7:
            s.ureal(rnd_val(rng), us_ * (abs(rnd_val(rng, 0.01, 2.0)) + 0.01), math.inf,
                    label=None, indep=False)
        elif c < 0.9:
            n = rng.randint(1, 4)
            us = [us_ * (abs(rnd_val(rng, 0.01, 2.0)) + (0.0 if rng.random() < 0.1 else 0.01)) for _ in range(n)]
            if rng.random() < 0.15: us[rng.randrange(n)] = 0.0
            s.multiple([rnd_val(rng) for _ in range(n)], us, rng.choice([1.0, 2.5, 4.0, 9.0, math.inf]))
        else:
            s.constant(rnd_val(rng), label=rng.choice([None, 3]))
    if malformed and rng.random() < 0.5:
        bad = rng.choice([(math.nan, 1.0, math.inf), (1.0, -1.0, math.inf), (1.0, math.inf, math.inf),
                          (math.inf, 1.0, math.inf), (1.0, 1.0, 0.5), (1.0, 1.0, math.nan), (1.0, math.nan, 3.0)])
        s.ureal(bad[0], bad[1], bad[2], indep=rng.random() < 0.5)
    # correlations
    def try_corr():
        rs = [i for i in reals() if s.slots[i].is_elementary and not s.slots[i]._node.independent]
        if len(rs) >= 2 or (rs and malformed):
            a = rng.choice(rs); b = rng.choice(rs if not malformed else reals())
            r = rng.choice([0.0, 0.5, -0.3, 1.0, -1.0, rng.uniform(-1, 1)])
            if malformed and rng.random() < 0.3: r = rng.choice([1.5, -2.0, math.nan])
            s.set_corr(r, a, b)
    for _ in range(rng.randint(0, 3)): try_corr()
    while len(s.ops) < size:
        rs = reals()
        if not rs: break
        c = rng.random()
        a = rng.choice(rs); xa = s.slots[a]._x
        if c < cum[0]:
            f = rng.choice(UNOPS)
            # mostly stay inside the domain
            if not malformed or rng.random() < 0.7:
                if f in ('log', 'log10') and not xa > 0: f = 'exp' if abs(xa) < 50 else 'neg'
                if f == 'sqrt' and not xa > 0: f = 'sin'
                if f in ('asin', 'acos', 'atanh') and not abs(xa) < 1: f = 'atan'
                if f == 'acosh' and not xa > 1: f = 'cosh' if abs(xa) < 50 else 'neg'
                if f in ('exp', 'sinh', 'cosh') and abs(xa) > 50: f = 'tanh'
                if f == 'magnitude' and xa == 0: f = 'pos'
            s.un(f, a)
        elif c < cum[1]:
            f = rng.choice(BINOPS)
            k = rng.random()
            if k < 0.55:
                b = rng.choice(rs) if rng.random() > 0.25 else a
                A, B = ('ref', a), ('ref', b)
            elif k < 0.8:
                v = rng.choice([0, 1, 0.0, 1.0, 2, -1, 3, rnd_val(rng), rnd_val(rng)])
                A, B = ('ref', a), ('num', v)
            else:
                v = rng.choice([0, 1, 0.0, 1.0, 2, -1, rnd_val(rng), rnd_val(rng)])
                A, B = ('num', v), ('ref', a)
            if f == 'pow' and not malformed:
                # keep the base positive most of the time
                l = s._x(A)
                if not l > 0 and rng.random() < 0.8: f = 'mul'
                elif abs(s._x(B)) > 6: f = 'add'
            if f == 'div' and s._x(B) == 0 and rng.random() < 0.8: f = 'sub'
            s.inplace_next = rng.random() < 0.12
            s.bin(f, A, B)
        elif c < cum[2]:
            s.result(a, label=rng.choice([None, rng.randint(10, 19)]))
        elif c < cum[3]:
            try_corr()
        elif c < cum[4]:
            if rng.random() < 0.2: s.report(a, rng.choice(['budget', 'budget', 'budget_all', 'components']))
            s.read(rng.choice(['x', 'u', 'v', 'df', 'df', 'u']), a)
        elif c < cum[5]:
            b = rng.choice(rs)
            rng.choice([s.sens, s.ucomp])(a, b)
        else:
            b = rng.choice(rs)
            rng.choice([s.get_cov, s.get_corr])(a, b)
    # final sweep of reads on a few objects
    rs = reals()
    for a in rng.sample(rs, min(len(rs), 3)):
        s.read('u', a); s.read('df', a)
        for b in rng.sample(rs, min(len(rs), 2)):
            if s.slots[b].is_elementary or s.slots[b].is_intermediate:
                s.ucomp(a, b)
    if len(rs) >= 2:
        a, b = rng.sample(rs, 2)
        s.get_cov(a, b); s.get_cov(b, a)
    s.heap_ok = s.check_heap()
    s.close()
    return s

def run_kernel_corr(rng, nprog, profile, name, malformed_every=7, per_file=40):
    """generate nprog programs, evaluate the FNum model on them inside coqc, compare.
    Returns the dict check.py expects from a correspondence suite."""
    import collections, hashlib
    sessions = scenarios(rng) + [gen_program(rng, 1 + i, malformed=(i % malformed_every == malformed_every - 1), profile=profile)
                                 for i in range(nprog)]
    d = scratch('corr_' + name)
    files = emit_cases(d, sessions, per_file=per_file)
    res = run_coqc_many([f for f, _ in files])
    mism = []
    for f, idx in files:
        rc, out = res[f]
        rep = parse_report(out)
        if rep is None or len(rep) != len(idx):
            mism.append({'kind': 'coqc-failed', 'file': f, 'rc': rc, 'output': out[-1500:]})
            continue
        for i, r in zip(idx, rep):
            if r != -1:
                s = sessions[i]
                mism.append({'kind': 'model-vs-implementation', 'program': s.pyops[:(s.opidx[r] + 1 if r < len(getattr(s, 'opidx', [])) else len(s.pyops))], 'step': r,
                             'ctx': s.ctx_id, 'implementation_output': s.outs[r][:600] if r < len(s.outs) else None})
    for i, s in enumerate(sessions):
        if not s.heap_ok:
            mism.append({'kind': 'vector-heap-corrupted', 'program': s.pyops, 'ctx': s.ctx_id})
    stats = collections.Counter()
    for s in sessions: stats.update(s.stats)
    distinct = len(set(hashlib.sha1(repr(s.pyops).encode()).hexdigest() for s in sessions if len(s.ops) > 3))
    shutil.rmtree(d, ignore_errors=True)
    return {'programs': len(sessions), 'steps': sum(len(s.ops) for s in sessions), 'mismatches': mism,
            'distinct': distinct, 'distribution': dict(stats),
            'rule': 'random kernel programs (profile %s): declarations (independent / dependent / ensembles / constants), '
                    'correlations, operators and functions over uncertain and plain operands with sharing, result(), reads; '
                    'every step output compared bit for bit with the FNum model; a program is non-trivial if it has more than 3 steps; '
                    'distinct by hash of the operation list' % profile,
            'samples': [{'program': s.pyops[:12]} for s in sessions[:2]]}

# ------------------------------------------------------------------ replay / diagnosis
def run_pyops(pyops, ctx_id):
    """re-execute a recorded program (list of python-side op descriptions) on the implementation"""
    s = KSession(ctx_id)
    for op in pyops:
        op = list(op)
        k = op[0]
        if k == 'ureal': s.ureal(op[1], op[2], op[3], label=op[4], indep=op[5])
        elif k == 'constant': s.constant(op[1], label=op[2])
        elif k == 'multiple': s.multiple(op[1], op[2], op[3])
        elif k == 'un': s.un(op[1], op[2])
        elif k == 'bin':
            s.inplace_next = (len(op) > 4 and op[4] == 'inplace')
            s.bin(op[1], tuple(op[2]), tuple(op[3]))
        elif k == 'result': s.result(op[1], label=op[2])
        elif k == 'set_corr': s.set_corr(op[1], op[2], op[3])
        elif k == 'read': s.read(op[1], op[2])
        elif k == 'sens': s.sens(op[1], op[2])
        elif k == 'ucomp': s.ucomp(op[1], op[2])
        elif k == 'get_cov': s.get_cov(op[1], op[2])
        elif k == 'get_corr': s.get_corr(op[1], op[2])
        elif k == 'report': s.report(op[2], op[1])
        else: raise ValueError(k)
    s.heap_ok = s.check_heap()
    s.close()
    return s

def diagnose(pyops, ctx_id, step):
    """model output vs implementation output at one step (text)"""
    s = run_pyops(pyops, ctx_id)
    d = scratch('diag')
    path = os.path.join(d, 'diag.v')
    with open(path, 'w') as f:
        f.write(HEADER)
        f.write('Definition c0 : kcase := %s.\n' % s.case_term())
        f.write('Eval vm_compute in (run_case c0).\n')
        f.write('Eval vm_compute in (model_out c0 %d).\n' % step)
    res = run_coqc_many([path])
    return s.outs[step] if step < len(s.outs) else None, res[path][1]

# ------------------------------------------------------------------ directed scenarios
def _rv(rng, lo=0.3, hi=3.0):
    return round(rng.uniform(lo, hi), 3)

def scenarios(rng, ctx0=5000):
    """a fixed set of structured programs (random values) that reach the paths random programs seldom
    combine: dof before/after uncertainty with correlated infinite-dof pairs and finite-dof inputs, ensembles
    used partially, caches across set_correlation and across operators, covariance of an elementary number
    with a result, shortcut returns on every operand role, aliasing, quadrant/branch cases"""
    out = []
    def new():
        s = KSession(ctx0 + len(out)); s.profile = 'scenario'; return s
    def done(s):
        s.heap_ok = s.check_heap(); s.close(); out.append(s)
    inf = math.inf
    # S1/S2: correlated infinite-dof pair + finite-dof independent input; df before u, and u before df
    for order in (('df', 'u', 'v'), ('u', 'df', 'v'), ('v', 'df', 'u')):
        s = new()
        s.ureal(_rv(rng), _rv(rng, .1, 1), inf, indep=False); s.ureal(_rv(rng), _rv(rng, .1, 1), inf, indep=False)
        s.ureal(_rv(rng), _rv(rng, .1, 1), rng.choice([3.0, 5.0, 11.5]), indep=True)
        s.set_corr(round(rng.uniform(-.9, .9), 2), 0, 1)
        s.bin('mul', ('num', _rv(rng)), ('ref', 0)); s.bin('mul', ('ref', 1), ('num', -_rv(rng)))
        s.bin('add', ('ref', 4), ('ref', 5)); s.bin('add', ('ref', 6), ('ref', 2))
        for a in order: s.read(a, 7)
        s.get_cov(7, 7); s.un('neg', 7); j = len(s.slots) - 1; s.read('u', j); s.read('df', j)
        done(s)
    # S3: ensembles with internal correlations, partial use, interleaved with independent inputs
    for k in range(3):
        s = new()
        s.ureal(_rv(rng), _rv(rng, .1, 1), rng.choice([inf, 4.0]), indep=True)
        s.multiple([_rv(rng) for _ in range(3)], [_rv(rng, .1, 1) for _ in range(3)], rng.choice([3.0, 6.0, inf]))
        s.ureal(_rv(rng), _rv(rng, .1, 1), 7.0, indep=False)
        s.multiple([_rv(rng) for _ in range(2)], [_rv(rng, .1, 1), 0.0 if k == 2 else _rv(rng, .1, 1)], 5.0)
        s.set_corr(round(rng.uniform(-.8, .8), 2), 1, 2); s.set_corr(round(rng.uniform(-.8, .8), 2), 1, 3)
        s.set_corr(round(rng.uniform(-.8, .8), 2), 5, 6)
        n = len(s.slots)
        s.bin('add', ('ref', 1), ('ref', 3)); s.bin('sub', ('ref', n), ('ref', 5)); s.bin('mul', ('ref', n + 1), ('ref', 0))
        s.bin('add', ('ref', n + 2), ('ref', 4)); s.bin('add', ('ref', n + 3), ('ref', 6))
        for j in range(n, n + 5): s.read('df', j); s.read('u', j)
        s.result(n + 4, None); s.read('df', len(s.slots) - 1)
        done(s)
    # S4: caches across set_correlation and operators
    s = new()
    s.ureal(1.0, 1.0, inf, indep=False); s.ureal(1.0, 1.0, inf, indep=False)
    s.bin('add', ('ref', 0), ('ref', 1)); s.read('u', 2); s.set_corr(0.5, 0, 1); s.read('u', 2); s.read('v', 2)
    s.un('neg', 2); s.read('u', len(s.slots) - 1); s.bin('sub', ('num', 0), ('ref', 2)); s.read('u', len(s.slots) - 1)
    s.un('pos', 2); s.read('u', len(s.slots) - 1)
    s.bin('add', ('ref', 0), ('ref', 1)); f = len(s.slots) - 1; s.read('u', f); s.result(2, None); s.read('u', len(s.slots) - 1)
    s.get_cov(2, 2); s.get_cov(f, f)
    done(s)
    # S5: result() chains, sensitivities w.r.t. intermediates
    for k in range(2):
        s = new()
        s.ureal(_rv(rng), _rv(rng, .1, 1), 5.0, indep=True); s.ureal(_rv(rng), _rv(rng, .1, 1), inf, indep=True)
        s.bin('mul', ('ref', 0), ('ref', 1)); s.result(2, 11); s.un('exp', 3) if k else s.un('sqrt', 3); s.result(4, None)
        s.bin('add', ('ref', 5), ('ref', 0)); s.result(5, 12); s.result(0, 13); s.result(0, 14)
        for (y, x) in [(6, 3), (6, 5), (4, 3), (6, 0), (5, 3), (3, 5), (6, 2)]:
            s.sens(y, x); s.ucomp(y, x)
        s.read('df', 3); s.read('u', 3); s.read('df', 6); s.constant(2.5, None); s.result(len(s.slots) - 1, 15)
        done(s)
    # S6: covariance / correlation of an elementary number with a result
    s = new()
    s.ureal(_rv(rng), _rv(rng, .1, 1), inf, indep=False); s.ureal(_rv(rng), _rv(rng, .1, 1), inf, indep=False)
    s.ureal(_rv(rng), _rv(rng, .1, 1), inf, indep=True)
    s.set_corr(round(rng.uniform(-.9, .9), 2), 0, 1)
    s.bin('mul', ('ref', 1), ('num', _rv(rng))); s.bin('add', ('ref', 4), ('ref', 2))
    for (a, b) in [(0, 5), (5, 0), (1, 5), (5, 1), (2, 5), (5, 2), (0, 1), (1, 0), (0, 0), (2, 2), (0, 2)]:
        s.get_cov(a, b); s.get_corr(a, b)
    done(s)
    # S7: shortcut returns on every operand role
    s = new()
    s.ureal(_rv(rng), _rv(rng, .1, 1), 4.0, indep=True); s.constant(_rv(rng), None); s.un('exp', 0); s.result(2, None)
    for a in (0, 1, 2, 3):
        for f, A, B in [('add', ('ref', a), ('num', 0)), ('add', ('num', 0.0), ('ref', a)), ('mul', ('ref', a), ('num', 1)),
                        ('mul', ('num', 1.0), ('ref', a)), ('div', ('ref', a), ('num', 1)), ('sub', ('ref', a), ('num', 0.0)),
                        ('sub', ('num', 0), ('ref', a)), ('pow', ('ref', a), ('num', 1)), ('pow', ('ref', a), ('num', 0)),
                        ('add', ('ref', a), ('num', -0.0)), ('mul', ('ref', a), ('num', 1.5)), ('div', ('num', 1), ('ref', a))]:
            s.bin(f, A, B)
    for j in range(4, len(s.slots), 5):
        if isinstance(s.slots[j], s.lib.UncertainReal): s.read('u', j)
    done(s)
    # S8: aliasing
    s = new()
    s.ureal(_rv(rng), _rv(rng, .1, 1), inf, indep=True); s.ureal(_rv(rng), _rv(rng, .1, 1), inf, indep=False)
    for a in (0, 1):
        for f in ('mul', 'sub', 'div', 'add', 'pow', 'atan2'):
            s.bin(f, ('ref', a), ('ref', a))
    s.bin('mul', ('num', 2.0), ('ref', 0)); s.bin('add', ('ref', 14), ('ref', 0)); s.bin('sub', ('ref', 15), ('ref', 14))
    for j in range(2, 17): s.sens(j, 0); s.ucomp(j, 1)
    done(s)
    # S9: quadrants, branch cases
    s = new()
    for x in (1.5, -1.5, 0.0, -0.0):
        s.ureal(x, 0.1, inf, indep=True)
    for a in range(4):
        for b in range(4):
            s.bin('atan2', ('ref', a), ('ref', b))
        s.bin('atan2', ('ref', a), ('num', -2.0)); s.bin('atan2', ('num', 0.0), ('ref', a)); s.bin('atan2', ('num', -1.0), ('ref', a))
        s.un('magnitude', a); s.un('mag_squared', a); s.un('phase', a)
        s.bin('pow', ('ref', a), ('num', 3)); s.bin('pow', ('ref', a), ('num', -2)); s.bin('pow', ('ref', a), ('num', 0.5))
        s.bin('pow', ('num', 2.0), ('ref', a)); s.bin('pow', ('num', 0.0), ('ref', a)); s.bin('pow', ('num', -2.0), ('ref', a))
        s.bin('pow', ('ref', a), ('ref', 0))
    done(s)
    # S10: dependent finite-dof singleton, rejected correlations
    s = new()
    s.ureal(_rv(rng), _rv(rng, .1, 1), 5.0, indep=False); s.ureal(_rv(rng), _rv(rng, .1, 1), inf, indep=False)
    s.ureal(_rv(rng), _rv(rng, .1, 1), 9.0, indep=True); s.constant(1.0, None)
    for (r, a, b) in [(0.3, 0, 1), (0.3, 1, 0), (0.3, 1, 2), (0.3, 2, 1), (0.3, 1, 3), (0.3, 3, 1), (1.0, 1, 1), (0.5, 1, 1), (0.0, 0, 2), (0.2, 0, 0), (1.0, 0, 0)]:
        s.set_corr(r, a, b)
    s.bin('add', ('ref', 0), ('ref', 1)); s.bin('add', ('ref', len(s.slots) - 1), ('ref', 2))
    s.read('df', len(s.slots) - 1); s.read('u', len(s.slots) - 2); s.set_corr(0.4, 1, len(s.slots) - 3)
    done(s)
    # S11: tiny uncertainties (covariances 1e-18 .. 1e-30): nothing may be thresholded to zero -- correlations of results,
    # sensitivity / component w.r.t. an intermediate of tiny uncertainty, dof
    for sc in (1e-6, 1e-9, 1e-13, 1e-15, 1e-17, 1e-24):
        s = new()
        s.ureal(_rv(rng), sc * _rv(rng, .5, 2), rng.choice([inf, 6.0]), indep=True)        # 0
        s.ureal(_rv(rng), sc * _rv(rng, .5, 2), inf, indep=False)                           # 1
        s.ureal(_rv(rng), sc * _rv(rng, .5, 2), inf, indep=False)                           # 2
        s.set_corr(round(rng.uniform(-.8, .8), 2), 1, 2)
        s.bin('mul', ('ref', 0), ('ref', 1)); m0 = len(s.slots) - 1                         # x0*x1
        s.result(m0, None); m = len(s.slots) - 1                                            # m = result(x0*x1)
        s.bin('mul', ('ref', m), ('num', 3.0)); s.bin('add', ('ref', len(s.slots) - 1), ('ref', 2)); w = len(s.slots) - 1
        s.bin('sub', ('ref', 0), ('ref', 2)); v = len(s.slots) - 1
        s.sens(w, m); s.ucomp(w, m); s.sens(w, 0); s.sens(w, 1); s.sens(m, 0)
        s.get_corr(w, v); s.get_corr(v, w); s.get_corr(w, m); s.get_corr(m0, v); s.get_cov(w, v); s.get_corr(1, 2); s.get_corr(w, 1)
        s.read('u', w); s.read('df', w); s.read('u', m)
        done(s)
    # S12: covariance of results with only independent influences whose uid ranges are nested / disjoint / overlapping
    # (x0 x1 x2 x3 declared in this order): every ordered pair of y_a = f(x1), y_b = g(x0,x1,x2), y_c = h(x0,x3), y_d = k(x1,x2)
    s = new()
    for _ in range(4): s.ureal(_rv(rng), _rv(rng, .1, 1), rng.choice([inf, 5.0]), indep=True)
    s.un('exp', 1); ya = len(s.slots) - 1
    s.bin('mul', ('ref', 0), ('ref', 1)); s.bin('add', ('ref', len(s.slots) - 1), ('ref', 2)); yb = len(s.slots) - 1
    s.bin('sub', ('ref', 0), ('ref', 3)); yc = len(s.slots) - 1
    s.bin('div', ('ref', 1), ('ref', 2)); yd = len(s.slots) - 1
    ys = [ya, yb, yc, yd, 1, 0]
    for a in ys:
        for b in ys:
            s.get_cov(a, b)
    for a in ys[:4]:
        for b in ys[:4]:
            s.get_corr(a, b)
    done(s)
    # S14: covariance / correlation of results over interleaved subsets of the same inputs: six inputs (independent and
    # dependent mixed), six results each a weighted sum over a random subset, every ordered pair -- patterns such as
    # "several consecutive inputs of b that a lacks, then a shared one" occur in both argument orders
    for variant in range(3):
        s = new()
        kinds = [rng.random() < (0.0, 0.5, 1.0)[variant] for _ in range(6)]       # all independent / mixed / all dependent
        for dep in kinds: s.ureal(_rv(rng), _rv(rng, .1, 1), inf, indep=not dep)
        deps = [i for i, d in enumerate(kinds) if d]
        for _ in range(min(3, len(deps) // 2)):
            a, b = rng.sample(deps, 2); s.set_corr(round(rng.uniform(-.6, .6), 2), a, b)
        ys = []
        for k in range(6):
            sub = sorted(rng.sample(range(6), rng.choice([1, 2, 2, 3, 4])))
            if k == 0: sub = [0, 5]
            if k == 1: sub = [1, 2, 3, 5]
            if k == 2: sub = [3]
            acc = None
            for i in sub:
                s.bin('mul', ('num', _rv(rng)), ('ref', i)); t = len(s.slots) - 1
                if acc is None: acc = t
                else:
                    s.bin('add', ('ref', acc), ('ref', t)); acc = len(s.slots) - 1
            ys.append(acc)
        for a in ys:
            for b in ys:
                s.get_cov(a, b)
        for a in ys[:3]:
            for b in ys[3:]:
                s.get_corr(a, b); s.get_corr(b, a)
        done(s)
    # S15: dof read BEFORE a correlation is declared among finite-dof ensemble members, and again after (the dof is recomputed
    # on every read: only the uncertainty is cached), for the same object and for a freshly built equal one; augmented assignment
    for variant in range(2):
        s = new()
        s.multiple([_rv(rng) for _ in range(3)], [_rv(rng, .1, 1) for _ in range(3)], rng.choice([4.0, 7.5]))
        s.ureal(_rv(rng), _rv(rng, .1, 1), 6.0, indep=True)
        s.bin('mul', ('ref', 1), ('num', 2.0)); s.bin('add', ('ref', 0), ('ref', len(s.slots) - 1)); y = len(s.slots) - 1
        if variant == 1: s.bin('add', ('ref', y), ('ref', 3)); y = len(s.slots) - 1
        s.read('df', y); s.set_corr(round(rng.uniform(.2, .8), 2), 0, 1); s.read('df', y); s.set_corr(-0.25, 1, 2); s.read('df', y)
        s.bin('mul', ('ref', 1), ('num', 2.0)); s.bin('add', ('ref', 0), ('ref', len(s.slots) - 1)); y2 = len(s.slots) - 1
        if variant == 1: s.bin('add', ('ref', y2), ('ref', 3)); y2 = len(s.slots) - 1
        s.read('df', y2); s.read('u', y2); s.read('df', y); s.read('u', y)
        s.inplace_next = True; s.bin('add', ('ref', y2), ('num', 1.5)); r1 = len(s.slots) - 1; s.read('x', y2); s.read('x', r1)
        s.inplace_next = True; s.bin('mul', ('ref', y2), ('ref', 3)); r2 = len(s.slots) - 1; s.read('x', y2); s.read('u', y2); s.read('u', r2)
        done(s)
    # S16: weighted merges (mul, div, sub, pow, atan2) of operands whose influence sets have the SAME size (4..6) and the same
    # first, middle and last input but differ in between (and, as controls, differ only at an end / in size): any shortcut of the
    # merge walk that compares lengths or a few positions instead of the whole index shows up in the component vectors
    for variant in range(3):
        s = new()
        kinds = [(False, True, None)[variant] if variant < 2 else (rng.random() < 0.5) for _ in range(8)]
        for dep in kinds: s.ureal(_rv(rng), _rv(rng, .1, 1), inf, indep=not dep)
        def wsum(sub):
            acc = None
            for i in sub:
                s.bin('mul', ('num', _rv(rng)), ('ref', i)); t = len(s.slots) - 1
                if acc is None: acc = t
                else:
                    s.bin('add', ('ref', acc), ('ref', t)); acc = len(s.slots) - 1
            return acc
        pairs = [([0, 1, 3, 4], [0, 2, 3, 4]), ([0, 1, 3, 4, 6], [0, 2, 3, 4, 6]), ([0, 1, 3, 4, 6], [0, 1, 3, 5, 6]),
                 ([0, 1, 2, 4, 5, 7], [0, 1, 3, 4, 6, 7]), ([1, 2, 4, 6], [1, 3, 4, 6]), ([0, 1, 3, 4], [0, 1, 3, 5]), ([0, 2, 3], [0, 1, 3, 4])]
        ops = ['mul', 'div', 'sub', 'mul', 'div', 'sub', 'pow' if variant == 0 else 'mul']
        for (A, B), op in zip(pairs, ops):
            a = wsum(A); b = wsum(B)
            s.bin(op, ('ref', a), ('ref', b)); y1 = len(s.slots) - 1
            s.bin(rng.choice(['mul', 'div', 'sub']), ('ref', b), ('ref', a)); y2 = len(s.slots) - 1
            s.read('u', y1); s.read('u', y2)
            for i in sorted(set(A) | set(B)): s.ucomp(y1, i)
        done(s)
    # S17: members of an INFINITE-dof ensemble correlated with dependent inputs OUTSIDE the ensemble (allowed because every dof
    # is infinite), declared before and after it, and among themselves; variance, covariance, correlation and dof of sums that
    # mix members and outsiders (a shortcut "an ensemble member is only correlated with the other members" is wrong here)
    for variant in range(3):
        s = new()
        s.ureal(_rv(rng), _rv(rng, .1, 1), inf, indep=False)                                   # 0: outsider declared first
        s.multiple([_rv(rng) for _ in range(3)], [_rv(rng, .1, 1) for _ in range(3)], inf)       # 1..3: infinite-dof ensemble
        s.ureal(_rv(rng), _rv(rng, .1, 1), inf, indep=False)                                   # 4: outsider declared later
        s.ureal(_rv(rng), _rv(rng, .1, 1), inf, indep=True)                                    # 5
        s.set_corr(round(rng.uniform(.2, .8), 2), 1, 4); s.set_corr(round(rng.uniform(-.8, -.2), 2), 0, 2)
        if variant >= 1: s.set_corr(round(rng.uniform(.2, .6), 2), 1, 2)
        if variant == 2: s.set_corr(round(rng.uniform(.2, .6), 2), 3, 4); s.set_corr(0.3, 0, 4)
        s.bin('add', ('ref', 1), ('ref', 4)); y1 = len(s.slots) - 1                            # member first, then outsider
        s.bin('add', ('ref', 0), ('ref', 2)); y2 = len(s.slots) - 1                            # outsider first, then member
        s.bin('mul', ('num', _rv(rng)), ('ref', 3)); t = len(s.slots) - 1
        s.bin('add', ('ref', y1), ('ref', t)); s.bin('add', ('ref', len(s.slots) - 1), ('ref', y2)); y3 = len(s.slots) - 1
        s.bin('sub', ('ref', y3), ('ref', 5)); y4 = len(s.slots) - 1
        for y in (y1, y2, y3, y4):
            s.read('v', y); s.read('u', y); s.read('df', y); s.get_cov(y, y)
        for a in (y1, y2, y3):
            for b in (y2, y3, y4): s.get_cov(a, b); s.get_corr(a, b)
        done(s)
    # S18: operands whose influence sets TOUCH: the last (highest-uid) influence of one operand is the first (lowest-uid) influence
    # of the other, in both operand orders, for + (merge_vectors) and - * / (weighted merges); also nested / single-element sets
    for variant in range(3):
        s = new()
        kinds = [(False, True, None)[variant] if variant < 2 else (rng.random() < 0.5) for _ in range(6)]
        for dep in kinds: s.ureal(_rv(rng), _rv(rng, .1, 1), inf, indep=not dep)
        def wsum18(sub):
            acc = None
            for i in sub:
                s.bin('mul', ('num', _rv(rng)), ('ref', i)); t = len(s.slots) - 1
                if acc is None: acc = t
                else:
                    s.bin('add', ('ref', acc), ('ref', t)); acc = len(s.slots) - 1
            return acc
        pairs = [([0, 1], [1, 2]), ([0], [0, 1]), ([0, 1, 2], [2, 3]), ([1, 3], [3, 4, 5]), ([2], [2, 3]), ([0, 4], [4]), ([1, 2, 3], [3])]
        for k, (A, B) in enumerate(pairs):
            a = wsum18(A); b = wsum18(B)
            s.bin('add', ('ref', a), ('ref', b)); y1 = len(s.slots) - 1
            s.bin('add', ('ref', b), ('ref', a)); y2 = len(s.slots) - 1
            s.bin(('sub', 'mul', 'div')[k % 3], ('ref', a), ('ref', b)); y3 = len(s.slots) - 1
            s.read('u', y1); s.read('u', y2); s.read('u', y3)
            for i in sorted(set(A) | set(B)): s.ucomp(y1, i); s.ucomp(y2, i)
        # the raw inputs themselves: a + a*b, a*b + b
        s.bin('mul', ('ref', 0), ('ref', 1)); p01 = len(s.slots) - 1
        s.bin('add', ('ref', 0), ('ref', p01)); q1 = len(s.slots) - 1; s.bin('add', ('ref', p01), ('ref', 1)); q2 = len(s.slots) - 1
        for q in (q1, q2):
            s.read('u', q); s.ucomp(q, 0); s.ucomp(q, 1)
        done(s)
    # S13: reporting calls (budget / components, with and without intermediates) between operations: they must not change
    # any number -- the operands are used again afterwards (merges with numbers having other influences) and re-budgeted
    for variant in range(2):
        s = new()
        s.ureal(_rv(rng), _rv(rng, .1, 1), inf, indep=True); s.ureal(_rv(rng), _rv(rng, .1, 1), inf, indep=False)
        s.ureal(_rv(rng), _rv(rng, .1, 1), inf, indep=False); s.ureal(_rv(rng), _rv(rng, .1, 1), 4.0, indep=True)
        s.set_corr(0.4, 1, 2)
        s.bin('add', ('ref', 0), ('ref', 1)); y = len(s.slots) - 1
        if variant == 1: s.result(y, None); y = len(s.slots) - 1
        s.report(y, 'budget'); s.report(y, 'components'); s.report(y, 'budget_all')
        s.bin('mul', ('num', 5.0), ('ref', y)); k = len(s.slots) - 1
        s.bin('add', ('ref', k), ('ref', 3)); s.bin('add', ('ref', y), ('ref', 2)); z = len(s.slots) - 1
        s.report(z, 'budget'); s.report(y, 'budget')
        s.bin('sub', ('ref', z), ('ref', y)); s.read('u', len(s.slots) - 1); s.read('u', y); s.read('df', z)
        s.ucomp(z, 1); s.ucomp(z, 2); s.get_cov(y, z)
        done(s)
    return out

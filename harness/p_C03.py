"""C03 -- complex sensitivities are the 2x2 real Jacobians of the complex function."""
import math, cmath, random, os, sys, collections, hashlib
from common import *
import ckernel
from ckernel import CSession, CFUNS, CUNOPS, CBINOPS, REAL_RESULT

COQ_PROPS = 'props/C03.v'

# regenerate gen/Gen_lib_complex.v from the working tree BEFORE the build step of check.py
# (check.py imports this module first, then runs tools/translate.py and make)
def _regenerate():
    sys.path.insert(0, os.path.join(VERIF, 'tools'))
    import tr_lib_complex
    try:
        return tr_lib_complex.main(REPO, os.path.join(COQ, 'gen'))
    except Exception as ex:      # fail closed: an unparsable lib.py leaves no definitions
        open(os.path.join(COQ, 'gen', 'Gen_lib_complex.v'), 'w').write('(* ABSENT: translator raised %r *)\n' % (ex,))
        return ['translator raised %r' % (ex,)]
TRANSLATOR_ABSENT = _regenerate()

# Generated definitions that NO theorem of props/C03.v mentions yet (see PARTIAL).  A change of
# their text is a change of a formula whose correctness is covered by correspondence + oracle
# only, so it is pinned: the check reports it (and then searches for a failing input) instead
# of silently following the new formula.  Proved bodies (gc_mul_*, gc_add_*, gc_sub_*, gc_radd_*,
# gc_rsub_*, gc_exp, gc_sin, gc_cos, gc_sinh, gc_cosh) are guarded by their proofs and not pinned.
UNPROVEN = ['gc_div_uc', 'gc_div_ur', 'gc_div_n', 'gc_rdiv_ur', 'gc_rdiv_n', 'gc_pow_uc', 'gc_pow_ur', 'gc_pow_n',
            'gc_rpow_ur', 'gc_rpow_n', 'gc_neg', 'gc_pos', 'gc_conjugate', 'gc_log', 'gc_log10', 'gc_sqrt', 'gc_tan',
            'gc_asin', 'gc_acos', 'gc_atan', 'gc_tanh', 'gc_asinh', 'gc_acosh', 'gc_atanh', 'gc_magnitude',
            'gc_mag_squared', 'gc_phase']
PINS = os.path.join(os.path.dirname(os.path.abspath(__file__)), 'C03_pinned.json')

def generated_defs():
    import re as _re
    try:
        txt = open(os.path.join(COQ, 'gen', 'Gen_lib_complex.v')).read()
    except IOError:
        return {}
    return {m.group(1): hashlib.sha1(m.group(2).encode()).hexdigest()
            for m in _re.finditer(r'Definition (gc_\w+) \(C : CNum\)[^\n]*:=\n(.*?)\.\n\n', txt, _re.S)}

def pinned_drift():
    cur = generated_defs()
    try:
        pins = json.load(open(PINS))
    except IOError:
        return [{'kind': 'pinned-formulas-missing', 'file': PINS}]
    return [{'kind': 'unproven-formula-changed', 'definition': n,
             'note': 'the source formula behind this generated definition changed; no theorem covers it (PARTIAL)'}
            for n in UNPROVEN if cur.get(n) != pins.get(n)]

PARTIAL = ('proved over the reals: all six assemblers compute J*(operand components) on the u, d and i vectors (C03_assemble_*) and '
           'assembled results denote the composed function when the 4-tuples are total derivatives (assemble_sound); the 4-tuples of * and / '
           'are the real Jacobians of the R^2 maps and _Py_c_quot is the quotient (C03_arith_mul/_div); the + and - bodies (10, with every '
           'return-self shortcut) compute Re/Im of z1+-z2 (C03_arith_addsub); Cauchy-Riemann table for exp sin cos sinh cosh, log on Re z > 0, '
           'z*z, and the Jacobians of magnitude / mag_squared; the GENERATED * bodies for every operand kind on either side and exp sin cos sinh '
           'cosh denote the complex functions, and the chain rule by induction over all trees of those (C03_chain_rule_partial) with '
           'JacobianMatrix entries = partial derivatives, u_component = column-scaled (C03_jacobian_entries).  NOT proved (bit-exact '
           'correspondence + oracle + pinned formula hashes only): the generated bodies of / ** neg pos conjugate log log10 sqrt tan tanh asin '
           'acos atan asinh acosh (refuted on Re z < 0: known finding) atanh magnitude mag_squared phase; + and - are proved at formula level, '
           'not through the denotation; complex dof (willink_hall) is not modelled')
ASSUMPTIONS = ['rounding error of float arithmetic is not bounded by proof (theorems are over the reals)',
               'cmath functions and the general complex power are oracles over floats; over the reals they are the principal-branch '
               'functions of CplxR.v, whose values ON a branch cut are not those of the signed-zero implementation']
TRUSTED = ['harness/C03_pinned.json: hashes of the generated definitions not yet covered by a theorem (a change is reported, not followed)',
           'Coquelicot (is_derive, auto_derive) and the Coq Reals library',
           'translator tools/tr_lib_complex.py (UncertainComplex operator/function bodies -> Gallina, fail-closed), run at import of harness/p_C03.py',
           'harness/ckernel.py: cmath recording proxy, rule-based rows for complex ** and abs()']

# ------------------------------------------------------------------ points
E = 2.0 ** -30          # exact small offset from a cut
QUADS = [1.25 + 0.75j, -1.25 + 0.75j, -1.25 - 0.75j, 1.25 - 0.75j, 0.3 + 2.5j, -0.3 + 2.5j, -0.3 - 2.5j, 0.3 - 2.5j,
         3 + 0.125j, -3 + 0.125j, -3 - 0.125j, 3 - 0.125j, 0.0625 + 0.03125j, -0.0625 - 0.03125j]
def cut_points():
    pts = []
    for a in (0.5, 2.0, 7.5):
        for sr in (1, -1):
            for e in (E, -E, 0.0, -0.0):
                pts.append(complex(sr * a, e))      # both sides of the real axis (log sqrt asin acos acosh atanh cuts)
                pts.append(complex(e, sr * a))      # both sides of the imaginary axis (atan asinh cuts)
    return pts
SPECIAL = [0j, complex(0.0, -0.0), complex(-0.0, 0.0), 1 + 0j, -1 + 0j, 1j, -1j, 1e-9 + 1e-9j, 1e3 - 2e3j, 1e200 + 1e200j,
           -2 + 1j, complex(1, E), complex(-1, -E), 710.0 + 1j]
ALL_POINTS = QUADS + cut_points() + SPECIAL

UFORMS = [0.5, (0.5, 0.25), (0.25, 0.0), (0.0, 0.125), (1.0, 0.2, 0.2, 2.0), (0.04, -0.01, -0.01, 0.09), 1.0]

def declare(s, rng, z, kind):
    """declare a complex operand of the given kind with value z; returns the slot naming it"""
    before = set(s.cplx_slots())
    if kind == 'elem':
        s.ucomplex(z, rng.choice(UFORMS[:4] + [1.0]), rng.choice([math.inf, 5.0]), label=rng.choice([None, 7]), indep=True)
    elif kind == 'corr':
        s.ucomplex(z, rng.choice(UFORMS[4:6]), math.inf, indep=rng.random() < 0.5)
    elif kind == 'dep':
        s.ucomplex(z, (0.5, 0.25), math.inf, indep=False)
    elif kind == 'ens':
        s.cmultiple([z, z.conjugate() + 1], [rng.choice(UFORMS[:2] + UFORMS[4:6]), (0.1, 0.2)], rng.choice([4.0, math.inf]))
    elif kind == 'const':
        if rng.random() < 0.5: s.cconstant(z, label=rng.choice([None, 2]))
        else: s.ucomplex(z, 0.0)
    elif kind == 'interm':
        i = declare(s, rng, z * 0.5, 'elem')
        if i is None: return None
        s.cbin('mul', ('c', i), ('n', 2.0))
        j = max(s.cplx_slots())
        s.cresult(j, label=rng.choice([None, 11]))
    new = [i for i in s.cplx_slots() if i not in before]
    if not new: return None
    if kind == 'ens': return new[-2]
    return new[-1]

CKINDS = ['elem', 'corr', 'dep', 'ens', 'interm', 'const']

def observe(s, y, xs, real_y=False):
    """sensitivity / u_component of result y w.r.t. the operands xs"""
    for x in xs:
        s.csens(('r', y) if real_y else ('c', y), x)
        s.cucomp(('r', y) if real_y else ('c', y), x)

def fun_session(rng, ctx, f, pts):
    s = CSession(ctx); s.tag = 'fun:' + f
    for k, z in enumerate(pts):
        kind = CKINDS[(k + len(f)) % len(CKINDS)] if rng.random() < 0.8 else rng.choice(CKINDS)
        i = declare(s, rng, z, kind)
        if i is None: continue
        n0 = len(s.slots)
        s.cun(f, i)
        if s.slots[n0] is None: continue
        xs = [('c', i), ('r', i), ('r', i + 1)]
        observe(s, n0, xs[:2] if rng.random() < 0.5 else xs, real_y=f in REAL_RESULT)
        if rng.random() < 0.3 and f not in REAL_RESULT:
            s.cread(rng.choice(['x', 'u', 'v', 'r']), n0)
    s.heap_ok = s.check_heap(); s.close()
    return s

NUMS = [0, 1, 0.0, 1.0, -0.0, 2, -1, 0.5, 2.5, -3.25, 0j, 1 + 0j, complex(1, -0.0), 1j, 2 - 1j, -0.5 + 0.25j, complex(0.0, 0.0), 3 + 0j]

def operand(s, rng, kind, z):
    """returns an argument descriptor ('c',i) / ('r',i) / ('n',v)"""
    if kind in CKINDS:
        i = declare(s, rng, z, kind)
        return None if i is None else ('c', i)
    if kind == 'ur':
        n0 = len(s.slots); s.ureal(z.real if z.real != 0 or rng.random() < 0.3 else 1.5, rng.choice([0.25, 1.0]), rng.choice([math.inf, 3.0]),
                                   indep=rng.random() < 0.7)
        return ('r', n0)
    if kind == 'urconst':
        n0 = len(s.slots); s.constant(z.real); return ('r', n0)
    if kind == 'urinterm':
        n0 = len(s.slots); s.ureal(z.real, 0.5); s.bin('mul', ('ref', n0), ('num', 1.5)); s.result(n0 + 1)
        return ('r', n0 + 2)
    if kind == 'int': return ('n', rng.choice([0, 1, 2, -1, 3, int(z.real) or 2]))
    if kind == 'float': return ('n', rng.choice([0.0, 1.0, -0.0, 0.5, z.real, z.imag]))
    if kind == 'complex': return ('n', rng.choice([0j, 1 + 0j, 1j, z, z.conjugate(), complex(z.real, 0.0)]))

NKINDS = ['ur', 'urconst', 'urinterm', 'int', 'float', 'complex']

def op_session(rng, ctx, f, pairs):
    s = CSession(ctx); s.tag = 'op:' + f
    for (ka, kb) in pairs:
        za = rng.choice(QUADS + [0j, 1 + 0j, -2 + 1j, 2 + 0j]); zb = rng.choice(QUADS + [0j, 1 + 0j, 1j, 2 + 0j, 0.5 + 0j])
        a = operand(s, rng, ka, za)
        b = a if (ka == kb and rng.random() < 0.15) else operand(s, rng, kb, zb)
        if a is None or b is None: continue
        n0 = len(s.slots)
        s.cbin(f, a, b)
        if s.slots[n0] is None: continue
        xs = [x for x in (a, b) if x[0] != 'n']
        if rng.random() < 0.5: xs += [x if x[0] == 'r' else ('r', x[1] + 1) for x in xs[:1]]
        if rng.random() < 0.2: xs.append(('n', 2.5))
        observe(s, n0, xs)
        if rng.random() < 0.25: s.cread(rng.choice(['x', 'u', 'v', 'r']), n0)
    s.heap_ok = s.check_heap(); s.close()
    return s

def rand_session(rng, ctx, size, malformed=False):
    """a random program mixing complex and real operations, sharing, result(), reads, correlations"""
    s = CSession(ctx); s.tag = 'random'
    for _ in range(rng.randint(1, 3)):
        declare(s, rng, rng.choice(QUADS), rng.choice(CKINDS))
    if rng.random() < 0.7: s.ureal(rng.uniform(-2, 2), rng.choice([0.1, 0.5]), rng.choice([math.inf, 6.0]), indep=rng.random() < 0.6)
    if malformed:
        bad = rng.choice([(complex(math.nan, 1), 1.0, math.inf), (1j, -1.0, math.inf), (1j, (1.0, -2.0), math.inf), (1j, math.inf, math.inf),
                          (1j, math.nan, 3.0), (1j, 1.0, 0.5), (1j, 1.0, math.nan), (1j, (1.0, 0.2, 0.3, 1.0), math.inf),
                          (1j, (1.0, 5.0, 5.0, 1.0), math.inf), (1j, (1.0, 2.0, 3.0), math.inf), (1j, (-1.0, 0.0, 0.0, 1.0), math.inf),
                          (complex(math.inf, 0), 1.0, math.inf), (1j, (0.0, 0.5, 0.5, 1.0), math.inf), (1j, (1.0, math.inf, math.inf, 1.0), 4.0)])
        s.ucomplex(bad[0], bad[1], bad[2])
    def cs(): return s.cplx_slots()
    def rs(): return [i for i, o in enumerate(s.slots) if isinstance(o, s.UR)]
    while len(s.ops) < size:
        c = rng.random(); C = cs()
        if not C: break
        a = rng.choice(C)
        va = s.cobj(a)._value
        if c < 0.28:
            f = rng.choice(CUNOPS)
            if not malformed or rng.random() < 0.6:
                if f in ('exp', 'sinh', 'cosh', 'sin', 'cos', 'tan', 'tanh') and (abs(va.real) > 300 or abs(va.imag) > 300): f = 'conjugate'
                if f in ('log', 'log10', 'magnitude') and va == 0: f = 'pos'
            s.cun(f, a)
        elif c < 0.62:
            f = rng.choice(CBINOPS)
            k = rng.random()
            if k < 0.4: A, B = ('c', a), ('c', rng.choice(C))
            elif k < 0.55 and rs(): A, B = ('c', a), ('r', rng.choice(rs()))
            elif k < 0.7 and rs(): A, B = ('r', rng.choice(rs())), ('c', a)
            elif k < 0.85: A, B = ('c', a), ('n', rng.choice(NUMS))
            else: A, B = ('n', rng.choice(NUMS)), ('c', a)
            if not malformed or rng.random() < 0.6:
                vb = s._val(B)
                if f == 'div' and vb == 0: f = 'add'
                if f == 'pow' and (s._val(A) == 0 or abs(vb) > 8 or abs(s._val(A)) > 50): f = 'mul'
            s.cbin(f, A, B)
        elif c < 0.70:
            s.cresult(a, label=rng.choice([None, rng.randint(10, 19)]))
        elif c < 0.80:
            s.cread(rng.choice(['x', 'u', 'v', 'r']), a)
        elif c < 0.86:
            # real reads on the components, correlations between component leaves
            k = rng.random()
            if k < 0.5: s.read(rng.choice(['x', 'u', 'v', 'df']), rng.choice([a, a + 1]))
            else:
                el = [i for i in rs() if s.slots[i].is_elementary and not s.slots[i]._node.independent]
                if len(el) >= 2:
                    x, y = rng.sample(el, 2)
                    s.set_corr(rng.choice([0.5, -0.3, 0.9]), x, y)
        else:
            X = rng.choice(C); k = rng.random()
            y = ('c', a) if k < 0.7 or not rs() else ('r', rng.choice(rs()))
            x = ('c', X) if rng.random() < 0.6 else (('r', rng.choice(rs())) if rs() else ('n', 1j))
            (s.csens if rng.random() < 0.5 else s.cucomp)(y, x)
    C = cs()
    for a in rng.sample(C, min(len(C), 3)):
        s.cread('v', a); s.cread('r', a)
        for X in rng.sample(C, min(len(C), 2)):
            s.cucomp(('c', a), ('c', X))
    s.heap_ok = s.check_heap(); s.close()
    return s

def correspondence(rng, tier):
    sessions = []; ctx = [0]
    def nxt():
        ctx[0] += 1; return ctx[0]
    reps = 1 if tier == 'quick' else 6
    for rep in range(reps):
        # (a) every function x all four quadrants x both sides of each cut x special points, operand kinds rotating
        for f in CUNOPS:
            pts = list(ALL_POINTS); rng.shuffle(pts)
            for g in range(0, len(pts), 13):
                sessions.append(fun_session(rng, nxt(), f, pts[g:g + 13]))
        # (b) every operator x every ordered pair of operand kinds (at least one uncertain complex)
        pairs = [(a, b) for a in CKINDS for b in CKINDS + NKINDS] + [(a, b) for a in NKINDS for b in CKINDS]
        for f in CBINOPS:
            P = list(pairs); rng.shuffle(P)
            for g in range(0, len(P), 12):
                sessions.append(op_session(rng, nxt(), f, P[g:g + 12]))
    # (c) random programs
    nrand = 60 if tier == 'quick' else 1500
    for i in range(nrand):
        sessions.append(rand_session(rng, nxt(), rng.randint(10, 28), malformed=(i % 6 == 5)))
    mism = ckernel.run_sessions(sessions, 'C03', per_file=max(8, (len(sessions) + NCPU - 1) // NCPU) if tier == 'quick' else 60)
    if TRANSLATOR_ABSENT:
        mism.append({'kind': 'translator', 'absent': TRANSLATOR_ABSENT})
    mism.extend(pinned_drift())
    stats = collections.Counter()
    for s in sessions: stats.update(s.stats)
    tags = collections.Counter(s.tag.split(':')[0] for s in sessions)
    distinct = len(set(hashlib.sha1(repr(s.pyops).encode()).hexdigest() for s in sessions if len(s.ops) > 3))
    return {'programs': len(sessions), 'steps': sum(len(s.ops) for s in sessions), 'mismatches': mism,
            'distinct': distinct, 'distribution': dict(stats, **{'sessions_' + k: v for k, v in tags.items()}),
            'rule': 'systematic: each of the 22 complex functions/unary operators at %d points (four quadrants, both sides of and ON every '
                    'branch cut by exact offsets 2^-30 and signed zeros, zero, huge/small modulus) with operand kinds rotating over '
                    '{elementary independent, correlated (4-element covariance), dependent, ensemble member (multiple_ucomplex), intermediate, '
                    'constant}; each of + - * / ** for every ordered pair of operand kinds incl. ureal / constant / intermediate ureal / int / '
                    'float / complex; plus random mixed programs with a malformed stream; after every operation the value and the u/d/i component '
                    'vectors of both component reals, reporting.sensitivity and u_component (4-tuples) and x/u/v/r reads are compared bit for bit '
                    'with the binary64 model; non-trivial = more than 3 steps; distinct by hash of the operation list' % len(ALL_POINTS),
            'samples': [{'program': repr(s.pyops[:8])} for s in sessions[:2]]}

# ------------------------------------------------------------------ oracle (search only)
PLAIN = {'exp': cmath.exp, 'log': cmath.log, 'log10': cmath.log10, 'sqrt': cmath.sqrt, 'sin': cmath.sin, 'cos': cmath.cos,
         'tan': cmath.tan, 'asin': cmath.asin, 'acos': cmath.acos, 'atan': cmath.atan, 'sinh': cmath.sinh, 'cosh': cmath.cosh,
         'tanh': cmath.tanh, 'asinh': cmath.asinh, 'acosh': cmath.acosh, 'atanh': cmath.atanh,
         'conjugate': lambda z: complex(z).conjugate(), 'neg': lambda z: -z,
         'magnitude': lambda z: complex(abs(z), 0), 'mag_squared': lambda z: complex(abs(z) ** 2, 0),
         'phase': lambda z: complex(cmath.phase(z), 0)}
BINP = {'add': lambda a, b: a + b, 'sub': lambda a, b: a - b, 'mul': lambda a, b: a * b, 'div': lambda a, b: a / b,
        'pow': lambda a, b: a ** b}

def dist_to_trouble(f, z):
    """distance of z from the branch cuts / singularities of f (where the derivative is undefined or huge)"""
    z = complex(z); x, y = z.real, z.imag
    inf = math.inf
    def ray_re(lo, hi):   # distance to the real segment [lo, hi]
        cx = min(max(x, lo), hi); return math.hypot(x - cx, y)
    def ray_im(lo, hi):
        cy = min(max(y, lo), hi); return math.hypot(x, y - cy)
    if f in ('log', 'log10', 'sqrt', 'phase'): return ray_re(-1e300, 0)
    if f == 'magnitude': return abs(z)
    if f in ('asin', 'acos', 'atanh'): return min(ray_re(1, 1e300), ray_re(-1e300, -1))
    if f in ('atan', 'asinh'): return min(ray_im(1, 1e300), ray_im(-1e300, -1))
    if f == 'acosh': return ray_re(-1e300, 1)
    if f == 'tan': return abs(cmath.cos(z))
    if f == 'tanh': return abs(cmath.cosh(z))
    return inf

def rand_tree(rng, nin, depth):
    if depth == 0 or rng.random() < 0.15:
        if rng.random() < 0.8: return ('var', rng.randrange(nin))
        return ('num', rng.choice([2.0, -1.5, 0.5, 1 + 1j, 2 - 0.5j, 3]))
    if rng.random() < 0.5:
        return ('un', rng.choice(list(PLAIN)), rand_tree(rng, nin, depth - 1))
    return ('bin', rng.choice(list(BINP)), rand_tree(rng, nin, depth - 1), rand_tree(rng, nin, depth - 1))

class Domain(ArithmeticError):
    pass

def ev_plain(t, xs, margin=0.05):
    if t[0] == 'var': return xs[t[1]]
    if t[0] == 'num': return t[1]
    if t[0] == 'un':
        v = complex(ev_plain(t[2], xs, margin))
        if abs(v) > 30 or dist_to_trouble(t[1], v) < margin: raise Domain()
        return PLAIN[t[1]](v)
    a = ev_plain(t[2], xs, margin); b = ev_plain(t[3], xs, margin)
    if t[1] == 'div' and abs(b) < margin: raise Domain()
    if t[1] == 'pow':
        if abs(a) < margin or dist_to_trouble('log', a) < margin or abs(b) > 4 or abs(a) > 20: raise Domain()
        a = complex(a)
    return BINP[t[1]](a, b)

def ev_gtc(t, xs, core):
    if t[0] == 'var': return xs[t[1]]
    if t[0] == 'num': return t[1]
    if t[0] == 'un':
        v = ev_gtc(t[2], xs, core)
        if t[1] == 'neg': return -v
        if t[1] == 'conjugate': return v.conjugate()
        return getattr(core, t[1])(v)
    a = ev_gtc(t[2], xs, core); b = ev_gtc(t[3], xs, core)
    return BINP[t[1]](a, b)

def known_region(t, xs):
    """does evaluating t at xs hit a listed known finding?  (acosh with Re < 0; ** with a zero base)"""
    try:
        if t[0] in ('var', 'num'): return False
        if t[0] == 'un':
            if known_region(t[2], xs): return True
            v = complex(ev_plain(t[2], xs, 0.0))
            return t[1] == 'acosh' and v.real < 0
        if known_region(t[2], xs) or known_region(t[3], xs): return True
        return t[1] == 'pow' and ev_plain(t[2], xs, 0.0) == 0
    except Exception:
        return False

def num_jac(t, xs, i, is_real):
    """2x2 (or 2x1 for a real input) Jacobian by Richardson-extrapolated central differences + error estimate"""
    cols = []; err = 0.0
    for d in ((1.0,) if is_real else (1.0, 1j)):
        def f(h):
            a = list(xs); b = list(xs); a[i] = a[i] + h * d; b[i] = b[i] - h * d
            return (complex(ev_plain(t, a)) - complex(ev_plain(t, b))) / (2 * h)
        h = 1e-3 * max(1.0, abs(xs[i]))
        d1, d2 = f(h), f(h / 2)
        dd = (4 * d2 - d1) / 3
        cols.append(dd); err = max(err, abs(d2 - d1))
    if is_real: cols.append(0j)
    # JacobianMatrix(rr, ri, ir, ii)
    return (cols[0].real, cols[1].real, cols[0].imag, cols[1].imag), err

def check_tree(t, vals, kinds, us):
    """returns None or a dict describing a failing input.  kinds[i] in {'c','r'}"""
    from GTC import core, reporting, lib
    new_context(7)
    if known_region(t, vals): return None
    try:
        y0 = complex(ev_plain(t, vals))
        if not (math.isfinite(y0.real) and math.isfinite(y0.imag)) or abs(y0) > 1e6: return None
    except (ArithmeticError, ValueError, OverflowError, ZeroDivisionError, TypeError):
        return None
    ins = [core.ucomplex(v, u) if k == 'c' else core.ureal(v, u[0]) for v, k, u in zip(vals, kinds, us)]
    try:
        y = ev_gtc(t, ins, core)
    except Exception as ex:
        return {'tree': t, 'x': [str(v) for v in vals], 'kinds': kinds, 'u': us, 'raises': type(ex).__name__}
    if not isinstance(y, (lib.UncertainComplex, lib.UncertainReal)): return None
    for i, x in enumerate(ins):
        try:
            J, err = num_jac(t, vals, i, kinds[i] == 'r')
        except (ArithmeticError, ValueError, OverflowError, ZeroDivisionError, TypeError):
            continue
        scale = max(1.0, max(abs(v) for v in J))
        if not all(math.isfinite(v) for v in J) or err > 1e-4 * scale: continue      # ill-conditioned point
        S = reporting.sensitivity(y, x); Cc = reporting.u_component(y, x)
        S = tuple(S) if isinstance(S, tuple) else (float(S), 0.0, 0.0, 0.0)
        Cc = tuple(Cc) if isinstance(Cc, tuple) else (float(Cc), 0.0, 0.0, 0.0)
        if isinstance(y, lib.UncertainReal): J = (J[0], J[1], 0.0, 0.0)
        tol = 1e-5 * scale + 10 * err
        ux = (us[i][0], us[i][1] if kinds[i] == 'c' else 0.0)
        want_c = (S[0] * ux[0], S[1] * ux[1], S[2] * ux[0], S[3] * ux[1])
        if any(abs(a - b) > tol for a, b in zip(S, J)) or any(abs(a - b) > 1e-12 * max(1.0, abs(a)) for a, b in zip(Cc, want_c)):
            return {'tree': t, 'x': [str(v) for v in vals], 'kinds': kinds, 'u': us, 'input': i,
                    'sensitivity': list(S), 'numerical_jacobian': list(J), 'u_component': list(Cc)}
    return None

def search(rng, tier, broken):
    n = 1200 if tier == 'quick' else 15000
    tried = 0
    # first: every function on a grid over the four quadrants (fast, catches sheet errors)
    for f in PLAIN:
        for z in QUADS + [-2 + 1j, -0.5 - 2j, 2 - 3j, 0.2 + 0.1j]:
            tried += 1
            r = check_tree(('un', f, ('var', 0)), [z], ['c'], [(0.5, 0.25)])
            if r is not None: return {'tried': tried, 'failing': r}
    # every operator with plain-number operands on either side (the shortcut returns)
    for f in BINP:
        for c in (1j, 2j, -1j, 1 + 0j, 1, 1.0, 0.0, 0j, 2, 0.5 + 1j):
            for t in (('bin', f, ('var', 0), ('num', c)), ('bin', f, ('num', c), ('var', 0))):
                tried += 1
                r = check_tree(t, [1.25 + 0.75j], ['c'], [(0.5, 0.25)])
                if r is not None and 'raises' not in r: return {'tried': tried, 'failing': r}
    for _ in range(n):
        nin = rng.randint(1, 3)
        t = rand_tree(rng, nin, rng.randint(1, 4))
        kinds = [rng.choice(['c', 'c', 'r']) for _ in range(nin)]
        vals = [complex(round(rng.uniform(-2.5, 2.5), 3), round(rng.uniform(-2.5, 2.5), 3)) if k == 'c' else round(rng.uniform(-2.5, 2.5), 3)
                for k in kinds]
        us = [(round(rng.uniform(0.05, 1.0), 3), round(rng.uniform(0.05, 1.0), 3)) for _ in range(nin)]
        tried += 1
        r = check_tree(t, vals, kinds, us)
        if r is not None:
            return {'tried': tried, 'failing': r}
    return {'tried': tried, 'failing': None}

def tuple_tree(t):
    return tuple(tuple_tree(x) if isinstance(x, list) else x for x in t)

def _vals(f):
    return [complex(v) if k == 'c' else float(complex(v).real) for v, k in zip(f['x'], f['kinds'])]

def is_known(f):
    try:
        return known_region(tuple_tree(f['tree']), _vals(f))
    except Exception:
        return False

def replay(payload):
    f = payload.get('failing_input')
    print(json.dumps(payload.get('broken'), indent=1, default=str)[:3000])
    if f:
        r = check_tree(tuple_tree(f['tree']), _vals(f), f['kinds'], [tuple(u) for u in f['u']])
        print('replayed failing input on the implementation:', 'STILL FAILS %r' % (r,) if r else 'passes now')
        return 1 if r else 0
    return 0

# ------------------------------------------------------------------ known findings (replayed on the implementation)
def known_acosh_sign():
    """acosh(ucomplex) on Re z < 0: the reported Jacobian is that of -f'(z)"""
    from GTC import core, reporting
    new_context(9)
    z0 = -2 + 1j
    z = core.ucomplex(z0, 1.0); y = core.acosh(z)
    S = reporting.sensitivity(y, z)
    h = 1e-6
    d = (cmath.acosh(z0 + h) - cmath.acosh(z0 - h)) / (2 * h)
    wrong = abs(S.rr + d.real) < 1e-6 and abs(S.ir + d.imag) < 1e-6 and abs(S.rr - d.real) > 0.1
    return wrong, {'sensitivity': list(S), "f'(z)": str(d)}

def known_pow_zero_base():
    """ucomplex(0j, u) ** 2 raises ZeroDivisionError (zr*z/zl) although z**2 is differentiable at 0"""
    from GTC import core
    new_context(9)
    try:
        core.ucomplex(0j, 1.0) ** 2
    except ZeroDivisionError:
        return True, 'ZeroDivisionError'
    except Exception as ex:
        return False, repr(ex)
    return False, 'no exception'

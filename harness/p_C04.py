"""C04 -- uncertainty, covariance and correlation obey the law of propagation."""
import math, random
from fractions import Fraction
from common import *
import kernel

COQ_PROPS = 'props/C04.v'
PARTIAL = ('real kernel: variance/covariance = LPU double sums, symmetry, cov(y,y)=variance, set->get proved for all vector '
           'lengths; Cauchy-Schwarz: cov^2 <= var var, |get_correlation| <= 1 for results and |r_ij| <= 1 in every reachable state '
           'with a PSD declared matrix; a covariance matrix declared with ucomplex is reproduced (variances and covariance of the '
           'two components, both orders, every reachable state); variance()/.u/.r of derived complex results are validated by '
           'correspondence/oracle only; set_correlation(0.0) after a non-zero declaration is a known finding')
ASSUMPTIONS = ['rounding of the float sums (math.fsum modelled exactly, other additions bit-exact in correspondence)']
TRUSTED = ['Coq Reals library']

def _base_correspondence(rng, tier):
    n = 240 if tier == 'quick' else 4000
    return kernel.run_kernel_corr(rng, n, 'cov', 'C04')

# ---------------------------------------------------------------- oracle (search only)
def lpu_exact(ya, yb, leaves):
    """exact LPU double sum from u_components and declared correlations (Fractions)"""
    from GTC import reporting, core
    tot = Fraction(0)
    for li in leaves:
        ci = Fraction(float(reporting.u_component(ya, li)))
        if ci == 0: continue
        for lj in leaves:
            cj = Fraction(float(reporting.u_component(yb, lj)))
            if cj == 0: continue
            r = Fraction(1) if li is lj else Fraction(float(core.get_correlation(li, lj)))
            tot += ci * cj * r
    return tot

def build_model(rng):
    """returns (python source lines that rebuild the model, namespace after executing them)"""
    n = rng.randint(2, 6)
    src = ['from GTC import *']
    indep = [rng.random() < 0.4 for _ in range(n)]
    dep = [i for i in range(n) if not indep[i]]
    # 30 %: two or three of the dependent inputs are the members of one INFINITE-dof ensemble (multiple_ureal(.., inf)); they are
    # still correlated with the dependent inputs outside the ensemble (legitimate: every dof is infinite)
    ens = sorted(rng.sample(dep, rng.randint(2, min(3, len(dep))))) if len(dep) >= 2 and rng.random() < 0.3 else []
    for i in range(n):
        if i in ens:
            if i == ens[0]:
                src.append('%s = multiple_ureal([%s], [%s], inf)' % (', '.join('x%d' % j for j in ens),
                           ', '.join(repr(round(rng.uniform(-3, 3), 4)) for _ in ens), ', '.join(repr(round(rng.uniform(0.1, 2), 4)) for _ in ens)))
            continue
        src.append('x%d = ureal(%r, %r, independent=%r)' % (i, round(rng.uniform(-3, 3), 4), round(rng.uniform(0.1, 2), 4), indep[i]))
    # PSD correlation by construction: r_ij = f_i f_j with |f| <= 1 (rank one + diagonal)
    f = {i: round(rng.uniform(-1, 1), 3) for i in dep}
    for a in dep:
        for b in dep:
            if a < b and f[a] * f[b] != 0.0:      # every pair: r = f f^T off the diagonal is PSD only when complete
                src.append('set_correlation(%r, x%d, x%d)' % (f[a] * f[b], a, b))
    def expr():
        terms = []
        for _ in range(rng.randint(1, 4)):
            a, b = rng.randrange(n), rng.randrange(n)
            terms.append(rng.choice(['x{a}*x{b}', 'x{a} + 2*x{b}', 'x{a} - x{b}', 'sin(x{a})*x{b}', 'x{a}*x{a}*x{b}']).format(a=a, b=b))
        return ' + '.join('(%s)' % t for t in terms)
    src.append('ya = ' + expr()); src.append('yb = ' + expr())
    src.append('leaves = [%s]' % ', '.join('x%d' % i for i in range(n)))
    return src

def run_model(src):
    new_context(11)
    ns = {}
    exec('\n'.join(src), ns)
    return ns

def check_model_src(src):
    from GTC import core, reporting
    ns = run_model(src)
    leaves, ya, yb = ns['leaves'], ns['ya'], ns['yb']
    va = lpu_exact(ya, ya, leaves)
    cab = lpu_exact(ya, yb, leaves)
    scale = float(sum(abs(Fraction(float(reporting.u_component(ya, l)))) for l in leaves)) ** 2 + 1e-300
    sb = float(sum(abs(Fraction(float(reporting.u_component(yb, l)))) for l in leaves)) ** 2 + 1e-300
    problems = []
    if abs(Fraction(core.variance(ya)) - va) > 1e-9 * scale: problems.append(('variance', core.variance(ya), float(va)))
    c1, c2 = core.get_covariance(ya, yb), core.get_covariance(yb, ya)
    sc2 = math.sqrt(scale * sb)
    if abs(Fraction(c1) - cab) > 1e-9 * sc2: problems.append(('covariance', c1, float(cab)))
    if abs(c1 - c2) > 1e-12 * sc2: problems.append(('asymmetric', c1, c2))
    if abs(core.get_covariance(ya, ya) - core.variance(ya)) > 1e-12 * scale: problems.append(('cov(y,y)', core.get_covariance(ya, ya), core.variance(ya)))
    u = core.uncertainty(ya)
    if u < 0 or abs(u * u - core.variance(ya)) > 1e-9 * scale: problems.append(('u', u))
    ua, ub = core.uncertainty(ya), core.uncertainty(yb)
    if ua > 0 and ub > 0:
        r = core.get_correlation(ya, yb)
        if abs(r) > 1 + 1e-9: problems.append(('|corr|>1', r))
        if abs(r - c1 / (ua * ub)) > 1e-9: problems.append(('corr != cov/(ua ub)', r, c1 / (ua * ub)))
    # an elementary number against a result, both argument orders
    for l in leaves:
        ex = lpu_exact(l, ya, leaves)
        sl = float(abs(Fraction(float(l.u)))) * math.sqrt(scale) + 1e-300
        g1, g2 = core.get_covariance(l, ya), core.get_covariance(ya, l)
        if abs(Fraction(g1) - ex) > 1e-9 * sl or abs(Fraction(g2) - ex) > 1e-9 * sl:
            problems.append(('cov(elementary,result)', g1, g2, float(ex)))
    return problems

def check_complex_case(rng):
    """uncertain complex numbers: declared 4-element correlation is returned (both orders), variance() is the 2x2
    matrix of the (real, imag) pair and agrees with get_covariance of the components, also for conjugates and after
    earlier reads"""
    from GTC import core
    new_context(19)
    src = []
    df = rng.choice(['inf', '5', '8'])
    if df == 'inf' and rng.random() < 0.5:
        src += ['z1 = ucomplex(%r, (%r, %r), independent=False)' % (complex(1, 2), 0.5, 0.25),
                'z2 = ucomplex(%r, (%r, %r), independent=False)' % (complex(-1, 0.5), 0.3, 0.7)]
    else:
        src += ['z1, z2 = multiple_ucomplex([%r, %r], [(%r, %r), (%r, %r)], %s)' % (complex(1, 2), complex(-1, 0.5), 0.5, 0.25, 0.3, 0.7, df)]
    r4 = tuple(round(rng.uniform(-0.4, 0.4), 2) for _ in range(4))
    src.append('set_correlation(%r, z1, z2)' % (r4,))
    rz = round(rng.uniform(-0.8, 0.8), 2)
    src.append('set_correlation(%r, z1)' % rz)
    if rng.random() < 0.5: src.append('_ = z1.v; _ = z1.r; _ = repr(z1)')
    src += ['w = z1.conjugate()', 'y = z1 + 1j*z2', 'p = z1*z2']
    ns = {}
    try:
        exec('from GTC import *\n' + '\n'.join(src), ns)
    except Exception as ex:
        return None
    z1, z2, w, y, p = ns['z1'], ns['z2'], ns['w'], ns['y'], ns['p']
    problems = []
    g = core.get_correlation(z1, z2)
    if tuple(g) != r4: problems.append(('get_correlation(z1,z2)', tuple(g), r4))
    g2 = core.get_correlation(z2, z1)
    if tuple(g2) != (r4[0], r4[2], r4[1], r4[3]): problems.append(('get_correlation(z2,z1)', tuple(g2), r4))
    for pair, want in [((z1.real, z2.real), r4[0]), ((z1.real, z2.imag), r4[1]), ((z1.imag, z2.real), r4[2]), ((z1.imag, z2.imag), r4[3]),
                       ((z1.real, z1.imag), rz)]:
        got = core.get_correlation(*pair)
        if got != want: problems.append(('component correlation', got, want))
    for name, q in (('z1', z1), ('conj', w), ('y', y), ('p', p)):
        v = core.variance(q)
        crr = core.get_covariance(q.real, q.real); cri = core.get_covariance(q.real, q.imag); cii = core.get_covariance(q.imag, q.imag)
        sc = abs(crr) + abs(cii) + 1e-300
        if abs(v.rr - crr) > 1e-12 * sc or abs(v.ii - cii) > 1e-12 * sc or abs(v.ri - cri) > 1e-12 * sc or abs(v.ir - cri) > 1e-12 * sc:
            problems.append(('variance(%s) vs component covariances' % name, tuple(v), (crr, cri, cri, cii)))
        leaves = [z1.real, z1.imag, z2.real, z2.imag]
        ex = (lpu_exact(q.real, q.real, leaves), lpu_exact(q.real, q.imag, leaves), lpu_exact(q.imag, q.imag, leaves))
        if abs(Fraction(crr) - ex[0]) > 1e-9 * sc or abs(Fraction(cri) - ex[1]) > 1e-9 * sc or abs(Fraction(cii) - ex[2]) > 1e-9 * sc:
            problems.append(('LPU of %s' % name, (crr, cri, cii), tuple(float(e) for e in ex)))
    if problems:
        return {'python': ['from GTC import *'] + src, 'problems': repr(problems)[:700], 'complex': True}
    return None

def search(rng, tier, broken):
    n = 400 if tier == 'quick' else 6000
    for i in range(n):
        if i % 4 == 3:
            try:
                f = check_complex_case(rng)
            except Exception as ex:
                f = None
            if f: return {'tried': i + 1, 'failing': f}
            continue
        src = build_model(rng)
        try:
            p = check_model_src(src)
        except Exception as ex:
            p = [('raised', repr(ex))]
        if p:
            return {'tried': i + 1, 'failing': {'python': src, 'problems': repr(p)[:600]}}
    return {'tried': n, 'failing': None}

def kf_C04_set_zero():
    from GTC import core
    new_context(12)
    x1 = core.ureal(2, 1, independent=False); x2 = core.ureal(5, 1, independent=False)
    core.set_correlation(0.5, x1, x2); core.set_correlation(0.0, x1, x2)
    r = core.get_correlation(x1, x2)
    return (r == 0.5, 'get_correlation after set 0.5 then set 0.0 = %r' % r)

def is_known(f):
    return False

def replay(payload):
    print(json.dumps(payload.get('broken'), indent=1)[:3000])
    f = payload.get('failing_input')
    if f and f.get('complex'):
        print('complex case; re-run the listed python lines and compare the listed problems'); return 1
    if f and 'python' in f:
        p = check_model_src(f['python'])
        print('replayed on the implementation:', 'STILL FAILS %r' % (p,) if p else 'passes now')
        return 1 if p else 0
    return 0

def correspondence(rng, tier):
    r = _base_correspondence(rng, tier)
    # extra_corr: complex_corr_programs: complex-kernel programs with UncertainComplex.set_correlation (4-element r, ensemble and infinite-dof branches), conjugate after cached v/r, variance/r reads, model CKernel.v
    f = __import__('cgen').run_ckernel_corr(rng, 'dof', 'C04c', tier=tier)
    r['mismatches'] += f.get('mismatches', [])
    r['programs'] += f.get('programs', 0); r['steps'] += f.get('steps', 0)
    r['distinct'] = r.get('distinct', 0) + f.get('distinct', 0)
    r.setdefault('distribution', {})['complex_corr_programs'] = f.get('programs', 0)
    r['rule'] = r.get('rule', '') + '; plus complex_corr_programs: complex-kernel programs with UncertainComplex.set_correlation (4-element r, ensemble and infinite-dof branches), conjugate after cached v/r, variance/r reads, model CKernel.v'
    return r

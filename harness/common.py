"""common.py -- shared plumbing of the verification harness: paths, GTC session control,
libm recording proxies, Coq literal printers, parallel coqc runs, evidence / violation
output, known-findings bookkeeping."""
import os, sys, json, math, time, subprocess, hashlib, shutil, random, types, re

VERIF = os.path.dirname(os.path.dirname(os.path.abspath(__file__)))
REPO = os.environ.get('VERIF_REPO', '/repo')
COQ = os.path.join(VERIF, 'coq')
BUILD = os.path.join(VERIF, '.build')
EVIDENCE = os.path.join(VERIF, 'evidence')
REPLAYS = os.path.join(VERIF, 'replays')
NCPU = int(os.environ.get('VERIF_JOBS', '16'))

if REPO not in sys.path:
    sys.path.insert(0, REPO)

# ------------------------------------------------------------------ GTC session control
def gtc():
    import GTC
    return GTC

def new_context(k):
    """install a fresh Context with a fixed id: deterministic uids, 'new interpreter'"""
    from GTC import context
    context._context = context.Context(id=k)
    return context._context

class Recorder(object):
    """a stand-in for the `math` module that records every call (args -> result/exception)"""
    def __init__(self, real, log):
        self._real = real
        self._log = log
    def __getattr__(self, name):
        obj = getattr(self._real, name)
        if not callable(obj):
            return obj
        log = self._log
        def wrapped(*args):
            try:
                r = obj(*args)
            except Exception as ex:
                log.append((name, args, ('exn', type(ex).__name__)))
                raise
            log.append((name, args, ('ok', r)))
            return r
        return wrapped

class record_math(object):
    """context manager: route GTC's module-level `math` names through a Recorder"""
    MODS = ('GTC.lib', 'GTC.core', 'GTC.reporting', 'GTC.function', 'GTC.type_a', 'GTC.type_b',
            'GTC.formatting')
    def __init__(self):
        self.log = []
    def __enter__(self):
        import importlib
        self.saved = []
        for m in self.MODS:
            mod = importlib.import_module(m)
            if hasattr(mod, 'math') and isinstance(getattr(mod, 'math'), types.ModuleType):
                self.saved.append((mod, mod.math))
                mod.math = Recorder(mod.math, self.log)
        return self
    def __exit__(self, *a):
        for mod, real in self.saved:
            mod.math = real
        return False

# ------------------------------------------------------------------ Coq literals
def cf(x):
    """a Python float as a Coq primitive-float literal (bit exact)"""
    x = float(x)
    if math.isnan(x): return 'nan'
    if math.isinf(x): return 'infinity' if x > 0 else 'neg_infinity'
    h = x.hex()
    if h.startswith('-'):
        return '(-%s)' % h[1:]
    return h

def cz(z):
    return '(%d)%%Z' % z if z < 0 else '%d%%Z' % z

def clist(xs):
    return '[' + '; '.join(xs) + ']'

def copt(x, f=lambda v: v):
    return 'None' if x is None else '(Some %s)' % f(x)

def cbool(b):
    return 'true' if b else 'false'

EXN = {'ValueError', 'TypeError', 'RuntimeError', 'ZeroDivisionError', 'OverflowError', 'AssertionError',
       'AttributeError', 'KeyError', 'IndexError', 'NotImplementedError'}
def cexn(name):
    return name if name in EXN or name in ('ComplexResult',) else 'OtherExn'

FN1 = {'exp','log','log10','sqrt','sin','cos','tan','asin','acos','atan','sinh','cosh','tanh','asinh','acosh','atanh'}
FN2 = {'atan2','pow','fmod','copysign','hypot','pymod'}

def oracle_table(log, extra=()):
    """the recorded libm calls (+ rule-based entries) as a Coq list of oracle_entry"""
    seen = set(); rows = []
    for name, args, r in list(log) + list(extra):
        if name not in FN1 and name not in FN2:
            continue
        try:
            a = tuple(float(v) for v in args)
        except (TypeError, ValueError):
            continue
        key = (name, tuple(cf(v) for v in a))
        if key in seen: continue
        seen.add(key)
        if r[0] == 'ok':
            if isinstance(r[1], complex):
                rs = 'Err ComplexResult'
            else:
                rs = 'Ok %s' % cf(r[1])
        else:
            rs = 'Err %s' % cexn(r[1])
        rows.append('(F_%s, %s, %s)' % (name, clist([cf(v) for v in a]), rs))
    return clist(rows)

def pow_entry(l, r):
    """what Python's float ** gives for (l, r), as an oracle row"""
    try:
        y = float(l) ** r
    except Exception as ex:
        return ('pow', (l, r), ('exn', type(ex).__name__))
    return ('pow', (l, r), ('ok', y))

# ------------------------------------------------------------------ running Coq
def coq_args():
    return ['-Q', COQ, 'GTCV', '-w', '-notation-overridden,-deprecated-hint-without-locality']

def run_coqc_many(files, timeout=900):
    """compile each .v (independent case files) in parallel; returns {file: (rc, stdout+stderr)}"""
    procs = {}; out = {}
    pending = list(files)
    running = []
    def launch(f):
        cmd = 'ulimit -s unlimited 2>/dev/null; exec coqc %s %s' % (' '.join(coq_args()), f)
        p = subprocess.Popen(['bash', '-c', cmd], stdout=subprocess.PIPE, stderr=subprocess.STDOUT,
                             cwd=os.path.dirname(f), text=True)
        return (f, p, time.time())
    while pending or running:
        while pending and len(running) < NCPU:
            running.append(launch(pending.pop(0)))
        still = []
        for f, p, t0 in running:
            rc = p.poll()
            if rc is None:
                if time.time() - t0 > timeout:
                    p.kill(); out[f] = (124, 'timeout'); continue
                still.append((f, p, t0))
            else:
                out[f] = (rc, p.stdout.read())
        running = still
        if running: time.sleep(0.05)
    return out

def scratch(name):
    d = os.path.join(BUILD, name)
    shutil.rmtree(d, ignore_errors=True)
    os.makedirs(d)
    return d

# ------------------------------------------------------------------ results
def write_json(path, obj):
    os.makedirs(os.path.dirname(path), exist_ok=True)
    tmp = path + '.tmp'
    with open(tmp, 'w') as f:
        json.dump(obj, f, indent=1, sort_keys=True, default=str)
    os.replace(tmp, path)

def save_replay(prop, payload):
    os.makedirs(REPLAYS, exist_ok=True)
    h = hashlib.sha1(json.dumps(payload, sort_keys=True, default=str).encode()).hexdigest()[:12]
    path = os.path.join(REPLAYS, '%s_%s.json' % (prop, h))
    write_json(path, payload)
    return path

def load_known():
    p = os.path.join(VERIF, 'known_findings.json')
    if not os.path.exists(p): return []
    return json.load(open(p))['findings']

# ------------------------------------------------------------------ generic case evaluation
def parse_zlist(text):
    m = re.search(r'=\s*\[(.*?)\]\s*:\s*list Z', text, re.S)
    if not m: return None
    body = m.group(1).replace('%Z', '').replace('(', '').replace(')', '')
    if not body.strip(): return []
    return [int(t) for t in body.replace('\n', ' ').split(';')]

def coq_eval_cases(name, header, terms, per_file=200, timeout=900, keep=False):
    """Evaluate Gallina terms of type Z inside coqc with vm_compute, in parallel.
    header: text placed at the top of each generated file (Require Imports, helper defs).
    terms: list of strings, each a closed Gallina term of type Z (convention: (-1)%Z = model and
    implementation agree; any other value identifies what differed).
    Returns (values, errors): values[i] is an int or None (when the file holding case i failed)."""
    d = scratch('cases_' + name)
    files = []
    for fi in range(0, len(terms), per_file):
        chunk = terms[fi:fi + per_file]
        path = os.path.join(d, '%s_%d.v' % (name, fi // per_file))
        with open(path, 'w') as f:
            f.write(header + '\n')
            for j, t in enumerate(chunk):
                f.write('Definition case_%d : Z := %s.\n' % (j, t))
            f.write('Eval vm_compute in (%s : list Z).\n' % clist(['case_%d' % j for j in range(len(chunk))]))
        files.append((path, fi, len(chunk)))
    res = run_coqc_many([p for p, _, _ in files], timeout=timeout)
    values = [None] * len(terms); errors = []
    for path, fi, n in files:
        rc, out = res[path]
        vals = parse_zlist(out)
        if vals is None or len(vals) != n:
            errors.append({'file': path, 'rc': rc, 'output': out[-2000:]})
            continue
        values[fi:fi + n] = vals
    if not keep and not errors:
        shutil.rmtree(d, ignore_errors=True)
    return values, errors

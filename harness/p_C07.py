"""C07 -- archived uncertain numbers are restored with no loss of information."""
import math, random, json, copy, io, os, subprocess, sys, glob
import xml.etree.ElementTree as ET
from common import *
import arch, kernel

COQ_PROPS = 'props/C07.v'
PARTIAL = ('proved, for every frozen archive / every history (no size bound): (1) JSON and XML decode(encode f) = f up to the explicit '
           'representation changes (JSON: complex pair read as a tuple; XML: label "" -> None, complex pair a tuple, component names '
           'recomputed) -- C07_codec_json / C07_codec_xml; (2) _thaw in a fresh context restores every archived leaf attribute (label, u, df, '
           'independent, correlation, ensemble; complex = archived or the tuple set for a tagged complex) and every intermediate node record '
           '-- C07_restore_registries; (3) end to end freeze -> {pickle, JSON, XML} -> thaw in ANY session where the load succeeds: a tagged '
           'intermediate real has identical x, u-/d-component vectors, uid and its i-components w.r.t. exactly the archived intermediates; a '
           'tagged elementary real has identical x, uid and is seeded from the registered leaf -- C07_restore_intermediate / _elementary; '
           '(4) since fixes C07-json-complex-list / C07-nan-dof-same-session: an archive frozen in a session comes back from JSON exactly and '
           'a JSON load equals the pickle load for every session / archive / reading session (C07_codec_json_exact, C07_json_like_pickle), '
           'and node records re-attach in the writing session whatever their dof (C07_nodes_reattach). '
           'Refuted with a concrete witness replayed on the implementation (known finding): XML label "" -> None. NOT proved, validated by the bit-exact '
           'correspondence and the original-vs-restored differential only: that the load succeeds under the session invariants; components of '
           'tagged complex numbers end to end; congruence of the reports (variance, covariance, dof, budgets) of continued calculations over '
           'equal leaf tables; same-session re-attachment; the legacy (pre-1.5) JSON reader; pickle itself; Node.complex of intermediate '
           'complex components; keyword options of the writers (indent, prefix, sort_keys).')
ASSUMPTIONS = ['float repr()/str() round-trips exactly through json / float() (documents carry floats as themselves)',
               'repr / ast.literal_eval round-trip on tuples of ints (uids)',
               'pickle, json and xml.etree parse what they print (apart from the modelled "" -> None of element text)']
TRUSTED = ['harness/arch.py: extraction of Archive private collections, registries and documents as Gallina literals '
           '(position-based uid recognition, ensemble arrays sorted)']

HEADER = ('From Coq Require Import ZArith List Bool String PrimFloat.\n'
          'From GTCV Require Import Num FNum Vector Opres KTypes Kernel Archive ArchiveCase.\n'
          'Import ListNotations.\nOpen Scope float_scope.\n')

CODEC = {'pickle': 'Pickle', 'json': 'Json', 'xml': 'Xml'}

def resolve(ar, tags):
    from GTC import lib
    treal = {}; tcplx = {}
    for t in tags:
        o = ar[t] if not isinstance(ar, dict) else ar[t]
        if isinstance(o, lib.UncertainComplex): tcplx[t] = o
        else: treal[t] = o
    return treal, tcplx

def mutate_json(rng, d):
    """malformed stream: damage a parsed JSON document in a way both readers must reject identically"""
    d = copy.deepcopy(d)
    kind = rng.choice(['drop_leaf_field', 'drop_leaf', 'drop_top', 'bad_class'])
    if kind == 'drop_leaf_field' and d['leaf_nodes']:
        k = rng.choice(list(d['leaf_nodes'])); f = rng.choice(['u', 'df', 'label', 'independent', 'uid'])
        d['leaf_nodes'][k].pop(f, None)
    elif kind == 'drop_leaf' and d['leaf_nodes']:
        d['leaf_nodes'].pop(rng.choice(list(d['leaf_nodes'])))
    elif kind == 'drop_top':
        d.pop(rng.choice(['leaf_nodes', 'tagged_real', 'tagged_complex', 'untagged_real', 'intermediate_uids']))
    else:
        d['CLASS'] = 'Archiv'
    return d, kind

class ContSession(kernel.KSession):
    """a kernel recording session that starts from the numbers a load returned, in the CURRENT context"""
    def __init__(self, initial):
        from GTC import lib, core, reporting, context
        self.lib, self.core, self.reporting = lib, core, reporting
        self.ctx_id = context._context._id
        self.ne = context._context._elementary_id_counter
        self.ni = context._context._intermediate_id_counter
        self.rec = record_math(); self.rec.__enter__()
        self.extra = []; self.ops = []; self.outs = []; self.pyops = []; self.stats = {}
        self.slots = list(initial); self.first = {}
        for i, o in enumerate(initial): self.first.setdefault(id(o), i)

def continue_on_restored(rng, ar2, heavy=False):
    """arithmetic on restored numbers, result() of quantities that depend on restored intermediates and restored
    elementary numbers, further operations, then reads / sensitivities / components w.r.t. the new and the restored
    intermediates / covariances -- every step recorded as a Kernel.v op with the implementation's output"""
    initial = list(ar2._tagged_real.values()) + [p for z in ar2._tagged_complex.values() for p in (z.real, z.imag)]
    ks = ContSession(initial)
    UR = ks.lib.UncertainReal
    def reals(): return [i for i, o in enumerate(ks.slots) if isinstance(o, UR)]
    def last(): return len(ks.slots) - 1
    r_int = [i for i, o in enumerate(initial) if o.is_intermediate]
    r_el = [i for i, o in enumerate(initial) if o.is_elementary]
    new_int = []
    try:
        if rng.random() < 0.3 and r_int: ks.result(rng.choice(r_int), None)          # already declared: the same object
        if rng.random() < 0.2 and r_el: ks.result(rng.choice(r_el), 21)               # elementary: the same object
        if rng.random() < 0.5: ks.ureal(rng.choice([1.5, -2.0, 0.25]), rng.choice([0.1, 0.5]), rng.choice([math.inf, 6.0]), label=None, indep=True)
        for j in range(rng.randint(2, 4) if heavy else rng.randint(1, 3)):
            rs = reals()
            a = rng.choice(r_int) if (r_int and rng.random() < 0.7) else rng.choice(rs)
            b = rng.choice(r_el) if (r_el and rng.random() < 0.5) else rng.choice(rs)
            ks.bin(rng.choice(['add', 'mul', 'sub']), ('ref', a), ('ref', b))
            if ks.slots[last()] is None: continue
            ks.bin(rng.choice(['mul', 'add']), ('ref', last()), ('num', rng.choice([2.0, -0.5, 3.0, 1.25])))
            t = last()
            if new_int and rng.random() < 0.6:
                ks.bin('add', ('ref', t), ('ref', rng.choice(new_int))); t = last()
            if ks.slots[t] is None: continue
            ks.result(t, rng.choice([None, 10 + j]))
            if isinstance(ks.slots[last()], UR) and ks.slots[last()].is_intermediate: new_int.append(last())
            ks.result(last(), None) if rng.random() < 0.2 else None
        # further operations on the new intermediates, nested declaration
        for j in range(rng.randint(1, 3)):
            rs = reals()
            a = rng.choice(new_int) if new_int else rng.choice(rs)
            b = rng.choice(rs)
            ks.bin(rng.choice(['mul', 'add', 'sub']), ('ref', a), ('ref', b))
            if ks.slots[last()] is not None and rng.random() < 0.5:
                ks.bin('mul', ('ref', last()), ('ref', rng.choice(rs)))
            if ks.slots[last()] is not None and rng.random() < 0.4:
                ks.result(last(), 30 + j)
                if isinstance(ks.slots[last()], UR) and ks.slots[last()].is_intermediate: new_int.append(last())
        # reports
        rs = reals()
        late = rs[-3:]
        wrt = list(dict.fromkeys(new_int + r_int[:3] + r_el[:2]))
        for y in late:
            ks.read('x', y); ks.read('u', y); ks.read('df', y)
            for x in wrt:
                if isinstance(ks.slots[x], UR):
                    ks.sens(y, x); ks.ucomp(y, x)
        for y in new_int[:3]:
            ks.read('u', y); ks.read('df', y)
        if len(late) >= 2:
            ks.get_cov(late[0], late[-1]); ks.get_cov(late[-1], late[0])
        if new_int and r_int:
            ks.get_cov(new_int[0], r_int[0])
    finally:
        ks.heap_ok = ks.check_heap()
        ks.close()
    return ks

def one_case(rng, idx, dist, focus=False):
    """one history -> (Gallina term of type Z, description for replay).  focus: histories for the
    restore-then-declare suite (intermediates always tagged, fresh reading session whose context id is
    smaller or larger than the writing session's, no damaged documents, a heavier continued calculation)"""
    from GTC import persistence as pr, context, archive as garchive
    ctx_id = 100 + idx
    seed = rng.getrandbits(32)
    mrng = random.Random(seed)
    pool, info = arch.gen_model(mrng, ctx_id, small=mrng.random() < 0.3)
    tags = arch.choose_tags(mrng, pool)
    fmt = mrng.choice(arch.FORMATS); via = arch.choose_via(mrng, fmt)
    where = mrng.choice(['fresh', 'fresh_lo', 'same', 'same_modified', 'clash'])
    malformed = mrng.random() < 0.15
    if focus:
        inter = [n for n, o in pool.items() if o.is_intermediate]
        for j, n in enumerate(inter[:3]):
            if n not in tags.values(): tags['i%d' % j] = n
        where = mrng.choice(['fresh', 'fresh_lo', 'fresh_lo', 'same']); malformed = False
    # a writer session that wrote other archives of the same / overlapping numbers before, and changed its state since
    # (correlations declared or re-declared, ensembles extended, labels given by result(), new results): the archive
    # under test must be what _freeze makes of the state at ITS write time
    history = []
    if mrng.random() < 0.5:
        history, _ = arch.prior_writes(mrng, pool, tags)
        dist['prior_writes'] = dist.get('prior_writes', 0) + 1
        for h in history: dist['between:' + h[0]] = dist.get('between:' + h[0], 0) + 1
    desc = {'seed': seed, 'ctx': ctx_id, 'tags': tags, 'fmt': fmt, 'via': via, 'where': where, 'malformed': malformed, 'kinds': info['kinds'],
            'history': history}
    for k in info['kinds']: dist['decl:' + k] = dist.get('decl:' + k, 0) + 1
    dist['fmt:' + fmt] = dist.get('fmt:' + fmt, 0) + 1
    dist['where:' + where] = dist.get('where:' + where, 0) + 1
    dist['via:' + via] = dist.get('via:' + via, 0) + 1
    flags = arch.archive_flags(tags, pool)
    for k, v in flags.items():
        if v: dist['flag:' + k] = dist.get('flag:' + k, 0) + 1
    # --- the writing session
    ar = arch.make_archive(tags, pool)
    src = arch.cctx(*arch.live_ctx())
    treal, tcplx = dict(ar._tagged_real), dict(ar._tagged_complex)
    a_lit = arch.carchive(treal, tcplx)
    ar_j = garchive.Archive.copy(ar) if False else None
    # three documents of the same archive (separate Archive objects: freezing is destructive)
    docs = {}
    for f in arch.FORMATS:
        a2 = arch.make_archive(tags, pool)
        docs[f] = arch.dump_with(f, a2, via if f == fmt else 'string', multi=(mrng, pool))
        if f == fmt:
            frozen_lit = '(Ok %s)' % arch.cfrozen(a2)
    handle = docs[fmt] if isinstance(docs[fmt], dict) else None
    docs = {f: arch.doc_content(d) for f, d in docs.items()}
    jtree = json.loads(docs['json'])
    jdoc_lit = '(Some %s)' % arch.jdoc(jtree)
    xdoc_lit = '(Some %s)' % arch.xdoc(ET.XML(docs['xml']))
    # --- documents given to the readers
    jin_tree, jin_text = jtree, docs['json']
    if malformed:
        jin_tree, kind = mutate_json(mrng, jtree); jin_text = json.dumps(jin_tree)
        desc['mutation'] = kind; dist['malformed:' + kind] = dist.get('malformed:' + kind, 0) + 1
        fmt = 'json'; desc['fmt'] = fmt
    jres, _ = arch.cres(lambda: arch.decode_only('json', jin_text), arch.cfrozen)
    xres, _ = arch.cres(lambda: arch.decode_only('xml', docs['xml']), arch.cfrozen)
    jin_lit = '(Some (%s, %s))' % (arch.jdoc(jin_tree, sort_ens=False), jres)
    xin_lit = '(Some (%s, %s))' % (arch.xdoc(ET.XML(docs['xml'])), xres)
    # --- the reading session
    keep = (pool, ar)
    if where == 'fresh':
        new_context(ctx_id + 5000)          # the new session's uids sort AFTER the restored ones
    elif where == 'fresh_lo':
        new_context(ctx_id // 2)            # ... BEFORE the restored ones
    elif where == 'same_modified':
        from GTC import core
        dep = [p for o in pool.values() for p in arch.parts(o)
               if p.is_elementary and not p._node.independent and math.isinf(p._node.df)]
        if len(dep) >= 2:
            a, b = mrng.sample(dep, 2)
            core.set_correlation(mrng.choice([0.15, -0.45]), a, b)
    elif where == 'clash':
        # the same context id is used again for different numbers, then the document is loaded
        from GTC import core
        # (mostly the same declarations again, with one attribute of one number perturbed)
        olds = sorted(arch.live_ctx()[0].items())
        new_context(ctx_id)
        clash = []
        hit = mrng.randrange(len(olds)) if olds and mrng.random() < 0.8 else -1
        for n, (uid, l) in enumerate(olds):
            lab, u, df, ind = l.label, l.u, l.df, l.independent
            if n == hit:
                what = mrng.choice(['label', 'u', 'df', 'independent', 'none'])
                if what == 'label': lab = 'other'
                elif what == 'u': u = u * 2
                elif what == 'df': df = 7.0 if math.isinf(df) else math.inf
                elif what == 'independent': ind = not ind
                desc['clash_attr'] = what
            clash.append(core.ureal(1.0, u, df, label=lab, independent=ind))
        keep = keep + (clash,)
    tgt = arch.cctx(*arch.live_ctx())
    doc_in = jin_text if (fmt == 'json' and (malformed or handle is None)) else (handle if handle is not None else docs[fmt])
    def load():
        return arch.load_with(fmt, doc_in, via)
    def after_lit(ar2):
        tr, tc = dict(ar2._tagged_real), dict(ar2._tagged_complex)
        return '(%s, %s)' % (arch.cctx(*arch.live_ctx()), arch.carchive(tr, tc))
    after, ar2 = arch.cres(load, after_lit)
    desc['load_result'] = after[:40] if after.startswith('(Err') else 'Ok'
    dist['load:' + ('Ok' if not after.startswith('(Err') else after[5:-1])] = dist.get('load:' + ('Ok' if not after.startswith('(Err') else after[5:-1]), 0) + 1
    case = ('(mkCase %s %s %s %s %s %s %s %s %s (Some %s))'
            % (src, a_lit, frozen_lit, jdoc_lit, xdoc_lit, jin_lit, xin_lit, CODEC[fmt], tgt, after))
    if after.startswith('(Err') or where == 'clash':
        # (a reused context id re-issues uids that the archive also holds: new_leaf / new_node reuse-or-raise on
        #  declaration is C08's subject and not part of Kernel.step)
        term = 'run_acase %s' % case
    else:
        ks = continue_on_restored(mrng, ar2, heavy=focus)
        desc['continued'] = ks.pyops; desc['read_ctx'] = ks.ctx_id
        if not ks.heap_ok: desc['heap_corrupted'] = True
        for k, v in ks.stats.items(): dist['cont:' + k] = dist.get('cont:' + k, 0) + v
        term = ('run_dcase (mkDCase %s %s %s %s %s %s %s)'
                % (case, cz(ks.ctx_id), cz(ks.ne), cz(ks.ni), oracle_table(ks.rec.log, ks.extra), clist(ks.ops), clist(ks.outs)))
        desc['cont_outs'] = ks.outs
    del keep
    return term, desc

STAGES = {1: '_freeze: the five collections differ', 2: 'JSON document written differs from the model encoder',
          3: 'XML document written differs from the model encoder', 4: 'JSON reader (json_to_archive) differs from the model decoder',
          5: 'XML reader (_v150_to_archive) differs from the model decoder',
          6: 'load (file protocol + _thaw): exception, registries or restored numbers after the load differ'}

def stage_mismatches(values, descs):
    out = []
    for i, v in enumerate(values):
        if descs[i].get('heap_corrupted'):
            out.append({'kind': 'vector-heap-corrupted', 'case': {k: w for k, w in descs[i].items() if k != 'cont_outs'}})
        if v is not None and v != -1:
            d = dict(descs[i]); outs = d.pop('cont_outs', None)
            if v >= 100:
                k = v - 100
                d['continued'] = d.get('continued', [])[:k + 1]
                out.append({'kind': 'model-vs-implementation', 'stage': 'continued calculation on the restored numbers: step %d '
                            '(Kernel.step on the restored registries vs the implementation)' % k,
                            'implementation_output': (outs[k][:400] if outs and k < len(outs) else None), 'case': d})
            else:
                out.append({'kind': 'model-vs-implementation', 'stage': STAGES.get(v, v), 'case': d})
    return out

def restore_then_declare_correspondence(rng, tier):
    """C06 x C07: result() declared on top of numbers restored from an archive, in a reading session whose context id
    is smaller or larger than the writing session's (so new node uids sort before / after the restored ones), followed by
    further operations and reports; model-compared (Kernel.step on the model-restored registries) and original-vs-restored"""
    n = 60 if tier == 'quick' else 1500
    dist = {}; terms = []; descs = []
    for i in range(n):
        t, d = one_case(rng, 2000 + i, dist, focus=True)
        terms.append(t); descs.append(d)
    values, errors = coq_eval_cases('C07decl', HEADER, terms, per_file=max(4, min(40, n // NCPU + 1)))
    mismatches = [{'kind': 'coqc', 'detail': e} for e in errors] + stage_mismatches(values, descs)
    dn = 60 if tier == 'quick' else 1500
    dres = differential(rng, dn, wheres=['fresh', 'fresh_lo', 'fresh_lo', 'same'], formats=['pickle', 'json', 'xml'], focus=True)
    for f in dres['failing']:
        mismatches.append({'kind': 'original-vs-restored', 'case': f})
    for d in descs: d.pop('cont_outs', None)
    dist.update({'differential:' + k: v for k, v in dres['counts'].items()})
    steps = sum(len(d.get('continued', [])) for d in descs)
    return {'programs': n + dn, 'steps': steps + dres['observations'], 'mismatches': mismatches,
            'distinct': len(set(json.dumps([d['kinds'], sorted(d['tags'].values()), d['fmt'], d['where'], d.get('continued')], sort_keys=True, default=str) for d in descs)),
            'distribution': dist,
            'rule': 'archive with its declared intermediates tagged -> {pickle, JSON, XML} -> load in a session whose context id is '
                    'smaller / larger than the writing one (or the same session) -> result() of quantities that depend on restored '
                    'intermediates and restored elementary numbers -> further operations, nested declarations -> u, df, sensitivity and '
                    'u_component w.r.t. new and restored intermediates, covariances; every step compared bit-exactly with Kernel.step run '
                    'on the registries the model restored; plus the same continuation (with budget(intermediate=True)) on originals vs restored',
            'samples': descs[:2]}

def correspondence(rng, tier):
    n = 120 if tier == 'quick' else 3000
    dist = {}
    terms = []; descs = []
    for i in range(n):
        t, d = one_case(rng, i, dist)
        terms.append(t); descs.append(d)
    values, errors = coq_eval_cases('C07', HEADER, terms, per_file=max(4, min(40, n // NCPU + 1)))
    mismatches = []
    for e in errors:
        mismatches.append({'kind': 'coqc', 'detail': e})
    mismatches += stage_mismatches(values, descs)
    for d in descs: d.pop('cont_outs', None)
    # model-independent differential on the same kind of histories (known findings filtered)
    dn = 60 if tier == 'quick' else 1500
    dres = differential(rng, dn, dist)
    for f in dres['failing']:
        mismatches.append({'kind': 'original-vs-restored', 'case': f})
    fb, fb_obs = fixed_block()
    for f in fb:
        mismatches.append({'kind': 'fixed-block original-vs-restored', 'case': f})
    dist['fixed_block:observations'] = fb_obs
    extra = {}
    if tier == 'thorough':
        extra = thorough_extras(rng)
        for f in extra.get('failing', []):
            mismatches.append({'kind': 'thorough', 'case': f})
    distinct = len(set(json.dumps([d['kinds'], sorted(d['tags'].values()), d['fmt'], d['where']], sort_keys=True) for d in descs))
    dist.update({'differential:' + k: v for k, v in dres['counts'].items()})
    dist.update({'thorough:' + k: v for k, v in extra.get('counts', {}).items()})
    return {'programs': n + dn, 'steps': 6 * n + sum(len(d.get('continued', [])) for d in descs) + dres['observations'], 'mismatches': mismatches, 'distinct': distinct,
            'distribution': dist,
            'rule': 'history = random model (independent / correlated / ensemble reals, independent / correlated / ensemble complex, '
                    'nested real and complex intermediates, labels incl. None and "") -> in half of the histories the writer first dumps 1-2 EARLIER '
                    'archives of overlapping numbers and changes its state after each (correlations declared / re-declared, ensemble extended, label '
                    'given by result(), new results): every archive must reflect the state at ITS write time -> random tagged subset -> dump with '
                    '{pickle, JSON, XML} x {string, in-memory file object, real file opened in the documented mode, real file with the archive behind a '
                    'preamble (non-zero offset), pickle: one of several archives dumped one after another into one binary file and loaded back in '
                    'order (the others checked too), XML: file name / text mode with encoding=unicode} -> {fresh context with a larger / a smaller '
                    'context id than the writing session, '
                    'same session, same session with a correlation changed, context id reused for other numbers} -> load; 15% of JSON '
                    'documents damaged; each stage (freeze, two encoders, two decoders, thaw incl. registries) compared bit-exactly with the '
                    'FNum model; then a continued calculation on the restored numbers (arithmetic, result() on top of restored intermediates '
                    'and elementary numbers, nested declarations, u / df / sensitivity / u_component w.r.t. new and restored intermediates, '
                    'covariances) compared step by step with Kernel.step run on the registries the model restored; plus an original-vs-restored '
                    'differential over all observables and a continued calculation incl. result() and budget(intermediate=True) '
                    '(4 storage functions incl. the legacy JSON writer)',
            'samples': descs[:3]}

# ---------------------------------------------------------------- the property oracle (differential)
import re
_LISTUID = re.compile(r'\[(\(\d+, \d+\)), (\(\d+, \d+\))\]')

def _norm_json(v):
    """forget the Python class of complex-pair uids in budget rows"""
    if isinstance(v, str): return _LISTUID.sub(r'(\1, \2)', v)
    if isinstance(v, (list, tuple)): return [_norm_json(x) for x in v]
    return v

def explained(fmt, where, flags, want, got):
    """which known finding (if any) accounts for EVERY difference between the two observation sets.
    (C07-json-complex-list and C07-nan-dof-same-session are FIXED: nothing excuses a list-valued complex pairing, an
    AssertionError from a dof evaluation or a refused same-session reload any more -- they are violations again.)"""
    if want.keys() != got.keys(): return None
    bad = [k for k in want if want[k] != got[k]]
    if fmt == 'xml' and flags['empty_label']:
        def blank(v):
            # labels: '' and None (and the uid(...) label a budget invents for None) are conflated
            if isinstance(v, str):
                return '<L>' if (v in ("''", 'None') or v.startswith("'uid(") or re.fullmatch(r"'\(\d+, \d+(, 0)?\)'", v)) else v
            if isinstance(v, (list, tuple)): return [blank(x) for x in v]
            return v
        if all(blank(want[k]) == blank(got[k]) for k in bad): return 'C07-xml-empty-label'
    return None

def nan_df_intermediate(tags, pool):
    return any(p.is_intermediate and math.isnan(p._node.df) for t, n in tags.items() for p in arch.parts(pool[n]))

def diff_one(seed, ctx_id, fmt, via, where, focus=False):
    """(None, n) if the property holds on this history, else (failing-input dict, n); the dict says which known
    finding, if any, explains all of the difference ('explained_by')"""
    from GTC import lib
    mrng = random.Random(seed)
    pool, info = arch.gen_model(mrng, ctx_id, small=mrng.random() < 0.3)
    tags = arch.choose_tags(mrng, pool)
    if focus:
        for j, n in enumerate([n for n, o in pool.items() if o.is_intermediate][:3]):
            if n not in tags.values(): tags['i%d' % j] = n
    cont_seed = mrng.getrandbits(32)
    history = []; priors = []
    if mrng.random() < 0.5:
        # earlier archives of overlapping numbers, each observed at its write time, then state changes (see arch.prior_writes)
        history, priors = arch.prior_writes(mrng, pool, tags, observe_seed=cont_seed)
    flags = arch.archive_flags(tags, pool)
    flags['nan_df_intermediate'] = nan_df_intermediate(tags, pool)
    rec = {'seed': seed, 'ctx': ctx_id, 'fmt': fmt, 'via': via, 'where': where, 'focus': focus, 'flags': flags, 'explained_by': None,
           'history': history}
    try:
        ar = arch.make_archive(tags, pool, legacy=(fmt == 'legacy'))
        doc = arch.dump_with(fmt, ar, via, multi=(mrng, pool))
    except Exception as ex:
        rec['raised_on_dump'] = repr(ex); return rec, 0
    originals = {t: pool[n] for t, n in tags.items()}
    want = arch.observe(originals, cont_seed)
    if where == 'fresh':
        new_context(ctx_id + 7000)          # new uids sort after the restored ones
    elif where == 'fresh_lo':
        new_context(ctx_id // 2)            # ... before
    try:
        ar2 = arch.load_with(fmt, doc, via)
        restored = {t: ar2[t] for t in tags}
    except Exception as ex:
        rec['raised_on_load'] = repr(ex)
        if where == 'same' and isinstance(ex, RuntimeError) and 'use' in str(ex):
            if fmt == 'xml' and flags['empty_label'] and 'df=nan' not in str(ex): rec['explained_by'] = 'C07-xml-empty-label'
        return rec, 0
    got = arch.observe(restored, cont_seed)
    if where == 'same':
        # the originals must be unaffected by the load as well
        again = arch.observe(originals, cont_seed)
        if again != want:
            bad = sorted(k for k in want if want[k] != again.get(k))[:6]
            rec['originals_changed_by_load'] = [(k, want[k], again.get(k)) for k in bad]
            rec['explained_by'] = explained(fmt, where, flags, want, again)
            return rec, len(want)
    if got != want:
        bad = sorted(k for k in want if want[k] != got.get(k))[:6]
        rec['differs'] = [(k, want[k], got.get(k)) for k in bad]
        rec['explained_by'] = explained(fmt, where, flags, want, got)
        return rec, len(want)
    # every EARLIER archive of the session must still restore what was there at ITS write time
    for w, (pfmt, pvia, pdoc, ptags, snap, pflags) in enumerate(priors):
        new_context(ctx_id + 9000 + w)
        try:
            arp = arch.load_with(pfmt, pdoc, pvia)
            gotp = arch.observe({t: arp[t] for t in ptags}, cont_seed)
        except Exception as ex:
            rec['earlier_archive'] = w; rec['raised_on_load'] = repr(ex); return rec, len(want)
        if gotp != snap:
            bad = sorted(k for k in snap if snap[k] != gotp.get(k))[:6]
            rec['earlier_archive'] = w; rec['fmt_earlier'] = pfmt
            rec['differs'] = [(k, snap[k], gotp.get(k)) for k in bad]
            rec['explained_by'] = explained(pfmt, 'fresh', pflags, snap, gotp)
            return rec, len(want)
    return None, len(want)

def is_known(f):
    """a failing input is the known finding C07-xml-empty-label iff it accounts for every observed difference (XML, some
    label is ''; differences are only ''/None labels, the labels budgets derive from them, or the same-session 'uid in
    use' RuntimeError).  The fixed findings are never 'known'."""
    return isinstance(f, dict) and f.get('explained_by') == 'C07-xml-empty-label'

WHERES = ['fresh', 'fresh_lo', 'same']
ALLFORMATS = ['pickle', 'json', 'xml', 'legacy']

def differential(rng, n, dist=None, wheres=WHERES, formats=ALLFORMATS, focus=False):
    counts = {}; failing = []; nobs = 0
    for i in range(n):
        seed = rng.getrandbits(32); fmt = rng.choice(formats); via = arch.choose_via(rng, fmt)
        where = rng.choice(wheres)
        r, k = diff_one(seed, 300 + i, fmt, via, where, focus)
        nobs += k
        key = fmt + '/' + where
        counts[key] = counts.get(key, 0) + 1
        if r is not None:
            if is_known(r):
                counts['known-finding-hit'] = counts.get('known-finding-hit', 0) + 1
            else:
                failing.append(r)
    return {'failing': failing, 'counts': counts, 'observations': nobs}

def search(rng, tier, broken):
    n = 250 if tier == 'quick' else 3000
    tried = 0
    fb, _ = fixed_block()
    if fb: return {'tried': 3, 'failing': fb[0]}
    for i in range(n):
        seed = rng.getrandbits(32); fmt = rng.choice(['pickle', 'json', 'xml', 'legacy']); via = arch.choose_via(rng, fmt)
        where = rng.choice(WHERES)
        r, _ = diff_one(seed, 300 + i, fmt, via, where, focus=(i % 2 == 1))
        tried += 1
        if r is not None and not is_known(r):
            return {'tried': tried, 'failing': r}
    return {'tried': tried, 'failing': None}

# ---------------------------------------------------------------- fixed block (every tier, no random choice)
def fixed_obs(z, zi, r, x):
    """budgets / components (default and intermediate=True) and u_components of a continued calculation on an elementary complex z,
    a declared complex intermediate zi and a declared real intermediate r, plus the `complex` link of every component node"""
    from GTC import core, reporting
    g = arch.guarded; hx = arch.hx
    w = zi * (0.5 + 1j) + r
    v = core.magnitude(zi) * r + x
    q = (zi + z) * r
    out = {}
    def rows(y, **kw): return [(repr(a.label), hx(a.u), repr(a.uid)) for a in reporting.budget(y, trim=0, **kw)]
    def comps(y, **kw): return [(repr(a.uid), hx(a.u)) for a in reporting.components(y, trim=0, **kw)]
    for n, y in (('w', w), ('v', v), ('q', q), ('zi', zi), ('r', r)):
        out['budget:' + n] = g(lambda: rows(y)); out['ibudget:' + n] = g(lambda: rows(y, intermediate=True))
        out['components:' + n] = g(lambda: comps(y)); out['icomponents:' + n] = g(lambda: comps(y, intermediate=True))
        out['value:' + n] = (hx(y.x), g(lambda: hx(y.u)), g(lambda: hx(y.df)))
    for n, y in (('w', w), ('v', v), ('q', q)):
        for m, a in (('zi', zi), ('zi.real', zi.real), ('zi.imag', zi.imag), ('r', r), ('z', z), ('x', x)):
            out['ucomp:%s,%s' % (n, m)] = g(lambda: hx(reporting.u_component(y, a)))
            out['sens:%s,%s' % (n, m)] = g(lambda: hx(reporting.sensitivity(y, a)))
    for n, p in (('zi.real', zi.real), ('zi.imag', zi.imag), ('z.real', z.real), ('z.imag', z.imag), ('r', r), ('x', x)):
        c = getattr(p._node, 'complex', 'ABSENT')
        out['complex-link:' + n] = (type(c).__name__, repr(c))
        out['node:' + n] = (repr(p.uid), repr(p.label), hx(p._node.u), hx(p._node.df), p.is_elementary, p.is_intermediate)
    out['label:zi'] = repr(zi.label); out['label:z'] = repr(z.label)
    return out

def fixed_block():
    """for each of pickle / JSON / XML: an archive holding an elementary complex, a result()-declared complex built from it, a real
    intermediate and an elementary real; restored in a fresh Context; the observations of fixed_obs must equal the original session's"""
    from GTC import core, persistence as pr
    failing = []; nobs = 0
    for fmt, dump, load in (('pickle', pr.dumps, pr.loads), ('json', pr.dumps_json, pr.loads_json), ('xml', pr.dumps_xml, pr.loads_xml)):
        new_context(7101)
        z = core.ucomplex(1.5 - 0.5j, (0.09, 0.012, 0.012, 0.16), 6, label='z')
        x = core.ureal(2.0, 0.25, 8, label='x')
        zi = core.result(z * x + z * z, label='zi')
        r = core.result(x * x + z.real * 0.5, label='r')
        want = fixed_obs(z, zi, r, x)
        ar = pr.Archive(); ar.add(z=z, zi=zi, r=r, x=x)
        try:
            doc = dump(ar)
            new_context(7102)
            a2 = load(doc)
            got = fixed_obs(a2['z'], a2['zi'], a2['r'], a2['x'])
        except Exception as ex:
            failing.append({'fixed_block': fmt, 'raised': repr(ex), 'explained_by': None}); continue
        nobs += len(want)
        if got != want:
            bad = sorted(k for k in want if want[k] != got.get(k))
            failing.append({'fixed_block': fmt, 'differs': [(k, want[k], got.get(k)) for k in bad[:8]], 'explained_by': None})
    return failing, nobs

# ---------------------------------------------------------------- thorough tier: real fresh interpreters, shipped reference files
CHILD = r'''
import sys, json
sys.path.insert(0, %(harness)r)
import common, arch
doc = open(sys.argv[1], 'rb').read()
fmt, via, cont_seed = sys.argv[2], sys.argv[3], int(sys.argv[4])
tags = json.loads(sys.argv[5])
if fmt in ('json', 'legacy'): doc = doc.decode()
ar = arch.load_with(fmt, doc, via)
print(json.dumps(arch.observe({t: ar[t] for t in tags}, cont_seed), sort_keys=True))
'''

def thorough_extras(rng):
    counts = {'subprocess_sessions': 0, 'reference_files': 0}; failing = []
    d = scratch('c07_sub')
    script = os.path.join(d, 'child.py')
    open(script, 'w').write(CHILD % {'harness': os.path.dirname(os.path.abspath(__file__))})
    for i in range(int(os.environ.get('C07_SUBPROC', '100'))):
        seed = rng.getrandbits(32); fmt = rng.choice(['pickle', 'json', 'xml', 'legacy']); via = rng.choice(['string', 'file'])
        mrng = random.Random(seed)
        pool, info = arch.gen_model(mrng, 900 + i, small=mrng.random() < 0.3)
        tags = arch.choose_tags(mrng, pool)
        flags = arch.archive_flags(tags, pool)
        cont_seed = mrng.getrandbits(32)
        ar = arch.make_archive(tags, pool, legacy=(fmt == 'legacy'))
        doc = arch.dump_with(fmt, ar, via)
        want = json.loads(json.dumps(arch.observe({t: pool[n] for t, n in tags.items()}, cont_seed), sort_keys=True))
        path = os.path.join(d, 'doc_%d' % i)
        open(path, 'wb').write(doc if isinstance(doc, bytes) else doc.encode())
        p = subprocess.run([sys.executable, '-W', 'ignore', script, path, fmt, via, str(cont_seed), json.dumps(list(tags))],
                           stdout=subprocess.PIPE, stderr=subprocess.PIPE, text=True, env=dict(os.environ, PYTHONPATH=REPO))
        counts['subprocess_sessions'] += 1
        rec = {'seed': seed, 'ctx': 900 + i, 'fmt': fmt, 'via': via, 'where': 'subprocess', 'flags': flags}
        if p.returncode != 0:
            rec['child_failed'] = p.stderr[-500:]
            if not is_known(rec): failing.append(rec)
            continue
        got = json.loads(p.stdout.strip().splitlines()[-1])
        if got != want:
            rec['differs'] = sorted(k for k in want if want[k] != got.get(k))[:6]
            rec['explained_by'] = explained(fmt, 'fresh', flags, want, got)
            if not is_known(rec): failing.append(rec)
    # the shipped reference documents: every reader must accept them and agree with each other
    from GTC import persistence as pr
    tdir = os.path.join(REPO, 'test')
    groups = {}
    for f in sorted(glob.glob(os.path.join(tdir, 'ref_file_v_*'))):
        ver = os.path.basename(f)[len('ref_file_v_'):].rsplit('.', 1)[0]
        ext = f.rsplit('.', 1)[1]
        new_context(4000 + len(groups))
        try:
            if ext == 'gar': ar = pr.load(open(f, 'rb'))
            elif ext == 'json': ar = pr.load_json(open(f))
            else: ar = pr.load_xml(f)
            obs = arch.observe({t: ar[t] for t in sorted(ar.keys())}, 12345)
        except Exception as ex:
            failing.append({'reference_file': os.path.basename(f), 'raised': repr(ex)}); continue
        counts['reference_files'] += 1
        strip = {k: v for k, v in obs.items()}
        groups.setdefault(ver, []).append((os.path.basename(f), strip))
    # the files of one version were written by the same script in different sessions (different uids):
    # value, uncertainty, dof and label of every tag must agree across formats
    proj = lambda obs: {k: v[:4] for k, v in obs.items() if k.startswith('attr:')}
    for ver, lst in groups.items():
        for name, obs in lst[1:]:
            if proj(obs) != proj(lst[0][1]):
                bad = sorted(k for k in proj(obs) if proj(obs)[k] != proj(lst[0][1]).get(k))[:6]
                failing.append({'reference_files': [lst[0][0], name], 'differs': bad, 'explained_by': None})
    return {'counts': counts, 'failing': failing}

# ---------------------------------------------------------------- known findings (replayed on the implementation)
def kf_C07_json_complex_list():
    from GTC import core, persistence as pr
    new_context(61)
    z = core.ucomplex(1 + 2j, (1, 0.5, 0.5, 1), 5)
    y = core.result(z.real * 2 + z.imag, label='y')
    df_orig = (y * 2).df
    ar = pr.Archive(); ar.add(y=y)
    s = pr.dumps_json(ar)
    new_context(62)
    y2 = pr.loads_json(s)['y']
    try:
        d = (y2 * 2).df
    except AssertionError:
        return True, 'original (y*2).df = %r; restored from JSON in a fresh session: AssertionError in welch_satterthwaite' % df_orig
    return (d != df_orig), 'original %r restored %r' % (df_orig, d)

def kf_C07_xml_empty_label():
    from GTC import core, persistence as pr
    new_context(63)
    x = core.ureal(1, 1, label='')
    ar = pr.Archive(); ar.add(x=x)
    s = pr.dumps_xml(ar)
    same = None
    try:
        pr.loads_xml(s)
    except RuntimeError as ex:
        same = 'same session: RuntimeError %s' % ex
    new_context(64)
    lab = pr.loads_xml(s)['x'].label
    return (lab != '' or same is not None), 'label "" restored as %r; %s' % (lab, same)

def kf_C07_nan_dof_same_session():
    from GTC import core, persistence as pr
    new_context(65)
    x = core.ureal(1, 1, 5)
    y = core.result(x - x, label='y')
    out = []
    for name, dump, load in (('pickle', pr.dumps, pr.loads), ('json', pr.dumps_json, pr.loads_json), ('xml', pr.dumps_xml, pr.loads_xml)):
        ar = pr.Archive(); ar.add(y=y)
        s = dump(ar)
        try:
            load(s); out.append((name, 'ok'))
        except RuntimeError as ex:
            out.append((name, 'RuntimeError'))
    return any(r == 'RuntimeError' for _, r in out), 'y=result(x-x), df=%r; same-session reload: %r' % (y.df, out)

def replay(payload):
    print(json.dumps(payload.get('broken'), indent=1, default=str)[:3000])
    f = payload.get('failing_input')
    if f and 'fixed_block' in f:
        fb, _ = fixed_block()
        print('replayed the fixed block on the implementation:', 'STILL FAILS %s' % json.dumps(fb, default=str)[:1500] if fb else 'passes now')
        return 1 if fb else 0
    if f and 'seed' in f and f.get('where') in ('fresh', 'fresh_lo', 'same'):
        r, _ = diff_one(f['seed'], f['ctx'], f['fmt'], f['via'], f['where'], f.get('focus', False))
        print('replayed failing input on the implementation:', 'STILL FAILS %s' % json.dumps(r, default=str)[:1500] if r else 'passes now')
        return 1 if r else 0
    return 0


def kf_C07_legacy_pickle_offset():
    """persistence.load of a legacy (pre-1.5) pickle archive that is not the first thing in the file: after a preamble, and a
    second legacy archive after a first one (the loader re-read the file from offset 0 with the old classes)"""
    import io
    from GTC import persistence as pr
    a = open(os.path.join(REPO, 'test', 'ref_file_v_1_3_3.gar'), 'rb').read()
    b = open(os.path.join(REPO, 'test', 'ref_file_v_1_3_5.gar'), 'rb').read()
    bad = []
    try:
        new_context(901)
        f = io.BytesIO(b'HEADER LINE\n' + a); f.readline(); ar = pr.load(f)
        if len(list(ar.keys())) == 0: bad.append('preamble: empty archive')
    except Exception as ex:
        bad.append('preamble + legacy archive: %r' % (ex,))
    try:
        new_context(902)
        f = io.BytesIO(a + b); a1 = pr.load(f)
        new_context(903)
        a2 = pr.load(f)
        if sorted(a1.keys()) == sorted(a2.keys()) or f.read() != b'': bad.append('second legacy archive: the first one was read again')
    except Exception as ex:
        bad.append('two legacy archives in one file: %r' % (ex,))
    return (bool(bad), '; '.join(bad) or 'both legacy archives load from their own offsets')

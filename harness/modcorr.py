"""modcorr.py -- x % y and fmod(x, y) on uncertain reals: the correspondence cases of the C20 model (Special.v umod / ufmod:
value and the three component vectors, bit for bit, for every structural kind of x incl. declared intermediates), packaged so
that the properties that list these operators (C01 values, C06 intermediate components, C02 components) run them too."""
import hashlib
from common import *

def mod_correspondence(rng, tier, name, n_quick=90, n_thorough=1500):
    import p_C20
    C = p_C20.Cases()
    mism = []
    if p_C20._TR[0] != 0:
        mism.append({'kind': 'translator', 'detail': 'tools/tr_special.py could not translate part of the anchored code'})
    for k in range(n_quick if tier == 'quick' else n_thorough):
        p_C20.gen_mod(rng, C, k)
    vals, errs = coq_eval_cases(name, p_C20.HEADER + p_C20.CASE2, C.terms, per_file=45 if tier == 'quick' else 150, timeout=900)
    for e in errs:
        mism.append({'kind': 'coqc-failed', 'file': e['file'], 'output': e['output'][-1200:]})
    for v, m, t in zip(vals, C.meta, C.terms):
        if v is None or v == -1: continue
        mism.append({'kind': 'model-vs-implementation', 'case': m, 'code': v, 'term': t[:1500]})
    return {'programs': len(C.terms), 'steps': len(C.terms), 'mismatches': mism,
            'distinct': len(set(hashlib.sha1(t.encode()).hexdigest() for t in C.terms)),
            'distribution': dict(C.stats)}

def add_to(r, f, label, rule):
    r['mismatches'] += f.get('mismatches', [])
    r['programs'] += f.get('programs', 0); r['steps'] += f.get('steps', 0)
    r['distinct'] = r.get('distinct', 0) + f.get('distinct', 0)
    r.setdefault('distribution', {})[label] = f.get('programs', 0)
    r['rule'] = r.get('rule', '') + '; plus ' + label + ': ' + rule
    return r

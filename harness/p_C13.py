"""C13 -- type-A line fits equal the least-squares solution and predict consistently."""
import math, random, os, sys, importlib, subprocess
from fractions import Fraction as Fr
from common import *
import fit_a

COQ_PROPS = 'props/C13.v'
PARTIAL = ('proved over the reals for all data sets: whenever line_fit / line_fit_wls / line_fit_rwls return, (a,b) solve the '
           '(weighted) normal equations, u(a)^2, u(b)^2, r*u(a)*u(b) are the entries of sigma^2 (X^T W X)^-1 (sigma^2 = ssr/df for '
           'OLS/RWLS, 1 for WLS), ssr is the weighted residual sum, N the number of points, df follows the N-2 / given / inf rule; '
           'r_ab passes through _clip_r (the three fits and the WTLS wrapper): the identity over the reals (|r_ab| <= 1), r or exactly +-1 in every binary64 run; '
           'the fits are total on non-degenerate data; the solution is unique, hence RWLS with equal scale factors = OLS and '
           'shift/scale equivariance of the whole OLS, WLS and RWLS results (values, ssr, u(a), u(b), cov(a,b), dof, N) for unchanged '
           'uncertainties / scale factors; the extra input of each prediction method (all three classes, y_from_x and x_from_y) has the '
           'stated value and uncertainty, and the RWLS noise scale agrees between y_from_x and x_from_y; y_from_x with a plain '
           'number, for OLS, WLS and RWLS fit objects (finite dof): value a + b*x + 0, components u(a), x*u(b), u(noise), the '
           'noise input joins the ensemble of (a,b), and the result keeps the fit\'s dof (C13_one_ensemble_dof: one ensemble, '
           'one Welch-Satterthwaite term) when its variance is not 0.  Not proved: '
           'the same value/dof statement for x_from_y (its extra input and the shared evaluator only), for uncertain x, '
           'and for infinite dof.  By correspondence / oracle only: those, the WTLS wrapper against type_b.line_fit_wtls '
           '(external computation), labels.')
ASSUMPTIONS = ['rounding error of float arithmetic is not bounded by proof (theorems are over the reals)',
               'type_b.line_fit_wtls is an external computation for this property (its results enter the model as an oracle)',
               'over the reals an infinite df is not a number: statements that divide by df assume a finite df']
TRUSTED = ['translator tools/tr_type_a_fit.py (Python ast -> Gallina, fail-closed; compares the non-arithmetic part of each '
           'function with the shape the hand-written model LineFitA.v implements)',
           'Coq Reals library (field, lra, nra)']

GEN = 'Gen_type_a_fit.v'

def _fresh_translation():
    sys.path.insert(0, os.path.join(VERIF, 'tools'))
    import tr_type_a_fit
    importlib.reload(tr_type_a_fit)
    return tr_type_a_fit.generate(REPO)

def correspondence(rng, tier):
    n = 208 if tier == 'quick' else 5200
    # the generated definitions the proofs and the model were compiled against must be those of the current source
    stale = []
    try:
        text, status = _fresh_translation()
        path = os.path.join(COQ, 'gen', GEN)
        if not os.path.exists(path) or open(path).read() != text:
            stale.append({'kind': 'generated-definitions-stale', 'file': 'gen/' + GEN,
                          'detail': 'coq/gen/%s differs from a fresh translation of %s/GTC/type_a.py (the driver did not run '
                                    'tools/tr_type_a_fit.py, or the source changed after the build)' % (GEN, REPO),
                          'untranslatable': [k for k, v in status.items() if not v]})
    except Exception as ex:
        stale.append({'kind': 'translator-failed', 'detail': repr(ex)})
    r = fit_a.fit_correspondence(rng, tier, n)
    r['mismatches'] = stale + r['mismatches']
    return r

# ---------------------------------------------------------------- oracle (search only)
def exact_fit(x, y, w):
    """weighted least squares in exact rational arithmetic; w = 1/u^2 as Fractions"""
    X = [Fr(v) for v in x]; Y = [Fr(v) for v in y]
    S = sum(w); Sx = sum(wi * xi for wi, xi in zip(w, X)); Sy = sum(wi * yi for wi, yi in zip(w, Y))
    Sxx = sum(wi * xi * xi for wi, xi in zip(w, X)); Sxy = sum(wi * xi * yi for wi, xi, yi in zip(w, X, Y))
    D = S * Sxx - Sx * Sx
    if D == 0: return None
    a = (Sxx * Sy - Sx * Sxy) / D; b = (S * Sxy - Sx * Sy) / D
    ssr = sum(wi * (yi - a - b * xi) ** 2 for wi, xi, yi in zip(w, X, Y))
    return {'a': a, 'b': b, 'va': Sxx / D, 'vb': S / D, 'cab': -Sx / D, 'ssr': ssr, 'D': D, 'S': S, 'Sxx': Sxx}

def close(got, want, scale, tol=1e-7):
    return abs(float(got) - float(want)) <= tol * max(abs(float(want)), float(scale), 1e-300)

def well_conditioned(x, w):
    X = [Fr(v) for v in x]
    S = sum(w); Sx = sum(wi * xi for wi, xi in zip(w, X)); Sxx = sum(wi * xi * xi for wi, xi in zip(w, X))
    D = S * Sxx - Sx * Sx
    return D > 0 and float(D) > 1e-6 * float(S * Sxx)

def check_case(c):
    """c: dict(cls, x, y, w, dof, pred=(kind, arg, extra, labels)).  None or a description of the failure."""
    from GTC import type_a as ta, lib
    new_context(77)
    cls, x, y, w, dof = c['cls'], c['x'], c['y'], c.get('w'), c.get('dof')
    n = len(x)
    if c.get('far'):
        # legitimate data far from zero (N >= 3, distinct x, positive weights): the fit must return, with |r| <= 1
        if len(set(x)) < 3 or (w is not None and min(w) <= 0): return None
        try:
            if cls == 'WTLS':
                # the wrapper must not turn a type-B result into a ValueError (failures of the type-B minimiser
                # itself are not this property's: only the rejection of the correlation is)
                try:
                    fit = ta.line_fit_wtls(x, y, c['ux'], w, a0_b0=c.get('a0_b0'), r_xy=c.get('r_xy'), dof=dof)
                except ValueError as e:
                    if 'correlation coefficient' in str(e): raise
                    return None
                except Exception:
                    return None
            elif cls == 'OLS': fit = ta.line_fit(x, y)
            elif cls == 'WLS': fit = ta.line_fit_wls(x, y, w, dof=dof)
            else: fit = ta.line_fit_rwls(x, y, w, dof=dof)
        except Exception as e:
            return dict(c, failure='fit raised %s(%s) on valid data far from zero' % (type(e).__name__, e))
        a, b = fit.a_b
        r = a.get_correlation(b)
        if not (abs(r) <= 1.0) or fit.N != n or not (a.u >= 0 and b.u >= 0):
            return dict(c, failure='fit far from zero: r, N or u out of range', detail=[r, fit.N, a.u, b.u])
        return None
    W = [Fr(1)] * n if cls == 'OLS' else [1 / (Fr(u) * Fr(u)) for u in w]
    if not well_conditioned(x, W): return None
    ex = exact_fit(x, y, W)
    if ex is None: return None
    try:
        if cls == 'OLS': fit = ta.line_fit(x, y)
        elif cls == 'WLS': fit = ta.line_fit_wls(x, y, w, dof=dof)
        else: fit = ta.line_fit_rwls(x, y, w, dof=dof)
    except Exception as e:
        return dict(c, failure='fit raised %r on valid data' % (e,))
    a, b = fit.a_b
    if cls == 'WLS': sig2, df = Fr(1), (math.inf if dof is None else dof)
    else:
        df = (n - 2) if (cls == 'OLS' or dof is None) else dof
        sig2 = ex['ssr'] / Fr(df) if math.isfinite(df) else Fr(0)
    ys = max(abs(float(v)) for v in y) + 1e-300
    bad = []
    if not close(a.x, ex['a'], ys): bad.append(('a', a.x, float(ex['a'])))
    if not close(b.x, ex['b'], ys / (max(abs(float(v)) for v in x) + 1e-300)): bad.append(('b', b.x, float(ex['b'])))
    noise_ok = float(ex['ssr']) > 1e-12 * ys * ys * n      # otherwise ssr is rounding noise
    if cls == 'WLS' or noise_ok:
        if not close(a.u ** 2, sig2 * ex['va'], 0, 1e-6): bad.append(('u(a)^2', a.u ** 2, float(sig2 * ex['va'])))
        if not close(b.u ** 2, sig2 * ex['vb'], 0, 1e-6): bad.append(('u(b)^2', b.u ** 2, float(sig2 * ex['vb'])))
        cov = a.get_correlation(b) * a.u * b.u
        if not close(cov, sig2 * ex['cab'], math.sqrt(float(sig2 * ex['va'] * sig2 * ex['vb'])), 1e-6):
            bad.append(('cov(a,b)', cov, float(sig2 * ex['cab'])))
    if noise_ok and not close(fit.ssr, ex['ssr'], 0, 1e-6): bad.append(('ssr', fit.ssr, float(ex['ssr'])))
    if fit.N != n: bad.append(('N', fit.N, n))
    if not (float(a.df) == float(df) and float(b.df) == float(df)): bad.append(('df', a.df, df))
    if bad: return dict(c, failure='fit differs from the exact least-squares solution', detail=bad)
    # ---- several predictions from the same fit object: every one keeps the fit's dof, also after later ones
    if c.get('multi'):
        if not (noise_ok and math.isfinite(df)): return None
        res = []
        for kind, arg, extra in c['multi']:
            name = '%s.%s' % (type(fit).__name__, kind)
            try:
                if kind == 'y_from_x': r = fit.y_from_x(arg) if cls == 'OLS' else fit.y_from_x(arg, extra)
                else: r = fit.x_from_y(arg) if cls == 'OLS' else fit.x_from_y(arg, extra)
            except Exception as e:
                return dict(c, failure='%s raised %s' % (name, type(e).__name__), method=name)
            res.append((name, r))
        out = []
        for i, (name, r) in enumerate(res):
            if r.u > 0 and not close(r.df, df, 0, 1e-6): out.append(('dof of prediction %d (%s) after all %d predictions' % (i, name, len(res)), r.df, df))
        for i in range(len(res)):
            for j in range(i + 1, len(res)):
                for nm, d in (('difference', res[i][1] - res[j][1]), ('sum', res[i][1] + res[j][1])):
                    if d.u > 1e-9 * (abs(d.x) + 1e-300) and not close(d.df, df, 0, 1e-6):
                        out.append(('dof of the %s of predictions %d and %d' % (nm, i, j), d.df, df))
        if out: return dict(c, failure='predictions from one fit object do not keep the fit\'s dof', detail=out[:6])
        return None
    # ---- predictions
    p = c.get('pred')
    if p is None: return None
    kind, arg, extra = p[:3]
    lab = p[3] if len(p) > 3 else 0          # bit 0: first label, bit 1: second label
    l1 = 'L1' if lab & 1 else None; l2 = 'L2' if lab & 2 else None
    try:
        if kind == 'y_from_x':
            r = fit.y_from_x(arg, s_label=l1, y_label=l2) if cls == 'OLS' else fit.y_from_x(arg, extra, s_label=l1, y_label=l2)
        else:
            r = fit.x_from_y(arg, x_label=l1, y_label=l2) if cls == 'OLS' else fit.x_from_y(arg, extra, x_label=l1, y_label=l2)
    except Exception as e:
        return dict(c, failure='%s.%s raised %s' % (type(fit).__name__, kind, type(e).__name__), method='%s.%s' % (type(fit).__name__, kind))
    if not (cls == 'WLS' or noise_ok): return None
    r_ab = a.get_correlation(b)
    if kind == 'y_from_x':
        s2 = (fit.ssr / df if cls == 'OLS' else (extra ** 2) * fit.ssr / df if cls == 'RWLS' else extra ** 2) if math.isfinite(df) or cls == 'WLS' else 0.0
        val = a.x + b.x * arg
        var = a.u ** 2 + (arg * b.u) ** 2 + 2 * arg * r_ab * a.u * b.u + s2
    else:
        if abs(b.x) < 1e-6 * ys: return None
        m = math.fsum(arg) / len(arg)
        s2 = (fit.ssr / df / len(arg) if cls == 'OLS' else (extra ** 2) * fit.ssr / df / len(arg) if cls == 'RWLS' else extra ** 2 / len(arg)) if math.isfinite(df) or cls == 'WLS' else 0.0
        val = (m - a.x) / b.x
        # first-order: x = (y - a)/b
        da, db, dy = -1 / b.x, -(m - a.x) / b.x ** 2, 1 / b.x
        var = (da * a.u) ** 2 + (db * b.u) ** 2 + 2 * da * db * r_ab * a.u * b.u + dy * dy * s2
    out = []
    if not close(r.x, val, abs(val) + 1e-300, 1e-9): out.append(('value', r.x, val))
    if var > 0 and not close(r.u ** 2, var, 0, 1e-6): out.append(('variance', r.u ** 2, var))
    if var > 0 and math.isfinite(df) and not close(r.df, df, 0, 1e-6): out.append(('dof', r.df, df))
    if var > 0 and not math.isfinite(df) and not math.isinf(r.df): out.append(('dof', r.df, df))
    if out: return dict(c, failure='prediction differs from the first-order formula', method='%s.%s' % (type(fit).__name__, kind), detail=out)
    return None

def rand_case(rng):
    n = rng.randint(3, 12)
    x = sorted(round(rng.uniform(-10, 10), 3) for _ in range(n))
    if x[0] == x[-1]: x[-1] += 1.0
    a0, b0 = round(rng.uniform(-5, 5), 2), round(rng.choice([1, -1]) * rng.uniform(0.2, 3), 2)
    y = [round(a0 + b0 * v + rng.gauss(0, 0.3), 4) for v in x]
    cls = rng.choice(['OLS', 'WLS', 'RWLS'])
    w = [round(rng.uniform(0.2, 2.0), 2) for _ in range(n)] if cls != 'OLS' else None
    dof = rng.choice([None, None, 3, 7.5]) if cls != 'OLS' else None
    c = {'cls': cls, 'x': x, 'y': y, 'w': w, 'dof': dof}
    k = rng.random()
    extra = round(rng.uniform(0.3, 2.0), 2) if cls != 'OLS' else None
    lab = rng.randrange(4)
    if k < 0.4: c['pred'] = ('y_from_x', round(rng.uniform(-10, 10), 2), extra, lab)
    elif k < 0.8: c['pred'] = ('x_from_y', [round(a0 + b0 * 1.5 + rng.gauss(0, 0.3), 3) for _ in range(rng.randint(1, 4))], extra, lab)
    else: c['pred'] = None
    if rng.random() < 0.35:
        # 2-4 predictions with plain-number arguments from the same fit object, x_from_y and y_from_x mixed
        c['pred'] = None; m = []
        for _ in range(rng.randint(2, 4)):
            if rng.random() < 0.5:
                m.append(('y_from_x', round(rng.uniform(-10, 10), 2), extra))
            else:
                m.append(('x_from_y', [round(a0 + b0 * rng.uniform(-3, 3) + rng.gauss(0, 0.3), 3) for _ in range(rng.randint(1, 4))], extra))
        c['multi'] = m
        if cls == 'WLS' and c['dof'] is None: c['dof'] = 6
    return c

def far_case(rng):
    n = rng.randint(3, 6)
    shift = rng.choice([1.0, -1.0]) * 10.0 ** rng.uniform(5, 9)
    x = [shift + rng.uniform(0, 10) for _ in range(n)]
    y = [rng.uniform(-3, 3) for _ in range(n)]
    cls = rng.choice(['OLS', 'WLS', 'RWLS'])
    w = None if cls == 'OLS' else ([0.5] * n if rng.random() < 0.5 else [round(rng.uniform(0.2, 2.0), 2) for _ in range(n)])
    return {'cls': cls, 'x': x, 'y': y, 'w': w, 'dof': None, 'far': True}

def fixed_far_cases():
    """the data sets of the C11-6 replay: the correlation quotient evaluates to -(1 + ulp)"""
    names = {'COLS': 'OLS', 'CWLS': 'WLS', 'CRWLS': 'RWLS'}
    w = fit_a.WTLS_CLIP_CASE
    return ([{'cls': names[c], 'x': x, 'y': y, 'w': w_, 'dof': None, 'far': True} for c, x, y, w_ in fit_a.CLIP_CASES] +
            [{'cls': 'WTLS', 'x': w['x'], 'y': w['y'], 'w': w['uy'], 'ux': w['ux'], 'r_xy': w['r_xy'], 'a0_b0': w['a0_b0'],
              'dof': None, 'far': True}])

def is_known(f):
    # the three findings of this property are FIXED: a TypeError from LineFitWLS/LineFitRWLS.y_from_x is a violation again
    return False

def search(rng, tier, broken):
    n = 600 if tier == 'quick' else 8000
    tried = 0; known = 0
    for orc in (fit_a.legit_fit_oracle, fit_a.history_oracle):
        r = orc(rng, 300 if tier == 'quick' else 3000)
        tried += r['tried']
        if r['failing'] is not None:
            return {'tried': tried, 'failing': r['failing'], 'known_skipped': 0}
    fixed = fixed_far_cases()
    for i in range(n + len(fixed)):
        c = fixed[i] if i < len(fixed) else far_case(rng) if rng.random() < 0.4 else rand_case(rng)
        tried += 1
        try:
            r = check_case(c)
        except Exception as ex:
            r = dict(c, failure='oracle could not run the case: %r' % (ex,))
        if r is not None:
            if is_known(r): known += 1; continue
            return {'tried': tried, 'failing': r, 'known_skipped': known}
    return {'tried': tried, 'failing': None, 'known_skipped': known}

def replay(payload):
    f = payload.get('failing_input')
    print(json.dumps(payload.get('broken'), indent=1, default=str)[:3000])
    if f and (f.get('legit') or f.get('kind') == 'fit-history'):
        r = fit_a.check_history(f) if f.get('kind') == 'fit-history' else fit_a.check_legit_fit(f)
        print('replayed failing input on the implementation:', 'STILL FAILS %s' % r.get('failure') if r else 'passes now')
        return 1 if r else 0
    if f:
        c = {k: f.get(k) for k in ('cls', 'x', 'y', 'w', 'dof', 'far', 'ux', 'r_xy', 'a0_b0')}
        c['pred'] = tuple(f['pred']) if f.get('pred') else None
        if f.get('multi'): c['multi'] = [tuple(m) for m in f['multi']]
        r = check_case(c)
        print('replayed failing input on the implementation:', 'STILL FAILS %s' % json.dumps({k: r[k] for k in r if k in ('failure', 'detail', 'method')}, default=str) if r else 'passes now')
        return 1 if r else 0
    return 0

# ---------------------------------------------------------------- known findings
_X = [1.0, 2.0, 3.0, 4.0, 5.0, 6.0]
_Y = [3.014, 5.225, 7.004, 9.061, 11.201, 12.762]
_U = [0.2, 0.2, 0.2, 0.4, 0.4, 0.4]

def _raises_typeerror(make):
    from GTC import type_a as ta
    new_context(78)
    fit = make(ta)
    try:
        fit.y_from_x(2.5, 0.3)
    except TypeError as e:
        return True, 'TypeError: %s' % e
    except Exception as e:
        return False, 'raised %r' % (e,)
    return False, 'returned a value'

def known_wls_y_from_x():
    return _raises_typeerror(lambda ta: ta.line_fit_wls(_X, _Y, _U))

def known_rwls_y_from_x():
    return _raises_typeerror(lambda ta: ta.line_fit_rwls(_X, _Y, _U))

def known_rwls_scale():
    """LineFitRWLS.y_from_x computes sqrt(s_y*ssr/df) (observed as the argument of math.sqrt even while the
    call fails later) where x_from_y uses s_y*sqrt(ssr/df)"""
    from GTC import type_a as ta
    new_context(79)
    fit = ta.line_fit_rwls(_X, _Y, _U)
    df = fit.a_b[0].df; s_y = 3.0
    with record_math() as rec:
        try: fit.y_from_x(2.5, s_y)
        except Exception: pass
    args = [a[0] for name, a, r in rec.log if name == 'sqrt']
    if not args: return False, 'no sqrt call seen'
    got = args[0]
    if got == s_y * fit.ssr / df and got != s_y * s_y * fit.ssr / df:
        return True, 'sqrt argument %r = s_y*ssr/df, not s_y^2*ssr/df = %r' % (got, s_y * s_y * fit.ssr / df)
    return False, 'sqrt argument %r' % got

def known_wtls_far_r_ab():
    """type_a.line_fit_wtls re-declared the correlation of the type-B (a, b) without _clip_r: for x far from zero
    it evaluates to 1 + ulp and a.set_correlation raised ValueError"""
    from GTC import type_a as ta
    new_context(80)
    c = fit_a.WTLS_CLIP_CASE
    try:
        fit = ta.line_fit_wtls(c['x'], c['y'], c['ux'], c['uy'], a0_b0=c['a0_b0'], r_xy=c['r_xy'])
    except ValueError as e:
        if 'correlation coefficient' in str(e):
            return True, 'ValueError: %s' % e
        return False, 'raised %r' % (e,)
    except Exception as e:
        return False, 'raised %r' % (e,)
    a, b = fit.a_b
    return False, 'returned, r = %r' % a.get_correlation(b)

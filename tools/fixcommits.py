#!/usr/bin/env python3
"""fixcommits.py [repo] : resolve known/fix_map.json (finding id -> distinctive part of the subject of its "fix:"
commit) against `git log` of the repository and write known/fix_commits.json (finding id -> abbreviated commit)."""
import json, os, subprocess, sys
V = os.path.dirname(os.path.dirname(os.path.abspath(__file__)))
repo = sys.argv[1] if len(sys.argv) > 1 else os.environ.get('VERIF_REPO', '/repo')
log = subprocess.run(['git', '-C', repo, 'log', '--format=%h %s'], capture_output=True, text=True).stdout.splitlines()
fm = json.load(open(os.path.join(V, 'known', 'fix_map.json')))
out = {}
for fid, frag in fm.items():
    hits = [l for l in log if l.split(' ', 1)[1].startswith('fix:') and frag in l]
    if len(hits) != 1: print('UNRESOLVED', fid, hits); continue
    out[fid] = hits[0].split(' ', 1)[0]
json.dump(out, open(os.path.join(V, 'known', 'fix_commits.json'), 'w'), indent=1, sort_keys=True)
print(len(out), 'of', len(fm), 'resolved')

#!/usr/bin/env python3
"""print a python source range with docstrings/comments/blank lines stripped: showsrc.py file lo hi"""
import ast,sys
f,lo,hi=sys.argv[1],int(sys.argv[2]),int(sys.argv[3])
src=open(f).read()
tree=ast.parse(src)
doc=set()
for n in ast.walk(tree):
    if isinstance(n,(ast.FunctionDef,ast.ClassDef,ast.Module)):
        b=n.body
        if b and isinstance(b[0],ast.Expr) and isinstance(getattr(b[0],'value',None),ast.Constant) and isinstance(b[0].value.value,str):
            doc.update(range(b[0].lineno,b[0].end_lineno+1))
for i,l in enumerate(src.split('\n'),1):
    if lo<=i<=hi and i not in doc and l.strip() and not l.strip().startswith('#'):
        print(i,l)

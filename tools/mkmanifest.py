#!/usr/bin/env python3
"""regenerate MANIFEST.json from the table below (kept in one place so it stays valid)"""
import json, os
V = os.path.dirname(os.path.dirname(os.path.abspath(__file__)))
props = [json.loads(l) for l in open(os.path.join(V, 'properties.jsonl'))]
CLAIMED = {
 'C01': dict(text='Proof (Coq): value(result) = plain real evaluation for every expression tree of the real kernel (structural induction, operator bodies regenerated from lib.py each run); role-irrelevance proved for every number instance incl. binary64. Tie: translator + bit-exact correspondence of the hand-written state machine. Complex kernel and totality: correspondence/oracle only (partial).',
             note='Coq kernel, Reals/Coquelicot axioms (classic, sig_forall_dec, sig_not_dec, functional_extensionality_dep), translator, correspondence harness, libm as oracle; rounding not bounded by proof.',
             technique='Coq proof by structural induction over expression trees + translator-regenerated model + bit-exact model/implementation correspondence', ref='6 C01'),
 'C02': dict(text='Proof (Coq): chain rule for every real expression tree: reporting.sensitivity is the partial derivative (Coquelicot is_derive) and u_component is u times it, incl. shared inputs, independent/dependent inputs, plain-number operands; sparse merge = linear combination for all overlap patterns; derivative table re-proved against formulas regenerated from lib.py on every run. atan2 for x<=0, ** for non-positive base and function.implicit: correspondence/oracle only (partial).',
             note='Coq kernel, Reals/Coquelicot axioms, translator, correspondence harness; rounding not bounded by proof.',
             technique='Coq proof (Coquelicot derivatives, induction on trees, sorted-merge lemma) + translator + bit-exact correspondence', ref='6 C02'),

 'C04': dict(text='Proof (Coq): the triangular variance loop and the covariance loop of lib.py equal the LPU double sums for vectors of any length (symmetric r, unit diagonal), covariance symmetric, cov(y,y)=variance(y), get_correlation returns what set_correlation stored in either order; the zero-after-nonzero case is refuted with a witness (known finding). |corr|<=1 under PSD and the complex 2x2 matrix: correspondence/oracle only (partial).',
             note='Coq kernel, Reals axioms, correspondence harness (math.fsum modelled exactly); rounding not bounded by proof.',
             technique='Coq proof (list induction on the variance/covariance loops) + bit-exact correspondence', ref='6 C04'),
 'C06': dict(text='Proof (Coq), for every number instance incl. binary64: result() keeps value and independent/dependent components and adds one intermediate component; every expression tree and every variance/covariance/component report evaluates identically on states that differ only in which objects were declared intermediate (congruence). Chain rule through intermediates, complex/array result(): correspondence + two-run differential oracle (partial).',
             note='Coq kernel (no axioms: closed under the global context), correspondence harness.',
             technique='Coq proof (congruence of the evaluator under same-core relation) + bit-exact correspondence', ref='6 C06'),
 'C10': dict(text='Proof (Coq), for every number instance: every operation of the session state machine (succeeding or raising) and hence every history leaves every existing number unchanged except its uncertainty cache; reads are idempotent; variance = covariance(y,y). Full history independence is refuted with a witness (stale cache after a later set_correlation: known finding); the restricted claim is validated by a history-pair oracle and correspondence.',
             note='Coq kernel, Reals axioms only for the refutation witness, correspondence harness.',
             technique='Coq proof (case analysis over all operations + induction over histories) + bit-exact correspondence', ref='6 C10'),

 'C05': dict(text='Proof (Coq): the Welch-Satterthwaite loop of the model returns (sum v)^2/sum v^2/nu for any number of independent inputs with any mix of finite/infinite dof (NaN iff variance 0, inf iff no finite-dof term), and inf with the LPU variance when every influence has infinite dof. The ensemble/complex-pair case analysis of the loop (faithfully modelled, incl. its assertion paths) is tied to lib.py by bit-exact correspondence and compared with an exact group specification by the oracle; Willink-Hall: oracle only. Three grouping defects for complex inputs are known findings.',
             note='Coq kernel, Reals axioms, correspondence harness; the group theorem for ensembles is not proved (partial).',
             technique='Coq proof (induction on the component list) for the independent case + bit-exact correspondence of the full loop model', ref='6 C05'),
}
NA_REASON = 'machinery for this property is not built yet in this revision (planned: see DESIGN.md section 6); not claimed until its check exists'
m = {
 'version': 1,
 'setup_cmd': './bin/setup',
 'hooks': {'guard': 'MSLNZ_GTC_VERIF', 'enable': 'no source hooks: the harness reaches everything it needs from outside (Context(id=...), module-level math names, private vector attributes)',
           'baseline_off_cmd': 'cd /repo && /venv/bin/python -m pytest -ra -q -p no:cacheprovider --timeout=900 --continue-on-collection-errors --junitxml=/verif/.build/baseline.junit.xml',
           'source_commits': [], 'add_only': True},
 'engines': [{'name': 'coq-model', 'path': 'coq/', 'serves_properties': sorted(CLAIMED), 'kind_free_text': 'Gallina model (Num-parametric: binary64 for correspondence, reals for theorems) + theorems, Coq 8.16.1'},
             {'name': 'harness', 'path': 'harness/', 'serves_properties': sorted(CLAIMED), 'kind_free_text': 'translator + model/implementation correspondence by generated cases.v + vm_compute, oracle search after a break'}],
 'checks': [], 'not_applicable': [],
 'notes': 'See DESIGN.md. Every check: translator -> make -> props/Cnn.v + Print Assumptions -> correspondence -> known findings -> (only after a break) oracle search.',
}
for p in props:
    i = p['id']
    if i in CLAIMED:
        c = CLAIMED[i]
        m['checks'].append({'property_id': i, 'quick_cmd': './bin/check %s quick' % i, 'thorough_cmd': './bin/check %s thorough' % i,
                            'evidence_file': 'evidence/%s.json' % i, 'replay_cmd_template': './bin/check %s --replay {path}' % i,
                            'engine': 'coq-model', 'level_claimed': {'category': 'proof', 'text': c['text'], 'design_ref': 'DESIGN.md ' + c['ref']},
                            'level_note': c['note'], 'technique': c['technique']})
    else:
        m['not_applicable'].append({'property_id': i, 'reason': NA_REASON})
json.dump(m, open(os.path.join(V, 'MANIFEST.json'), 'w'), indent=1)
print('claimed', sorted(CLAIMED))

#!/usr/bin/env python3
"""regenerate MANIFEST.json from the table below (kept in one place so it stays valid)"""
import json, os
V = os.path.dirname(os.path.dirname(os.path.abspath(__file__)))
props = [json.loads(l) for l in open(os.path.join(V, 'properties.jsonl'))]
CLAIMED = {
 'C01': dict(text='Proof (Coq): value(result) = plain real evaluation for every expression tree of the real kernel (structural induction, operator bodies regenerated from lib.py each run); role-irrelevance proved for every number instance incl. binary64. Tie: translator + bit-exact correspondence of the hand-written state machine. Complex kernel and totality: correspondence/oracle only (partial).',
             note='Coq kernel, Reals/Coquelicot axioms (classic, sig_forall_dec, sig_not_dec, functional_extensionality_dep), translator, correspondence harness, libm as oracle; rounding not bounded by proof.',
             technique='Coq proof by structural induction over expression trees + translator-regenerated model + bit-exact model/implementation correspondence', ref='6 C01'),
 'C02': dict(text='Proof (Coq): chain rule for every real expression tree: reporting.sensitivity is the partial derivative (Coquelicot is_derive) and u_component is u times it, incl. shared inputs, independent/dependent inputs, plain-number operands; sparse merge = linear combination for all overlap patterns; derivative table re-proved against formulas regenerated from lib.py on every run. atan2 for x<=0, ** for non-positive base and function.implicit: correspondence/oracle only (partial).',
             note='Coq kernel, Reals/Coquelicot axioms, translator, correspondence harness; rounding not bounded by proof.',
             technique='Coq proof (Coquelicot derivatives, induction on trees, sorted-merge lemma) + translator + bit-exact correspondence', ref='6 C02'),

 'C04': dict(text='Proof (Coq): the triangular variance loop and the covariance loop of lib.py equal the LPU double sums for vectors of any length (symmetric r, unit diagonal), covariance symmetric, cov(y,y)=variance(y), get_correlation returns what set_correlation stored in either order; the zero-after-nonzero case is refuted with a witness (known finding). |corr|<=1 under PSD and the complex 2x2 matrix: correspondence/oracle only (partial).',
             note='Coq kernel, Reals axioms, correspondence harness (math.fsum modelled exactly); rounding not bounded by proof.',
             technique='Coq proof (list induction on the variance/covariance loops) + bit-exact correspondence', ref='6 C04'),
 'C06': dict(text='Proof (Coq), for every number instance incl. binary64: result() keeps value and independent/dependent components and adds one intermediate component; every expression tree and every variance/covariance/component report evaluates identically on states that differ only in which objects were declared intermediate (congruence). Chain rule through intermediates, complex/array result(): correspondence + two-run differential oracle (partial).',
             note='Coq kernel (no axioms: closed under the global context), correspondence harness.',
             technique='Coq proof (congruence of the evaluator under same-core relation) + bit-exact correspondence', ref='6 C06'),
 'C10': dict(text='Proof (Coq), for every number instance: every operation of the session state machine (succeeding or raising) and hence every history leaves every existing number unchanged except its uncertainty cache; reads are idempotent; variance = covariance(y,y). Full history independence is refuted with a witness (stale cache after a later set_correlation: known finding); the restricted claim is validated by a history-pair oracle and correspondence.',
             note='Coq kernel, Reals axioms only for the refutation witness, correspondence harness.',
             technique='Coq proof (case analysis over all operations + induction over histories) + bit-exact correspondence', ref='6 C10'),

 'C05': dict(text='Proof (Coq): the Welch-Satterthwaite loop of the model returns (sum v)^2/sum v^2/nu for any number of independent inputs with any mix of finite/infinite dof (NaN iff variance 0, inf iff no finite-dof term), and inf with the LPU variance when every influence has infinite dof. The ensemble/complex-pair case analysis of the loop (faithfully modelled, incl. its assertion paths) is tied to lib.py by bit-exact correspondence and compared with an exact group specification by the oracle; Willink-Hall: oracle only. Three grouping defects for complex inputs are known findings.',
             note='Coq kernel, Reals axioms, correspondence harness; the group theorem for ensembles is not proved (partial).',
             technique='Coq proof (induction on the component list) for the independent case + bit-exact correspondence of the full loop model', ref='6 C05'),

 'C12': dict(text='Proof (Coq), any N>=2 and M: estimate = mean, s/sqrt N, N-1 (complex: 2x2 covariance of the mean); mean/standard_deviation/standard_uncertainty/variance_covariance_complex agree; multi_estimate_real u_k u_l r_kl = S_kl/(N(N-1)) incl. the cv != 0 guard, |r|<=1; for any linear combination of the returned numbers value/LPU variance/dof equal those of the combined sample (kernel LPU and single-ensemble W-S facts as named hypotheses); estimate_digitized >= s/sqrt N. Formula bodies regenerated from type_a.py each run. multi_estimate_complex full matrix, ucomplex data, labels: correspondence only (partial). Two refuted cases are known findings.',
             note='Coq kernel, Reals axioms/classic/funext, translator tools/tr_type_a_est.py, bit-exact correspondence (compensated builtin sum modelled).',
             technique='Coq proof (list induction, Cauchy-Schwarz) over translator-generated formulas + bit-exact correspondence', ref='6 C12'),
 'C13': dict(text='Proof (Coq), any N>=3: whenever an OLS/WLS/RWLS fit returns, (a,b) solve the (weighted) normal equations, the uncertainties and correlation are sigma^2 (X^T W X)^-1, ssr is the weighted residual sum, dof rule N-2/given/inf; uniqueness; RWLS with equal scale factors = OLS; totality for N>=3; value/u of each prediction input. Formula bodies regenerated from type_a.py, statement-level comparison of the rest. Equivariance proved for OLS values only; prediction dof, label-independence, WTLS wrapper: correspondence/oracle (partial). WLS/RWLS y_from_x TypeError and RWLS scale are refuted (known findings).',
             note='Coq kernel, Reals axioms/classic/funext, translator tools/tr_type_a_fit.py, bit-exact correspondence on top of the kernel state machine; type_b.line_fit_wtls as oracle.',
             technique='Coq proof (field algebra on sums, list induction) over translator-generated formulas + bit-exact correspondence', ref='6 C13'),
 'C15': dict(text='Proof (Coq), all sizes: matmul/dot equal the sum-of-products definition, transpose only permutes, arguments unchanged; forward/back substitution solves a x = b given P a = L U; dual numbers (value + component map) form a commutative ring and every ring identity transfers to value and every component; kernel ureal + - * / are the dual-number operations. P a = L U for ludcmp (hence solve/inv), determinant cofactors, inv(a) a = I, complex elements: hypothesis / correspondence / oracle (partial). Zero-valued rhs shortcut refuted with a dual-number witness (known finding).',
             note='Coq kernel, Reals axioms for the ureal link, funext; faithful LU model executed on int/float/ureal elements bit-exactly against numpy-object arrays.',
             technique='Coq proof (induction on N over an abstract commutative ring; dual-number transfer) + bit-exact correspondence', ref='6 C15'),
 'C19': dict(text='Proof (Coq) over bodies of k_factor, k2_factor_sq, k_to_dof, k2_to_dof, _df_k2 regenerated from reporting.py each run: RuntimeError iff out of range; k_factor is the two-sided quantile of any symmetric cdf whose one-sided quantiles the scipy oracles are; k2_factor_sq = df((1-p)^(-2/(df-1))-1) = 2df/(df-1) x F(2,df-1) quantile, increasing in p, decreasing in df, limit -2ln(1-p) with a bound on the jump at the switch; fn = 0 in _df_k2 iff k2^2 = k2_factor_sq(nu2+1); bracket logic; round trip for k2. Student-t inverse pair and monotonicity of the t quantile: oracle hypotheses (partial). p-range of k2_factor_sq refuted (known finding).',
             note='Coq kernel, Reals axioms/classic/funext (+ constructive_indefinite_description in non-vacuity examples); scipy.special/ridder as Section variables (oracles); translator tools/tr_reporting.py.',
             technique='Coq proof (real analysis with Coquelicot, MVT/IVT) over translator-generated bodies + correspondence with scipy results as oracle table', ref='6 C19'),

 'C07': dict(text='Proof (Coq), all archives: JSON and XML codecs decode(encode f) = image f with the representation changes explicit; thaw in a fresh context restores every leaf attribute and node record; freeze -> {pickle, JSON, XML} -> thaw gives identical x, uc, dc, uid and ic w.r.t. archived intermediates whenever the load succeeds. Load success under session invariants, complex end to end, report congruence of continued calculations, same-session re-attachment, legacy reader: bit-exact correspondence of freeze/documents/readers/thaw + original-vs-restored differential (partial). Three refuted cases are known findings.',
             note='Coq kernel (closed or funext), correspondence harness incl. real subprocess sessions and shipped reference files in the thorough tier; json/xml/pickle libraries trusted as parsers/printers.',
             technique='Coq proof (induction over archive collections; codec round trips) + bit-exact correspondence of freeze/codec/thaw stages', ref='6 C07'),
 'C16': dict(text='Proof (Coq, no axioms), every element type, shape, rank and history: NumPy broadcast index map; every binary ufunc incl. comparisons and scalar-array combinations is the element-wise lifting with the broadcast shape after any history; unary ufuncs, views, copy, result, sensitivity zips are element-wise with the own shape on objects holding no remembered shape; history independence for histories without a broadcasting binary op, and in general for binary ufuncs. History dependence through the stale _broadcasted_shape, arctan2 dispatch/broadcast defects, non-broadcasting zips and pickle loss are refuted with witnesses (known findings). Structured arrays, slicing, matmul, reductions: not modelled.',
             note='Coq kernel (closed under the global context); numpy broadcasting is the correspondence partner; scalar operations as a recorded table.',
             technique='Coq proof (induction on rank; state machine over array objects) + exact correspondence of shapes, element ids and remembered shapes', ref='6 C16'),
 'C20': dict(text='Proof (Coq), all inputs: mul2 of two reals has the exact second-order variance for both estimated values, attribution to the union of influences, budget rss = u, the four preconditions; complex/mixed products as sums of real second-order products; % and fmod: Python value, components of x unchanged for every sign, errors exactly at y = 0; merge: value of a, components of both, raises beyond TOL; implicit: components are -u_i(F)/(dF/dx) at the returned point, RuntimeError on empty range / no sign change. Weight formulas, tolerances and value expressions regenerated from source each run. Convergence of the root loop, fn(x)=0 in all components, complex merge/implicit: correspondence (partial). Root at a bracket end refuted (known finding).',
             note='Coq kernel, Reals axioms/classic/funext, translator tools/tr_special.py, bit-exact correspondence incl. the Newton/bisection loop with fn evaluated by the kernel evaluator.',
             technique='Coq proof (vector algebra + LPU + ChainRule Den) over translator-generated formulas + bit-exact correspondence', ref='6 C20'),

 'C17': dict(text='Proof (Coq): the complete real budget/components is a permutation of one row per key of the independent and dependent vectors with the leaf uid and |u_component| (NoDup, exact length); root-sum-square = u(y) for uncorrelated influences (via the LPU theorem); trim/sort/reverse/max_number only filter, order and truncate (every number instance); influences=[...] and intermediate=True for real y; complex budgets under the pairing invariant, with the invariant derived from "both components present". Complex intermediate/influences rows, label texts, timsort: correspondence (partial). Four refuted cases (partial complex pair, real y with complex influence, components attribute error, zero rows for dependent influences of a complex y) are known findings.',
             note='Coq kernel, Reals axioms/classic/funext, exact correspondence of all rows (labels, u by bits, uids, exception classes).',
             technique='Coq proof (permutation/sortedness list lemmas over the kernel vectors, LPU) + exact row-by-row correspondence', ref='6 C17'),

 'C11': dict(text='Proof (Coq) over validation predicates regenerated from core.py/lib.py each run (source order, exception classes), evaluated on extended reals with IEEE NaN/inf semantics: accept <=> in-limits for ureal, ucomplex (scalar/2-seq/4-seq, 1e-10 tolerance), multiple_ureal (all lengths), set_correlation_real and core.set_correlation on elementary reals in any state; exception class of every rejection; no-bad-number invariant over every program of declarations; rejected ureal/set_correlation leave the state identical; the kernel model agrees with the generated decisions. Estimators, ucomplex/multiple_ucomplex state-level no-effect, method dispatch: correspondence/oracle (partial). NaN correlation accepted, partial effects of a rejected complex set_correlation, AttributeError rejections, complex estimate with r = 0, collinear |r| = 1+ulp are refuted (known findings).',
             note='Coq kernel, Reals axioms/classic/funext, float primitives; translator tools/tr_core_checks.py; class-table x boundary correspondence.',
             technique='Coq proof (decision tables over IEEE classes, induction over declaration programs) over translator-generated predicates + correspondence', ref='6 C11'),
}
NA_REASON = 'machinery for this property is not built yet in this revision (planned: see DESIGN.md section 6); not claimed until its check exists'
m = {
 'version': 1,
 'setup_cmd': './bin/setup',
 'hooks': {'guard': 'MSLNZ_GTC_VERIF', 'enable': 'no source hooks: the harness reaches everything it needs from outside (Context(id=...), module-level math names, private vector attributes)',
           'baseline_off_cmd': 'cd /repo && /venv/bin/python -m pytest -ra -q -p no:cacheprovider --timeout=900 --continue-on-collection-errors --junitxml=/verif/.build/baseline.junit.xml',
           'source_commits': [], 'add_only': True},
 'engines': [{'name': 'coq-model', 'path': 'coq/', 'serves_properties': sorted(CLAIMED), 'kind_free_text': 'Gallina model (Num-parametric: binary64 for correspondence, reals for theorems) + theorems, Coq 8.16.1'},
             {'name': 'harness', 'path': 'harness/', 'serves_properties': sorted(CLAIMED), 'kind_free_text': 'translator + model/implementation correspondence by generated cases.v + vm_compute, oracle search after a break'}],
 'checks': [], 'not_applicable': [],
 'notes': 'See DESIGN.md. Every check: translator -> make -> props/Cnn.v + Print Assumptions -> correspondence -> known findings -> (only after a break) oracle search.',
}
for p in props:
    i = p['id']
    if i in CLAIMED:
        c = CLAIMED[i]
        m['checks'].append({'property_id': i, 'quick_cmd': './bin/check %s quick' % i, 'thorough_cmd': './bin/check %s thorough' % i,
                            'evidence_file': 'evidence/%s.json' % i, 'replay_cmd_template': './bin/check %s --replay {path}' % i,
                            'engine': 'coq-model', 'level_claimed': {'category': 'proof', 'text': c['text'], 'design_ref': 'DESIGN.md ' + c['ref']},
                            'level_note': c['note'], 'technique': c['technique']})
    else:
        m['not_applicable'].append({'property_id': i, 'reason': NA_REASON})
json.dump(m, open(os.path.join(V, 'MANIFEST.json'), 'w'), indent=1)
print('claimed', sorted(CLAIMED))

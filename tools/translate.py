#!/usr/bin/env python3
"""translate.py -- fail-closed Python-ast -> Gallina translator for the formula-level parts
of MSLNZ/GTC.  Usage: translate.py <repo> <outdir>

For every function in its worklist it emits a Num-parametric, res-monadic Gallina definition
that is *the same computation* (same operations, same order, same branches) as the Python
source in <repo>'s working tree.  Anything outside the recognised subset makes that one
definition ABSENT from the output (with a comment saying why), so that whatever proof or
model depends on it stops compiling: the translator never guesses and never reuses an old
definition.

Recognised subset (see DESIGN.md 4.1): straight-line float code -- names, int/float
constants, + - * / ** unary -, abs(), float(), math.<fn>(), comparisons, conditional
expressions, if/else over assignments, and `return` of one of the result shapes of
lib.py (new UncertainReal from scale_vector / merge_weighted_vectors / merge_vectors /
Vector(copy=), an operand itself, a plain constant, -operand, self*self, a constant
uncertain number, or the complex fall-back).
"""
import ast, sys, os, math

class Untranslatable(Exception):
    pass

MATH1 = {'exp':'F_exp','log':'F_log','log10':'F_log10','sqrt':'F_sqrt','sin':'F_sin','cos':'F_cos',
         'tan':'F_tan','asin':'F_asin','acos':'F_acos','atan':'F_atan','sinh':'F_sinh','cosh':'F_cosh',
         'tanh':'F_tanh','asinh':'F_asinh','acosh':'F_acosh','atanh':'F_atanh'}
MATH2 = {'atan2':'F_atan2','copysign':'F_copysign','fmod':'F_fmod','hypot':'F_hypot','pow':'F_pow'}
NAMED_CONST = {'LOG10_E':'(c_log10e N)'}

def dyadic(v):
    """exact (m, e) with v == m * 2**e"""
    if isinstance(v, bool):
        raise Untranslatable('bool constant')
    if isinstance(v, int):
        return 'Z', v
    if isinstance(v, float):
        if math.isnan(v) or math.isinf(v):
            raise Untranslatable('non-finite constant')
        n, d = v.as_integer_ratio()
        e = -(d.bit_length() - 1)
        assert d == 1 << (-e)
        if d == 1:
            # integral float: reduce mantissa
            e = 0
            while n != 0 and n % 2 == 0 and abs(n) >= (1 << 53):
                n //= 2; e += 1
        return 'D', (n, e)
    raise Untranslatable('constant %r' % (v,))

def zlit(z):
    return '(%d)%%Z' % z if z < 0 else '%d%%Z' % z

class FunCompiler:
    """compiles one function body (or one isinstance-branch of it)"""
    def __init__(self, env):
        self.env = dict(env)     # python name/attr-expression -> gallina term
        self.tmp = 0

    def fresh(self, base='t'):
        self.tmp += 1
        return '%s_%d' % (base, self.tmp)

    # ---- expressions: returns (prelude, term); prelude = list of "pat <- rhs" strings
    def expr(self, e):
        if isinstance(e, ast.Constant):
            kind, v = dyadic(e.value)
            if kind == 'Z':
                return [], '(of_Z N %s)' % zlit(v)
            return [], '(dyad N %s %s)' % (zlit(v[0]), zlit(v[1]))
        key = self.keyof(e)
        if key is not None and key in self.env:
            return [], self.env[key]
        if isinstance(e, ast.Name):
            if e.id in NAMED_CONST:
                return [], NAMED_CONST[e.id]
            raise Untranslatable('unbound name %s' % e.id)
        if isinstance(e, ast.UnaryOp):
            p, t = self.expr(e.operand)
            if isinstance(e.op, ast.USub):
                return p, '(neg N %s)' % t
            if isinstance(e.op, ast.UAdd):
                return p, t
            raise Untranslatable('unary op')
        if isinstance(e, ast.BinOp):
            pl, tl = self.expr(e.left)
            pr, tr = self.expr(e.right)
            p = pl + pr
            if isinstance(e.op, ast.Add):  return p, '(add N %s %s)' % (tl, tr)
            if isinstance(e.op, ast.Sub):  return p, '(sub N %s %s)' % (tl, tr)
            if isinstance(e.op, ast.Mult): return p, '(mul N %s %s)' % (tl, tr)
            if isinstance(e.op, ast.Div):
                v = self.fresh('q')
                return p + ['%s <- div N %s %s' % (v, tl, tr)], v
            if isinstance(e.op, ast.Pow):
                v = self.fresh('p')
                return p + ['%s <- libm2 N F_pow %s %s' % (v, tl, tr)], v
            if isinstance(e.op, ast.Mod):
                v = self.fresh('m')
                return p + ['%s <- libm2 N F_pymod %s %s' % (v, tl, tr)], v
            raise Untranslatable('binary op %s' % type(e.op).__name__)
        if isinstance(e, ast.Call):
            f = e.func
            if e.keywords:
                raise Untranslatable('keyword call')
            if isinstance(f, ast.Name) and f.id == 'float' and len(e.args) == 1:
                return self.expr(e.args[0])
            if isinstance(f, ast.Name) and f.id == 'abs' and len(e.args) == 1:
                p, t = self.expr(e.args[0])
                return p, '(nabs N %s)' % t
            if isinstance(f, ast.Attribute) and isinstance(f.value, ast.Name) and f.value.id == 'math':
                if f.attr in MATH1 and len(e.args) == 1:
                    p, t = self.expr(e.args[0])
                    v = self.fresh('m')
                    return p + ['%s <- libm1 N %s %s' % (v, MATH1[f.attr], t)], v
                if f.attr in MATH2 and len(e.args) == 2:
                    p1, t1 = self.expr(e.args[0]); p2, t2 = self.expr(e.args[1])
                    v = self.fresh('m')
                    return p1 + p2 + ['%s <- libm2 N %s %s %s' % (v, MATH2[f.attr], t1, t2)], v
            if (isinstance(f, ast.Attribute) and isinstance(f.value, ast.Name) and f.value.id == 'float'
                    and f.attr in ('__mul__', '__add__', '__sub__') and len(e.args) == 2):
                op = {'__mul__': 'mul', '__add__': 'add', '__sub__': 'sub'}[f.attr]
                p1, t1 = self.expr(e.args[0]); p2, t2 = self.expr(e.args[1])
                return p1 + p2, '(%s N %s %s)' % (op, t1, t2)
            raise Untranslatable('call %s' % ast.dump(f))
        if isinstance(e, ast.IfExp):
            c = self.test(e.test)
            pa, ta = self.expr(e.body); pb, tb = self.expr(e.orelse)
            v = self.fresh('c')
            return ['%s <- (if %s then %s else %s)' % (v, c, self.close(pa, 'Ok ' + ta), self.close(pb, 'Ok ' + tb))], v
        raise Untranslatable('expression %s' % type(e).__name__)

    def keyof(self, e):
        if isinstance(e, ast.Name):
            return e.id
        if isinstance(e, ast.Attribute) and isinstance(e.value, ast.Name):
            return '%s.%s' % (e.value.id, e.attr)
        return None

    def close(self, prelude, final):
        s = final
        for b in reversed(prelude):
            s = '(%s ;; %s)' % (b, s)
        return s if prelude else '(%s)' % final

    def test(self, t):
        """a pure boolean test (its operands must be prelude-free)"""
        if isinstance(t, ast.Compare) and len(t.ops) == 1:
            pl, tl = self.expr(t.left); pr, tr = self.expr(t.comparators[0])
            if pl or pr:
                raise Untranslatable('effectful comparison operand')
            op = t.ops[0]
            if isinstance(op, ast.Eq):    return '(eqb N %s %s)' % (tl, tr)
            if isinstance(op, ast.NotEq): return '(negb (eqb N %s %s))' % (tl, tr)
            if isinstance(op, ast.Lt):    return '(ltb N %s %s)' % (tl, tr)
            if isinstance(op, ast.Gt):    return '(ltb N %s %s)' % (tr, tl)
            if isinstance(op, ast.LtE):   return '(leb N %s %s)' % (tl, tr)
            if isinstance(op, ast.GtE):   return '(leb N %s %s)' % (tr, tl)
        raise Untranslatable('test %s' % ast.dump(t))

    # ---- statements
    def assigned(self, stmts):
        out = []
        for s in stmts:
            if isinstance(s, ast.Assign):
                for t in s.targets:
                    if not isinstance(t, ast.Name):
                        raise Untranslatable('assignment target')
                    if t.id not in out: out.append(t.id)
            elif isinstance(s, ast.If):
                for n in self.assigned(s.body) + self.assigned(s.orelse):
                    if n not in out: out.append(n)
            elif isinstance(s, (ast.Return, ast.Raise, ast.Assert)):
                pass
            else:
                raise Untranslatable('statement %s' % type(s).__name__)
        return out

    def returns(self, stmts):
        return any(isinstance(s, (ast.Return, ast.Raise)) or
                   (isinstance(s, ast.If) and (self.returns(s.body) or self.returns(s.orelse)))
                   for s in stmts)

    def block(self, stmts):
        """a statement list ending in return/raise on every path -> gallina term : res (opres)"""
        if not stmts:
            raise Untranslatable('fall off the end of a block')
        s, rest = stmts[0], stmts[1:]
        if isinstance(s, ast.Assign):
            p, t = self.expr(s.value)
            saved = dict(self.env)
            for tgt in s.targets:
                if not isinstance(tgt, ast.Name):
                    raise Untranslatable('assignment target')
            v = self.fresh(s.targets[0].id)
            for tgt in s.targets:
                self.env[tgt.id] = v
            body = self.block(rest)
            self.env = saved
            return self.close(p, '(let %s := %s in %s)' % (v, t, body))
        if isinstance(s, ast.Return):
            return self.ret(s.value)
        if isinstance(s, ast.Raise):
            return '(Err %s)' % self.exn(s.exc)
        if isinstance(s, ast.If):
            if self.is_pow_guard(s):
                return self.pow_guard(s)
            c = self.test(s.test)
            if self.returns(s.body) and self.returns(s.orelse) and not rest:
                saved = dict(self.env)
                a = self.block(s.body); self.env = dict(saved)
                b = self.block(s.orelse); self.env = saved
                return '(if %s then %s else %s)' % (c, a, b)
            if self.returns(s.body) and not self.returns(s.orelse):
                # if c: return ... ; (else assigns) ; rest
                saved = dict(self.env)
                a = self.block(s.body); self.env = dict(saved)
                b = self.block(list(s.orelse) + rest); self.env = saved
                return '(if %s then %s else %s)' % (c, a, b)
            if not self.returns(s.body) and not self.returns(s.orelse):
                names = self.assigned(s.body)
                if sorted(names) != sorted(self.assigned(s.orelse)) or not names:
                    raise Untranslatable('if/else assigning different variables')
                def arm(stm):
                    saved = dict(self.env)
                    pre = []
                    for a in stm:
                        if not isinstance(a, ast.Assign):
                            raise Untranslatable('nested control flow in assigning if')
                        p, t = self.expr(a.value)
                        v = self.fresh(a.targets[0].id)
                        pre += p + ["%s <- Ok %s" % (v, t)]
                        for tgt in a.targets:
                            self.env[tgt.id] = v
                    tup = self.tuple_of([self.env[n] for n in names])
                    self.env = saved
                    return self.close(pre, 'Ok %s' % tup)
                a = arm(s.body); b = arm(s.orelse)
                vs = [self.fresh(n) for n in names]
                saved = dict(self.env)
                for n, v in zip(names, vs):
                    self.env[n] = v
                body = self.block(rest)
                self.env = saved
                pat = self.tuple_of(vs)
                if len(vs) > 1: pat = "'" + pat
                return '(%s <- (if %s then %s else %s) ;; %s)' % (pat, c, a, b, body)
            raise Untranslatable('if shape')
        if isinstance(s, ast.Try):
            if self.is_pow_try(s) and rest and isinstance(rest[0], ast.If) and self.is_pow_isinstance(rest[0]):
                return self.pow_try(s, rest[0], rest[1:])
            raise Untranslatable('try shape')
        if isinstance(s, ast.Assert):
            return self.block(rest)
        raise Untranslatable('statement %s' % type(s).__name__)

    def tuple_of(self, xs):
        return xs[0] if len(xs) == 1 else '(%s)' % ', '.join(xs)

    def exn(self, e):
        name = None
        if isinstance(e, ast.Call) and isinstance(e.func, ast.Name): name = e.func.id
        if isinstance(e, ast.Name): name = e.id
        ok = {'ValueError','TypeError','RuntimeError','ZeroDivisionError','OverflowError','NotImplementedError'}
        if name in ok: return name
        raise Untranslatable('raise %r' % name)

    # ---- the `try: y = l**r except (ValueError, FloatingPointError): return <complex>` idiom
    def is_pow_guard(self, s): return False
    def is_pow_try(self, s):
        return (len(s.body) == 1 and isinstance(s.body[0], ast.Assign)
                and isinstance(s.body[0].value, ast.BinOp) and isinstance(s.body[0].value.op, ast.Pow)
                and len(s.handlers) == 1 and not s.orelse and not s.finalbody
                and len(s.handlers[0].body) == 1 and isinstance(s.handlers[0].body[0], ast.Return)
                and self.is_complex_fallback(s.handlers[0].body[0].value)
                and self.handler_names(s.handlers[0]) == ['ValueError', 'FloatingPointError'])
    def handler_names(self, h):
        t = h.type
        if isinstance(t, ast.Tuple): return [getattr(x, 'id', None) for x in t.elts]
        return [getattr(t, 'id', None)]
    def is_pow_isinstance(self, s):
        def isinst(t, cls):
            return (isinstance(t, ast.Call) and isinstance(t.func, ast.Name) and t.func.id == 'isinstance'
                    and len(t.args) == 2 and isinstance(t.args[0], ast.Name) and t.args[0].id == 'y'
                    and isinstance(t.args[1], ast.Attribute) and t.args[1].attr == cls)
        if not isinst(s.test, 'Real'): return False
        if len(s.orelse) != 1 or not isinstance(s.orelse[0], ast.If): return False
        e = s.orelse[0]
        if not isinst(e.test, 'Complex'): return False
        if not (len(e.body) == 1 and isinstance(e.body[0], ast.Return) and self.is_complex_fallback(e.body[0].value)):
            return False
        return len(e.orelse) == 1 and isinstance(e.orelse[0], ast.Assert)
    def is_complex_fallback(self, e):
        # (lhs + 0j)**rhs   or   lhs**(rhs + 0j)
        def plus0j(x):
            return (isinstance(x, ast.BinOp) and isinstance(x.op, ast.Add) and isinstance(x.left, ast.Name)
                    and isinstance(x.right, ast.Constant) and x.right.value == 0j)
        return (isinstance(e, ast.BinOp) and isinstance(e.op, ast.Pow)
                and ((plus0j(e.left) and isinstance(e.right, ast.Name) and e.left.left.id == 'lhs' and e.right.id == 'rhs')
                     or (isinstance(e.left, ast.Name) and plus0j(e.right) and e.left.id == 'lhs' and e.right.left.id == 'rhs')))
    def pow_try(self, tr, iff, rest):
        if rest: raise Untranslatable('code after pow dispatch')
        a = tr.body[0]
        pl, tl = self.expr(a.value.left); pr, tr_ = self.expr(a.value.right)
        v = self.fresh('y')
        saved = dict(self.env)
        self.env[a.targets[0].id] = v
        body = self.block(iff.body)
        self.env = saved
        return self.close(pl + pr, '(pow_guard N %s %s (fun %s => %s))' % (tl, tr_, v, body))

    # ---- result shapes
    def ret(self, e):
        if e is None: raise Untranslatable('bare return')
        if isinstance(e, ast.Name) and e.id in ('lhs', 'self') and self.env.get('@' + e.id) == 'L':
            return '(Ok (OSame L))'
        if isinstance(e, ast.Name) and e.id in ('rhs',) and self.env.get('@rhs') == 'Rt':
            return '(Ok (OSame Rt))'
        if isinstance(e, ast.Name) and e.id in ('lhs',) and self.env.get('@lhs') == 'Rt':
            return '(Ok (OSame Rt))'
        if isinstance(e, ast.Constant) and isinstance(e.value, (int, float)) and not isinstance(e.value, bool):
            p, t = self.expr(e)
            return '(Ok (OPlain %s))' % t
        if isinstance(e, ast.UnaryOp) and isinstance(e.op, ast.USub) and isinstance(e.operand, ast.Name) \
                and ('@' + e.operand.id) in self.env:
            return '(Ok (ONegOf %s))' % self.env['@' + e.operand.id]
        if self.is_complex_fallback(e):
            return '(Ok OToComplex)'
        if isinstance(e, ast.BinOp) and isinstance(e.op, ast.Mult) and isinstance(e.left, ast.Name) \
                and isinstance(e.right, ast.Name) and e.left.id == 'self' and e.right.id == 'self':
            return '(Ok OSelfMul)'
        if isinstance(e, ast.Call):
            f = e.func
            if isinstance(f, ast.Name) and f.id == 'UncertainReal':
                return self.new_un(e)
            if isinstance(f, ast.Attribute) and f.attr == '_constant' and isinstance(f.value, ast.Name) \
                    and f.value.id == 'UncertainReal' and len(e.args) == 1 and not e.keywords:
                p, t = self.expr(e.args[0])
                return self.close(p, 'Ok (OConst %s)' % t)
        raise Untranslatable('return shape %s' % ast.dump(e)[:80])

    def vec_shape(self, e, comp):
        """classify one component-vector argument; comp in 'u','d','i'"""
        attr = '_%s_components' % comp
        def operand(x):
            if isinstance(x, ast.Attribute) and x.attr == attr and isinstance(x.value, ast.Name) \
                    and ('@' + x.value.id) in self.env:
                return self.env['@' + x.value.id]
            raise Untranslatable('vector operand')
        if not isinstance(e, ast.Call): raise Untranslatable('vector expr')
        f = e.func
        name = f.attr if isinstance(f, ast.Attribute) else getattr(f, 'id', None)
        if name == 'scale_vector' and len(e.args) == 2:
            return ('scale', operand(e.args[0]), e.args[1])
        if name == 'merge_weighted_vectors' and len(e.args) == 4:
            if operand(e.args[0]) != 'L' or operand(e.args[2]) != 'Rt':
                raise Untranslatable('merge operand order')
            return ('mergew', e.args[1], e.args[3])
        if name == 'merge_vectors' and len(e.args) == 2:
            if operand(e.args[0]) != 'L' or operand(e.args[1]) != 'Rt':
                raise Untranslatable('merge operand order')
            return ('merge',)
        if name == 'Vector' and not e.args and len(e.keywords) == 1 and e.keywords[0].arg == 'copy':
            return ('copy', operand(e.keywords[0].value))
        raise Untranslatable('vector routine %s' % name)

    def new_un(self, e):
        if len(e.args) != 4 or e.keywords:
            raise Untranslatable('UncertainReal(...) arity')
        shapes = [self.vec_shape(a, c) for a, c in zip(e.args[1:], 'udi')]
        def norm(s):
            return tuple(ast.dump(x) if isinstance(x, ast.AST) else x for x in s)
        if not (norm(shapes[0]) == norm(shapes[1]) == norm(shapes[2])):
            raise Untranslatable('the three component vectors are not built alike')
        s = shapes[0]
        p, y = self.expr(e.args[0])
        if s[0] == 'scale':
            pw, w = self.expr(s[2])
            return self.close(p + pw, 'Ok (OScale %s %s %s)' % (s[1], y, w))
        if s[0] == 'mergew':
            p1, w1 = self.expr(s[1]); p2, w2 = self.expr(s[2])
            return self.close(p + p1 + p2, 'Ok (OMergeW %s %s %s)' % (y, w1, w2))
        if s[0] == 'merge':
            return self.close(p, 'Ok (OMerge %s)' % y)
        if s[0] == 'copy':
            return self.close(p, 'Ok (OCopy %s %s)' % (s[1], y))
        raise Untranslatable('shape')


def find_func(tree, name, cls=None):
    body = tree.body
    if cls:
        for n in body:
            if isinstance(n, ast.ClassDef) and n.name == cls:
                body = n.body; break
        else:
            return None
    for n in body:
        if isinstance(n, ast.FunctionDef) and n.name == name:
            return n
    return None

def strip_doc(stmts):
    if stmts and isinstance(stmts[0], ast.Expr) and isinstance(stmts[0].value, ast.Constant) \
            and isinstance(stmts[0].value.value, str):
        return stmts[1:]
    return stmts

def isinstance_branches(fn, var):
    """split `if isinstance(var, A): .. elif isinstance(var, B): .. else: ..` -> {classname: stmts}"""
    stmts = strip_doc(fn.body)
    if len(stmts) != 1 or not isinstance(stmts[0], ast.If):
        raise Untranslatable('dispatch shape')
    out = {}
    node = stmts[0]
    while True:
        t = node.test
        if not (isinstance(t, ast.Call) and isinstance(t.func, ast.Name) and t.func.id == 'isinstance'
                and isinstance(t.args[0], ast.Name) and t.args[0].id == var):
            raise Untranslatable('dispatch test')
        c = t.args[1]
        cname = c.id if isinstance(c, ast.Name) else c.attr
        out[cname] = node.body
        if len(node.orelse) == 1 and isinstance(node.orelse[0], ast.If):
            node = node.orelse[0]
        else:
            out['@else'] = node.orelse
            break
    return out

def emit_def(out, name, params, thunk):
    try:
        body = thunk()
        out.append('Definition %s (N : Num) %s : res (opres (T N)) :=\n  %s.\n' % (name, params, body))
        return True
    except Untranslatable as ex:
        out.append('(* UNTRANSLATABLE %s: %s *)\n' % (name, ex))
        return False

UNARY = ['_exp','_log','_log10','_sqrt','_sin','_cos','_tan','_asin','_acos','_atan',
         '_sinh','_cosh','_tanh','_asinh','_acosh','_atanh','_magnitude','_mag_squared','_phase',
         '__neg__','__pos__']

def gen_lib_real(repo, outdir):
    src = open(os.path.join(repo, 'GTC', 'lib.py')).read()
    tree = ast.parse(src)
    out = ['(* GENERATED by tools/translate.py from GTC/lib.py -- do not edit *)',
           'From Coq Require Import ZArith Bool.',
           'From GTCV Require Import Num Opres.', '']
    status = {}
    for u in UNARY:
        fn = find_func(tree, u, 'UncertainReal')
        gname = 'g_' + u.strip('_')
        if fn is None:
            out.append('(* MISSING %s *)\n' % u); status[gname] = False; continue
        def th(fn=fn):
            c = FunCompiler({'self.x': 'x', 'self._x': 'x', '@self': 'L'})
            return c.block(strip_doc(fn.body))
        status[gname] = emit_def(out, gname, '(x : T N)', th)
    # two-argument atan2 helpers
    for nm, env in [('_atan2_re_re', {'lhs.x': 'l', 'rhs.x': 'r', '@lhs': 'L', '@rhs': 'Rt'}),
                    ('_atan2_x_re', {'y': 'l', 'rhs.x': 'r', '@rhs': 'Rt'}),
                    ('_atan2_re_x', {'lhs.x': 'l', 'x': 'r', '@lhs': 'L'})]:
        fn = find_func(tree, nm)
        gname = 'g' + nm
        if fn is None:
            out.append('(* MISSING %s *)\n' % nm); status[gname] = False; continue
        def th(fn=fn, env=env):
            return FunCompiler(env).block(strip_doc(fn.body))
        status[gname] = emit_def(out, gname, '(l r : T N)', th)
    # operators: dispatch on the class of the other operand
    for nm, var in [('_pow','rhs'),('_rpow','lhs'),('_div','rhs'),('_rdiv','lhs'),('_mul','rhs'),('_rmul','lhs'),
                    ('_sub','rhs'),('_rsub','lhs'),('_add','rhs'),('_radd','lhs')]:
        fn = find_func(tree, nm)
        if fn is None:
            out.append('(* MISSING %s *)\n' % nm); status['g%s_un' % nm] = status['g%s_num' % nm] = False; continue
        try:
            br = isinstance_branches(fn, var)
        except Untranslatable as ex:
            out.append('(* UNTRANSLATABLE dispatch of %s: %s *)\n' % (nm, ex)); continue
        reflected = (var == 'lhs')
        if 'UncertainReal' in br:
            def th(b=br['UncertainReal']):
                return FunCompiler({'lhs.x': 'l', 'rhs.x': 'r', '@lhs': 'L', '@rhs': 'Rt'}).block(b)
            status['g%s_un' % nm] = emit_def(out, 'g%s_un' % nm, '(l r : T N)', th)
        if 'Real' in br:
            if reflected:   # lhs is the number, rhs the uncertain number
                env = {'lhs': 'l', 'rhs.x': 'r', '@rhs': 'Rt'}
            else:
                env = {'lhs.x': 'l', 'rhs': 'r', '@lhs': 'L'}
            def th(b=br['Real'], env=env):
                return FunCompiler(env).block(b)
            status['g%s_num' % nm] = emit_def(out, 'g%s_num' % nm, '(l r : T N)', th)
    os.makedirs(outdir, exist_ok=True)
    open(os.path.join(outdir, 'Gen_lib_real.v'), 'w').write('\n'.join(out) + '\n')
    return status

def main():
    repo, outdir = sys.argv[1], sys.argv[2]
    st = gen_lib_real(repo, outdir)
    bad = [k for k, v in st.items() if not v]
    print('translate: Gen_lib_real.v: %d definitions, %d untranslatable %s' % (len(st) - len(bad), len(bad), bad))

if __name__ == '__main__':
    main()

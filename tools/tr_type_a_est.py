#!/usr/bin/env python3
"""tr_type_a_est.py -- fail-closed Python-ast -> Gallina translator for the straight-line formula
bodies of the sample estimators in GTC/type_a.py (estimate, estimate_digitized, mean,
standard_deviation, standard_uncertainty, variance_covariance_complex, multi_estimate_real,
multi_estimate_complex) and GTC/type_b.py (mean).      Usage: tr_type_a_est.py <repo> <outdir>

Output: <outdir>/Gen_type_a_est.v.  Each definition is the same computation (same operations,
same order, same branches) as the statement(s) it is taken from.  The loops, list building and
uncertain-number bookkeeping around them are hand-modelled in coq/TypeAEst.v (tied by the
correspondence run); the formulas are NOT typed by hand.  A statement that cannot be located or is
outside the recognised subset leaves its definition ABSENT (comment in the output), so the model
and proofs that use it stop compiling: never a guess, never a stale definition.

Typed expression subset: names bound in the environment (floats `T N`, Python ints `Z`, bools,
float lists, lists of (re, im) pairs), int and float constants, + - * / ** unary -, abs, float,
value(x) (identity on numbers), max(a,b), math.sqrt, sys.float_info.epsilon, comparisons (also a < b < c),
conditional expressions, the module's helper _clip_r,
`lambda psum,x: ...` bound to a name and used in `reduce(name, seq, const)`,
`math.fsum(<elt> for v in seq)` / `math.fsum(<elt> for a,b in izip(s1,s2))` / `math.fsum(seq)`,
assignments, augmented +=, if/elif/else, raise, assert False, return.
Python ints stay in Z (exact) and are converted with of_Z where they meet a float."""
import ast, sys, os
sys.path.insert(0, os.path.dirname(os.path.abspath(__file__)))
from translate import Untranslatable, dyadic, zlit, find_func, strip_doc

EXN_OK = {'ValueError', 'TypeError', 'RuntimeError', 'ZeroDivisionError', 'OverflowError', 'AssertionError'}

def U(e):
    return ast.unparse(e)

class EC(object):
    """env: unparse-string -> (kind, term); kind in T (float), Z (int), B (bool), LT (list T),
    LP (list (T*T)), LAM (lambda node)"""
    def __init__(self, env, ret=None):
        self.env = dict(env)
        self.tmp = 0
        self.ret = ret          # function(Return value node, self) -> term   (for `return`)

    def fresh(self, base='t'):
        self.tmp += 1
        return '%s_%d' % (''.join(c if c.isalnum() else '_' for c in base), self.tmp)

    def close(self, prelude, final):
        s = final
        for b in reversed(prelude):
            s = '(%s ;; %s)' % (b, s)
        return s if prelude else '(%s)' % final

    def asT(self, k, t):
        if k == 'T': return t
        if k == 'Z': return '(of_Z N %s)' % t
        raise Untranslatable('a %s where a number is needed' % k)

    # -------------------------------------------------------------- expressions
    def expr(self, e):
        """-> (prelude, kind, term)"""
        key = U(e)
        if key in self.env:
            k, t = self.env[key]
            if k == 'LAM': raise Untranslatable('lambda used as a value')
            return [], k, t
        if isinstance(e, ast.Constant):
            if isinstance(e.value, bool): raise Untranslatable('bool constant')
            kind, v = dyadic(e.value)
            if kind == 'Z': return [], 'Z', zlit(v)
            return [], 'T', '(dyad N %s %s)' % (zlit(v[0]), zlit(v[1]))
        if key == 'sys.float_info.epsilon':
            return [], 'T', '(dyad N 1%Z (-52)%Z)'
        if isinstance(e, ast.Name):
            raise Untranslatable('unbound name %s' % e.id)
        if isinstance(e, ast.UnaryOp):
            p, k, t = self.expr(e.operand)
            if isinstance(e.op, ast.USub):
                return (p, 'Z', '(- %s)%%Z' % t) if k == 'Z' else (p, 'T', '(neg N %s)' % self.asT(k, t))
            if isinstance(e.op, ast.UAdd): return p, k, t
            raise Untranslatable('unary op')
        if isinstance(e, ast.BinOp):
            pl, kl, tl = self.expr(e.left)
            pr, kr, tr = self.expr(e.right)
            p = pl + pr
            both_int = (kl == 'Z' and kr == 'Z')
            if isinstance(e.op, (ast.Add, ast.Sub, ast.Mult)):
                sym = {ast.Add: ('+', 'add'), ast.Sub: ('-', 'sub'), ast.Mult: ('*', 'mul')}[type(e.op)]
                if both_int: return p, 'Z', '(%s %s %s)%%Z' % (tl, sym[0], tr)
                return p, 'T', '(%s N %s %s)' % (sym[1], self.asT(kl, tl), self.asT(kr, tr))
            if isinstance(e.op, ast.Div):
                v = self.fresh('q')
                return p + ['%s <- div N %s %s' % (v, self.asT(kl, tl), self.asT(kr, tr))], 'T', v
            if isinstance(e.op, ast.Pow):
                if kl != 'T': raise Untranslatable('int ** ...')
                v = self.fresh('p')
                return p + ['%s <- libm2 N F_pow %s %s' % (v, tl, self.asT(kr, tr))], 'T', v
            raise Untranslatable('binary op %s' % type(e.op).__name__)
        if isinstance(e, ast.Call):
            f = U(e.func)
            if e.keywords: raise Untranslatable('keyword call %s' % f)
            if f in ('float', 'value') and len(e.args) == 1:
                return self.expr(e.args[0])
            if f == 'abs' and len(e.args) == 1:
                p, k, t = self.expr(e.args[0])
                return p, 'T', '(nabs N %s)' % self.asT(k, t)
            if f == 'max' and len(e.args) == 2:
                # Python: max(a, b) is b if b > a else a
                p1, k1, t1 = self.expr(e.args[0]); p2, k2, t2 = self.expr(e.args[1])
                a, b = self.fresh('a'), self.fresh('b')
                return (p1 + p2 + ['%s <- Ok %s' % (a, self.asT(k1, t1)), '%s <- Ok %s' % (b, self.asT(k2, t2))],
                        'T', '(if ltb N %s %s then %s else %s)' % (a, b, b, a))
            if f == 'math.sqrt' and len(e.args) == 1:
                p, k, t = self.expr(e.args[0])
                v = self.fresh('m')
                return p + ['%s <- libm1 N F_sqrt %s' % (v, self.asT(k, t))], 'T', v
            if f == '_clip_r' and len(e.args) == 1:
                # the module's own helper, translated as g_clip_r (emitted before its users)
                p, k, t = self.expr(e.args[0])
                v = self.fresh('c')
                return p + ['%s <- g_clip_r N %s' % (v, self.asT(k, t))], 'T', v
            if f == 'reduce' and len(e.args) == 3:
                return self.reduce(e)
            if f == 'math.fsum' and len(e.args) == 1:
                return self.fsum(e.args[0])
            raise Untranslatable('call %s' % f)
        if isinstance(e, ast.IfExp):
            c = self.test(e.test)
            pa, ka, ta = self.expr(e.body); pb, kb, tb = self.expr(e.orelse)
            if pa or pb: raise Untranslatable('effectful conditional expression')
            return [], 'T', '(if %s then %s else %s)' % (c, self.asT(ka, ta), self.asT(kb, tb))
        raise Untranslatable('expression %s' % type(e).__name__)

    def bind_elem(self, name, kind_of_list):
        """bind the loop/lambda variable `name` ranging over a list of the given kind"""
        if kind_of_list == 'LT':
            self.env[name] = ('T', name)
        elif kind_of_list == 'LP':
            self.env[name + '.real'] = ('T', '(fst %s)' % name)
            self.env[name + '.imag'] = ('T', '(snd %s)' % name)
        else:
            raise Untranslatable('iteration over a %s' % kind_of_list)

    def reduce(self, e):
        fn, seq, init = e.args
        k = self.env.get(U(fn))
        if not k or k[0] != 'LAM': raise Untranslatable('reduce over an unknown function')
        lam = k[1]
        a = lam.args
        if len(a.args) != 2 or a.vararg or a.kwarg or a.defaults or a.kwonlyargs:
            raise Untranslatable('accumulator lambda shape')
        ps, ks, ts = self.expr(seq)
        pi, ki, ti = self.expr(init)
        if ps or pi: raise Untranslatable('effectful reduce operand')
        saved = dict(self.env)
        acc, x = a.args[0].arg, a.args[1].arg
        self.env[acc] = ('T', acc)
        self.bind_elem(x, ks)
        pb, kb, tb = self.expr(lam.body)
        self.env = saved
        v = self.fresh('r')
        return ['%s <- mfoldl (fun %s %s => %s) %s %s' % (v, acc, x, self.close(pb, 'Ok ' + self.asT(kb, tb)), ts,
                                                          self.asT(ki, ti))], 'T', v

    def fsum(self, g):
        v = self.fresh('s')
        if not isinstance(g, ast.GeneratorExp):
            p, k, t = self.expr(g)
            if k != 'LT' or p: raise Untranslatable('fsum of a %s' % k)
            return ['%s <- fsum N %s' % (v, t)], 'T', v
        if len(g.generators) != 1 or g.generators[0].ifs or g.generators[0].is_async:
            raise Untranslatable('generator shape')
        c = g.generators[0]
        saved = dict(self.env)
        if isinstance(c.target, ast.Name):
            p, k, t = self.expr(c.iter)
            if p: raise Untranslatable('effectful iterable')
            self.bind_elem(c.target.id, k)
            pe, ke, te = self.expr(g.elt)
            self.env = saved
            return ['%s <- (l <- mmap (fun %s => %s) %s ;; fsum N l)' %
                    (v, c.target.id, self.close(pe, 'Ok ' + self.asT(ke, te)), t)], 'T', v
        if (isinstance(c.target, ast.Tuple) and len(c.target.elts) == 2 and all(isinstance(x, ast.Name) for x in c.target.elts)
                and isinstance(c.iter, ast.Call) and U(c.iter.func) in ('izip', 'zip') and len(c.iter.args) == 2):
            p1, k1, t1 = self.expr(c.iter.args[0]); p2, k2, t2 = self.expr(c.iter.args[1])
            if p1 or p2 or k1 != 'LT' or k2 != 'LT': raise Untranslatable('izip operands')
            n1, n2 = c.target.elts[0].id, c.target.elts[1].id
            self.env[n1] = ('T', n1); self.env[n2] = ('T', n2)
            pe, ke, te = self.expr(g.elt)
            self.env = saved
            return ['%s <- (l <- mmap2 (fun %s %s => %s) %s %s ;; fsum N l)' %
                    (v, n1, n2, self.close(pe, 'Ok ' + self.asT(ke, te)), t1, t2)], 'T', v
        raise Untranslatable('generator target')

    def test(self, t):
        if isinstance(t, ast.Name):
            k = self.env.get(t.id)
            if k and k[0] == 'B': return k[1]
            raise Untranslatable('test on %s' % t.id)
        if isinstance(t, ast.Compare) and len(t.ops) == 2:
            # a < b < c : b is evaluated once; it must be free of effects
            first = ast.Compare(left=t.left, ops=[t.ops[0]], comparators=[t.comparators[0]])
            second = ast.Compare(left=t.comparators[0], ops=[t.ops[1]], comparators=[t.comparators[1]])
            return '(andb %s %s)' % (self.test(first), self.test(second))
        if isinstance(t, ast.Compare) and len(t.ops) == 1:
            pl, kl, tl = self.expr(t.left); pr, kr, tr = self.expr(t.comparators[0])
            if pl or pr: raise Untranslatable('effectful comparison operand')
            op = type(t.ops[0])
            if kl == 'Z' and kr == 'Z':
                m = {ast.Eq: '(Z.eqb %s %s)', ast.NotEq: '(negb (Z.eqb %s %s))', ast.Lt: '(Z.ltb %s %s)',
                     ast.LtE: '(Z.leb %s %s)'}
                if op in m: return m[op] % (tl, tr)
                if op is ast.Gt: return '(Z.ltb %s %s)' % (tr, tl)
                if op is ast.GtE: return '(Z.leb %s %s)' % (tr, tl)
                raise Untranslatable('int comparison')
            a, b = self.asT(kl, tl), self.asT(kr, tr)
            m = {ast.Eq: '(eqb N %s %s)', ast.NotEq: '(negb (eqb N %s %s))', ast.Lt: '(ltb N %s %s)',
                 ast.LtE: '(leb N %s %s)'}
            if op in m: return m[op] % (a, b)
            if op is ast.Gt: return '(ltb N %s %s)' % (b, a)
            if op is ast.GtE: return '(leb N %s %s)' % (b, a)
        raise Untranslatable('test %s' % U(t))

    # -------------------------------------------------------------- statements
    def block(self, stmts, final):
        """statement list -> term : res X.  `final(self)` gives the term when control falls off the end"""
        if not stmts:
            return final(self)
        s, rest = stmts[0], list(stmts[1:])
        if isinstance(s, ast.Assign) and len(s.targets) == 1 and isinstance(s.targets[0], ast.Name):
            name = s.targets[0].id
            saved = dict(self.env)
            if isinstance(s.value, ast.Lambda):
                self.env[name] = ('LAM', s.value)
                body = self.block(rest, final)
                self.env = saved
                return body
            p, k, t = self.expr(s.value)
            v = self.fresh(name)
            self.env[name] = (k, v)
            body = self.block(rest, final)
            self.env = saved
            return self.close(p, '(let %s := %s in %s)' % (v, t, body))
        if isinstance(s, ast.AugAssign) and isinstance(s.target, ast.Name) and isinstance(s.op, ast.Add):
            new = ast.Assign(targets=[ast.Name(id=s.target.id, ctx=ast.Store())],
                             value=ast.BinOp(left=ast.Name(id=s.target.id, ctx=ast.Load()), op=ast.Add(), right=s.value))
            return self.block([new] + rest, final)
        if isinstance(s, ast.If):
            c = self.test(s.test)
            saved = dict(self.env); tmp = self.tmp
            a = self.block(list(s.body) + rest, final); self.env = dict(saved)
            b = self.block(list(s.orelse) + rest, final); self.env = saved
            return '(if %s then %s else %s)' % (c, a, b)
        if isinstance(s, ast.Raise):
            e = s.exc
            name = e.func.id if isinstance(e, ast.Call) and isinstance(e.func, ast.Name) else getattr(e, 'id', None)
            if name in EXN_OK: return '(Err %s)' % name
            raise Untranslatable('raise %r' % name)
        if isinstance(s, ast.Assert):
            if isinstance(s.test, ast.Constant) and s.test.value is False:
                return '(Err AssertionError)'
            raise Untranslatable('assert')
        if isinstance(s, ast.Return) and self.ret is not None:
            return self.ret(s.value, self)
        raise Untranslatable('statement %s' % type(s).__name__)

    def tuple_term(self, exprs):
        pre = []; ts = []
        for e in exprs:
            p, k, t = self.expr(e)
            pre += p; ts.append(self.asT(k, t))
        return self.close(pre, 'Ok (%s)' % ', '.join(ts)) if len(ts) > 1 else self.close(pre, 'Ok %s' % ts[0])

# ------------------------------------------------------------------ locating statements
def assigns(fn, target):
    """all Assign statements anywhere in fn whose single target unparses to `target`"""
    return [n for n in ast.walk(fn) if isinstance(n, ast.Assign) and len(n.targets) == 1 and U(n.targets[0]) == target]

def the(xs, what):
    if len(xs) != 1: raise Untranslatable('%s: expected exactly one, found %d' % (what, len(xs)))
    return xs[0]

def calls(fn, fname):
    return [n for n in ast.walk(fn) if isinstance(n, ast.Call) and U(n.func) == fname]

def kw(call, name):
    return the([k.value for k in call.keywords if k.arg == name], 'keyword %s' % name)

def bool_const(e):
    if isinstance(e, ast.Constant) and isinstance(e.value, bool): return 'true' if e.value else 'false'
    raise Untranslatable('not a bool constant: %s' % U(e))

def isinstance_split(fn, var):
    """body of `if isinstance(var, A): .. elif isinstance(var, B): ..` keyed by unparse of the class"""
    for n in fn.body:
        if isinstance(n, ast.If) and isinstance(n.test, ast.Call) and U(n.test.func) == 'isinstance' \
                and U(n.test.args[0]) == var:
            out = {}; node = n
            while True:
                out[U(node.test.args[1])] = node.body
                if len(node.orelse) == 1 and isinstance(node.orelse[0], ast.If) and isinstance(node.orelse[0].test, ast.Call) \
                        and U(node.orelse[0].test.func) == 'isinstance':
                    node = node.orelse[0]
                else:
                    out['@else'] = node.orelse; break
            return out
    raise Untranslatable('no isinstance dispatch on %s' % var)

def expect(stmt, text):
    if U(stmt) != text:
        raise Untranslatable('expected `%s`, found `%s`' % (text, U(stmt)[:80]))

def skip_known(stmts, known):
    return [s for s in stmts if U(s) not in known]

# ------------------------------------------------------------------ the worklist
def worklist(ta, tb):
    """-> list of (name, params, result type, thunk)"""
    W = []
    def add(name, params, rty, thunk): W.append((name, params, rty, thunk))
    F = lambda n: (find_func(ta, n) or (_ for _ in ()).throw(Untranslatable('function %s missing' % n)))
    RT = 'res (T N)'

    # ---- _clip_r (helper of the multi estimators): rounding error just outside [-1,1] removed
    def th():
        fn = F('_clip_r')
        if [a.arg for a in fn.args.args] != ['r'] or fn.args.vararg or fn.args.kwarg or fn.args.defaults:
            raise Untranslatable('_clip_r signature')
        c = EC({'r': ('T', 'r')}, ret=lambda v, c: c.tuple_term([v]))
        return c.block(strip_doc(fn.body), lambda c: (_ for _ in ()).throw(Untranslatable('falls off')))
    add('g_clip_r', '(r : T N)', RT, th)

    # ---- type_b.mean : mu = sum(seq)/len(seq)
    def th():
        fn = find_func(tb, 'mean')
        if fn is None: raise Untranslatable('type_b.mean missing')
        a = [x for x in assigns(fn, 'mu') if U(x.value).startswith('sum(')]
        a = the(a, 'mu = sum(seq)/len(seq)')
        c = EC({'sum(seq)': ('T', 's'), 'len(seq)': ('Z', 'n')})
        return c.tuple_term([a.value])
    add('g_mean_div', '(n : Z) (s : T N)', RT, th)
    def th():
        fn = F('mean')
        r = the([s for s in strip_doc(fn.body)], 'type_a.mean body')
        expect(r, 'return value(type_b.mean(seq, *args, **kwargs))')
        return 'true'
    add('g_mean_is_value_of_type_b_mean', '', 'bool', th)

    # ---- standard_deviation
    def th():
        br = isinstance_split(F('standard_deviation'), 'mu')
        c = EC({'N': ('Z', 'n'), 'seq': ('LT', 'seq'), 'mu': ('T', 'mu')}, ret=lambda v, c: c.tuple_term([v]))
        return c.block(br['numbers.Real'], lambda c: (_ for _ in ()).throw(Untranslatable('falls off')))
    add('g_sd_real', '(n : Z) (seq : list (T N)) (mu : T N)', RT, th)
    def th():
        br = isinstance_split(F('standard_deviation'), 'mu')
        body = br['numbers.Complex']
        expect(body[0], 'cv_11, cv_12, cv_12, cv_22 = variance_covariance_complex(seq, mu)')
        def ret(v, c):
            if not (isinstance(v, ast.Tuple) and len(v.elts) == 2 and isinstance(v.elts[0], ast.Call)
                    and U(v.elts[0].func) == 'StandardDeviation' and len(v.elts[0].args) == 2):
                raise Untranslatable('return shape of standard_deviation')
            return c.tuple_term(list(v.elts[0].args) + [v.elts[1]])
        c = EC({'cv_11': ('T', 'cv_11'), 'cv_12': ('T', 'cv_12'), 'cv_22': ('T', 'cv_22')}, ret=ret)
        return c.block(body[1:], lambda c: (_ for _ in ()).throw(Untranslatable('falls off')))
    add('g_sd_cplx', '(cv_11 cv_12 cv_22 : T N)', 'res (T N * T N * T N)', th)
    def th():
        fn = F('standard_deviation')
        g = [s for s in fn.body if isinstance(s, ast.If) and U(s.test) == 'N == 0']
        c = EC({'N': ('Z', 'n')})
        return c.block([the(g, 'N == 0 guard')], lambda c: 'Ok tt')
    add('g_sd_guard', '(n : Z)', 'res unit', th)

    # ---- standard_uncertainty
    def su(branch, first, env, ret):
        fn = F('standard_uncertainty')
        br = isinstance_split(fn, 'mu')
        body = br[branch]
        expect(body[0], first)
        root = the(assigns(fn, 'ROOT_N'), 'ROOT_N')
        e = {'N': ('Z', 'n')}; e.update(env)
        c = EC(e, ret=ret)
        return c.block([root] + body[1:], lambda c: (_ for _ in ()).throw(Untranslatable('falls off')))
    add('g_su_real', '(n : Z) (sd : T N)', RT,
        lambda: su('numbers.Real', 'sd = standard_deviation(seq, mu)', {'sd': ('T', 'sd')}, lambda v, c: c.tuple_term([v])))
    def ret_su(v, c):
        if not (isinstance(v, ast.Tuple) and len(v.elts) == 2 and isinstance(v.elts[0], ast.Call)
                and U(v.elts[0].func) == 'StandardUncertainty' and len(v.elts[0].args) == 2):
            raise Untranslatable('return shape of standard_uncertainty')
        return c.tuple_term(list(v.elts[0].args) + [v.elts[1]])
    add('g_su_cplx', '(n : Z) (sd_re sd_im r : T N)', 'res (T N * T N * T N)',
        lambda: su('numbers.Complex', 'sd, r = standard_deviation(seq, mu)',
                   {'sd.real': ('T', 'sd_re'), 'sd.imag': ('T', 'sd_im'), 'r': ('T', 'r')}, ret_su))
    def th():
        fn = F('standard_uncertainty')
        g = [s for s in fn.body if isinstance(s, ast.If) and U(s.test) == 'N == 0']
        return EC({'N': ('Z', 'n')}).block([the(g, 'N == 0 guard')], lambda c: 'Ok tt')
    add('g_su_guard', '(n : Z)', 'res unit', th)

    # ---- variance_covariance_complex
    def th():
        fn = F('variance_covariance_complex')
        body = skip_known(strip_doc(fn.body), {'zseq = value_seq(seq)', 'if mu is None:\n    mu = mean(zseq)', 'mu = complex(mu)'})
        def ret(v, c):
            if not (isinstance(v, ast.Call) and U(v.func) == 'VarianceCovariance' and len(v.args) == 4):
                raise Untranslatable('return shape of variance_covariance_complex')
            return c.tuple_term(v.args)
        c = EC({'len(seq)': ('Z', 'n'), 'zseq': ('LP', 'zseq'), 'mu.real': ('T', 'mu_re'), 'mu.imag': ('T', 'mu_im')}, ret=ret)
        return c.block(body, lambda c: (_ for _ in ()).throw(Untranslatable('falls off')))
    add('g_vcc', '(n : Z) (zseq : list (T N * T N)) (mu_re mu_im : T N)', 'res (T N * T N * T N * T N)', th)

    # ---- estimate
    def th():
        fn = F('estimate')
        body = strip_doc(fn.body)
        if not (U(body[0]) == 'df = len(seq) - 1' and isinstance(body[1], ast.If)):
            raise Untranslatable('estimate prologue')
        c = EC({'len(seq)': ('Z', 'n')})
        t = c.block(body[:2], lambda c: 'Ok %s' % c.env['df'][1])
        rest = skip_known(body[2:], {'df = len(seq) - 1', 'seq = value_seq(seq)', 'mu = mean(seq)'})
        r = the(rest, 'estimate dispatch')
        if not (isinstance(r, ast.If) and U(r.test) == 'isinstance(mu, complex)'): raise Untranslatable('estimate dispatch')
        expect(r.body[0], 'u, r = standard_uncertainty(seq, mu)')
        expect(r.orelse[0], 'u = standard_uncertainty(seq, mu)')
        # each branch is exactly: the statistics, then the one declaration (whose arguments the g_est_* definitions translate);
        # anything else in a branch (a special case before the declaration, ...) is outside the modelled shape
        for br, ctor in ((r.body, 'ucomplex'), (r.orelse, 'ureal')):
            if len(br) != 2 or not (isinstance(br[1], ast.Return) and isinstance(br[1].value, ast.Call) and U(br[1].value.func) == ctor):
                raise Untranslatable('estimate: a branch is not `u = ...; return %s(...)`' % ctor)
        return t
    add('g_est_df', '(n : Z)', 'res Z', th)
    def est_call(which):
        fn = F('estimate')
        c = the(calls(fn, which), which + ' call in estimate')
        return c
    def th():
        c = est_call('ucomplex')
        a = c.args
        if len(a) != 6 or [U(x) for x in a[:3] + a[4:]] != ['mu', 'u[0]', 'u[1]', 'df', 'label']: raise Untranslatable('ucomplex arguments')
        k = kw(c, 'independent')
        if isinstance(k, ast.Constant) and isinstance(k.value, bool): return bool_const(k)
        return EC({'r': ('T', 'r')}).test(k)
    add('g_est_cplx_indep', '(r : T N)', 'bool', th)
    def th():
        # the correlation handed to UncertainComplex._elementary: `<x> if <test> else None`  (None: no register is written)
        # shapes: `<x> if <test> else None`, `None`, or a plain expression (always written)
        a = est_call('ucomplex').args[3]
        c = EC({'r': ('T', 'r')})
        if isinstance(a, ast.Constant) and a.value is None:
            return 'None'
        if isinstance(a, ast.IfExp) and isinstance(a.orelse, ast.Constant) and a.orelse.value is None:
            p, k, t = c.expr(a.body)
            if p: raise Untranslatable('effectful correlation argument')
            return '(if %s then Some %s else None)' % (c.test(a.test), c.asT(k, t))
        p, k, t = c.expr(a)
        if p: raise Untranslatable('effectful correlation argument')
        return '(Some %s)' % c.asT(k, t)
    add('g_est_cplx_rarg', '(r : T N)', 'option (T N)', th)
    def th():
        c = est_call('ureal')
        if [U(a) for a in c.args] != ['mu', 'u', 'df', 'label']: raise Untranslatable('ureal arguments')
        return bool_const(kw(c, 'independent'))
    add('g_est_real_indep', '', 'bool', th)

    # ---- multi_estimate_real
    M = lambda: F('multi_estimate_real')
    def th():
        a = the(assigns(M(), 'mu_i'), 'mu_i')
        # the first one (inside the statistics loop) is the formula; the second is `mu_i = means[i]`
        return EC({'sum(seq_i)': ('T', 's'), 'N': ('Z', 'n')}).tuple_term([a.value])
    def th_mu():
        a = [x for x in assigns(M(), 'mu_i') if 'sum(' in U(x.value)]
        return EC({'sum(seq_i)': ('T', 's'), 'N': ('Z', 'n')}).tuple_term([the(a, 'mu_i = value(sum(seq_i)/N)').value])
    add('g_mer_mean', '(n : Z) (s : T N)', RT, th_mu)
    def th():
        c = [x for x in calls(M(), 'dev.append')]
        c = the(c, 'dev.append')
        g = c.args[0]
        if not (isinstance(g, ast.Call) and U(g.func) == 'tuple' and isinstance(g.args[0], ast.GeneratorExp)): raise Untranslatable('dev shape')
        g = g.args[0]
        if not (len(g.generators) == 1 and U(g.generators[0].target) == 'x_j' and U(g.generators[0].iter) == 'seq_i' and not g.generators[0].ifs):
            raise Untranslatable('dev generator')
        return EC({'x_j': ('T', 'x_j'), 'mu_i': ('T', 'mu_i')}).tuple_term([g.elt])
    add('g_mer_dev', '(x_j mu_i : T N)', RT, th)
    add('g_mer_nn1', '(n : Z)', 'res Z', lambda: 'Ok ' + EC({'N': ('Z', 'n')}).expr(the(assigns(M(), 'N_N_1'), 'N_N_1').value)[2])
    add('g_mer_u', '(nn1 : Z) (seq_i : list (T N))', RT,
        lambda: EC({'N_N_1': ('Z', 'nn1'), 'seq_i': ('LT', 'seq_i')}).tuple_term([the(assigns(M(), 'u_i')[:1], 'u_i').value]))
    def th():
        c = the(calls(M(), 'cv[i].append'), 'cv[i].append')
        return EC({'N_N_1': ('Z', 'nn1'), 'seq_i': ('LT', 'seq_i'), 'seq_j': ('LT', 'seq_j')}).tuple_term([c.args[0]])
    add('g_mer_cv', '(nn1 : Z) (seq_i seq_j : list (T N))', RT, th)
    add('g_mer_df', '(n : Z)', 'res Z', lambda: 'Ok ' + EC({'N': ('Z', 'n')}).expr(the(assigns(M(), 'df'), 'df').value)[2])
    def th():
        c = the(calls(M(), 'ureal'), 'ureal call')
        if [U(a) for a in c.args] != ['mu_i', 'u_i', 'df', 'l_i']: raise Untranslatable('ureal arguments')
        return bool_const(kw(c, 'independent'))
    add('g_mer_indep', '', 'bool', th)
    def guard(fn, var):
        g = [n for n in ast.walk(fn) if isinstance(n, ast.If) and U(n.test).startswith(var + ' ')]
        g = the(g, 'guard on ' + var)
        return g
    def th():
        g = guard(M(), 'cv_ij')
        if g.orelse: raise Untranslatable('guard has an else')
        return EC({'cv_ij': ('T', 'cv_ij')}).test(g.test)
    add('g_mer_guard', '(cv_ij : T N)', 'bool', th)
    def th():
        g = guard(M(), 'cv_ij')
        expect(g.body[1], 'un_j = rtn[i + j + 1]'); expect(g.body[2], 'set_correlation_real(un_i, un_j, r)')
        if len(g.body) != 3: raise Untranslatable('guard body')
        a = g.body[0]
        if not (isinstance(a, ast.Assign) and U(a.targets[0]) == 'r'): raise Untranslatable('r assignment')
        return EC({'cv_ij': ('T', 'cv_ij'), 'u_i': ('T', 'u_i'), 'u[i + j + 1]': ('T', 'u_j')}).tuple_term([a.value])
    add('g_mer_r', '(cv_ij u_i u_j : T N)', RT, th)

    # ---- multi_estimate_complex
    C = lambda: F('multi_estimate_complex')
    def th():
        a = the(assigns(C(), 'x_mean'), 'x_mean')
        l = a.value
        if not (isinstance(l, ast.ListComp) and len(l.generators) == 1 and U(l.generators[0].target) == 'seq_i'
                and U(l.generators[0].iter) == 'x' and not l.generators[0].ifs): raise Untranslatable('x_mean shape')
        return EC({'seq_i': ('LT', 'seq_i'), 'N': ('Z', 'n')}).tuple_term([l.elt])
    add('g_mec_mean', '(n : Z) (seq_i : list (T N))', RT, th)
    def th():
        a = the(assigns(C(), 'x[i]'), 'x[i] = [...]')
        l = a.value
        if not (isinstance(l, ast.ListComp) and len(l.generators) == 1 and U(l.generators[0].target) == 'x_ij'
                and U(l.generators[0].iter) == 'x[i]' and not l.generators[0].ifs): raise Untranslatable('deviation shape')
        return EC({'mu_i': ('T', 'mu_i'), 'x_ij': ('T', 'x_ij')}).tuple_term([l.elt])
    add('g_mec_dev', '(mu_i x_ij : T N)', RT, th)
    add('g_mec_n1', '(n : Z)', 'res Z', lambda: 'Ok ' + EC({'N': ('Z', 'n')}).expr(the(assigns(C(), 'N_1'), 'N_1').value)[2])
    add('g_mec_nn1', '(n n1 : Z)', 'res Z', lambda: 'Ok ' + EC({'N': ('Z', 'n'), 'N_1': ('Z', 'n1')}).expr(the(assigns(C(), 'N_N_1'), 'N_N_1').value)[2])
    def th():
        c = the(calls(C(), 'x_u.append'), 'x_u.append')
        return EC({'N_N_1': ('Z', 'nn1'), 'x[i]': ('LT', 'x_i')}).tuple_term([c.args[0]])
    add('g_mec_u', '(nn1 : Z) (x_i : list (T N))', RT, th)
    def uc_call():
        c = the(calls(C(), 'ucomplex'), 'ucomplex call')
        if len(c.args) != 6 or [U(a) for a in c.args[:3]] != ['complex(x_mean[j], x_mean[j + 1])', 'x_u[j]', 'x_u[j + 1]'] \
                or U(c.args[4]) != 'N_1':
            raise Untranslatable('ucomplex arguments')
        return c
    add('g_mec_r0', '', 'T N', lambda: EC({}).expr(uc_call().args[3])[2])
    add('g_mec_indep', '', 'bool', lambda: bool_const(kw(uc_call(), 'independent')))
    add('g_mec_cv', '(nn1 : Z) (x_i x_j : list (T N))', RT,
        lambda: EC({'N_N_1': ('Z', 'nn1'), 'x_i': ('LT', 'x_i'), 'x_j': ('LT', 'x_j')}).tuple_term([the(assigns(C(), 'cv'), 'cv').value]))
    def th():
        g = guard(C(), 'cv')
        if g.orelse: raise Untranslatable('guard has an else')
        return EC({'cv': ('T', 'cv')}).test(g.test)
    add('g_mec_guard', '(cv : T N)', 'bool', th)
    def th():
        g = guard(C(), 'cv')
        if len(g.body) != 2: raise Untranslatable('guard body')
        expect(g.body[1], 'set_correlation_real(un_i, x_influences[j], r)')
        a = g.body[0]
        if not (isinstance(a, ast.Assign) and U(a.targets[0]) == 'r'): raise Untranslatable('r assignment')
        return EC({'cv': ('T', 'cv'), 'x_u[i]': ('T', 'u_i'), 'x_u[j]': ('T', 'u_j')}).tuple_term([a.value])
    add('g_mec_r', '(cv u_i u_j : T N)', RT, th)

    # ---- estimate_digitized
    D = lambda: F('estimate_digitized')
    def th():
        g = [s for s in D().body if isinstance(s, ast.If) and U(s.test) == 'N < 2']
        return EC({'N': ('Z', 'n')}).block([the(g, 'N < 2 guard')], lambda c: 'Ok tt')
    add('g_dig_guard', '(n : Z)', 'res unit', th)
    def th():
        body = strip_doc(D().body)
        idx = [i for i, s in enumerate(body) if isinstance(s, ast.If) and U(s.test) == 'x_max == x_min']
        i = the(idx, 'x_max == x_min')
        stm = body[i:]
        if len(stm) != 3 or not isinstance(stm[2], ast.Return): raise Untranslatable('tail of estimate_digitized')
        def ret(v, c):
            if not (isinstance(v, ast.Call) and U(v.func) == 'ureal' and [U(a) for a in v.args] == ['mu', 'u', 'N - 1', 'label']
                    and bool_const(kw(v, 'independent')) == 'true'):
                raise Untranslatable('ureal call of estimate_digitized')
            return c.tuple_term([v.args[0], v.args[1]])
        c = EC({'N': ('Z', 'n'), 'seq': ('LT', 'seq'), 'x_max': ('T', 'x_max'), 'x_min': ('T', 'x_min'), 'mu': ('T', 'mu'),
                'delta': ('T', 'delta'), 'truncate': ('B', 'truncate')}, ret=ret)
        return c.block(stm, lambda c: (_ for _ in ()).throw(Untranslatable('falls off')))
    add('g_dig_body', '(n : Z) (seq : list (T N)) (x_max x_min mu delta : T N) (truncate : bool)', 'res (T N * T N)', th)
    return W

HEADER = """(* GENERATED by tools/tr_type_a_est.py from GTC/type_a.py and GTC/type_b.py -- do not edit *)
From Coq Require Import ZArith Bool List.
From GTCV Require Import Num TypeAPre.

"""

def main(repo, outdir):
    ta = ast.parse(open(os.path.join(repo, 'GTC', 'type_a.py')).read())
    tb = ast.parse(open(os.path.join(repo, 'GTC', 'type_b.py')).read())
    out = [HEADER]; bad = []
    try:
        W = worklist(ta, tb)
    except Untranslatable as ex:
        W = []; bad.append('worklist: %s' % ex)
    for name, params, rty, thunk in W:
        try:
            body = thunk()
            out.append('Definition %s (N : Num) %s : %s :=\n  %s.\n' % (name, params, rty, body))
        except (Untranslatable, IndexError, KeyError, AttributeError) as ex:
            out.append('(* UNTRANSLATABLE %s: %s *)\n' % (name, str(ex).replace('*)', '* )')))
            bad.append(name)
    os.makedirs(outdir, exist_ok=True)
    open(os.path.join(outdir, 'Gen_type_a_est.v'), 'w').write('\n'.join(out) + '\n')
    print('tr_type_a_est: Gen_type_a_est.v: %d definitions, %d untranslatable %s' % (len(W) - len(bad), len(bad), bad))
    return 0

if __name__ == '__main__':
    sys.exit(main(sys.argv[1], sys.argv[2]))

#!/usr/bin/env python3
"""tr_type_b.py -- fail-closed Python-ast -> Gallina translator for the line-fitting code of
GTC/type_b.py (line_fit, line_fit_wls, _arrays, ChiSq, dChiSq_dalpha, LineFitOLS.x_from_y /
y_from_x, mean) and GTC/type_a.py (merge).      Usage: tr_type_b.py <repo> <outdir>

These routines are written in uncertain-number arithmetic over Python lists.  Each is
emitted as a Num-parametric, res-monadic Gallina function over the combinators of
coq/TBLib.v: a scalar is an [mval] (plain number, or the expression tree of an uncertain
number), `sum(... for ... in izip(...))` is [msum_with] over [combine], a list comprehension
is [mmap_with], `math.fsum` is [fsum_with], `value(x)` / comparisons / `abs` evaluate the tree
with the evaluator parameter [ev], `y_i.v` and `x_i.get_covariance(y_i)` are the parameters
[varof] / [covof] (they need the session).  The generated function performs the same
operations on the same operands in the same order as the source.

Anything outside the recognised subset makes that definition ABSENT from the output (with a
comment saying why), so the model / proofs that depend on it stop compiling.
"""
import ast, sys, os, math

class Untranslatable(Exception):
    pass

BINOP = {ast.Add: 'B_add', ast.Sub: 'B_sub', ast.Mult: 'B_mul', ast.Div: 'B_div', ast.Pow: 'B_pow'}
METHODS = {'_sin': 'U_sin', '_cos': 'U_cos', '_tan': 'U_tan'}
CMP = {ast.NotEq: '(fun l r => negb (eqb N l r))', ast.Eq: '(eqb N)', ast.Lt: '(ltb N)',
       ast.LtE: '(leb N)', ast.Gt: '(fun l r => ltb N r l)', ast.GtE: '(fun l r => leb N r l)'}
EXN = {'RuntimeError', 'ValueError', 'TypeError', 'ZeroDivisionError', 'AssertionError'}

def zlit(z):
    return '(%d)%%Z' % z if z < 0 else '%d%%Z' % z

def num_const(v):
    if isinstance(v, bool):
        raise Untranslatable('bool constant')
    if isinstance(v, int):
        return '(MN (of_Z N %s))' % zlit(v)
    if isinstance(v, float):
        if math.isnan(v) or math.isinf(v):
            raise Untranslatable('non-finite constant')
        n, d = v.as_integer_ratio()
        e = -(d.bit_length() - 1)
        if d == 1:
            e = 0
            while n != 0 and n % 2 == 0 and abs(n) >= (1 << 53):
                n //= 2; e += 1
        return '(MN (dyad N %s %s))' % (zlit(n), zlit(e))
    raise Untranslatable('constant %r' % (v,))

def gtype(t):
    if t == 'M': return 'mval N'
    if t == 'L': return 'list (mval N)'
    if t == 'B': return 'bool'
    if t == 'OL': return 'option (list (mval N))'
    if isinstance(t, tuple): return '(' + ' * '.join(gtype(x) for x in t) + ')'
    raise Untranslatable('type %r' % (t,))

def tuple_pat(names):
    return names[0] if len(names) == 1 else "'(" + ', '.join(names) + ')'

def tuple_val(names):
    return names[0] if len(names) == 1 else '(' + ', '.join(names) + ')'

def nest_pat(names):
    """pattern for elements of zipN: (a, (b, (c, d)))"""
    if len(names) == 1: return names[0]
    return '(%s, %s)' % (names[0], nest_pat(names[1:]))

COMMON = '(N : Num) (ev : Kernel.expr N -> res (T N)) (varof : mval N -> res (T N)) (covof : mval N -> mval N -> res (T N))'
CALLARGS = 'N ev varof covof'

class Fun(object):
    """compiles one function body"""
    def __init__(self, tr, env, self_fields=None):
        self.tr = tr                    # the Translator (module constants, generated functions)
        self.env = dict(env)            # python name -> (gallina name, type)
        self.lambdas = {}
        self.n = 0

    def fresh(self, base='t'):
        self.n += 1
        return '%s_%d' % (base, self.n)

    def pname(self, name):
        return 'p_' + name.replace('.', '_')

    # ------------------------------------------------------------ expressions (ANF)
    def bind(self, binds, term, base='t'):
        nm = self.fresh(base)
        binds.append((nm, term))
        return nm

    def key_of(self, node):
        if isinstance(node, ast.Name): return node.id
        if isinstance(node, ast.Attribute) and isinstance(node.value, ast.Name) and node.value.id == 'self':
            return 'self.' + node.attr
        return None

    def atom(self, node, binds):
        """returns (gallina atom, type); may append monadic bindings to binds"""
        k = self.key_of(node)
        if k is not None:
            if k in self.env: return self.env[k]
            if k in self.tr.consts: return (num_const(self.tr.consts[k]), 'M')
            raise Untranslatable('unknown name %s' % k)
        if isinstance(node, ast.Constant):
            return (num_const(node.value), 'M')
        if isinstance(node, ast.UnaryOp) and isinstance(node.op, ast.USub):
            if isinstance(node.operand, ast.Constant):
                return (num_const(-node.operand.value), 'M')
            a, t = self.atom(node.operand, binds)
            if t != 'M': raise Untranslatable('negation of non-scalar')
            return (self.bind(binds, 'mneg N %s' % a), 'M')
        if isinstance(node, ast.UnaryOp) and isinstance(node.op, ast.Not):
            a, t = self.atom(node.operand, binds)
            if t != 'B': raise Untranslatable('not of non-bool')
            return ('(negb %s)' % a, 'B')
        if isinstance(node, ast.BinOp):
            if type(node.op) not in BINOP: raise Untranslatable('operator %s' % type(node.op).__name__)
            a, ta = self.atom(node.left, binds)
            b, tb = self.atom(node.right, binds)
            if ta != 'M' or tb != 'M': raise Untranslatable('arithmetic on non-scalars')
            return (self.bind(binds, 'mbin N %s %s %s' % (BINOP[type(node.op)], a, b)), 'M')
        if isinstance(node, ast.Compare):
            if len(node.ops) != 1 or type(node.ops[0]) not in CMP: raise Untranslatable('comparison')
            a, ta = self.atom(node.left, binds)
            b, tb = self.atom(node.comparators[0], binds)
            if ta != 'M' or tb != 'M': raise Untranslatable('comparison of non-scalars')
            return (self.bind(binds, 'mcmp N ev %s %s %s' % (CMP[type(node.ops[0])], a, b), 'c'), 'B')
        if isinstance(node, ast.IfExp):
            c, tc = self.atom(node.test, binds)
            if tc != 'B': raise Untranslatable('condition')
            t1 = self.block_expr(node.body)
            t2 = self.block_expr(node.orelse)
            return (self.bind(binds, 'if %s then %s else %s' % (c, t1, t2)), 'M')
        if isinstance(node, ast.Attribute):
            if node.attr == 'v':
                a, t = self.atom(node.value, binds)
                return (self.bind(binds, '(v_ <- varof %s ;; Ok (MN v_))' % a), 'M')
            if node.attr == 'x':
                a, t = self.atom(node.value, binds)
                return (self.bind(binds, '(v_ <- mvalue N ev %s ;; Ok (MN v_))' % a), 'M')
            raise Untranslatable('attribute .%s' % node.attr)
        if isinstance(node, ast.ListComp):
            return (self.bind(binds, self.comprehension(node, 'map'), 'l'), 'L')
        if isinstance(node, ast.Call):
            return self.call(node, binds)
        raise Untranslatable('expression %s' % type(node).__name__)

    def block_expr(self, node):
        """a scalar expression as a closed monadic term"""
        binds = []
        a, t = self.atom(node, binds)
        if t != 'M': raise Untranslatable('scalar expected')
        return self.wrap(binds, 'Ok %s' % a)

    def wrap(self, binds, final):
        s = final
        for nm, term in reversed(binds):
            s = '%s <- %s ;; %s' % (nm, term, s)
        return '(' + s + ')'

    def comprehension(self, node, kind):
        """sum(<genexp>) / [<listcomp>] / math.fsum(<genexp>) over a list or an izip of lists"""
        if len(node.generators) != 1 or node.generators[0].ifs: raise Untranslatable('comprehension shape')
        g = node.generators[0]
        it = g.iter
        if isinstance(it, ast.Call) and isinstance(it.func, ast.Name) and it.func.id in ('izip', 'zip'):
            lists = it.args
        else:
            lists = [it]
        srcs = []
        for l in lists:
            k = self.key_of(l)
            if k is None or k not in self.env or self.env[k][1] != 'L': raise Untranslatable('iteration over a non-list')
            srcs.append(self.env[k][0])
        if isinstance(g.target, ast.Name): targets = [g.target.id]
        elif isinstance(g.target, ast.Tuple) and all(isinstance(e, ast.Name) for e in g.target.elts):
            targets = [e.id for e in g.target.elts]
        else: raise Untranslatable('loop target')
        if len(targets) != len(srcs) or len(srcs) > 4: raise Untranslatable('izip arity')
        saved = dict(self.env)
        names = []
        for t in targets:
            nm = self.fresh('e_' + t)
            self.env[t] = (nm, 'M'); names.append(nm)
        binds = []
        a, ty = self.atom(node.elt, binds)
        if ty != 'M': raise Untranslatable('element type')
        if kind == 'fsum':
            body = self.wrap(binds, 'mvalue N ev %s' % a)
        else:
            body = self.wrap(binds, 'Ok %s' % a)
        self.env = saved
        zipped = {1: '%s', 2: '(combine %s %s)', 3: '(zip3 %s %s %s)', 4: '(zip4 %s %s %s %s)'}[len(srcs)] % tuple(srcs)
        pat = names[0] if len(names) == 1 else "'" + nest_pat(names)
        fn = '(fun %s => %s)' % (pat, body)
        if kind == 'sum': return 'msum_with N %s %s' % (fn, zipped)
        if kind == 'fsum': return 'fsum_with N %s %s' % (fn, zipped)
        return 'mmap_with %s %s' % (fn, zipped)

    def call(self, node, binds):
        f = node.func
        if node.keywords and not (isinstance(f, ast.Name) and f.id == 'result'):
            raise Untranslatable('keyword arguments')
        if isinstance(f, ast.Name):
            nm = f.id
            if nm in self.lambdas:
                lam = self.lambdas[nm]
                params = [a.arg for a in lam.args.args]
                if len(params) != len(node.args): raise Untranslatable('lambda arity')
                vals = [self.atom(a, binds) for a in node.args]
                saved = dict(self.env)
                for p, v in zip(params, vals): self.env[p] = v
                r = self.atom(lam.body, binds)
                self.env = saved
                return r
            if nm == 'sum' and len(node.args) == 1:
                a = node.args[0]
                if isinstance(a, ast.GeneratorExp):
                    return (self.bind(binds, self.comprehension(a, 'sum'), 's'), 'M')
                k = self.key_of(a)
                if k in self.env and self.env[k][1] == 'L':
                    return (self.bind(binds, 'msum_with N (fun el => Ok el) %s' % self.env[k][0], 's'), 'M')
                raise Untranslatable('sum of a non-list')
            if nm == 'len' and len(node.args) == 1:
                a, t = self.atom(node.args[0], binds)
                if t != 'L': raise Untranslatable('len of non-list')
                return ('(mlen N %s)' % a, 'M')
            if nm == 'value' and len(node.args) == 1:
                a, t = self.atom(node.args[0], binds)
                return (self.bind(binds, '(v_ <- mvalue N ev %s ;; Ok (MN v_))' % a), 'M')
            if nm == 'abs' and len(node.args) == 1:
                a, t = self.atom(node.args[0], binds)
                return (self.bind(binds, '(v_ <- mvalue N ev %s ;; Ok (MN (nabs N v_)))' % a), 'M')
            if nm == 'isinstance' and len(node.args) == 2 and isinstance(node.args[1], ast.Name) \
                    and node.args[1].id == 'UncertainReal':
                a, t = self.atom(node.args[0], binds)
                if t != 'M': raise Untranslatable('isinstance of non-scalar')
                return ('(is_ME N %s)' % a, 'B')
            if nm in self.tr.funcs:
                return self.gen_call(nm, [self.atom(a, binds) for a in node.args], binds)
            raise Untranslatable('call of %s' % nm)
        if isinstance(f, ast.Attribute):
            if isinstance(f.value, ast.Name) and f.value.id == 'math':
                if f.attr == 'sqrt' and len(node.args) == 1:
                    a, t = self.atom(node.args[0], binds)
                    return (self.bind(binds, 'msqrt N %s' % a), 'M')
                if f.attr == 'fsum' and len(node.args) == 1 and isinstance(node.args[0], ast.GeneratorExp):
                    return (self.bind(binds, self.comprehension(node.args[0], 'fsum'), 's'), 'M')
                raise Untranslatable('math.%s' % f.attr)
            if f.attr in METHODS and not node.args:
                a, t = self.atom(f.value, binds)
                if t != 'M': raise Untranslatable('method of non-scalar')
                return (self.bind(binds, 'mun N %s %s' % (METHODS[f.attr], a)), 'M')
            if f.attr == 'get_covariance' and len(node.args) == 1:
                a, ta = self.atom(f.value, binds); b, tb = self.atom(node.args[0], binds)
                return (self.bind(binds, '(v_ <- covof %s %s ;; Ok (MN v_))' % (a, b)), 'M')
            if isinstance(f.value, ast.Name) and f.value.id == 'self' and self.tr.cur_class and \
                    (self.tr.cur_class + '.' + f.attr) in self.tr.funcs:
                return self.gen_call(self.tr.cur_class + '.' + f.attr,
                                     [self.atom(a, binds) for a in node.args], binds, with_self=True)
        raise Untranslatable('call shape')

    def gen_call(self, name, args, binds, with_self=False):
        gname, ptypes, rtype, fields = self.tr.funcs[name]
        if [t for _, t in args] != list(ptypes): raise Untranslatable('argument types of %s' % name)
        pre = []
        if fields:
            for fld, ft in fields:
                if ('self.' + fld) not in self.env: raise Untranslatable('field %s' % fld)
                pre.append(self.env['self.' + fld][0])
        return (self.bind(binds, '%s %s %s' % (gname, CALLARGS, ' '.join(pre + [a for a, _ in args])), 'r'), rtype)

    # ------------------------------------------------------------ statements
    def assigned(self, stmts):
        out = []
        for s in stmts:
            if isinstance(s, ast.Assign):
                for t in s.targets:
                    for e in (t.elts if isinstance(t, ast.Tuple) else [t]):
                        k = self.key_of(e)
                        if k is None: raise Untranslatable('assignment target')
                        if k not in out: out.append(k)
            elif isinstance(s, ast.If):
                for k in self.assigned(s.body) + self.assigned(s.orelse):
                    if k not in out: out.append(k)
        return out

    def is_none_test(self, test):
        """X is None -> (key, True); X is not None -> (key, False)"""
        if isinstance(test, ast.Compare) and len(test.ops) == 1 and isinstance(test.comparators[0], ast.Constant) \
                and test.comparators[0].value is None:
            k = self.key_of(test.left)
            if k is not None and isinstance(test.ops[0], ast.Is): return (k, True)
            if k is not None and isinstance(test.ops[0], ast.IsNot): return (k, False)
        return None

    def stmts(self, body, tail):
        """body: list of statements; tail: closed term producing the function's result, or
        None when the last statement must be a return.  Returns a closed monadic term."""
        if not body:
            if tail is None: raise Untranslatable('missing return')
            return tail()
        s, rest = body[0], body[1:]
        if isinstance(s, ast.Expr) and isinstance(s.value, ast.Constant):
            return self.stmts(rest, tail)
        if isinstance(s, ast.Assert):
            return self.stmts(rest, tail)            # assertions on argument kinds: not modelled
        if isinstance(s, ast.For) and all(isinstance(b, ast.Assert) for b in s.body):
            return self.stmts(rest, tail)
        if isinstance(s, ast.Return):
            if rest: raise Untranslatable('code after return')
            return self.ret(s.value)
        if isinstance(s, ast.Assign) and len(s.targets) == 1:
            tgt = s.targets[0]
            if isinstance(s.value, ast.Lambda):
                if not isinstance(tgt, ast.Name): raise Untranslatable('lambda target')
                self.lambdas[tgt.id] = s.value
                return self.stmts(rest, tail)
            binds = []
            a, t = self.atom(s.value, binds)
            if isinstance(tgt, ast.Tuple):
                if not isinstance(t, tuple) or len(t) != len(tgt.elts): raise Untranslatable('tuple assignment')
                names = []
                for e, et in zip(tgt.elts, t):
                    k = self.key_of(e)
                    if k is None: raise Untranslatable('tuple target')
                    nm = self.fresh(self.pname(k)); names.append(nm); self.env[k] = (nm, et)
                return self.wrap(binds, '%s <- Ok %s ;; %s' % (tuple_pat(names), a, self.stmts(rest, tail)))
            k = self.key_of(tgt)
            if k is None: raise Untranslatable('assignment target')
            nm = self.fresh(self.pname(k))
            self.env[k] = (nm, t)
            return self.wrap(binds, '%s <- Ok %s ;; %s' % (nm, a, self.stmts(rest, tail)))
        if isinstance(s, ast.If):
            # guard: if c: raise E
            if not s.orelse and len(s.body) == 1 and isinstance(s.body[0], ast.Raise):
                ex = s.body[0].exc
                exn = ex.func.id if isinstance(ex, ast.Call) and isinstance(ex.func, ast.Name) else None
                if exn not in EXN: raise Untranslatable('raise shape')
                binds = []
                c, t = self.atom(s.test, binds)
                if t != 'B': raise Untranslatable('guard condition')
                return self.wrap(binds, 'if %s then Err %s else %s' % (c, exn, self.stmts(rest, tail)))
            nt = self.is_none_test(s.test)
            # both branches return
            if s.orelse and isinstance(s.body[-1], ast.Return) and isinstance(s.orelse[-1], ast.Return) and not rest:
                raise Untranslatable('returning branches')
            names = self.assigned(s.body)
            if s.orelse and sorted(names) != sorted(self.assigned(s.orelse)):
                raise Untranslatable('branches assign different names')
            if not names: raise Untranslatable('if without effect')
            base_env = dict(self.env)
            def branch(stmts, extra):
                self.env = dict(base_env); self.env.update(extra)
                def fin():
                    return '(Ok %s)' % tuple_val([self.env[k][0] for k in names])
                term = self.stmts(stmts, fin) if stmts else fin()
                types = [self.env[k][1] for k in names]
                return term, types
            if nt is not None:
                k, is_none = nt
                if k not in self.env or self.env[k][1] != 'OL': raise Untranslatable('None test on non-optional')
                ov = self.env[k][0]
                inner = self.fresh(self.pname(k))
                some_branch, none_branch = (s.orelse, s.body) if is_none else (s.body, s.orelse)
                tn, types_n = branch(none_branch, {})
                ts, types_s = branch(some_branch, {k: (inner, 'L')})
                if types_n != types_s: raise Untranslatable('branch types differ')
                cond = 'match %s with None => %s | Some %s => %s end' % (ov, tn, inner, ts)
                types = types_n
            else:
                binds = []
                c, t = self.atom(s.test, binds)
                if t != 'B': raise Untranslatable('condition')
                t1, types1 = branch(s.body, {})
                t2, types2 = branch(s.orelse, {})
                if types1 != types2: raise Untranslatable('branch types differ')
                cond = self.wrap(binds, 'if %s then %s else %s' % (c, t1, t2))
                types = types1
            self.env = dict(base_env)
            news = []
            for k, ty in zip(names, types):
                nm = self.fresh(self.pname(k)); news.append(nm); self.env[k] = (nm, ty)
            return '(%s <- %s ;; %s)' % (tuple_pat(news), cond, self.stmts(rest, tail))
        raise Untranslatable('statement %s' % type(s).__name__)

    def ret(self, value):
        binds = []
        if isinstance(value, ast.Call) and isinstance(value.func, ast.Name) and value.func.id.startswith('LineFit'):
            elts = value.args
        elif isinstance(value, ast.Tuple):
            elts = value.elts
        else:
            elts = [value]
        atoms = [self.atom(e, binds) for e in elts]
        self.rtype = tuple(t for _, t in atoms) if len(atoms) > 1 else atoms[0][1]
        return self.wrap(binds, 'Ok %s' % tuple_val([a for a, _ in atoms]))


def find_func(tree, name, cls=None):
    body = tree.body
    if cls:
        for n in body:
            if isinstance(n, ast.ClassDef) and n.name == cls:
                body = n.body; break
        else:
            return None
    for n in body:
        if isinstance(n, ast.FunctionDef) and n.name == name:
            return n
    return None


class Translator(object):
    def __init__(self, repo):
        self.repo = repo
        self.out = ['(* GENERATED by tools/tr_type_b.py from GTC/type_b.py and GTC/type_a.py -- do not edit *)',
                    'From Coq Require Import ZArith List Bool.',
                    'From GTCV Require Import Num Vector Opres KTypes Kernel TBLib.',
                    'Import ListNotations.', '']
        self.funcs = {}          # python name -> (gallina name, param types, return type, self fields)
        self.status = {}
        self.cur_class = None
        self.consts = {'MAX': sys.float_info.max}

    def check_consts(self, tree):
        """MAX must still be sys.float_info.max"""
        for n in tree.body:
            if isinstance(n, ast.Assign) and len(n.targets) == 1 and isinstance(n.targets[0], ast.Name) \
                    and n.targets[0].id == 'MAX':
                if ast.dump(n.value) == ast.dump(ast.parse('sys.float_info.max').body[0].value): return
        del self.consts['MAX']

    def emit(self, pyname, gname, fn, params, body=None, fields=None, tail=None, pre=None):
        """params: list of (python name, type).  fields: list of (field, type) passed first."""
        self.status[gname] = False
        if fn is None:
            self.out.append('(* MISSING %s *)\n' % pyname); return None
        try:
            env = {}
            sig = []
            for fld, ft in (fields or []):
                env['self.' + fld] = ('f_' + fld, ft); sig.append('(f_%s : %s)' % (fld, gtype(ft)))
            for p, t in (pre or []):
                env[p] = ('p_' + p, t); sig.append('(p_%s : %s)' % (p, gtype(t)))
            argnames = [a.arg for a in fn.args.args if a.arg != 'self']
            if argnames[:len(params)] != [p for p, _ in params]:
                raise Untranslatable('parameters %r' % (argnames,))
            for p, t in params:
                env[p] = ('p_' + p, t); sig.append('(p_%s : %s)' % (p, gtype(t)))
            c = Fun(self, env)
            stmts = fn.body if body is None else body
            term = c.stmts(list(stmts), tail(c) if tail else None)
            rtype = c.rtype
        except Untranslatable as ex:
            self.out.append('(* UNTRANSLATABLE %s: %s *)\n' % (pyname, ex)); return None
        self.out.append('Definition %s %s %s : res (%s) :=\n  %s.\n' % (gname, COMMON, ' '.join(sig), gtype(rtype), term))
        self.funcs[pyname] = (gname, tuple(t for _, t in params), rtype, fields)
        self.status[gname] = True
        return rtype

    def klass(self, tree, cls, init_params, methods):
        """__init__ is emitted as a function returning the tuple of fields (in order of first
        assignment); methods take the fields as leading parameters"""
        self.cur_class = cls
        init = find_func(tree, '__init__', cls)
        fields = None
        gi = 'g_%s_init' % cls
        self.status[gi] = False
        if init is None:
            self.out.append('(* MISSING %s.__init__ *)\n' % cls)
        else:
            try:
                probe = Fun(self, {})
                names = [k for k in probe.assigned(init.body)]
                if not all(k.startswith('self.') for k in names): raise Untranslatable('__init__ assigns locals')
                def tail(c):
                    def fin():
                        c.rtype = tuple(c.env[k][1] for k in names)
                        return '(Ok %s)' % tuple_val([c.env[k][0] for k in names])
                    return fin
                rt = self.emit(cls + '.__init__', gi, init, init_params, tail=tail)
                if rt is not None:
                    fields = [(k[5:], t) for k, t in zip(names, rt)]
            except Untranslatable as ex:
                self.out.append('(* UNTRANSLATABLE %s.__init__: %s *)\n' % (cls, ex))
        for m, params in methods:
            g = 'g_%s_%s' % (cls, m.strip('_'))
            if fields is None:
                self.status[g] = False
                self.out.append('(* SKIPPED %s.%s: no fields *)\n' % (cls, m)); continue
            self.emit(cls + '.' + m, g, find_func(tree, m, cls), params, fields=fields)
        self.cur_class = None

    def run(self):
        tb = ast.parse(open(os.path.join(self.repo, 'GTC', 'type_b.py')).read())
        ta = ast.parse(open(os.path.join(self.repo, 'GTC', 'type_a.py')).read())
        self.check_consts(tb)
        # mean(seq): the is_sequence branch (lists are what the fit methods pass)
        fn = find_func(tb, 'mean')
        body = None
        if fn is not None:
            for s in fn.body:
                if isinstance(s, ast.If) and isinstance(s.test, ast.Call) and getattr(s.test.func, 'id', '') == 'is_sequence':
                    body = list(s.body) + [ast.Return(value=ast.Name(id='mu', ctx=ast.Load()))]
            if body is None: fn = None
        self.emit('mean', 'g_mean', fn, [('seq', 'L')], body=body)
        self.emit('line_fit', 'g_line_fit', find_func(tb, 'line_fit'), [('x', 'L'), ('y', 'L')])
        self.emit('line_fit_wls', 'g_line_fit_wls', find_func(tb, 'line_fit_wls'), [('x', 'L'), ('y', 'L'), ('u_y', 'OL')])
        self.emit('_arrays', 'g_arrays', find_func(tb, '_arrays'),
                  [('sin_a', 'M'), ('cos_a', 'M'), ('sin_2a', 'M'), ('cos_2a', 'M'), ('x', 'L'), ('y', 'L'),
                   ('u2_x', 'L'), ('u2_y', 'L'), ('cov', 'L')])
        ip = [('x', 'L'), ('y', 'L'), ('u_x', 'OL'), ('u_y', 'L'), ('r_xy', 'L')]
        self.klass(tb, 'ChiSq', ip, [('arrays', [('alpha', 'M')]), ('p_hat', [('alpha', 'M')]), ('__call__', [('alpha', 'M')])])
        self.klass(tb, 'dChiSq_dalpha', ip, [('arrays', [('alpha', 'M')]), ('__call__', [('alpha', 'M')])])
        # prediction methods of LineFitOLS: the label step (result()) is a session operation and is
        # modelled in TypeB.v; here: the unlabelled value, after checking the shape of the label step
        self.predict(tb)
        self.merge(ta)
        self.result_bound(tb)
        return self.status

    def predict(self, tb):
        ab = [('a', 'M'), ('b', 'M')]
        fn = find_func(tb, 'x_from_y', 'LineFitOLS')
        body = None
        if fn is not None:
            b = [s for s in fn.body if not (isinstance(s, ast.Expr) and isinstance(s.value, ast.Constant))]
            ok = (len(b) >= 4 and ast.dump(b[0]) == ast.dump(ast.parse('a, b = self._a_b').body[0])
                  and ast.dump(b[-2]) == ast.dump(ast.parse('if x_label is not None:\n    x = result( x, label=x_label )').body[0])
                  and ast.dump(b[-1]) == ast.dump(ast.parse('def f():\n return x').body[0].body[0]))
            if ok: body = b[1:-2] + [b[-1]]
            else: fn = None
        self.emit('LineFitOLS.x_from_y', 'g_x_from_y', fn, [('yseq', 'L')], body=body, pre=ab)
        fn = find_func(tb, 'y_from_x', 'LineFitOLS')
        body = None
        if fn is not None:
            b = [s for s in fn.body if not (isinstance(s, ast.Expr) and isinstance(s.value, ast.Constant))]
            ok = False
            if len(b) == 2 and ast.dump(b[0]) == ast.dump(ast.parse('a, b = self._a_b').body[0]) and isinstance(b[1], ast.If):
                i = b[1]
                if ast.dump(i.test) == ast.dump(ast.parse('y_label is None').body[0].value) and len(i.body) == 1 \
                        and len(i.orelse) == 1 and isinstance(i.body[0], ast.Return) and isinstance(i.orelse[0], ast.Return):
                    r2 = i.orelse[0].value
                    if isinstance(r2, ast.Call) and getattr(r2.func, 'id', '') == 'result' and len(r2.args) == 1 \
                            and ast.dump(r2.args[0]) == ast.dump(i.body[0].value) \
                            and [(k.arg, ast.dump(k.value)) for k in r2.keywords] == [('label', ast.dump(ast.Name(id='y_label', ctx=ast.Load())))]:
                        ok = True; body = [i.body[0]]
            if not ok: fn = None
        self.emit('LineFitOLS.y_from_x', 'g_y_from_x', fn, [('x', 'M')], body=body, pre=ab)

    def result_bound(self, tb):
        """is the name `result` (used by the label step of the prediction methods) bound at module
        level of type_b.py to something that declares an intermediate result -- an import of
        core.result or the `lambda un,label: un._intermediate(label)` that type_a.py uses?"""
        bound = False
        lam = ast.dump(ast.parse('result = lambda un,label: un._intermediate(label)').body[0].value)
        for n in tb.body:
            if isinstance(n, ast.ImportFrom) and n.module in ('GTC.core', 'GTC') and \
                    any(a.name == 'result' and a.asname in (None, 'result') for a in n.names):
                bound = True
            if isinstance(n, ast.Assign) and len(n.targets) == 1 and isinstance(n.targets[0], ast.Name) \
                    and n.targets[0].id == 'result':
                if ast.dump(n.value) == lam: bound = True
                else:
                    self.out.append('(* UNTRANSLATABLE binding of `result` in type_b.py *)\n')
                    self.status['g_tb_result_bound'] = False
                    return
            if isinstance(n, ast.FunctionDef) and n.name == 'result':
                self.out.append('(* UNTRANSLATABLE def result in type_b.py *)\n')
                self.status['g_tb_result_bound'] = False
                return
        self.out.append('(* is `result` bound in the module namespace of type_b.py (else the label step raises NameError) *)')
        self.out.append('Definition g_tb_result_bound : bool := %s.\n' % ('true' if bound else 'false'))
        self.status['g_tb_result_bound'] = True

    def merge(self, ta):
        """merge(a, b, TOL): if abs(value(a) - value(b)) > TOL: raise RuntimeError  else: return a + (b - value(b))"""
        fn = find_func(ta, 'merge')
        body = None
        if fn is not None:
            b = [s for s in fn.body if not (isinstance(s, ast.Expr) and isinstance(s.value, ast.Constant))]
            if len(b) == 1 and isinstance(b[0], ast.If) and len(b[0].body) == 1 and isinstance(b[0].body[0], ast.Raise) \
                    and len(b[0].orelse) == 1 and isinstance(b[0].orelse[0], ast.Return):
                body = [ast.If(test=b[0].test, body=b[0].body, orelse=[]), b[0].orelse[0]]
            else: fn = None
        self.emit('merge', 'g_merge', fn, [('a', 'M'), ('b', 'M'), ('TOL', 'M')], body=body)


def main(repo=None, outdir=None):
    repo = repo or sys.argv[1]; outdir = outdir or sys.argv[2]
    t = Translator(repo)
    try:
        st = t.run()
    except (SyntaxError, OSError) as ex:
        t.out.append('(* SOURCE UNREADABLE: %s *)' % ex); st = {'source': False}
    os.makedirs(outdir, exist_ok=True)
    open(os.path.join(outdir, 'Gen_type_b.v'), 'w').write('\n'.join(t.out) + '\n')
    bad = [k for k, v in st.items() if not v]
    print('tr_type_b: Gen_type_b.v: %d definitions, %d untranslatable %s' % (len(st) - len(bad), len(bad), bad))
    return st

if __name__ == '__main__':
    main()

#!/usr/bin/env python3
"""mkdetection.py <matrix file>... : merge the results of tools/mutant_matrix*.sh runs into seeded/detection.json.
Each entry keeps what earlier rounds recorded (key `history`) and the latest result (key `result`)."""
import json, os, re, sys
V = os.path.dirname(os.path.dirname(os.path.abspath(__file__)))
p = os.path.join(V, 'seeded', 'detection.json')
det = json.load(open(p)) if os.path.exists(p) else {}
for sid, v in list(det.items()):
    if isinstance(v, str): det[sid] = {'result': v, 'history': []}
for f in sys.argv[1:]:
    label = os.path.basename(f)
    for line in open(f):
        m = re.match(r'(C\d\d_\d+)\s+(.*)', line.strip())
        if not m: continue
        sid, rest = m.groups()
        if 'VIOLATION' in rest:
            res = 'VIOLATION, no input' if 'no-failing-input-found' in rest else 'VIOLATION, input'
        elif ' ok ' in rest or rest.rstrip().endswith('ok'):
            res = 'MISSED (check passed)'
        elif 'does not apply' in rest:
            res = 'patch does not apply'
        else:
            res = 'no result: ' + rest[:80]
        e = det.setdefault(sid, {'result': None, 'history': []})
        if e['result'] and e['result'] != res: e['history'].append(e['result'])
        e['result'] = res + ' [%s, repaired tree]' % label
json.dump(det, open(p, 'w'), indent=1, sort_keys=True)
print(len(det), 'entries')

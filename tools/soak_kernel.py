import sys, random
sys.path.insert(0, '/verif/harness')
import kernel
seed = int(sys.argv[1]); n = int(sys.argv[2])
for prof in ['mix', 'value', 'sens', 'cov', 'df', 'result', 'history']:
    r = kernel.run_kernel_corr(random.Random(seed * 77 + hash(prof) % 1000), n, prof, 'soak_' + prof, malformed_every=4)
    print(prof, r['programs'], r['steps'], len(r['mismatches']))
    for m in r['mismatches'][:3]:
        print('   ', str(m)[:1500])

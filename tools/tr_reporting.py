#!/venv/bin/python
"""tr_reporting.py <repo> <outdir> -- translate the coverage-factor functions of
GTC/reporting.py (k_factor, k2_factor_sq, k_to_dof, k2_to_dof, _df_k2) and the constant
GTC.inf_dof from the Python AST into Gallina (gen/Gen_reporting.v), written against the
vocabulary of coq/KFactor.v.

The WHOLE body of each function is translated (guards, p transformations, branch order,
the nested fn, the unrolled bracket loop), so an edit of a formula, a comparison or a constant
changes the definitions the theorems of KFactorFacts.v are about.

Fail closed: a function that is missing or uses anything outside the small recognised
statement/expression language below is emitted as a comment only - the dependent proofs
then do not compile.  Recognised:
  statements  docstring | x = e | t = (e, ..) | if/elif/else | raise Exc(..) | return e
              | def f(a): .. (one nested function) | for v in <tuple name>: .. (unrolled)
  expressions int/float literals, names, + - * / ** unary -, one comparison (< <= > >=),
              and/or/not of effect-free comparisons, float(e), math.log(e),
              special.{stdtrit,ndtri,stdtridf,fdtr,fdtri}(..), optimize.ridder(f,a,b),
              calls of the nested function and of _df_k2, `a if c else b` in return position.
Every float operation that can raise or that is external (/, **, math.log, scipy) becomes a
monadic bind in source evaluation order.  A parameter whose default is `inf` (df) has type
[ext]; the name `inf` is [PInf]."""
import ast, os, sys

class Unsupported(Exception):
    pass

SPECIAL = {'stdtrit': 2, 'ndtri': 1, 'stdtridf': 2, 'fdtr': 3, 'fdtri': 3}
EXNS = {'RuntimeError', 'ValueError', 'TypeError', 'ZeroDivisionError', 'OverflowError', 'AssertionError'}
FUNCS = ['_df_k2', 'k2_to_dof', 'k2_factor_sq', 'k_factor', 'k_to_dof']
# known translated module-level callees: name -> (gallina name, arity, result type)
CALLEES = {'_df_k2': ('g__df_k2', 4, 'ext')}

def zlit(z):
    return '(%d)%%Z' % z if z < 0 else '%d%%Z' % z

def flit(x):
    if x != x or x in (float('inf'), float('-inf')):
        raise Unsupported('non-finite float literal')
    n, d = float(x).as_integer_ratio()
    e = -(d.bit_length() - 1)
    while n != 0 and n % 2 == 0 and e < 0:
        n //= 2; e += 1
    return '(dyad N %s %s)' % (zlit(n), zlit(e))

class Fn(object):
    """translation of one function body"""
    def __init__(self, mode, env, localfns):
        self.mode = mode            # 'ext' | 'T' : type of the returned value
        self.env = dict(env)        # python name -> 'T' | 'ext'
        self.tuples = {}            # python name -> list of ast elts
        self.localfns = dict(localfns)   # nested function names -> arity
        self.n = 0

    def fresh(self, p):
        self.n += 1
        return '%s_%d' % (p, self.n)

    # ---------- expressions: returns (binds, term, type) ----------
    def asT(self, r):
        b, t, ty = r
        if ty == 'T': return b, t
        if ty == 'ext': return b, '(x_val N %s)' % t
        raise Unsupported('number expected, got %s' % ty)

    def expr(self, e):
        if isinstance(e, ast.Constant):
            if isinstance(e.value, bool): raise Unsupported('bool constant')
            if isinstance(e.value, int): return [], '(of_Z N %s)' % zlit(e.value), 'T'
            if isinstance(e.value, float): return [], flit(e.value), 'T'
            raise Unsupported('constant %r' % (e.value,))
        if isinstance(e, ast.Name):
            if e.id in self.env: return [], 'v_' + e.id, self.env[e.id]
            if e.id == 'inf': return [], 'PInf', 'ext'
            if e.id == 'inf_dof': return [], '(g_inf_dof N)', 'T'
            raise Unsupported('unknown name %s' % e.id)
        if isinstance(e, ast.UnaryOp) and isinstance(e.op, ast.USub):
            b, t = self.asT(self.expr(e.operand))
            return b, '(neg N %s)' % t, 'T'
        if isinstance(e, ast.UnaryOp) and isinstance(e.op, ast.Not):
            b, t, ty = self.expr(e.operand)
            if ty != 'bool': raise Unsupported('not of a non-boolean')
            return b, '(negb %s)' % t, 'bool'
        if isinstance(e, ast.BinOp):
            l = self.expr(e.left); r = self.expr(e.right)
            if isinstance(e.op, ast.Add) and l[2] == 'ext' and r[2] == 'T':
                return l[0] + r[0], '(x_add N %s %s)' % (l[1], r[1]), 'ext'
            bl, tl = self.asT(l); br, tr = self.asT(r)
            b = bl + br
            if isinstance(e.op, ast.Add): return b, '(add N %s %s)' % (tl, tr), 'T'
            if isinstance(e.op, ast.Sub): return b, '(sub N %s %s)' % (tl, tr), 'T'
            if isinstance(e.op, ast.Mult): return b, '(mul N %s %s)' % (tl, tr), 'T'
            if isinstance(e.op, ast.Div):
                v = self.fresh('q'); return b + ['%s <- div N %s %s' % (v, tl, tr)], v, 'T'
            if isinstance(e.op, ast.Pow):
                v = self.fresh('w'); return b + ['%s <- libm2 N F_pow %s %s' % (v, tl, tr)], v, 'T'
            raise Unsupported('operator %s' % type(e.op).__name__)
        if isinstance(e, ast.Compare):
            if len(e.ops) != 1: raise Unsupported('chained comparison')
            op = e.ops[0]
            l = self.expr(e.left); r = self.expr(e.comparators[0])
            if isinstance(op, (ast.Gt, ast.GtE)):       # l > r  ==  r < l
                op = ast.Lt() if isinstance(op, ast.Gt) else ast.LtE()
                l, r = r, l
                b = r[0] + l[0]                          # evaluation order: original left first
            elif isinstance(op, (ast.Lt, ast.LtE)):
                b = l[0] + r[0]
            else:
                raise Unsupported('comparison %s' % type(op).__name__)
            strict = isinstance(op, ast.Lt)
            if l[2] == 'T' and r[2] == 'T':
                return b, '(%s N %s %s)' % ('ltb' if strict else 'leb', l[1], r[1]), 'bool'
            if l[2] == 'T' and r[2] == 'ext':
                return b, '(%s N O %s %s)' % ('x_ltb' if strict else 'x_leb', l[1], r[1]), 'bool'
            raise Unsupported('comparison with a dof on the small side')
        if isinstance(e, ast.BoolOp):
            parts = [self.expr(v) for v in e.values]
            if any(p[2] != 'bool' for p in parts): raise Unsupported('non-boolean operand of and/or')
            if any(p[0] for p in parts[1:]): raise Unsupported('effects in a short-circuited operand')
            f = 'orb' if isinstance(e.op, ast.Or) else 'andb'
            t = parts[-1][1]
            for p in reversed(parts[:-1]):
                t = '(%s %s %s)' % (f, p[1], t)
            return parts[0][0], t, 'bool'
        if isinstance(e, ast.Call):
            if e.keywords: raise Unsupported('keyword arguments')
            f = e.func
            if isinstance(f, ast.Name) and f.id == 'float' and len(e.args) == 1:
                return self.expr(e.args[0])
            if isinstance(f, ast.Attribute) and isinstance(f.value, ast.Name):
                mod, name = f.value.id, f.attr
                if mod == 'math' and name == 'log' and len(e.args) == 1:
                    b, t = self.asT(self.expr(e.args[0]))
                    v = self.fresh('m'); return b + ['%s <- libm1 N F_log %s' % (v, t)], v, 'T'
                if mod == 'special' and name in SPECIAL and len(e.args) == SPECIAL[name]:
                    b = []; ts = []
                    for a in e.args:
                        ba, ta = self.asT(self.expr(a)); b += ba; ts.append(ta)
                    v = self.fresh('s')
                    return b + ['%s <- sp_%s O %s' % (v, name, ' '.join(ts))], v, 'T'
                if mod == 'optimize' and name == 'ridder' and len(e.args) == 3:
                    g = e.args[0]
                    if not (isinstance(g, ast.Name) and g.id in self.localfns): raise Unsupported('ridder of a non-local function')
                    b = []; ts = []
                    for a in e.args[1:]:
                        ba, ta = self.asT(self.expr(a)); b += ba; ts.append(ta)
                    v = self.fresh('r')
                    return b + ['%s <- sp_ridder O v_%s %s' % (v, g.id, ' '.join(ts))], v, 'T'
            if isinstance(f, ast.Name) and f.id in self.localfns and len(e.args) == self.localfns[f.id]:
                b = []; ts = []
                for a in e.args:
                    ba, ta = self.asT(self.expr(a)); b += ba; ts.append(ta)
                v = self.fresh('f')
                return b + ['%s <- v_%s %s' % (v, f.id, ' '.join(ts))], v, 'T'
            if isinstance(f, ast.Name) and f.id in CALLEES and len(e.args) == CALLEES[f.id][1]:
                gname, _, rty = CALLEES[f.id]
                b = []; ts = []
                for a in e.args:
                    ba, ta = self.asT(self.expr(a)); b += ba; ts.append(ta)
                v = self.fresh('d')
                return b + ['%s <- %s N O %s' % (v, gname, ' '.join(ts))], v, rty
            raise Unsupported('call %s' % ast.dump(f))
        raise Unsupported('expression %s' % type(e).__name__)

    @staticmethod
    def wrap(binds, body):
        for b in reversed(binds):
            body = '(%s ;; %s)' % (b, body)
        return body

    def ret(self, e):
        if isinstance(e, ast.IfExp):
            b, c, ty = self.expr(e.test)
            if ty != 'bool': raise Unsupported('non-boolean condition')
            return self.wrap(b, '(if %s then %s else %s)' % (c, self.ret(e.body), self.ret(e.orelse)))
        b, t, ty = self.expr(e)
        if self.mode == 'T':
            if ty != 'T': raise Unsupported('nested function returns %s' % ty)
            return self.wrap(b, '(Ok %s)' % t)
        if ty == 'ext': return self.wrap(b, '(Ok %s)' % t)
        if ty == 'T': return self.wrap(b, '(Ok (Fin %s))' % t)
        raise Unsupported('return of %s' % ty)

    # ---------- statements ----------
    def stmts(self, ss):
        if not ss:
            raise Unsupported('control can fall off the end of the function')
        s, rest = ss[0], ss[1:]
        if isinstance(s, ast.Expr) and isinstance(s.value, ast.Constant) and isinstance(s.value.value, str):
            return self.stmts(rest)
        if isinstance(s, ast.Return):
            if s.value is None: raise Unsupported('bare return')
            return self.ret(s.value)
        if isinstance(s, ast.Raise):
            x = s.exc
            if isinstance(x, ast.Call): x = x.func
            if not (isinstance(x, ast.Name) and x.id in EXNS): raise Unsupported('raise of an unknown exception')
            return '(Err %s)' % x.id
        if isinstance(s, ast.Assign):
            if len(s.targets) != 1 or not isinstance(s.targets[0], ast.Name): raise Unsupported('assignment target')
            name = s.targets[0].id
            if isinstance(s.value, ast.Tuple):
                self.tuples[name] = list(s.value.elts)
                return self.stmts(rest)
            b, t, ty = self.expr(s.value)
            if ty not in ('T', 'ext'): raise Unsupported('assignment of %s' % ty)
            if self.env.get(name, ty) != ty: raise Unsupported('variable %s changes type' % name)
            saved = self.env.get(name)
            self.env[name] = ty
            body = self.stmts(rest)
            if saved is None: del self.env[name]
            else: self.env[name] = saved
            return self.wrap(b, '(let v_%s := %s in %s)' % (name, t, body))
        if isinstance(s, ast.If):
            b, c, ty = self.expr(s.test)
            if ty != 'bool': raise Unsupported('non-boolean condition')
            saved = dict(self.env)
            th = self.stmts(list(s.body) + rest)
            self.env = dict(saved)
            el = self.stmts(list(s.orelse) + rest)
            self.env = saved
            return self.wrap(b, '(if %s then %s else %s)' % (c, th, el))
        if isinstance(s, ast.For):
            if s.orelse or not isinstance(s.target, ast.Name) or not isinstance(s.iter, ast.Name) or s.iter.id not in self.tuples:
                raise Unsupported('for loop shape')
            for n in ast.walk(s):
                if isinstance(n, (ast.Break, ast.Continue)): raise Unsupported('break/continue')
            flat = []
            for elt in self.tuples[s.iter.id]:
                flat.append(ast.Assign(targets=[ast.Name(id=s.target.id, ctx=ast.Store())], value=elt))
                flat.extend(s.body)
            return self.stmts(flat + rest)
        if isinstance(s, ast.FunctionDef):
            if self.localfns: raise Unsupported('more than one nested function')
            a = s.args
            if a.defaults or a.vararg or a.kwarg or a.kwonlyargs or s.decorator_list: raise Unsupported('nested function signature')
            params = [x.arg for x in a.args]
            # Python closures see later rebinding of captured variables; a Gallina closure does not
            used = {n.id for b in s.body for n in ast.walk(b) if isinstance(n, ast.Name) and isinstance(n.ctx, ast.Load)}
            later = {n.id for r in rest for n in ast.walk(r) if isinstance(n, ast.Name) and isinstance(n.ctx, ast.Store)}
            if (used - set(params)) & later: raise Unsupported('captured variable is rebound after the nested def')
            inner = Fn('T', self.env, {})
            for p in params: inner.env[p] = 'T'
            inner.n = self.n + 100
            body = inner.stmts(list(s.body))
            self.localfns[s.name] = len(params)
            k = self.stmts(rest)
            return '(let v_%s := (fun %s => %s) in %s)' % (s.name, ' '.join('(v_%s : T N)' % p for p in params), body, k)
        raise Unsupported('statement %s' % type(s).__name__)

def translate_function(fd):
    a = fd.args
    if a.vararg or a.kwarg or a.kwonlyargs or fd.decorator_list: raise Unsupported('signature')
    params = [x.arg for x in a.args]
    ndef = len(a.defaults)
    types = {}
    for i, p in enumerate(params):
        d = a.defaults[i - (len(params) - ndef)] if i >= len(params) - ndef else None
        types[p] = 'ext' if (isinstance(d, ast.Name) and d.id == 'inf') else 'T'
    fn = Fn('ext', types, {})
    body = fn.stmts(list(fd.body))
    sig = ' '.join('(v_%s : %s)' % (p, 'ext (T N)' if types[p] == 'ext' else 'T N') for p in params)
    return 'Definition g_%s (N : Num) (O : Scipy N) %s : res (ext (T N)) :=\n  %s.\n' % (fd.name, sig, body), [types[p] for p in params]

def main(repo, outdir):
    out = ['(* GENERATED by tools/tr_reporting.py from GTC/reporting.py and GTC/__init__.py -- do not edit *)',
           'From Coq Require Import ZArith Bool.', 'From GTCV Require Import Num KFactor.', '']
    status = {}
    # ---- inf_dof
    try:
        tree = ast.parse(open(os.path.join(repo, 'GTC', '__init__.py')).read())
        val = None
        for s in tree.body:
            if isinstance(s, ast.Assign) and len(s.targets) == 1 and isinstance(s.targets[0], ast.Name) and s.targets[0].id == 'inf_dof':
                if isinstance(s.value, ast.Constant) and isinstance(s.value.value, (int, float)) and not isinstance(s.value.value, bool):
                    val = s.value.value
        if val is None: raise Unsupported('inf_dof is not a numeric literal')
        lit = flit(val) if isinstance(val, float) else '(of_Z N %s)' % zlit(val)
        out.append('Definition g_inf_dof (N : Num) : T N := %s.\n' % lit)
        status['inf_dof'] = True
    except (Unsupported, OSError, SyntaxError) as ex:
        out.append('(* UNTRANSLATABLE inf_dof: %s *)\n' % ex); status['inf_dof'] = False
    # ---- functions
    try:
        tree = ast.parse(open(os.path.join(repo, 'GTC', 'reporting.py')).read())
        fds = {s.name: s for s in tree.body if isinstance(s, ast.FunctionDef)}
    except (OSError, SyntaxError) as ex:
        fds = {}
        out.append('(* cannot parse GTC/reporting.py: %s *)\n' % ex)
    for name in FUNCS:
        try:
            if name not in fds: raise Unsupported('function not found')
            text, types = translate_function(fds[name])
            if name == '_df_k2' and types != ['T', 'T', 'T', 'T']: raise Unsupported('signature of _df_k2')
            out.append(text); status[name] = True
        except Unsupported as ex:
            out.append('(* UNTRANSLATABLE %s: %s *)\n' % (name, str(ex).replace('*)', '* )'))); status[name] = False
    os.makedirs(outdir, exist_ok=True)
    open(os.path.join(outdir, 'Gen_reporting.v'), 'w').write('\n'.join(out))
    bad = [k for k, v in status.items() if not v]
    print('tr_reporting: Gen_reporting.v: %d definitions, %d untranslatable %s' % (len(status) - len(bad), len(bad), bad))
    return status

if __name__ == '__main__':
    main(sys.argv[1], sys.argv[2])

#!/bin/bash
# try_mutant.sh <patch.diff> <Cnn> [<Cnn> ...] : apply the patch in a private worktree of /repo
# (VERIF_REPO), run the quick checks there, remove the worktree.  /repo itself is not touched.
patch=$1; shift
V=${VERIF_DIR:-/verif}
W=/tmp/mrepo_$$
git -C /repo worktree add --detach $W >/dev/null 2>&1 || { echo "cannot add worktree"; exit 2; }
( cd $W && git apply "$patch" 2>/dev/null ) || { echo "patch does not apply"; git -C /repo worktree remove --force $W; exit 2; }
for p in "$@"; do
  out=$(cd $V && VERIF_REPO=$W timeout 900 bin/check $p quick 2>&1 | grep -v conda | grep -v KNOWN-FINDING | tail -2 | tr '\n' ' ')
  echo "  $p: $out"
done
git -C /repo worktree remove --force $W
rm -rf $V/replays
(cd $V && PYTHONPATH=/repo /venv/bin/python tools/translate.py /repo coq/gen >/dev/null 2>&1; for t in tools/tr_*.py; do PYTHONPATH=/repo /venv/bin/python $t /repo coq/gen >/dev/null 2>&1; done; cd coq && make -k -j16 >/dev/null 2>&1)

#!/bin/bash
# mutant_matrix_par.sh <out file> <workers> <seed ids...> : like mutant_matrix.sh, but with <workers> private copies
# of /verif under /tmp/mm_<k>/verif running in parallel (each seed against the quick check of its own property)
out=$1; n=$2; shift; shift
: > $out
ids=("$@")
for k in $(seq 1 $n); do
  (
    rm -rf /tmp/${MM_PREFIX:-mm}_$k; mkdir -p /tmp/${MM_PREFIX:-mm}_$k; cp -a /verif /tmp/${MM_PREFIX:-mm}_$k/verif; rm -rf /tmp/${MM_PREFIX:-mm}_$k/verif/.git
    i=0
    for m in "${ids[@]}"; do
      i=$((i+1)); [ $(( (i-1) % n + 1 )) = $k ] || continue
      p=${m%_*}
      r=$(VERIF_DIR=/tmp/${MM_PREFIX:-mm}_$k/verif /verif/tools/try_mutant.sh /verif/seeded/$m/patch.diff $p 2>&1 | grep -v conda | grep "VIOLATION\|ok \|does not apply" | head -1)
      echo "$m $r" >> $out
    done
    rm -rf /tmp/${MM_PREFIX:-mm}_$k
  ) &
done
wait
sort -o $out $out
echo DONE >> $out

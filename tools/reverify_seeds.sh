#!/bin/bash
# reverify_seeds.sh [ids...] : re-confirm every stored seed against /repo's CURRENT HEAD (after fix: commits):
# patch applies, demo passes clean / fails patched, pinned suite unchanged with the patch.  Prints one line per seed.
cd /verif/seeded
ids=${@:-$(ls -d C??_* | tr '\n' ' ')}
one() {
  id=$1; W=/tmp/rvseed_$id; src=/verif/seeded/$id
  git -C /repo worktree add --detach $W >/dev/null 2>&1 || { echo "$id: worktree failed"; return; }
  cd $W
  PYTHONPATH=$W /venv/bin/python -W ignore $src/demo.py >/dev/null 2>&1; d0=$?
  if git apply $src/patch.diff 2>/dev/null; then
    PYTHONPATH=$W /venv/bin/python -W ignore $src/demo.py >/dev/null 2>&1; d1=$?
    t=$(/venv/bin/python -m pytest -q -p no:cacheprovider --timeout=900 --continue-on-collection-errors 2>&1 | tail -1 | tr -d '=')
    echo "$id: applies demo clean=$d0 patched=$d1 tests:$t"
  else
    echo "$id: PATCH DOES NOT APPLY (demo clean=$d0)"
  fi
  cd /; git -C /repo worktree remove --force $W
}
export -f one
echo $ids | tr ' ' '\n' | xargs -P 6 -I{} bash -c 'one {}'

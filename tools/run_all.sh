#!/bin/bash
# run_all.sh [tier] : every registered quick (or thorough) check, sequentially, with a one-line summary each
tier=${1:-quick}
cd /verif
for p in $(python3 -c "import json;print(' '.join(c['property_id'] for c in json.load(open('MANIFEST.json'))['checks']))"); do
  out=$(bin/check $p $tier 2>&1 | grep -v conda)
  echo "$(echo "$out" | grep -c KNOWN-FINDING) known | $(echo "$out" | grep VIOLATION | head -1) $(echo "$out" | tail -1)"
done

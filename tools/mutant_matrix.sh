#!/bin/bash
# mutant_matrix.sh <out file> <seed ids...> : run each seeded mutant against the check of its own property
out=$1; shift
: > $out
for m in "$@"; do
  p=${m%_*}
  r=$(/verif/tools/try_mutant.sh /verif/seeded/$m/patch.diff $p 2>&1 | grep -v conda | grep "VIOLATION\|ok " | head -1)
  echo "$m $r" >> $out
done
echo DONE >> $out

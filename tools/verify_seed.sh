#!/bin/bash
# verify_seed.sh <srcdir with patch.diff demo.py meta.json> <seed id> : confirm (demo passes on clean tree, fails with
# patch, full test suite unchanged with patch) in a scratch worktree, then store under /verif/seeded/<id>/
src=$1; id=$2
W=/tmp/vseed_$$
git -C /repo worktree add --detach $W >/dev/null 2>&1 || exit 2
cd $W
PYTHONPATH=$W /venv/bin/python -W ignore $src/demo.py >/dev/null 2>&1; d0=$?
git apply $src/patch.diff 2>/dev/null || { echo "$id: patch does not apply"; git -C /repo worktree remove --force $W; exit 2; }
PYTHONPATH=$W /venv/bin/python -W ignore $src/demo.py >/dev/null 2>&1; d1=$?
t=$(/venv/bin/python -m pytest -q -p no:cacheprovider --timeout=900 --continue-on-collection-errors 2>&1 | tail -1)
cd /; git -C /repo worktree remove --force $W
echo "$id: demo clean=$d0 patched=$d1 tests: $t"
if [ "$d0" = 0 ] && [ "$d1" != 0 ] && echo "$t" | grep -q "6 failed, 644 passed"; then
  mkdir -p /verif/seeded/$id; cp $src/patch.diff $src/demo.py /verif/seeded/$id/
  python3 - "$src/meta.json" "/verif/seeded/$id/meta.json" "$t" <<'PY'
import json,sys
m=json.load(open(sys.argv[1])); m['verified']={'demo_exit_clean':0,'demo_exit_patched':'nonzero','pytest_with_patch':sys.argv[3],'how':'tools/verify_seed.sh in a scratch worktree of /repo'}
json.dump(m,open(sys.argv[2],'w'),indent=1)
PY
  echo "   stored"
else echo "   NOT stored"; fi

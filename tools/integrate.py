#!/usr/bin/env python3
"""integrate.py Cnn ... : merge known/Cnn.json into known_findings.json (dedupe by id)"""
import json, sys, os
V = os.path.dirname(os.path.dirname(os.path.abspath(__file__)))
k = json.load(open(os.path.join(V, 'known_findings.json')))
ids = {f['id'] for f in k['findings']}
for p in sys.argv[1:]:
    f = os.path.join(V, 'known', p + '.json')
    if not os.path.exists(f): print('no', f); continue
    d = json.load(open(f))
    ents = d['findings'] if isinstance(d, dict) and 'findings' in d else d
    for e in ents:
        if e['id'] in ids: continue
        e.setdefault('property', p); e.setdefault('kind', 'known')
        k['findings'].append(e); ids.add(e['id']); print('added', e['id'])
json.dump(k, open(os.path.join(V, 'known_findings.json'), 'w'), indent=1)

#!/usr/bin/env python3
"""mkdesign.py -- regenerate the 'as built' part of DESIGN.md (sections 12 ff.) from MANIFEST.json,
known_findings.json, seeded/*/meta.json, seeded/detection.json and evidence/*.json"""
import json, re, os, glob
V = os.path.dirname(os.path.dirname(os.path.abspath(__file__)))
os.chdir(V)
d = open('DESIGN.md').read()
marker = '\n---------------------------------------------------------------------------------------\n\n## 12.'
if marker in d: d = d[:d.index(marker)]
man = json.load(open('MANIFEST.json'))
kf = json.load(open('known_findings.json'))['findings']
checks = {c['property_id']: c for c in man['checks']}
out = []
out.append(open('tools/design_asbuilt_head.md').read().rstrip('\n'))
out.append('''
## 13. Per-property status (what is proved, what is only tied by correspondence, what is refuted)

| prop | claim (from MANIFEST.json `level_claimed.text`) |
|---|---|''')
for pid in sorted(checks):
    out.append('| %s | %s |' % (pid, checks[pid]['level_claimed']['text'].replace('|', '\\|')))
na = man.get('not_applicable', [])
if na:
    out.append('\nNot claimed in this revision: ' + '; '.join('%s (%s)' % (n['property_id'], n['reason']) for n in na))
out.append('''
## 14. Findings on the pinned tree

Every entry below is a genuine behaviour of /repo that contradicts the property text, reproduced on the
implementation by the named check function on every run (`KNOWN-FINDING` while it is of kind `known`; a
`fixed` entry is replayed too and its reappearance is a violation), and - where the model is faithful to
it - also proved as a `..._refuted` theorem.  None is a false alarm of the machinery.  Minimal repairs
prepared but not committed to /repo are in `proposed_fixes/` (the notes of each property say what changes
in the model when one is applied).

| property | id | kind | what fails |
|---|---|---|---|''')
for f in kf:
    out.append('| %s | %s | %s | %s |' % (f['property'], f['id'], f['kind'] + ((' ' + f.get('commit', '')) if f['kind'] == 'fixed' else ''),
                                          f['what'].replace('|', '\\|').replace('\n', ' ')[:400]))
# ---- seeded changes
det = {}
if os.path.exists('seeded/detection.json'):
    det = json.load(open('seeded/detection.json'))
out.append('''
## 15. Seeded changes and which checks catch them

Each change below was written by a fresh sub-agent that saw only the property text and a scratch worktree of
/repo (nothing from /verif); it was kept only after `tools/verify_seed.sh` confirmed, in another scratch
worktree, that the whole pinned test suite still gives 6 failed / 644 passed with it, and that its `demo.py`
exits 0 on the unchanged tree and non-zero with the patch.  `tools/try_mutant.sh` then ran the quick check of
the property against a worktree with the patch applied (`VERIF_REPO`).  "input" = the VIOLATION carried a
concrete failing input found by the oracle; "no input" = VIOLATION ... no-failing-input-found (broken proof or
correspondence only).

| seed | what it needs to manifest | result of the property's quick check |
|---|---|---|''')
for m in sorted(glob.glob('seeded/*/meta.json')):
    sid = m.split('/')[1]
    meta = json.load(open(m))
    need = str(meta.get('needs_to_manifest', ''))[:260].replace('|', '\\|').replace('\n', ' ')
    dv = det.get(sid, 'not yet run')
    if isinstance(dv, dict):
        dv = dv['result'] + (' (earlier rounds: ' + '; '.join(h[:90] for h in dv['history']) + ')' if dv.get('history') else '')
    out.append('| %s | %s | %s |' % (sid, need, str(dv).replace('|', '\\|')))
out.append(open('tools/design_asbuilt_tail.md').read().rstrip('\n'))
# ---- independent re-check
if os.path.exists('docs/coqchk.txt'):
    out.append('\n## 16c. Independent re-check (coqchk -o)\n\n```\n' + open('docs/coqchk.txt').read().rstrip('\n') + '\n```\n' +
               '`ClassicalEpsilon.constructive_indefinite_description` enters the loaded context through Coquelicot; no property '
               'theorem of this development depends on it according to `Print Assumptions` (section 17), but it is part of the '
               'context coqchk lists and is named here for completeness.')
# ---- trusted base from evidence
out.append('''
## 17. Trusted base as measured (from the `Print Assumptions` output collected into evidence/*.json)

| prop | axioms under the property theorems | obligations | correspondence cases (quick) |
|---|---|---|---|''')
for f in sorted(glob.glob('evidence/C*.json')):
    e = json.load(open(f)); c = e['coverage']
    ax = [t for t in c.get('trusted_base', []) if t.startswith('axioms reported')]
    a = ax[0].split(': ', 1)[1] if ax else ''
    out.append('| %s | %s | %s | %s programs / %s steps |' % (e['property_id'], a, c.get('obligations'), c.get('programs'), c.get('steps_compared')))
out.append('''
All of these are declared by the Coq standard library or by Coquelicot's dependencies (real-number axioms
`sig_forall_dec`, `sig_not_dec`; `functional_extensionality_dep`; `classic`; `constructive_indefinite_description`
in C19's non-vacuity examples); names beginning `PrimFloat.`/`PrimInt63.`/`Uint63.` are kernel primitives, not
axioms.  The development declares no axiom, parameter, conjecture or admitted proof (grepped on every run) and
uses `vm_compute` but not `native_compute`.  Externals modelled as oracles (never axioms): libm/cmath results,
float `**`, complex `**`, `abs(complex)`, scipy.special and `ridder`, `_dbrent`, `json`/`xml.etree` printing and
parsing, numpy broadcasting (partner), `str.format` of floats (reimplemented exactly in `Z`).
''')
open('DESIGN.md', 'w').write(d + '\n'.join(out) + '\n')
print('DESIGN.md regenerated:', len(open('DESIGN.md').read().split('\n')), 'lines')

(* Json.v -- abstract JSON documents, a validator for the subset of JSON Schema (draft
   2020-12) that GTC/schema/gtc_v_1_5_0.json uses, member sorting (json.dumps sort_keys) and
   a printer for the layout options of json.dumps (indent, separators, sort_keys) with the
   text of numbers and strings supplied from outside (oracles): the part of the writer that
   GTC's own reader (the version sniff in persistence.loads_json) depends on.

   The schema term itself is not written here: tools/tr_schema.py regenerates
   gen/Gen_schema_json.v from the schema file on every run.  Numbers are the carrier of an
   arbitrary [Num] (binary64 in the correspondence run, reals or anything else in theorems). *)
From Coq Require Import List Bool Ascii String ZArith NArith.
From GTCV Require Import Num Regex.
Import ListNotations.
Local Open Scope string_scope.

(* ---------- literals and schemas (independent of the number carrier) ---------- *)
Inductive lit := LNull | LBool (b : bool) | LStr (s : string).

Inductive jtype := TyNull | TyBoolean | TyNumber | TyString | TyArray | TyObject.

Inductive schema :=
| SBool (b : bool)                       (* the schemas true / false *)
| SAll (kws : list kw)                   (* an object schema: every keyword must hold *)
with kw :=
| KType (t : jtype)
| KEnum (vs : list lit)
| KConst (v : lit)
| KPattern (p : pat)
| KMinimum (m : Z)
| KMinItems (n : nat)
| KMaxItems (n : nat)
| KMinProperties (n : nat)
| KRequired (ks : list string)
| KProps (props : list (string * schema)) (pprops : list (pat * schema)) (addl : option schema)
                                         (* properties + patternProperties + additionalProperties *)
| KPropertyNames (s : schema)
| KItems (prefix : list schema) (items : option schema)   (* prefixItems + items *)
| KAnyOf (ss : list schema)
| KRef (name : string)                   (* "$ref": "#/$defs/<name>" *)
| KIf (c : schema) (t e : option schema).   (* if / then / else *)

Fixpoint assoc {A} (k : string) (l : list (string * A)) : option A :=
  match l with
  | [] => None
  | (k', v) :: r => if String.eqb k k' then Some v else assoc k r
  end.

Definition is_some {A} (o : option A) : bool := match o with Some _ => true | None => false end.

Section WithNum.
Variable N : Num.

Inductive json :=
| JNull
| JBool (b : bool)
| JNum (x : T N)
| JStr (s : string)
| JArr (l : list json)
| JObj (m : list (string * json)).

Definition lit_eq (v : lit) (j : json) : bool :=
  match v, j with
  | LNull, JNull => true
  | LBool a, JBool b => Bool.eqb a b
  | LStr a, JStr b => String.eqb a b
  | _, _ => false
  end.

Definition has_type (t : jtype) (j : json) : bool :=
  match t, j with
  | TyNull, JNull | TyBoolean, JBool _ | TyNumber, JNum _ | TyString, JStr _
  | TyArray, JArr _ | TyObject, JObj _ => true
  | _, _ => false
  end.

Definition opt_check (o : option schema) (f : schema -> bool) : bool :=
  match o with Some s => f s | None => true end.

(* one member of an object against properties / patternProperties / additionalProperties *)
Definition vmember (rec : schema -> json -> bool) (props : list (string * schema))
           (pprops : list (pat * schema)) (addl : option schema) (kv : string * json) : bool :=
  let key := fst kv in let v := snd kv in
  forallb (fun ps => if String.eqb key (fst ps) then rec (snd ps) v else true) props
  && forallb (fun ps => if pmatch (fst ps) key then rec (snd ps) v else true) pprops
  && (if is_some (assoc key props) || existsb (fun ps => pmatch (fst ps) key) pprops then true
      else opt_check addl (fun s => rec s v)).

Definition vitems (rec : schema -> json -> bool) (items : option schema) : list schema -> list json -> bool :=
  fix go (ps : list schema) (l : list json) {struct ps} : bool :=
    match ps, l with
    | _, [] => true
    | [], _ => opt_check items (fun s => forallb (rec s) l)
    | p :: ps', x :: l' => rec p x && go ps' l'
    end.

(* one keyword; [rec] validates sub-schemas, [ref] follows a $ref *)
Definition vkw (rec : schema -> json -> bool) (ref : string -> json -> bool) (k : kw) (j : json) : bool :=
  match k with
  | KType t => has_type t j
  | KEnum vs => existsb (fun v => lit_eq v j) vs
  | KConst v => lit_eq v j
  | KPattern p => match j with JStr s => pmatch p s | _ => true end
  | KMinimum m => match j with JNum x => negb (ltb N x (of_Z N m)) | _ => true end
  | KMinItems n => match j with JArr l => Nat.leb n (List.length l) | _ => true end
  | KMaxItems n => match j with JArr l => Nat.leb (List.length l) n | _ => true end
  | KMinProperties n => match j with JObj m => Nat.leb n (List.length m) | _ => true end
  | KRequired ks => match j with JObj m => forallb (fun k => is_some (assoc k m)) ks | _ => true end
  | KProps props pprops addl =>
      match j with JObj m => forallb (vmember rec props pprops addl) m | _ => true end
  | KPropertyNames s => match j with JObj m => forallb (fun kv => rec s (JStr (fst kv))) m | _ => true end
  | KItems prefix items => match j with JArr l => vitems rec items prefix l | _ => true end
  | KAnyOf ss => existsb (fun s => rec s j) ss
  | KRef name => ref name j
  | KIf c t e => if rec c j then opt_check t (fun s => rec s j) else opt_check e (fun s => rec s j)
  end.

Section Validate.
Variable defs : list (string * schema).

(* fuel bounds the depth of $ref chains only; running out of fuel is a rejection *)
Fixpoint vfuel (fuel : nat) : schema -> json -> bool :=
  match fuel with
  | O => fun _ _ => false
  | S f =>
      fix vs (s : schema) (j : json) {struct s} : bool :=
        match s with
        | SBool b => b
        | SAll kws =>
            forallb (fun k =>
              vkw vs (fun name j' => match assoc name defs with
                                     | Some s' => vfuel f s' j'
                                     | None => false
                                     end) k j) kws
        end
  end.

Definition ref_fuel (f : nat) (name : string) (j : json) : bool :=
  match assoc name defs with Some s' => vfuel f s' j | None => false end.

Lemma vfuel_S : forall f s j,
  vfuel (S f) s j =
  match s with
  | SBool b => b
  | SAll kws => forallb (fun k => vkw (vfuel (S f)) (ref_fuel f) k j) kws
  end.
Proof. intros f s j. destruct s; reflexivity. Qed.

Definition validates (root : schema) (j : json) : bool := vfuel 16 root j.
End Validate.

(* ---------- json.dumps(sort_keys=True): members ordered by key, recursively ---------- *)
Fixpoint str_ltb (a b : string) : bool :=
  match a, b with
  | EmptyString, EmptyString => false
  | EmptyString, String _ _ => true
  | String _ _, EmptyString => false
  | String x a', String y b' =>
      if N.ltb (N_of_ascii x) (N_of_ascii y) then true
      else if N.ltb (N_of_ascii y) (N_of_ascii x) then false
      else str_ltb a' b'
  end.

Fixpoint insert_member (kv : string * json) (l : list (string * json)) : list (string * json) :=
  match l with
  | [] => [kv]
  | kv' :: r => if str_ltb (fst kv') (fst kv) then kv' :: insert_member kv r else kv :: l
  end.

Fixpoint jsort (j : json) : json :=
  match j with
  | JArr l => JArr (map jsort l)
  | JObj m => JObj (fold_right (fun kv acc => insert_member (fst kv, jsort (snd kv)) acc) [] m)
  | _ => j
  end.

(* ---------- the layout part of json.dumps ---------- *)
Record jopts := mkJopts {
  o_indent : option string;    (* None, or the indentation unit (indent=n gives n spaces) *)
  o_item_sep : string;         (* separators[0] after Python's defaulting *)
  o_key_sep : string;          (* separators[1] after Python's defaulting *)
  o_sort_keys : bool;
  o_ensure_ascii : bool
}.

(* Python's defaults: separators=None gives (', ', ': ') without indent and (',', ': ') with *)
Definition default_opts : jopts := mkJopts None ", " ": " false true.
Definition resolve_opts (indent : option string) (seps : option (string * string)) (sk ea : bool) : jopts :=
  match seps with
  | Some (i, k) => mkJopts indent i k sk ea
  | None => mkJopts indent (match indent with None => ", " | Some _ => "," end) ": " sk ea
  end.

Section Print.
Variable pnum : T N -> string.            (* float.__repr__ / int.__repr__: oracle *)
Variable pstr : bool -> string -> string. (* the quoted, escaped text of a string: oracle *)
Variable o : jopts.

Fixpoint rep (n : nat) (s : string) : string :=
  match n with O => "" | S n' => s ++ rep n' s end.

Definition newline (level : nat) : string :=
  match o_indent o with
  | None => ""
  | Some unit => String (ascii_of_N 10) (rep level unit)
  end.

Fixpoint join (sep : string) (l : list string) : string :=
  match l with
  | [] => ""
  | [x] => x
  | x :: r => x ++ sep ++ join sep r
  end.

Fixpoint pj (level : nat) (j : json) {struct j} : string :=
  match j with
  | JNull => "null"
  | JBool true => "true"
  | JBool false => "false"
  | JNum x => pnum x
  | JStr s => pstr (o_ensure_ascii o) s
  | JArr [] => "[]"
  | JArr l =>
      "[" ++ newline (S level)
          ++ join (o_item_sep o ++ newline (S level)) (map (pj (S level)) l)
          ++ newline level ++ "]"
  | JObj [] => "{}"
  | JObj m =>
      "{" ++ newline (S level)
          ++ join (o_item_sep o ++ newline (S level))
                  (map (fun kv => pstr (o_ensure_ascii o) (fst kv) ++ o_key_sep o ++ pj (S level) (snd kv)) m)
          ++ newline level ++ "}"
  end.

Definition print_json (j : json) : string := pj 0 (if o_sort_keys o then jsort j else j).
End Print.

(* ---------- structural equality (used only to compare model and implementation) ---------- *)
Fixpoint json_eqb (a b : json) {struct a} : bool :=
  match a, b with
  | JNull, JNull => true
  | JBool x, JBool y => Bool.eqb x y
  | JNum x, JNum y => same N x y
  | JStr x, JStr y => String.eqb x y
  | JArr x, JArr y =>
      (fix go (x y : list json) : bool :=
         match x, y with
         | [], [] => true
         | a :: x', b :: y' => json_eqb a b && go x' y'
         | _, _ => false
         end) x y
  | JObj x, JObj y =>
      (fix go (x : list (string * json)) (y : list (string * json)) : bool :=
         match x, y with
         | [], [] => true
         | (k, a) :: x', (k', b) :: y' => String.eqb k k' && json_eqb a b && go x' y'
         | _, _ => false
         end) x y
  | _, _ => false
  end.

End WithNum.

Arguments JNull {N}.
Arguments JBool {N} b.
Arguments JNum {N} x.
Arguments JStr {N} s.
Arguments JArr {N} l.
Arguments JObj {N} m.
Arguments pmatch : simpl never.

(* Opres.v -- the result shapes of the operator/function bodies of GTC/lib.py, as emitted by
   tools/translate.py, and the float**float guard used by _pow/_rpow. *)
From Coq Require Import ZArith Bool.
From GTCV Require Import Num.

Inductive which := L | Rt.

Inductive opres (V : Type) :=
| OSame (w : which)               (* the operand object itself is returned *)
| OPlain (v : V)                  (* a plain Python number is returned *)
| OConst (v : V)                  (* UncertainReal._constant(v) *)
| OScale (w : which) (y wt : V)   (* new UN: value y, the three vectors scale_vector(operand, wt) *)
| OMergeW (y w1 w2 : V)           (* merge_weighted_vectors(lhs, w1, rhs, w2) *)
| OMerge (y : V)                  (* merge_vectors(lhs, rhs) *)
| OCopy (w : which) (y : V)       (* Vector(copy=operand) *)
| ONegOf (w : which)              (* -operand, i.e. operand.__neg__() *)
| OSelfMul                        (* self*self *)
| OToComplex.                     (* (lhs+0j)**rhs : continue on the complex path *)
Arguments OSame {V}. Arguments OPlain {V}. Arguments OConst {V}. Arguments OScale {V}.
Arguments OMergeW {V}. Arguments OMerge {V}. Arguments OCopy {V}. Arguments ONegOf {V}.
Arguments OSelfMul {V}. Arguments OToComplex {V}.

(* try: y = l**r  except (ValueError, FloatingPointError): complex path
   if y is real: k y   elif y is complex: complex path *)
Definition pow_guard (N : Num) (l r : T N) (k : T N -> res (opres (T N))) : res (opres (T N)) :=
  match libm2 N F_pow l r with
  | Ok y => k y
  | Err ValueError => Ok OToComplex
  | Err ComplexResult => Ok OToComplex
  | Err e => Err e
  end.

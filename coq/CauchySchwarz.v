(* CauchySchwarz.v -- C04: when the declared correlation matrix is positive semi-definite the
   covariance the kernel computes satisfies cov(a,b)^2 <= var(a) var(b), hence get_correlation
   lies in [-1, 1]; for vectors of any length.  Over the reals. *)
From Coq Require Import ZArith List Bool Reals Lia Lra Psatz.
From GTCV Require Import Num RNum Vector VectorFacts Opres KTypes Kernel LPU.
Import ListNotations.
Local Open Scope R_scope.

(* ---------- a non-negative quadratic has non-positive discriminant ---------- *)
Lemma quad_discr (A B C : R) : (forall t, 0 <= A + 2 * t * B + t * t * C) -> B * B <= A * C.
Proof.
  intros H.
  assert (HA : 0 <= A) by (specialize (H 0); lra).
  destruct (Rlt_dec 0 C) as [HC|HC].
  - specialize (H (- B / C)).
    assert (E : A + 2 * (- B / C) * B + (- B / C) * (- B / C) * C = A - B * B / C) by (field; lra).
    rewrite E in H.
    assert (H1 : B * B / C <= A) by lra.
    apply (Rmult_le_compat_r C) in H1; [|lra].
    replace (B * B / C * C) with (B * B) in H1 by (field; lra). lra.
  - destruct (Req_EM_T B 0) as [HB|HB].
    + subst B. rewrite Rmult_0_l.
      destruct (Req_EM_T C 0) as [HC0|HC0]; [subst C; lra|].
      (* C < 0: impossible, take t large *)
      exfalso. assert (HCn : C < 0) by lra.
      specialize (H ((A + 1) / - C + 1)).
      assert (Hp : 0 < (A + 1) / - C) by (apply Rdiv_lt_0_compat; lra).
      set (t := (A + 1) / - C) in *.
      assert (Ht : t * - C = A + 1) by (unfold t; field; lra).
      nra.
    + exfalso.
      destruct (Req_EM_T C 0) as [HC0|HC0].
      * subst C. specialize (H (- (A + 1) / (2 * B))).
        assert (E : A + 2 * (- (A + 1) / (2 * B)) * B + (- (A + 1) / (2 * B)) * (- (A + 1) / (2 * B)) * 0 = -1)
          by (field; lra).
        rewrite E in H. lra.
      * assert (HCn : C < 0) by lra.
        (* with C < 0 the quadratic is negative for large t *)
        set (m := Rabs B).
        assert (Hm : 0 <= m) by apply Rabs_pos.
        assert (HBm : - m <= B <= m) by (unfold m, Rabs; destruct (Rcase_abs B); lra).
        set (t := (A + 1 + 2 * m) / - C + 1 + 2 * m / - C).
        assert (H1 : 0 < / - C) by (apply Rinv_0_lt_compat; lra).
        assert (Ht1 : 1 <= t).
        { unfold t. assert (0 <= (A + 1 + 2 * m) / - C) by (apply Rmult_le_pos; lra).
          assert (0 <= 2 * m / - C) by (apply Rmult_le_pos; lra). lra. }
        specialize (H t).
        assert (Ht : t * - C >= A + 1 + 2 * m + 2 * m).
        { unfold t. replace (((A + 1 + 2 * m) / - C + 1 + 2 * m / - C) * - C)
            with (A + 1 + 2 * m + - C + 2 * m) by (field; lra). lra. }
        nra.
Qed.

Lemma sq_le_le (x y : R) : 0 <= y -> x * x <= y * y -> x <= y.
Proof. intros Hy H. destruct (Rle_dec x y); [assumption|]. nra. Qed.

(* combining two Cauchy-Schwarz inequalities of non-negative forms *)
Lemma cs_add (x y p q r s : R) :
  0 <= p -> 0 <= q -> 0 <= r -> 0 <= s -> x * x <= p * q -> y * y <= r * s ->
  (x + y) * (x + y) <= (p + r) * (q + s).
Proof.
  intros Hp Hq Hr Hs Hx Hy.
  assert (H2 : 2 * (x * y) <= p * s + r * q).
  { apply sq_le_le; [nra|].
    assert (Hxy : (x * y) * (x * y) <= (p * s) * (r * q)).
    { replace (x * y * (x * y)) with ((x * x) * (y * y)) by ring.
      replace (p * s * (r * q)) with ((p * q) * (r * s)) by ring.
      apply Rmult_le_compat; nra. }
    set (X := x * y) in *. set (P := p * s) in *. set (Q := r * q) in *.
    pose proof (Rle_0_sqr (P - Q)) as HPQ. unfold Rsqr in HPQ. nra. }
  replace ((x + y) * (x + y)) with (x * x + 2 * (x * y) + y * y) by ring.
  replace ((p + r) * (q + s)) with (p * q + (p * s + r * q) + r * s) by ring.
  lra.
Qed.

(* ---------- the dependent part: a bilinear form over lists ---------- *)
Definition vscale (t : R) (d : rvecs) : rvecs := map (fun kv => (fst kv, t * snd kv)) d.

Lemma vsum_app f (d1 d2 : rvecs) : vsum f (d1 ++ d2) = vsum f d1 + vsum f d2.
Proof. induction d1 as [|[k u] d1 IH]; simpl; [ring|]. rewrite IH; ring. Qed.

Lemma vsum_vscale f t (d : rvecs) : vsum f (vscale t d) = vsum (fun k u => f k (t * u)) d.
Proof. induction d as [|[k u] d IH]; simpl; [reflexivity|]. rewrite IH; reflexivity. Qed.

Lemma dsum_app_l s a b c : dsum s (a ++ b) c = dsum s a c + dsum s b c.
Proof. unfold dsum. apply vsum_app. Qed.

Lemma dsum_app_r s a b c : dsum s c (a ++ b) = dsum s c a + dsum s c b.
Proof.
  unfold dsum. rewrite <- vsum_plus. apply vsum_ext. intros k u _. apply vsum_app.
Qed.

Lemma dsum_scale_l s t a c : dsum s (vscale t a) c = t * dsum s a c.
Proof.
  unfold dsum. rewrite vsum_vscale. rewrite <- vsum_scal. apply vsum_ext. intros k u _.
  rewrite <- vsum_scal. apply vsum_ext. intros k' u' _. ring.
Qed.

Lemma dsum_scale_r s t a c : dsum s c (vscale t a) = t * dsum s c a.
Proof.
  unfold dsum. rewrite <- vsum_scal. apply vsum_ext. intros k u _.
  rewrite vsum_vscale. rewrite <- vsum_scal. apply vsum_ext. intros k' u' _. ring.
Qed.

Lemma keys_vscale t d : map fst (vscale t d) = map fst d.
Proof. unfold vscale. rewrite map_map. reflexivity. Qed.

(* the declared correlation matrix, restricted to the keys K, is positive semi-definite *)
Definition psd_on (s : state) (K : key -> Prop) : Prop :=
  forall d : rvecs, (forall k, In k (map fst d) -> K k) -> 0 <= dsum s d d.

Definition sym_on (s : state) (K : key -> Prop) : Prop :=
  forall k k', K k -> K k' -> Rs s k k' = Rs s k' k.

Theorem dsum_cauchy_schwarz s (K : key -> Prop) (a b : rvecs) :
  psd_on s K -> sym_on s K ->
  (forall k, In k (map fst a) -> K k) -> (forall k, In k (map fst b) -> K k) ->
  dsum s a b * dsum s a b <= dsum s a a * dsum s b b.
Proof.
  intros Hpsd Hsym Ha Hb. apply quad_discr. intros t.
  assert (Hk : forall k, In k (map fst (a ++ vscale t b)) -> K k).
  { intros k Hin. rewrite map_app, in_app_iff, keys_vscale in Hin. destruct Hin; auto. }
  pose proof (Hpsd (a ++ vscale t b) Hk) as H.
  rewrite dsum_app_l, !dsum_app_r, !dsum_scale_l, !dsum_scale_r in H.
  rewrite (dsum_sym s b a) in H by (intros; apply Hsym; auto).
  lra.
Qed.

(* ---------- the independent part ---------- *)
Lemma cs_vsum (g : key -> R) (v : rvecs) :
  vsum (fun k u => u * g k) v * vsum (fun k u => u * g k) v <=
  vsum (fun _ u => u * u) v * vsum (fun k _ => g k * g k) v.
Proof.
  induction v as [|[k u] v IH]; cbn [vsum]; [lra|].
  set (S := vsum (fun k u => u * g k) v) in *.
  set (A := vsum (fun _ u => u * u) v) in *.
  set (B := vsum (fun k _ => g k * g k) v) in *.
  assert (HA : 0 <= A).
  { unfold A. clear. induction v as [|[k u] v IH]; cbn [vsum]; [lra|nra]. }
  assert (HB : 0 <= B).
  { unfold B. clear. induction v as [|[k u] v IH]; cbn [vsum]; [lra|nra]. }
  assert (H2 : 2 * (u * g k * S) <= u * u * B + g k * g k * A).
  { apply sq_le_le; [nra|].
    assert (E : (u * g k * S) * (u * g k * S) <= (u * u * B) * (g k * g k * A)).
    { replace (u * g k * S * (u * g k * S)) with ((u * u * (g k * g k)) * (S * S)) by ring.
      replace (u * u * B * (g k * g k * A)) with ((u * u * (g k * g k)) * (A * B)) by ring.
      apply Rmult_le_compat_l; [nra|exact IH]. }
    set (X := u * g k * S) in *. set (P := u * u * B) in *. set (Q := g k * g k * A) in *.
    pose proof (Rle_0_sqr (P - Q)) as HPQ. unfold Rsqr in HPQ. nra. }
  replace ((u * g k + S) * (u * g k + S)) with (u * g k * (u * g k) + 2 * (u * g k * S) + S * S) by ring.
  replace ((u * u + A) * (g k * g k + B)) with (u * g k * (u * g k) + (u * u * B + g k * g k * A) + A * B) by ring.
  lra.
Qed.

Lemma vsum_nonneg f (v : rvecs) : (forall k u, 0 <= f k u) -> 0 <= vsum f v.
Proof. intros H. induction v as [|[k u] v IH]; cbn [vsum]; [lra|]. specialize (H k u). lra. Qed.

(* distinct keys pick distinct entries: the squares looked up by a duplicate-free key list are a
   sub-sum of all squares *)
Lemma subsum_step (f : key -> R) (c : R) (k' : key) (v : rvecs) :
  NoDup (map fst v) -> 0 <= c -> (forall k, 0 <= f k) ->
  vsum (fun k _ => if keqb k k' then c else f k) v <= c + vsum (fun k _ => f k) v.
Proof.
  intros Hnd Hc Hf. induction v as [|[k u] v IH]; cbn [vsum]; [lra|].
  cbn [map fst] in Hnd. inversion Hnd as [|? ? Hnin Hnd']; subst.
  destruct (keqb k k') eqn:E.
  - apply keqb_eq in E; subst k'.
    assert (E2 : vsum (fun k0 _ => if keqb k0 k then c else f k0) v = vsum (fun k0 _ => f k0) v).
    { apply vsum_ext. intros k0 u0 Hin. destruct (keqb k0 k) eqn:E0; [|reflexivity].
      apply keqb_eq in E0; subst k0. exfalso. apply Hnin. apply in_map_iff. exists (k, u0); auto. }
    rewrite E2. specialize (Hf k). lra.
  - specialize (IH Hnd'). lra.
Qed.

Lemma subsum_sq (v1 v2 : rvecs) : NoDup (map fst v1) ->
  vsum (fun k _ => vget RNum v2 k * vget RNum v2 k) v1 <= vsum (fun _ u => u * u) v2.
Proof.
  intros Hnd. induction v2 as [|[k' u'] v2 IH].
  - cbn [vsum]. unfold vget; cbn [get]. unfold zero; cbn [of_Z RNum].
    induction v1 as [|[k u] v1 IH1]; cbn [vsum]; [lra|].
    cbn [map fst] in Hnd. inversion Hnd; subst. specialize (IH1 H2). lra.
  - cbn [vsum].
    rewrite (vsum_ext _ (fun k _ => if keqb k k' then u' * u' else vget RNum v2 k * vget RNum v2 k)).
    2:{ intros k u _. unfold vget. cbn [get]. destruct (keqb k k'); reflexivity. }
    eapply Rle_trans.
    + apply (subsum_step (fun k => vget RNum v2 k * vget RNum v2 k) (u' * u') k' v1 Hnd); [nra|intros; nra].
    + lra.
Qed.

Lemma sorted_nodup (v : rvecs) : sorted (N:=RNum) v -> NoDup (map fst v).
Proof.
  induction v as [|[k u] v IH]; intros S; cbn [map fst]; constructor.
  - intros Hin. pose proof (sorted_head_lt RNum k u v k S Hin) as Hlt.
    rewrite kcmp_refl in Hlt. discriminate.
  - apply IH. exact (sorted_tail RNum _ _ _ S).
Qed.

Theorem indep_cauchy_schwarz (v1 v2 : rvecs) : sorted (N:=RNum) v1 ->
  vsum (fun k u => u * vget RNum v2 k) v1 * vsum (fun k u => u * vget RNum v2 k) v1 <=
  vsum (fun _ u => u * u) v1 * vsum (fun _ u => u * u) v2.
Proof.
  intros S1. eapply Rle_trans; [apply (cs_vsum (fun k => vget RNum v2 k) v1)|].
  apply Rmult_le_compat_l.
  - apply vsum_nonneg. intros; nra.
  - apply subsum_sq. apply sorted_nodup. exact S1.
Qed.

(* ---------- the kernel's covariance and correlation ---------- *)
Section Kernel.
  Variable s : state.
  Variable K : key -> Prop.
  Hypothesis Hpsd : psd_on s K.
  Hypothesis Hsym : sym_on s K.
  Hypothesis Hdiag : forall k, K k -> Rs s k k = 1.

  Definition well_placed (o : ureal) : Prop :=
    leaves_exist s (dc o) /\ sorted (N:=RNum) (uc o) /\ (forall k, In k (map fst (dc o)) -> K k).

  Lemma wp_corr_sym o : well_placed o -> corr_sym_on s (dc o).
  Proof. intros (_ & _ & HK). split; [intros; apply Hsym; auto | intros; apply Hdiag; auto]. Qed.

  Theorem covariance_cauchy_schwarz (a b : ureal) (c va vb : R) :
    well_placed a -> well_placed b ->
    std_covariance_real RNum s a b = Ok c ->
    std_variance_real RNum s a = Ok va -> std_variance_real RNum s b = Ok vb ->
    0 <= va /\ 0 <= vb /\ c * c <= va * vb.
  Proof.
    intros Wa Wb Hc Hva Hvb.
    pose proof (wp_corr_sym a Wa) as Sa. pose proof (wp_corr_sym b Wb) as Sb.
    destruct Wa as (Ea & Sua & Ka). destruct Wb as (Eb & Sub & Kb).
    rewrite std_covariance_spec in Hc by exact Ea.
    rewrite std_variance_spec in Hva by assumption. rewrite std_variance_spec in Hvb by assumption.
    injection Hc as <-. injection Hva as <-. injection Hvb as <-.
    assert (Ia : 0 <= vsum (fun _ u => u * u) (uc a)) by (apply vsum_nonneg; intros; nra).
    assert (Ib : 0 <= vsum (fun _ u => u * u) (uc b)) by (apply vsum_nonneg; intros; nra).
    pose proof (Hpsd (dc a) Ka) as Da. pose proof (Hpsd (dc b) Kb) as Db.
    split; [lra|]. split; [lra|].
    apply cs_add; auto.
    - apply indep_cauchy_schwarz; exact Sua.
    - apply (dsum_cauchy_schwarz s K); auto.
  Qed.

  (* get_correlation of two results (the general branch of get_correlation_real) *)
  Theorem correlation_bounded (a b : ureal) (r : R) :
    well_placed a -> well_placed b ->
    ((forall k, unode a <> LeafRef k) \/ (forall k, unode b <> LeafRef k)) ->
    get_correlation_real RNum s a b = Ok r -> -1 <= r <= 1.
  Proof.
    intros Wa Wb Hbr H. unfold get_correlation_real in H.
    assert (H' : (v1 <- std_variance_real RNum s a ;; v2 <- std_variance_real RNum s b ;;
                  num <- std_covariance_real RNum s a b ;;
                  den <- libm1 RNum F_sqrt (mul RNum v1 v2) ;;
                  if negb (eqb RNum num (zero RNum)) then div RNum num den else Ok (zero RNum)) = Ok r).
    { repeat match type of H with
             | (match ?x with _ => _ end = _) => let E := fresh "E" in destruct x eqn:E
             end; try exact H; exfalso; destruct Hbr as [Hn|Hn]; eapply Hn; eassumption. }
    clear H.
    destruct (std_variance_real RNum s a) as [va|] eqn:Eva; [|discriminate].
    destruct (std_variance_real RNum s b) as [vb|] eqn:Evb; [|discriminate].
    destruct (std_covariance_real RNum s a b) as [c|] eqn:Ec; [|discriminate].
    cbn [bind] in H'.
    destruct (covariance_cauchy_schwarz a b c va vb Wa Wb Ec Eva Evb) as (Hva & Hvb & Hcs).
    cbn [libm1 RNum R_libm1 mul] in H'.
    destruct (Rle_dec 0 (va * vb)) as [Hp|Hp]; [|exfalso; apply Hp; nra].
    cbn [bind eqb RNum div] in H'. unfold zero in H'; cbn [of_Z RNum] in H'.
    unfold Reqb in H'. destruct (Req_EM_T c 0) as [Hc0|Hc0]; cbn [negb] in H'.
    - injection H' as <-. lra.
    - unfold R_div in H'. destruct (Req_EM_T (sqrt (va * vb)) 0) as [Hs0|Hs0]; [discriminate|].
      injection H' as <-.
      set (d := sqrt (va * vb)) in *.
      assert (Hd : 0 < d).
      { assert (0 <= d) by apply sqrt_pos. lra. }
      assert (Hdd : d * d = va * vb) by (apply sqrt_sqrt; exact Hp).
      assert (Hcd : c * c <= d * d) by lra.
      assert (H1 : c <= d) by (apply sq_le_le; lra).
      assert (H2 : - c <= d) by (apply sq_le_le; [lra|nra]).
      split.
      + apply (Rmult_le_reg_r d); [exact Hd|]. unfold Rdiv. rewrite Rmult_assoc, Rinv_l by lra. lra.
      + apply (Rmult_le_reg_r d); [exact Hd|]. unfold Rdiv. rewrite Rmult_assoc, Rinv_l by lra. lra.
  Qed.

  (* a declared coefficient between two inputs is itself bounded when the matrix is PSD *)
  Theorem declared_coefficient_bounded k1 k2 : K k1 -> K k2 -> -1 <= Rs s k1 k2 <= 1.
  Proof.
    intros H1 H2.
    pose proof (dsum_cauchy_schwarz s K [(k1, 1)] [(k2, 1)] Hpsd Hsym) as H.
    assert (Ha : forall k, In k (map fst [(k1, 1)]) -> K k) by (intros k [<-|[]]; exact H1).
    assert (Hb : forall k, In k (map fst [(k2, 1)]) -> K k) by (intros k [<-|[]]; exact H2).
    specialize (H Ha Hb). unfold dsum in H; cbn [vsum] in H.
    rewrite (Hdiag k1 H1), (Hdiag k2 H2) in H.
    set (r := Rs s k1 k2) in *.
    assert (Hr : r * r <= 1) by lra.
    split; [|apply sq_le_le; lra].
    assert (- r <= 1) by (apply sq_le_le; [lra|nra]). lra.
  Qed.
End Kernel.

(* ---------- positive semi-definiteness from a factorisation; a concrete instance ---------- *)
Fixpoint gram (fs : list (key -> R)) (k k' : key) : R :=
  match fs with [] => 0 | f :: fs' => f k * f k' + gram fs' k k' end.

Lemma gram_form s (K : key -> Prop) (fs : list (key -> R)) (d : rvecs) :
  (forall k k', K k -> K k' -> Rs s k k' = gram fs k k') ->
  (forall k, In k (map fst d) -> K k) ->
  dsum s d d = fold_right (fun f acc => vsum (fun k u => u * f k) d * vsum (fun k u => u * f k) d + acc) 0 fs.
Proof.
  intros HR HK. unfold dsum.
  rewrite (vsum_ext _ (fun k u => vsum (fun k' u' => u * gram fs k k' * u') d)).
  2:{ intros k u Hin. apply vsum_ext. intros k' u' Hin'. rewrite HR; [reflexivity| |].
      - apply HK, in_map_iff. exists (k, u); auto.
      - apply HK, in_map_iff. exists (k', u'); auto. }
  clear HR HK. induction fs as [|f fs IH]; cbn [gram fold_right].
  - rewrite (vsum_ext _ (fun _ _ => 0)).
    + induction d as [|[k u] d IHd]; cbn [vsum]; lra.
    + intros k u _. rewrite (vsum_ext _ (fun _ _ => 0)); [|intros; ring].
      clear. induction d as [|[k' u'] d IHd]; cbn [vsum]; lra.
  - rewrite <- IH.
    rewrite (vsum_ext _ (fun k u => (u * f k) * vsum (fun k' u' => u' * f k') d + vsum (fun k' u' => u * gram fs k k' * u') d)).
    + rewrite vsum_plus. f_equal.
      rewrite (vsum_ext _ (fun k u => vsum (fun k' u' => u' * f k') d * (u * f k))) by (intros; ring).
      rewrite vsum_scal. ring.
    + intros k u _. rewrite <- vsum_scal, <- vsum_plus. apply vsum_ext. intros k' u' _. ring.
Qed.

Theorem psd_of_factors s (K : key -> Prop) (fs : list (key -> R)) :
  (forall k k', K k -> K k' -> Rs s k k' = gram fs k k') -> psd_on s K.
Proof.
  intros HR d HK. rewrite (gram_form s K fs d HR HK). clear.
  induction fs as [|f fs IH]; cbn [fold_right]; [lra|].
  assert (0 <= vsum (fun k u => u * f k) d * vsum (fun k u => u * f k) d) by nra. lra.
Qed.

(* two correlated inputs with r = 3/5 (= the factorisation (1, 3/5), (0, 4/5)) and
   y1 = x1 + 2 x2, y2 = 3 x1 - x2: the hypotheses of the theorems above are satisfiable *)
Definition cs_state : state :=
  mkS 1%Z 2%Z 0%Z
      [(kz1, mkLeaf 1 DInf false [(kz1, 1); (kz2, 3 / 5)] 0%nat None None);
       (kz2, mkLeaf 1 DInf false [(kz2, 1); (kz1, 3 / 5)] 1%nat None None)]
      [] [[]; []] [].
Definition cs_K (k : key) : Prop := k = kz1 \/ k = kz2.
Definition cs_f1 (k : key) : R := if keqb k kz1 then 1 else 3 / 5.
Definition cs_f2 (k : key) : R := if keqb k kz1 then 0 else 4 / 5.
Definition cs_y1 : ureal := mkU 0 [] [(kz1, 1); (kz2, 2)] [] NoNode.
Definition cs_y2 : ureal := mkU 0 [] [(kz1, 3); (kz2, -1)] [] NoNode.

Lemma cs_Rs k k' : cs_K k -> cs_K k' -> Rs cs_state k k' = gram [cs_f1; cs_f2] k k'.
Proof.
  intros [->| ->] [->| ->]; unfold Rs, leaf_of, corr_get, cs_state, cs_f1, cs_f2, gram; cbn; lra.
Qed.

Lemma cs_leaf_exists k : cs_K k -> exists l, leaf_of RNum cs_state k = Ok l.
Proof. intros [->| ->]; eexists; unfold leaf_of, cs_state; cbn; reflexivity. Qed.

Lemma cs_keys (x y : R) k : In k (map fst [(kz1, x); (kz2, y)]) -> cs_K k.
Proof. cbn. unfold cs_K. intros [<-|[<-|[]]]; auto. Qed.

Lemma cs_wp o x y : dc o = [(kz1, x); (kz2, y)] -> uc o = [] -> well_placed cs_state cs_K o.
Proof.
  intros Hd Hu. split; [|split].
  - intros k Hk. rewrite Hd in Hk. apply cs_leaf_exists. exact (cs_keys x y k Hk).
  - rewrite Hu. exact I.
  - intros k Hk. rewrite Hd in Hk. exact (cs_keys x y k Hk).
Qed.

Example cs_hypotheses_hold :
  psd_on cs_state cs_K /\ sym_on cs_state cs_K /\ (forall k, cs_K k -> Rs cs_state k k = 1) /\
  well_placed cs_state cs_K cs_y1 /\ well_placed cs_state cs_K cs_y2 /\
  (exists c, std_covariance_real RNum cs_state cs_y1 cs_y2 = Ok c /\ c <> 0).
Proof.
  split; [exact (psd_of_factors cs_state cs_K [cs_f1; cs_f2] cs_Rs)|].
  split; [intros k k' H1 H2; rewrite !cs_Rs by assumption; cbn [gram]; ring|].
  split; [intros k H; rewrite cs_Rs by assumption; destruct H as [->| ->]; unfold cs_f1, cs_f2, gram; cbn; lra|].
  split; [apply (cs_wp cs_y1 1 2); reflexivity|]. split; [apply (cs_wp cs_y2 3 (-1)); reflexivity|].
  eexists. split.
  - rewrite std_covariance_spec; [reflexivity|].
    intros k Hk. apply cs_leaf_exists. exact (cs_keys 1 2 k Hk).
  - unfold cs_y1, cs_y2, dsum. cbn [uc dc vsum].
    rewrite !cs_Rs by (unfold cs_K; tauto). unfold cs_f1, cs_f2, gram; cbn. lra.
Qed.

(* ---------- uncertainty = the non-negative square root of the variance; correlation =
   covariance / (u_a u_b) ---------- *)
Theorem uncertainty_is_sqrt_variance (s : state) (o : ureal) u c' :
  node_u RNum s o = Ok None -> prop_u RNum s o None = Ok (u, c') ->
  exists v, std_variance_real RNum s o = Ok v /\ 0 <= v /\ u = sqrt v /\ 0 <= u /\ u * u = v.
Proof.
  intros Hn H. unfold prop_u in H. rewrite Hn in H. cbn [bind] in H.
  destruct (std_variance_real RNum s o) as [v|e] eqn:Ev; cbn [bind] in H; [|discriminate].
  cbn [libm1 RNum R_libm1] in H. destruct (Rle_dec 0 v) as [Hv|Hv]; [|discriminate]. cbn [bind] in H.
  injection H as <- _. exists v. repeat split; auto.
  - apply sqrt_pos.
  - apply sqrt_sqrt. exact Hv.
Qed.

Theorem correlation_is_normalised_covariance (s : state) (a b : ureal) r :
  ((forall k, unode a <> LeafRef k) \/ (forall k, unode b <> LeafRef k)) ->
  get_correlation_real RNum s a b = Ok r ->
  exists va vb c, std_variance_real RNum s a = Ok va /\ std_variance_real RNum s b = Ok vb /\
                  std_covariance_real RNum s a b = Ok c /\
                  (c = 0 -> r = 0) /\ (c <> 0 -> r = c / sqrt (va * vb)).
Proof.
  intros Hbr H. unfold get_correlation_real in H.
  assert (H' : (v1 <- std_variance_real RNum s a ;; v2 <- std_variance_real RNum s b ;;
                num <- std_covariance_real RNum s a b ;;
                den <- libm1 RNum F_sqrt (mul RNum v1 v2) ;;
                if negb (eqb RNum num (zero RNum)) then div RNum num den else Ok (zero RNum)) = Ok r).
  { repeat match type of H with
           | (match ?x with _ => _ end = _) => let E := fresh "E" in destruct x eqn:E
           end; try exact H; exfalso; destruct Hbr as [Hn|Hn]; eapply Hn; eassumption. }
  clear H.
  destruct (std_variance_real RNum s a) as [va|] eqn:Eva; [|discriminate].
  destruct (std_variance_real RNum s b) as [vb|] eqn:Evb; [|discriminate].
  destruct (std_covariance_real RNum s a b) as [c|] eqn:Ec; [|discriminate].
  cbn [bind libm1 RNum R_libm1 mul] in H'.
  destruct (Rle_dec 0 (va * vb)) as [Hp|Hp]; [|discriminate]. cbn [bind eqb RNum div] in H'.
  unfold zero in H'; cbn [of_Z RNum] in H'. unfold Reqb in H'.
  exists va, vb, c. repeat split; auto.
  - intros ->. destruct (Req_EM_T 0 0) as [_|N0]; [|contradiction N0; reflexivity]. cbn [negb] in H'. injection H' as <-. reflexivity.
  - intros Hc. destruct (Req_EM_T c 0) as [E|_]; [contradiction|]. cbn [negb] in H'. unfold R_div in H'.
    destruct (Req_EM_T (sqrt (va * vb)) 0); [discriminate|]. injection H' as <-. reflexivity.
Qed.

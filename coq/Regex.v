(* Regex.v -- a small regular-expression engine (Brzozowski derivatives) over byte strings,
   used for the "pattern"/"patternProperties"/"propertyNames" keywords of the JSON schema,
   the xsd:pattern facets of the XML schema and the version sniff of persistence.loads_json.
   [rmatch] is the executable matcher; [M] is the usual declarative semantics; they are
   proved equivalent ([rmatch_iff]), so theorems can build or take apart matches
   structurally while the correspondence run executes the very same matcher.

   Python semantics covered (re.search on str, as jsonschema and persistence.py use it):
   a pattern is a body with optional leading ^ and trailing $ ; without ^ the match may start
   anywhere, without $ it may end anywhere, and $ also matches just before a final newline.
   Characters are bytes (UTF-8); \d and \s are the ASCII members of Python's classes. *)
From Coq Require Import List Bool Ascii String NArith Lia.
Import ListNotations.

Definition cset := list (N * N).          (* union of inclusive code ranges *)

Definition cmem (p : cset) (c : ascii) : bool :=
  let n := N_of_ascii c in existsb (fun '(lo, hi) => (N.leb lo n && N.leb n hi)%bool) p.

Inductive re :=
| Emp                      (* no string *)
| Eps                      (* the empty string *)
| Chr (p : cset)
| Seq (a b : re)
| Alt (a b : re)
| Star (a : re).

Fixpoint nullable (r : re) : bool :=
  match r with
  | Emp => false | Eps => true | Chr _ => false
  | Seq a b => nullable a && nullable b
  | Alt a b => nullable a || nullable b
  | Star _ => true
  end.

Fixpoint deriv (c : ascii) (r : re) : re :=
  match r with
  | Emp => Emp | Eps => Emp
  | Chr p => if cmem p c then Eps else Emp
  | Seq a b => if nullable a then Alt (Seq (deriv c a) b) (deriv c b) else Seq (deriv c a) b
  | Alt a b => Alt (deriv c a) (deriv c b)
  | Star a => Seq (deriv c a) (Star a)
  end.

(* light simplification keeps derivative terms small on long inputs; it is applied by the
   executable matcher only and is proved language-preserving below *)
Fixpoint is_emp (r : re) : bool :=
  match r with
  | Emp => true
  | Seq a b => is_emp a || is_emp b
  | Alt a b => is_emp a && is_emp b
  | _ => false
  end.

Fixpoint simp (r : re) : re :=
  match r with
  | Seq a b => let a' := simp a in let b' := simp b in
               if is_emp a' || is_emp b' then Emp else
               match a' with Eps => b' | _ => Seq a' b' end
  | Alt a b => let a' := simp a in let b' := simp b in
               if is_emp a' then b' else if is_emp b' then a' else Alt a' b'
  | _ => r
  end.

Fixpoint rmatch (r : re) (s : list ascii) : bool :=
  match s with
  | [] => nullable r
  | c :: s' => rmatch (simp (deriv c r)) s'
  end.

Inductive M : re -> list ascii -> Prop :=
| MEps : M Eps []
| MChr p c : cmem p c = true -> M (Chr p) [c]
| MSeq a b s t : M a s -> M b t -> M (Seq a b) (s ++ t)
| MAltL a b s : M a s -> M (Alt a b) s
| MAltR a b s : M b s -> M (Alt a b) s
| MStar0 a : M (Star a) []
| MStarS a s t : M a s -> M (Star a) t -> M (Star a) (s ++ t).

Lemma nullable_M : forall r, nullable r = true <-> M r [].
Proof.
  induction r; simpl.
  - split; intro H; [discriminate | inversion H].
  - split; intro H; [constructor | reflexivity].
  - split; intro H; [discriminate | inversion H].
  - split; intro H.
    + apply andb_true_iff in H as [H1 H2]. change (@nil ascii) with (@nil ascii ++ []).
      constructor; [apply IHr1 | apply IHr2]; assumption.
    + inversion H as [| |a b s t Ha Hb| | | |]; subst.
      match goal with E : _ ++ _ = [] |- _ => apply app_eq_nil in E as [-> ->] end.
      apply andb_true_iff; split; [apply IHr1 | apply IHr2]; assumption.
  - split; intro H.
    + apply orb_true_iff in H as [H|H]; [apply MAltL, IHr1 | apply MAltR, IHr2]; assumption.
    + apply orb_true_iff. inversion H; subst; [left; apply IHr1 | right; apply IHr2]; assumption.
  - split; intro H; [constructor | reflexivity].
Qed.

Lemma deriv_M1 : forall r c s, M (deriv c r) s -> M r (c :: s).
Proof.
  induction r; intros c s H; simpl in H.
  - inversion H.
  - inversion H.
  - destruct (cmem p c) eqn:E; inversion H; subst. constructor; assumption.
  - destruct (nullable r1) eqn:En.
    + inversion H as [| | |a b s' H1|a b s' H1| |]; subst.
      * inversion H1 as [| |a b s1 s2 Ha Hb| | | |]; subst.
        change (c :: s1 ++ s2) with ((c :: s1) ++ s2). constructor; auto.
      * change (c :: s) with ([] ++ c :: s). constructor; [apply nullable_M; assumption | auto].
    + inversion H as [| |a b s1 s2 Ha Hb| | | |]; subst.
      change (c :: s1 ++ s2) with ((c :: s1) ++ s2). constructor; auto.
  - inversion H; subst; [apply MAltL | apply MAltR]; auto.
  - inversion H as [| |a b s1 s2 Ha Hb| | | |]; subst.
    change (c :: s1 ++ s2) with ((c :: s1) ++ s2). apply MStarS; auto.
Qed.

Lemma deriv_M2 : forall r w, M r w -> forall c s, w = c :: s -> M (deriv c r) s.
Proof.
  induction 1 as [|p c0 Hc|a b s1 s2 Ha IHa Hb IHb|a b s1 Ha IHa|a b s1 Hb IHb|a|a s1 s2 Ha IHa Hb IHb];
    intros c s E; simpl.
  - discriminate.
  - injection E as -> <-. rewrite Hc. constructor.
  - destruct s1 as [|c1 s1'].
    + simpl in E. assert (Hn : nullable a = true) by (apply nullable_M; assumption).
      rewrite Hn. apply MAltR. apply IHb; assumption.
    + simpl in E. injection E as -> <-.
      destruct (nullable a); [apply MAltL|]; constructor; auto.
  - apply MAltL; auto.
  - apply MAltR; auto.
  - discriminate.
  - destruct s1 as [|c1 s1'].
    + simpl in E. apply IHb in E. simpl in E. exact E.
    + simpl in E. injection E as -> <-. constructor; auto.
Qed.

Lemma is_emp_M : forall r s, is_emp r = true -> ~ M r s.
Proof.
  induction r; simpl; intros s H Hm; try discriminate.
  - inversion Hm.
  - inversion Hm; subst. apply orb_true_iff in H as [H|H]; [eapply IHr1 | eapply IHr2]; eauto.
  - apply andb_true_iff in H as [H1 H2]. inversion Hm; subst; [eapply IHr1 | eapply IHr2]; eauto.
Qed.

Lemma simp_M : forall r s, M (simp r) s <-> M r s.
Proof.
  induction r; intros s; simpl; try tauto.
  - destruct (is_emp (simp r1) || is_emp (simp r2)) eqn:E.
    + split; intro H; [inversion H|].
      inversion H; subst. apply orb_true_iff in E as [E|E]; exfalso.
      * eapply is_emp_M; [exact E | apply IHr1; eassumption].
      * eapply is_emp_M; [exact E | apply IHr2; eassumption].
    + assert (G : M (Seq (simp r1) (simp r2)) s <-> M (Seq r1 r2) s).
      { split; intro H; inversion H; subst; constructor;
          try (apply IHr1; assumption); try (apply IHr2; assumption). }
      destruct (simp r1) eqn:E1; try exact G.
      rewrite <- G. split; intro H.
      * change s with ([] ++ s). constructor; [constructor | assumption].
      * inversion H as [| |a b s1 s2 Ha Hb| | | |]; subst. inversion Ha; subst. exact Hb.
  - destruct (is_emp (simp r1)) eqn:E1; [|destruct (is_emp (simp r2)) eqn:E2].
    + split; intro H; [apply MAltR, IHr2; assumption|].
      inversion H; subst; [|apply IHr2; assumption].
      exfalso. eapply is_emp_M; [exact E1 | apply IHr1; eassumption].
    + split; intro H; [apply MAltL, IHr1; assumption|].
      inversion H; subst; [apply IHr1; assumption|].
      exfalso. eapply is_emp_M; [exact E2 | apply IHr2; eassumption].
    + split; intro H; inversion H; subst;
        solve [apply MAltL, IHr1; assumption | apply MAltR, IHr2; assumption].
Qed.

Theorem rmatch_iff : forall s r, rmatch r s = true <-> M r s.
Proof.
  induction s as [|c s IH]; intro r; simpl.
  - apply nullable_M.
  - rewrite IH, simp_M. split; [apply deriv_M1 | intro H; eapply deriv_M2; eauto].
Qed.

(* ---------- derived facts used by the schema theorems ---------- *)
Lemma M_star_all : forall p s, (forall c, In c s -> cmem p c = true) -> M (Star (Chr p)) s.
Proof.
  induction s as [|c s IH]; intro H; [constructor|].
  change (c :: s) with ([c] ++ s). apply MStarS.
  - constructor. apply H. left; reflexivity.
  - apply IH. intros; apply H; right; assumption.
Qed.

Lemma M_plus_all : forall p s, s <> [] -> (forall c, In c s -> cmem p c = true) ->
  M (Seq (Chr p) (Star (Chr p))) s.
Proof.
  intros p [|c s] Hne H; [congruence|].
  change (c :: s) with ([c] ++ s). constructor.
  - constructor. apply H; left; reflexivity.
  - apply M_star_all. intros; apply H; right; assumption.
Qed.

Lemma M_star_inv_all : forall p s, M (Star (Chr p)) s -> forall c, In c s -> cmem p c = true.
Proof.
  intros p s H. remember (Star (Chr p)) as r eqn:Er.
  induction H; try discriminate; intros c0 Hin.
  - destruct Hin.
  - injection Er as ->. apply in_app_or in Hin as [Hin|Hin].
    + inversion H; subst. destruct Hin as [<-|[]]. assumption.
    + apply IHM2; auto.
Qed.

(* ---------- patterns with anchors, Python re.search semantics ---------- *)
Record pat := mkPat { p_left : bool; p_right : bool; p_body : re }.

Definition any_cs : cset := [(0%N, 255%N)].
Definition nl_cs : cset := [(10%N, 10%N)].

Definition pat_re (p : pat) : re :=
  Seq (if p_left p then Eps else Star (Chr any_cs))
      (Seq (p_body p) (if p_right p then Alt Eps (Chr nl_cs) else Star (Chr any_cs))).

Definition pmatch (p : pat) (s : string) : bool := rmatch (pat_re p) (list_ascii_of_string s).

Lemma cmem_any : forall c, cmem any_cs c = true.
Proof.
  intro c. unfold cmem, any_cs. simpl. rewrite orb_false_r.
  assert (H := N_ascii_bounded c). apply andb_true_iff; split; apply N.leb_le; lia.
Qed.

Lemma M_any : forall s, M (Star (Chr any_cs)) s.
Proof. intro s. apply M_star_all. intros; apply cmem_any. Qed.

(* an anchored pattern matches exactly the strings of its body (or body + "\n") *)
Lemma pmatch_anchored : forall b s, M b (list_ascii_of_string s) -> pmatch (mkPat true true b) s = true.
Proof.
  intros b s H. unfold pmatch, pat_re. simpl. apply rmatch_iff.
  change (list_ascii_of_string s) with ([] ++ list_ascii_of_string s). constructor; [constructor|].
  rewrite <- (app_nil_r (list_ascii_of_string s)). constructor; [assumption | apply MAltL; constructor].
Qed.

(* an un-anchored pattern matches every string that contains a match of its body *)
Lemma pmatch_search : forall b pre mid post, M b mid ->
  rmatch (pat_re (mkPat false false b)) (pre ++ mid ++ post) = true.
Proof.
  intros. apply rmatch_iff. unfold pat_re; simpl.
  constructor; [apply M_any|]. constructor; [assumption | apply M_any].
Qed.

Lemma list_ascii_app : forall a b, list_ascii_of_string (a ++ b) = list_ascii_of_string a ++ list_ascii_of_string b.
Proof. induction a; simpl; intros; [reflexivity | rewrite IHa; reflexivity]. Qed.

(* literal text as a regex (used by the sniff) *)
Fixpoint re_lit (s : list ascii) : re :=
  match s with
  | [] => Eps
  | c :: s' => Seq (Chr [(N_of_ascii c, N_of_ascii c)]) (re_lit s')
  end.

Lemma M_lit : forall s, M (re_lit s) s.
Proof.
  induction s as [|c s IH]; simpl; [constructor|].
  change (c :: s) with ([c] ++ s). constructor; [|assumption].
  constructor. unfold cmem. simpl. rewrite N.leb_refl. reflexivity.
Qed.

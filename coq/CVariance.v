(* CVariance.v -- C04, uncertain complex numbers: the 2x2 matrix variance() reports for an
   elementary uncertain complex number declared with a correlation coefficient r (the
   covariance-matrix form of ucomplex) is  [[u_r^2, u_r r u_i], [u_r r u_i, u_i^2]]  -- i.e.
   the declared covariance matrix is reproduced.  Over the reals, for every reachable
   session state (Invariant.v gives the freshness of the two new uids). *)
From Coq Require Import ZArith List Bool Reals Lia Lra.
From GTCV Require Import Num RNum Vector VectorFacts Opres KTypes Kernel LPU Invariant Reachable Cplx CplxR CKernel.
Import ListNotations.
Local Open Scope R_scope.

Notation ureal := (KTypes.ureal R).
Notation state := (KTypes.state R).
Notation leafR := (KTypes.leaf R).

Lemma lookup_app_last {A} (l : list (key * A)) k a :
  Invariant.lookup l k = None -> Invariant.lookup (l ++ [(k, a)]) k = Some a.
Proof. intros H. rewrite (lookup_app_none l k k a H). rewrite keqb_refl. reflexivity. Qed.

(* what [elementary] does, for a dependent declaration (u >= 0, acceptable dof) *)
Lemma elementary_dep (s : state) x u df lb s' o :
  elementary RNum s x u df lb false = Ok (s', o) ->
  let k := (s_ctx s, (s_ne s + 1)%Z) in
  o = mkU x [] [(k, u)] [] (LeafRef k) /\
  s' = mkS (s_ctx s) (s_ne s + 1)%Z (s_ni s)
           (s_leaves s ++ [(k, mkLeaf u df false [(k, Kernel.one RNum)] (length (s_ens s)) None lb)])
           (s_nodes s) (s_ens s ++ [[]]) (s_slots s).
Proof.
  unfold elementary. destruct df as [| |d]; [|discriminate|].
  - destruct (ltb RNum u (Kernel.zero RNum)); [discriminate|]. intros H; injection H as <- <-. split; reflexivity.
  - destruct (ltb RNum d (Kernel.one RNum)); [discriminate|]. destruct (ltb RNum u (Kernel.zero RNum)); [discriminate|].
    intros H; injection H as <- <-. split; reflexivity.
Qed.

(* rewrite the innermost table lookup of H with a known value (up to conversion) *)
Ltac step_assoc H A :=
  match type of H with
  | context [match ?X with Some _ => _ | None => _ end] =>
      lazymatch X with
      | context [match _ with Some _ => _ | None => _ end] => fail
      | _ => let E := fresh "E" in assert (E : X = _) by exact A; rewrite E in H; clear E
      end
  end.

Ltac step_assoc_g A :=
  match goal with
  | |- context [match ?X with Some _ => _ | None => _ end] =>
      lazymatch X with
      | context [match _ with Some _ => _ | None => _ end] => fail
      | _ => let E := fresh "E" in assert (E : X = _) by exact A; rewrite E; clear E
      end
  end.

Section Decl.
  Variable s : state.
  Hypothesis HI : Inv RNum s.

  Let kr : key := (s_ctx s, (s_ne s + 1)%Z).
  Let ki : key := (s_ctx s, (s_ne s + 1 + 1)%Z).

  Lemma kr_ki : keqb kr ki = false /\ keqb ki kr = false.
  Proof.
    assert (H : kr <> ki) by (unfold kr, ki; intros E; injection E; lia).
    split.
    - destruct (keqb kr ki) eqn:E; [apply keqb_eq in E; contradiction|reflexivity].
    - destruct (keqb ki kr) eqn:E; [apply keqb_eq in E; symmetry in E; contradiction|reflexivity].
  Qed.

  Lemma fresh_r : Invariant.lookup (s_leaves s) kr = None.
  Proof. apply (fresh_leaf RNum s (proj1 HI)). Qed.

  Lemma fresh_i : Invariant.lookup (s_leaves s) ki = None.
  Proof.
    destruct (Invariant.lookup (s_leaves s) ki) as [l|] eqn:E; [|reflexivity].
    destruct HI as [[_ [B _]] _]. pose proof (B _ _ E) as Hb. unfold ki in Hb. cbn in Hb. lia.
  Qed.

  Theorem celementary_variance zr zi u_r u_i r df label s' re im :
    celementary RCNum s zr zi u_r u_i (Some r) df label false = Ok (s', re, im) ->
    prop_v RNum s' re None = Ok (u_r * u_r, None) /\
    prop_v RNum s' im None = Ok (u_i * u_i, None) /\
    std_covariance_real RNum s' re im = Ok (u_r * r * u_i) /\
    std_covariance_real RNum s' im re = Ok (u_r * r * u_i).
  Proof.
    unfold celementary. cbn [cN RCNum].
    destruct (elementary RNum s zr u_r df (sub_label label false) false) as [[s1 ore]|e] eqn:E1; cbn [bind]; [|discriminate].
    destruct (elementary_dep s zr u_r df _ s1 ore E1) as [-> ->].
    match goal with |- context [elementary RNum ?st zi u_i df ?lb false] =>
      destruct (elementary RNum st zi u_i df lb false) as [[s2 oim]|e] eqn:E2; cbn [bind]; [|discriminate];
      destruct (elementary_dep st zi u_i df _ s2 oim E2) as [-> ->] end.
    cbn [unode s_ctx s_ne s_leaves s_ens s_nodes s_slots s_ni].
    fold kr. change (s_ctx s, (s_ne s + 1 + 1)%Z) with ki.
    intros H. change (cN RCNum) with RNum in *. cbn [T RNum] in *.
    (* compute the leaf updates *)
    pose proof fresh_r as Fr. pose proof fresh_i as Fi. destruct kr_ki as [Kri Kir].
    unfold upd_leaf in H. cbn [s_leaves set_leaves] in H.
    match type of H with context [(s_leaves s ++ [(kr, ?a)]) ++ [(ki, ?b)]] => set (lr0 := a) in *; set (li0 := b) in * end.
    set (L0 := (s_leaves s ++ [(kr, lr0)]) ++ [(ki, li0)]) in *.
    assert (A0r : Invariant.lookup L0 kr = Some lr0).
    { unfold L0. apply lookup_app_some. apply lookup_app_last. exact Fr. }
    assert (A0i : Invariant.lookup L0 ki = Some li0).
    { unfold L0. apply lookup_app_last.
      pose proof (lookup_app_none (s_leaves s) ki kr lr0 Fi) as Hn. rewrite Kir in Hn. exact Hn. }
    unfold Invariant.lookup in A0r, A0i.
    step_assoc H A0r. cbn [s_leaves set_leaves] in H.
    set (lr1 := mkLeaf (l_u lr0) (l_df lr0) (l_indep lr0) (l_corr lr0) (l_ens lr0) (Some (kr, ki)) (l_label lr0)) in *.
    set (L1 := assoc_set L0 kr lr1) in *.
    assert (A1i : assoc L1 ki = Some li0).
    { unfold L1. change (Invariant.lookup (assoc_set L0 kr lr1) ki = Some li0). rewrite lookup_set_other by exact Kir. exact A0i. }
    step_assoc H A1i. cbn [s_leaves set_leaves] in H.
    set (li1 := mkLeaf (l_u li0) (l_df li0) (l_indep li0) (l_corr li0) (l_ens li0) (Some (kr, ki)) (l_label li0)) in *.
    set (L2 := assoc_set L1 ki li1) in *.
    assert (A2r : assoc L2 kr = Some lr1).
    { unfold L2, L1. change (Invariant.lookup (assoc_set (assoc_set L0 kr lr1) ki li1) kr = Some lr1).
      rewrite lookup_set_other by exact Kri. apply lookup_set_same. }
    step_assoc H A2r. cbn [s_leaves set_leaves] in H.
    set (lr2 := mkLeaf (l_u lr1) (l_df lr1) (l_indep lr1) (assoc_set (l_corr lr1) ki r) (l_ens lr1) (l_cplx lr1) (l_label lr1)) in *.
    set (L3 := assoc_set L2 kr lr2) in *.
    assert (A3i : assoc L3 ki = Some li1).
    { unfold L3, L2. change (Invariant.lookup (assoc_set (assoc_set L1 ki li1) kr lr2) ki = Some li1).
      rewrite lookup_set_other by exact Kir. apply lookup_set_same. }
    step_assoc H A3i. cbn [s_leaves set_leaves] in H.
    set (li2 := mkLeaf (l_u li1) (l_df li1) (l_indep li1) (assoc_set (l_corr li1) kr r) (l_ens li1) (l_cplx li1) (l_label li1)) in *.
    injection H as <- <- <-.
    set (L4 := assoc_set L3 ki li2).
    assert (A4r : assoc L4 kr = Some lr2).
    { unfold L4, L3. change (Invariant.lookup (assoc_set (assoc_set L2 kr lr2) ki li2) kr = Some lr2).
      rewrite lookup_set_other by exact Kri. apply lookup_set_same. }
    assert (A4i : assoc L4 ki = Some li2).
    { unfold L4. change (Invariant.lookup (assoc_set L3 ki li2) ki = Some li2). apply lookup_set_same. }
    repeat split.
    - unfold prop_v, node_u, leaf_of. cbn [unode s_leaves bind]. step_assoc_g A4r. reflexivity.
    - unfold prop_v, node_u, leaf_of. cbn [unode s_leaves bind]. step_assoc_g A4i. reflexivity.
    - unfold std_covariance_real. cbn [uc dc map fsum RNum bind fold_right cov_dep]. unfold leaf_of. cbn [set_leaves s_leaves].
      step_assoc_g A4r. cbn [bind map fsum RNum fold_right fst snd].
      assert (Ec : corr_get RNum lr2 ki = r).
      { unfold corr_get. subst lr2 lr1 lr0. cbn [l_corr].
        repeat (cbn [assoc_set assoc]; rewrite ?Kir, ?Kri, ?keqb_refl). reflexivity. }
      rewrite Ec. cbn [add mul RNum]. unfold Kernel.zero; cbn [of_Z RNum]. f_equal. ring.
    - unfold std_covariance_real. cbn [uc dc map fsum RNum bind fold_right cov_dep]. unfold leaf_of. cbn [set_leaves s_leaves].
      step_assoc_g A4i. cbn [bind map fsum RNum fold_right fst snd].
      assert (Ec : corr_get RNum li2 kr = r).
      { unfold corr_get. subst li2 li1 li0. cbn [l_corr].
        repeat (cbn [assoc_set assoc]; rewrite ?Kir, ?Kri, ?keqb_refl). reflexivity. }
      rewrite Ec. cbn [add mul RNum]. unfold Kernel.zero; cbn [of_Z RNum]. f_equal. ring.
  Qed.
End Decl.

(* ---------- core.ucomplex(z, (v_r, c, c, v_i)) : the declared covariance matrix is what
   variance() reports ---------- *)
Theorem ucomplex_covariance_reproduced (s : state) zr zi vr c vi df label indep s' re im :
  Inv RNum s -> 0 < vr -> 0 < vi -> c <> 0 ->
  ucomplex_decl RCNum s (@PC RCNum zr zi) (USeq4 vr c c vi) df label indep = Ok (s', DElem RCNum re im) ->
  prop_v RNum s' re None = Ok (vr, None) /\
  prop_v RNum s' im None = Ok (vi, None) /\
  std_covariance_real RNum s' re im = Ok c /\
  std_covariance_real RNum s' im re = Ok c.
Proof.
  intros HI Hvr Hvi Hc H.
  unfold ucomplex_decl in H. cbn [widen cN RCNum is_nan is_inf RNum orb] in H.
  destruct (df_bad RCNum df); [discriminate|].
  cbn [eqb RNum negb orb] in H. unfold Reqb in H.
  destruct (Req_EM_T c c) as [_|N0]; [|contradiction N0; reflexivity]. cbn [negb] in H.
  cbn [libm1 RNum R_libm1] in H.
  destruct (Rle_dec 0 vr) as [_|N1]; [|exfalso; lra]. destruct (Rle_dec 0 vi) as [_|N2]; [|exfalso; lra].
  cbn [bind] in H.
  destruct (Req_EM_T c (of_Z RNum 0)) as [E0|_]; [cbn [of_Z RNum] in E0; contradiction|]. cbn [negb] in H.
  assert (Hsr : 0 < sqrt vr) by (apply sqrt_lt_R0; exact Hvr).
  assert (Hsi : 0 < sqrt vi) by (apply sqrt_lt_R0; exact Hvi).
  cbn [div mul RNum] in H. unfold R_div in H.
  destruct (Req_EM_T (sqrt vr * sqrt vi) 0) as [E1|_]; [exfalso; nra|]. cbn [bind] in H.
  match type of H with context [if ?b then Err ValueError else Ok (_, _, _, false)] => destruct b; [discriminate|] end.
  cbn [bind] in H.
  repeat match type of H with (if ?b then Err _ else _) = _ => destruct b; [discriminate|] end.
  match type of H with (if ?b then Ok (_, DConst _ _) else _) = _ => destruct b; [discriminate|] end.
  match type of H with bind ?m _ = _ => destruct m as [[[s2 re2] im2]|e] eqn:Ec end; cbn [bind] in H; [|discriminate].
  injection H as <- <- <-.
  destruct (celementary_variance s HI zr zi (sqrt vr) (sqrt vi) (c / (sqrt vr * sqrt vi)) df label s2 re2 im2 Ec)
    as (A & B & C1 & C2).
  rewrite A, B, C1, C2.
  assert (Er : sqrt vr * sqrt vr = vr) by (apply sqrt_sqrt; lra).
  assert (Ei : sqrt vi * sqrt vi = vi) by (apply sqrt_sqrt; lra).
  assert (Ecv : sqrt vr * (c / (sqrt vr * sqrt vi)) * sqrt vi = c) by (field; split; lra).
  rewrite Er, Ei, Ecv. repeat split; reflexivity.
Qed.

(* the hypotheses are satisfiable: ucomplex(1+2j, (4, 1, 1, 9)) in a fresh session *)
Example ucomplex_covariance_nonvacuous :
  exists s' re im,
    ucomplex_decl RCNum (init RNum 1) (@PC RCNum 1 2) (USeq4 4 1 1 9) DInf None true = Ok (s', DElem RCNum re im).
Proof.
  unfold ucomplex_decl. cbn [widen cN RCNum is_nan is_inf RNum orb df_bad].
  cbn [eqb RNum negb orb]. unfold Reqb.
  destruct (Req_EM_T 1 1) as [_|N0]; [|contradiction N0; reflexivity]. cbn [negb].
  cbn [libm1 RNum R_libm1].
  destruct (Rle_dec 0 4) as [_|N1]; [|exfalso; lra]. destruct (Rle_dec 0 9) as [_|N2]; [|exfalso; lra].
  cbn [bind].
  destruct (Req_EM_T 1 (of_Z RNum 0)) as [E0|_]; [cbn [of_Z RNum] in E0; exfalso; lra|]. cbn [negb].
  assert (Hsr : 0 < sqrt 4) by (apply sqrt_lt_R0; lra).
  assert (Hsi : 0 < sqrt 9) by (apply sqrt_lt_R0; lra).
  assert (H4 : sqrt 4 * sqrt 4 = 4) by (apply sqrt_sqrt; lra).
  assert (H9 : sqrt 9 * sqrt 9 = 9) by (apply sqrt_sqrt; lra).
  cbn [div mul RNum]. unfold R_div.
  destruct (Req_EM_T (sqrt 4 * sqrt 9) 0) as [E1|_]; [exfalso; nra|]. cbn [bind].
  (* |r| = 1/6 <= 1 + 1e-10 *)
  assert (Hr : Rabs (1 / (sqrt 4 * sqrt 9)) <= 1).
  { assert (1 <= sqrt 4 * sqrt 9) by nra. rewrite Rabs_pos_eq.
    - apply (Rmult_le_reg_r (sqrt 4 * sqrt 9)); [nra|]. unfold Rdiv. rewrite Rmult_assoc, Rinv_l by nra. lra.
    - apply Rlt_le. apply Rdiv_lt_0_compat; nra. }
  assert (Htol : 1 <= dyad RNum 562949953477607 (-49)).
  { cbn [dyad RNum]. unfold powerRZ. cbn [Pos.to_nat]. 
    assert (Hp : 0 < 2 ^ Pos.to_nat 49) by (apply pow_lt; lra).
    assert (E : IZR 562949953477607 * / 2 ^ Pos.to_nat 49 = IZR 562949953477607 / 2 ^ Pos.to_nat 49) by reflexivity.
    rewrite E. apply (Rmult_le_reg_r (2 ^ Pos.to_nat 49)); [exact Hp|].
    unfold Rdiv. rewrite Rmult_assoc, Rinv_l by lra. rewrite Rmult_1_l, Rmult_1_r.
    replace (Pos.to_nat 49) with 49%nat by reflexivity.
    replace (2 ^ 49) with (IZR (2 ^ 49)) by (rewrite pow_IZR; reflexivity). apply IZR_le. vm_compute. discriminate. }
  cbn [ltb nabs RNum]. unfold Rltb, one_plus_tol. cbn [cN RCNum].
  destruct (Rlt_dec (dyad RNum 562949953477607 (-49)) (Rabs (1 / (sqrt 4 * sqrt 9)))) as [Hl|_]; [exfalso; lra|].
  cbn [bind leb RNum of_Z andb negb is_inf is_nan]. unfold Rleb.
  destruct (Rle_dec 0 (sqrt 4)) as [_|N3]; [|exfalso; lra]. destruct (Rle_dec 0 (sqrt 9)) as [_|N4]; [|exfalso; lra].
  cbn [andb negb]. destruct (Req_EM_T (sqrt 4) 0) as [E5|_]; [exfalso; lra|]. cbn [andb].
  unfold celementary. cbn [cN RCNum elementary]. unfold elementary. cbn [ltb RNum]. unfold Rltb.
  destruct (Rlt_dec (sqrt 4) (Kernel.zero RNum)) as [Hl|_]; [unfold Kernel.zero in Hl; cbn [of_Z RNum] in Hl; exfalso; lra|].
  cbn [bind]. destruct (Rlt_dec (sqrt 9) (Kernel.zero RNum)) as [Hl|_]; [unfold Kernel.zero in Hl; cbn [of_Z RNum] in Hl; exfalso; lra|].
  cbn [bind unode]. cbn. eexists _, _, _. reflexivity.
Qed.

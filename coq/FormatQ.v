(* FormatQ.v -- the exact-arithmetic instance of Format.FOps (rationals): exact floor(log10),
   exact round-half-even to a decimal place, exact powers of ten.  The theorems of
   FormatFacts.v are about the Format.v model at this instance.  Everything here is
   executable (the non-vacuity examples run it with vm_compute). *)
From Coq Require Import ZArith QArith Qround Qabs Qpower List Bool Lia Lqa.
From GTCV Require Import Num Format.
Import ListNotations.
Local Open Scope Q_scope.

Definition p10Q (e : Z) : Q := Qpower (10#1) e.

(* round to the nearest integer, ties to even *)
Definition rheQ (q : Q) : Z :=
  let f := Qfloor q in
  match Qcompare (q - inject_Z f) (1#2) with
  | Lt => f
  | Gt => (f + 1)%Z
  | Eq => if Z.even f then f else (f + 1)%Z
  end.

(* Python round(q, n) in exact arithmetic *)
Definition roundQ (q : Q) (n : Z) : Q := inject_Z (rheQ (q * p10Q n)) * p10Q (- n).

(* number of decimal digits of n >= 1 *)
Fixpoint ndig_fuel (fuel : nat) (n : Z) : Z :=
  match fuel with
  | O => 0
  | S f => if (n <? 10)%Z then 1 else (1 + ndig_fuel f (n / 10))%Z
  end.
Definition ndig (n : Z) : Z := ndig_fuel (S (Z.to_nat (Z.log2 n))) n.

(* floor(log10 |q|) for q <> 0 *)
Definition oomQ (q : Q) : Z :=
  let a := Qabs q in
  let e0 := (ndig (Qnum a) - ndig (Zpos (Qden a)))%Z in
  if Qle_bool (p10Q e0) a then e0 else (e0 - 1)%Z.

Definition Qltb (a b : Q) : bool := negb (Qle_bool b a).

Definition QOps : FOps := {|
  FT := Q;
  o_is_zero := fun q => Qeq_bool q 0;
  o_nonfinite := fun _ => false;
  o_is_nan := fun _ => false;
  o_abs := Qabs;
  o_ltb := Qltb;
  o_signbit := fun q => Qltb q 0;
  o_one := 1;
  o_c001 := 1#100;
  o_inf := -1;                 (* a token: the rationals have no infinity; only returned for dof > inf_dof *)
  o_inf_dof := 100000#1;
  o_oom := fun q => Ok (oomQ q);
  o_round := fun q n => Ok (roundQ q n);
  o_p10 := fun e => Ok (p10Q e);
  o_div := fun a b => if Qeq_bool b 0 then Err ZeroDivisionError else Ok (a / b);
  o_mul := Qmult;
  o_rint := fun q => Ok (rheQ q);
  o_floor := fun q => Ok (Qfloor q);
  o_of_int := fun n => Ok (inject_Z n);
  o_scaled := fun q p => rheQ (Qabs q * p10Q p)
|}.

(* ================= facts about the exact operations ================= *)

Lemma rheQ_lo : forall q, q - (1#2) <= inject_Z (rheQ q).
Proof.
  intro q. unfold rheQ. cbv zeta.
  pose proof (Qfloor_le q) as Hf. pose proof (Qlt_floor q) as Hl.
  rewrite inject_Z_plus in Hl. change (inject_Z 1) with 1 in Hl.
  destruct (Qcompare_spec (q - inject_Z (Qfloor q)) (1#2)) as [He|Hlt|Hgt].
  - destruct (Z.even (Qfloor q)); [lra | rewrite inject_Z_plus; change (inject_Z 1) with 1; lra].
  - lra.
  - rewrite inject_Z_plus. change (inject_Z 1) with 1. lra.
Qed.

Lemma rheQ_hi : forall q, inject_Z (rheQ q) <= q + (1#2).
Proof.
  intro q. unfold rheQ. cbv zeta.
  pose proof (Qfloor_le q) as Hf. pose proof (Qlt_floor q) as Hl.
  rewrite inject_Z_plus in Hl. change (inject_Z 1) with 1 in Hl.
  destruct (Qcompare_spec (q - inject_Z (Qfloor q)) (1#2)) as [He|Hlt|Hgt].
  - destruct (Z.even (Qfloor q)); [lra | rewrite inject_Z_plus; change (inject_Z 1) with 1; lra].
  - lra.
  - rewrite inject_Z_plus. change (inject_Z 1) with 1. lra.
Qed.

Lemma inject_Z_lt_1 : forall a b : Z, inject_Z a < inject_Z b + 1 -> (a <= b)%Z.
Proof.
  intros a b H. change 1 with (inject_Z 1) in H. rewrite <- inject_Z_plus in H.
  rewrite <- Zlt_Qlt in H. lia.
Qed.

Lemma rheQ_ge_int : forall q k, inject_Z k <= q -> (k <= rheQ q)%Z.
Proof.
  intros q k H. pose proof (rheQ_lo q) as Hl.
  apply inject_Z_lt_1. lra.
Qed.

Lemma rheQ_le_int : forall q k, q <= inject_Z k -> (rheQ q <= k)%Z.
Proof.
  intros q k H. pose proof (rheQ_hi q) as Hl.
  apply inject_Z_lt_1. lra.
Qed.

Lemma rheQ_near : forall q k, inject_Z k - (1#2) < q -> q < inject_Z k + (1#2) -> rheQ q = k.
Proof.
  intros q k H1 H2. pose proof (rheQ_lo q) as Hl. pose proof (rheQ_hi q) as Hh.
  assert (rheQ q <= k)%Z by (apply inject_Z_lt_1; lra).
  assert (k <= rheQ q)%Z by (apply inject_Z_lt_1; lra).
  lia.
Qed.

Lemma rheQ_int : forall k, rheQ (inject_Z k) = k.
Proof. intro k. apply rheQ_near; lra. Qed.

Lemma rheQ_mono : forall a b, a <= b -> (rheQ a <= rheQ b)%Z.
Proof.
  intros a b H.
  destruct (Z_lt_le_dec (rheQ b) (rheQ a)) as [Hlt|]; [|assumption].
  (* rheQ b + 1 <= rheQ a : then a - 1/2 <= ... *)
  exfalso.
  pose proof (rheQ_lo b) as Hlb. pose proof (rheQ_hi a) as Hha.
  pose proof (rheQ_hi b) as Hhb. pose proof (rheQ_lo a) as Hla.
  assert (Hz : inject_Z (rheQ b) + 1 <= inject_Z (rheQ a)).
  { change 1 with (inject_Z 1). rewrite <- inject_Z_plus. rewrite <- Zle_Qle. lia. }
  (* so a = b, both at a tie between rheQ b and rheQ b + 1 *)
  assert (Ha : a == inject_Z (rheQ b) + (1#2)) by lra.
  assert (Hb : b == inject_Z (rheQ b) + (1#2)) by lra.
  assert (Hab : a == b) by lra.
  assert (Hfl : Qfloor a = Qfloor b) by (apply Z.le_antisymm; apply Qfloor_resp_le; lra).
  unfold rheQ in Hlt. rewrite Hfl in Hlt.
  destruct (Qcompare_spec (a - inject_Z (Qfloor b)) (1#2));
  destruct (Qcompare_spec (b - inject_Z (Qfloor b)) (1#2)); try lra; lia.
Qed.

(* ---- powers of ten ---- *)
Lemma ten_neq0 : ~ (10#1) == 0.
Proof. intro H. discriminate H. Qed.

Lemma p10Q_pos : forall e, 0 < p10Q e.
Proof. intro e. apply Qpower_0_lt. reflexivity. Qed.

Lemma p10Q_plus : forall a b, p10Q (a + b) == p10Q a * p10Q b.
Proof. intros. apply Qpower_plus, ten_neq0. Qed.

Lemma p10Q_0 : p10Q 0 == 1.
Proof. reflexivity. Qed.

Lemma p10Q_1 : p10Q 1 == 10#1.
Proof. reflexivity. Qed.

Lemma p10Q_cancel : forall a, p10Q a * p10Q (- a) == 1.
Proof. intro a. rewrite <- p10Q_plus. rewrite Z.add_opp_diag_r. reflexivity. Qed.

Lemma p10Q_lt : forall a b, (a < b)%Z -> p10Q a < p10Q b.
Proof. intros. apply Qpower_lt_compat_l; [assumption|reflexivity]. Qed.

Lemma p10Q_le : forall a b, (a <= b)%Z -> p10Q a <= p10Q b.
Proof. intros. apply Qpower_le_compat_l; [assumption|discriminate]. Qed.

Lemma p10Q_lt_inv : forall a b, p10Q a < p10Q b -> (a < b)%Z.
Proof. intros. eapply Qpower_lt_compat_l_inv; [eassumption|reflexivity]. Qed.

Lemma p10Q_int : forall n, (0 <= n)%Z -> p10Q n == inject_Z (10 ^ n).
Proof. intros n H. unfold p10Q. rewrite Zpower_Qpower by assumption. reflexivity. Qed.

Lemma p10Q_succ : forall a, p10Q (a + 1) == p10Q a * (10#1).
Proof. intro a. rewrite p10Q_plus. reflexivity. Qed.

(* ---- number of digits, order of magnitude ---- *)
Lemma ndig_fuel_spec : forall fuel n, (1 <= n)%Z -> (n < 2 ^ Z.of_nat fuel)%Z ->
  (10 ^ (ndig_fuel fuel n - 1) <= n < 10 ^ ndig_fuel fuel n)%Z /\ (1 <= ndig_fuel fuel n)%Z.
Proof.
  induction fuel as [|f IH]; intros n H1 H2.
  - simpl in H2. lia.
  - cbn [ndig_fuel]. destruct (Z.ltb_spec n 10) as [Hlt|Hge].
    + simpl. lia.
    + assert (Hd : (1 <= n / 10)%Z) by (apply Z.div_le_lower_bound; lia).
      assert (Hd2 : (n / 10 < 2 ^ Z.of_nat f)%Z).
      { apply Z.div_lt_upper_bound; [lia|].
        rewrite Nat2Z.inj_succ, Z.pow_succ_r in H2 by lia. lia. }
      destruct (IH (n / 10)%Z Hd Hd2) as [[Ha Hb] Hc].
      replace (1 + ndig_fuel f (n / 10) - 1)%Z with (ndig_fuel f (n / 10) - 1 + 1)%Z by lia.
      replace (1 + ndig_fuel f (n / 10))%Z with (ndig_fuel f (n / 10) + 1)%Z by lia.
      rewrite !Z.pow_add_r by lia. simpl (10 ^ 1)%Z.
      pose proof (Z.div_mod n 10 ltac:(lia)) as Hdm.
      pose proof (Z.mod_pos_bound n 10 ltac:(lia)) as Hm.
      split; [split|]; nia.
Qed.

Lemma ndig_spec : forall n, (1 <= n)%Z -> (10 ^ (ndig n - 1) <= n < 10 ^ ndig n)%Z /\ (1 <= ndig n)%Z.
Proof.
  intros n H. unfold ndig. apply ndig_fuel_spec; [assumption|].
  rewrite Nat2Z.inj_succ, Z2Nat.id by (apply Z.log2_nonneg).
  apply Z.log2_spec. lia.
Qed.

Lemma Qabs_num_den : forall q, Qabs q == inject_Z (Qnum (Qabs q)) / inject_Z (Zpos (Qden (Qabs q))).
Proof.
  intro q. destruct (Qabs q) as [a b]. simpl.
  unfold Qeq, Qdiv, Qmult, Qinv, inject_Z. simpl. lia.
Qed.

Lemma oomQ_spec : forall q, ~ q == 0 -> p10Q (oomQ q) <= Qabs q /\ Qabs q < p10Q (oomQ q + 1).
Proof.
  intros q Hq. unfold oomQ.
  set (a := Qabs q).
  assert (Ha : 0 < a).
  { unfold a. pose proof (Qabs_nonneg q) as H0.
    destruct (Qlt_le_dec 0 (Qabs q)) as [|Hle]; [assumption|].
    exfalso. apply Hq. apply Qabs_Qle_condition in Hle. lra. }
  pose proof (Qabs_num_den q) as Hnd. fold a in Hnd.
  set (na := Qnum a) in *. set (da := Zpos (Qden a)) in *.
  assert (Hna : (1 <= na)%Z).
  { unfold na. destruct a as [n d]. unfold Qlt in Ha. simpl in *. lia. }
  assert (Hda : (1 <= da)%Z) by (unfold da; lia).
  destruct (ndig_spec na Hna) as [[Hn1 Hn2] Hn3].
  destruct (ndig_spec da Hda) as [[Hd1 Hd2] Hd3].
  set (dn := ndig na) in *. set (dd := ndig da) in *.
  (* transfer to Q *)
  assert (Qn1 : p10Q (dn - 1) <= inject_Z na) by (rewrite p10Q_int by lia; rewrite <- Zle_Qle; lia).
  assert (Qn2 : inject_Z na < p10Q dn) by (rewrite p10Q_int by lia; rewrite <- Zlt_Qlt; lia).
  assert (Qd1 : p10Q (dd - 1) <= inject_Z da) by (rewrite p10Q_int by lia; rewrite <- Zle_Qle; lia).
  assert (Qd2 : inject_Z da < p10Q dd) by (rewrite p10Q_int by lia; rewrite <- Zlt_Qlt; lia).
  assert (Hdapos : 0 < inject_Z da) by (change 0 with (inject_Z 0); rewrite <- Zlt_Qlt; lia).
  assert (Hmul : a * inject_Z da == inject_Z na).
  { rewrite Hnd. field. lra. }
  (* a < 10^(dn-dd+1) and 10^(dn-dd-1) < a *)
  assert (Hup : a < p10Q (dn - dd + 1)).
  { pose proof (p10Q_pos (dd - 1)) as P1. pose proof (p10Q_pos (dn - dd + 1)) as P2.
    assert (E : p10Q dn == p10Q (dn - dd + 1) * p10Q (dd - 1)).
    { rewrite <- p10Q_plus. replace (dn - dd + 1 + (dd - 1))%Z with dn by lia. reflexivity. }
    destruct (Qlt_le_dec a (p10Q (dn - dd + 1))) as [|Hge]; [assumption|exfalso].
    assert (p10Q (dn - dd + 1) * p10Q (dd - 1) <= a * inject_Z da) by nra.
    lra. }
  assert (Hlow : p10Q (dn - dd - 1) < a).
  { pose proof (p10Q_pos dd) as P1. pose proof (p10Q_pos (dn - dd - 1)) as P2.
    assert (E : p10Q (dn - 1) == p10Q (dn - dd - 1) * p10Q dd).
    { rewrite <- p10Q_plus. replace (dn - dd - 1 + dd)%Z with (dn - 1)%Z by lia. reflexivity. }
    destruct (Qlt_le_dec (p10Q (dn - dd - 1)) a) as [|Hge]; [assumption|exfalso].
    assert (a * inject_Z da < p10Q (dn - dd - 1) * p10Q dd) by nra.
    lra. }
  destruct (Qle_bool (p10Q (dn - dd)) a) eqn:Hb.
  - apply Qle_bool_iff in Hb. split; [exact Hb|exact Hup].
  - assert (Hlt : a < p10Q (dn - dd)).
    { destruct (Qlt_le_dec a (p10Q (dn - dd))) as [|Hge]; [assumption|].
      apply Qle_bool_iff in Hge. congruence. }
    replace (dn - dd - 1 + 1)%Z with (dn - dd)%Z by lia.
    split; [lra|exact Hlt].
Qed.

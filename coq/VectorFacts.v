(* VectorFacts.v -- theorems about the sparse-vector routines (vector.py).
   Generic part (any Num): lookup in an interleaved merge, sortedness, key set.
   RNum part: the merge computes the linear combination of its operands. *)
From Coq Require Import ZArith List Bool Reals Lia Lra.
From GTCV Require Import Num RNum Vector.
Import ListNotations.

(* ---------- the key order is a strict total order ---------- *)
Lemma kcmp_eq a b : kcmp a b = Eq <-> a = b.
Proof.
  unfold kcmp; destruct a as [a1 a2], b as [b1 b2]; simpl.
  destruct (Z.compare_spec a1 b1) as [E1|E1|E1].
  - subst. destruct (Z.compare_spec a2 b2) as [E2|E2|E2].
    + subst; split; auto.
    + split; [discriminate | intros Hc; inversion Hc; lia].
    + split; [discriminate | intros Hc; inversion Hc; lia].
  - split; [discriminate | intros Hc; inversion Hc; lia].
  - split; [discriminate | intros Hc; inversion Hc; lia].
Qed.

Lemma kcmp_refl a : kcmp a a = Eq.
Proof. apply kcmp_eq; reflexivity. Qed.

Lemma kcmp_lt_iff a b :
  kcmp a b = Lt <-> (fst a < fst b \/ (fst a = fst b /\ snd a < snd b))%Z.
Proof.
  unfold kcmp; destruct a as [a1 a2], b as [b1 b2]; simpl.
  destruct (Z.compare_spec a1 b1) as [E1|E1|E1].
  - subst. rewrite Z.compare_lt_iff. lia.
  - split; auto; intros; lia.
  - split; [discriminate | lia].
Qed.

Lemma kcmp_lt_trans a b c : kcmp a b = Lt -> kcmp b c = Lt -> kcmp a c = Lt.
Proof. rewrite !kcmp_lt_iff; lia. Qed.

Lemma kcmp_gt_lt a b : kcmp a b = Gt <-> kcmp b a = Lt.
Proof.
  unfold kcmp; destruct a as [a1 a2], b as [b1 b2]; simpl.
  rewrite (Z.compare_antisym a1 b1), (Z.compare_antisym a2 b2).
  destruct (a1 ?= b1)%Z, (a2 ?= b2)%Z; simpl; split; congruence.
Qed.

Lemma keqb_eq a b : keqb a b = true <-> a = b.
Proof.
  unfold keqb; rewrite <- kcmp_eq; destruct (kcmp a b); split; congruence.
Qed.

Lemma keqb_refl a : keqb a a = true.
Proof. apply keqb_eq; reflexivity. Qed.

Lemma keqb_neq a b : kcmp a b = Lt -> keqb b a = false /\ keqb a b = false.
Proof.
  intros H; split.
  - destruct (keqb b a) eqn:E; auto. apply keqb_eq in E; subst. rewrite kcmp_refl in H; discriminate.
  - unfold keqb; rewrite H; reflexivity.
Qed.

Section Generic.
  Variable N : Num.
  Notation V := (T N).
  Notation vec := (vec N).

  Lemma get_none_notin (v : vec) k : ~ In k (keys v) -> get v k = None.
  Proof.
    induction v as [|[k' x] v IH]; simpl; auto; intros H.
    destruct (keqb k k') eqn:E.
    - apply keqb_eq in E; subst; tauto.
    - apply IH; tauto.
  Qed.

  Lemma get_some_in (v : vec) k x : get v k = Some x -> In k (keys v).
  Proof.
    induction v as [|[k' y] v IH]; simpl; [discriminate|].
    destruct (keqb k k') eqn:E; intros H.
    - apply keqb_eq in E; subst; auto.
    - right; auto.
  Qed.

  Lemma get_below (v : vec) k :
    (forall k', In k' (keys v) -> kcmp k k' = Lt) -> get v k = None.
  Proof.
    intros H; apply get_none_notin; intros Hin.
    specialize (H _ Hin); rewrite kcmp_refl in H; discriminate.
  Qed.

  Lemma keys_vmap f (v : vec) : keys (vmap f v) = keys v.
  Proof. unfold keys, vmap; rewrite map_map; reflexivity. Qed.

  Lemma get_vmap f (v : vec) k :
    get (vmap f v) k = match get v k with Some x => Some (f x) | None => None end.
  Proof.
    induction v as [|[k' x] v IH]; simpl; auto.
    destruct (keqb k k'); auto.
  Qed.

  Lemma sorted_vmap f (v : vec) : sorted v -> sorted (vmap f v).
  Proof.
    induction v as [|[k x] v IH]; simpl; auto.
    intros [H1 H2]; split; auto.
    fold (vmap f v); rewrite keys_vmap; exact H1.
  Qed.

  Definition combine_opt (f1 f2 : V -> V) (f12 : V -> V -> V) (a b : option V) : option V :=
    match a, b with
    | Some x, Some y => Some (f12 x y)
    | Some x, None => Some (f1 x)
    | None, Some y => Some (f2 y)
    | None, None => None
    end.

  Lemma sorted_tail k x (v : vec) : sorted ((k, x) :: v) -> sorted v.
  Proof. simpl; tauto. Qed.

  Lemma sorted_head_lt k x (v : vec) k' :
    sorted ((k, x) :: v) -> In k' (keys v) -> kcmp k k' = Lt.
  Proof. simpl; intros [H _]; auto. Qed.

  (* --- key set of the interleaved merge --- *)
  Lemma keys_mloop f1 f2 f12 (v1 v2 : vec) k :
    In k (keys (mloop f1 f2 f12 v1 v2)) <-> In k (keys v1) \/ In k (keys v2).
  Proof.
    revert v2; induction v1 as [|[k1 x1] t1 IH1]; intros v2.
    - simpl; rewrite keys_vmap; tauto.
    - induction v2 as [|[k2 x2] t2 IH2].
      + simpl; fold (vmap f1 t1); rewrite keys_vmap; simpl; tauto.
      + cbn [mloop]. destruct (kcmp k1 k2) eqn:E.
        * apply kcmp_eq in E; subst. simpl. rewrite IH1. simpl; tauto.
        * simpl. rewrite IH1. simpl. tauto.
        * simpl. cbn [mloop] in IH2. rewrite IH2. simpl. tauto.
  Qed.

  (* --- sortedness is preserved --- *)
  Lemma sorted_mloop f1 f2 f12 (v1 v2 : vec) :
    sorted v1 -> sorted v2 -> sorted (mloop f1 f2 f12 v1 v2).
  Proof.
    revert v2; induction v1 as [|[k1 x1] t1 IH1]; intros v2 S1 S2.
    - simpl; apply sorted_vmap; auto.
    - induction v2 as [|[k2 x2] t2 IH2].
      + cbn [mloop]. apply (sorted_vmap f1 ((k1, x1) :: t1)); auto.
      + cbn [mloop]. destruct (kcmp k1 k2) eqn:E.
        * apply kcmp_eq in E; subst k2.
          simpl; split.
          -- intros k' Hin. apply keys_mloop in Hin. destruct Hin as [Hin|Hin].
             ++ exact (sorted_head_lt _ _ _ _ S1 Hin).
             ++ exact (sorted_head_lt _ _ _ _ S2 Hin).
          -- apply IH1; [exact (sorted_tail _ _ _ S1) | exact (sorted_tail _ _ _ S2)].
        * simpl; split.
          -- intros k' Hin. apply keys_mloop in Hin. destruct Hin as [Hin|Hin].
             ++ exact (sorted_head_lt _ _ _ _ S1 Hin).
             ++ simpl in Hin; destruct Hin as [<-|Hin]; auto.
                eapply kcmp_lt_trans; [exact E|]. exact (sorted_head_lt _ _ _ _ S2 Hin).
          -- apply IH1; auto. exact (sorted_tail _ _ _ S1).
        * apply kcmp_gt_lt in E.
          simpl; split.
          -- intros k' Hin.
             change (In k' (keys (mloop f1 f2 f12 ((k1, x1) :: t1) t2))) in Hin.
             apply keys_mloop in Hin. destruct Hin as [Hin|Hin].
             ++ simpl in Hin; destruct Hin as [<-|Hin]; auto.
                eapply kcmp_lt_trans; [exact E|]. exact (sorted_head_lt _ _ _ _ S1 Hin).
             ++ exact (sorted_head_lt _ _ _ _ S2 Hin).
          -- apply IH2. exact (sorted_tail _ _ _ S2).
  Qed.

  (* --- lookup in the interleaved merge --- *)
  Lemma get_mloop f1 f2 f12 (v1 v2 : vec) k :
    sorted v1 -> sorted v2 ->
    get (mloop f1 f2 f12 v1 v2) k = combine_opt f1 f2 f12 (get v1 k) (get v2 k).
  Proof.
    revert v2; induction v1 as [|[k1 x1] t1 IH1]; intros v2 S1 S2.
    - simpl. rewrite get_vmap. destruct (get v2 k); reflexivity.
    - induction v2 as [|[k2 x2] t2 IH2].
      + cbn [mloop]. rewrite (get_vmap f1 ((k1, x1) :: t1)).
        destruct (get ((k1, x1) :: t1) k); reflexivity.
      + cbn [mloop]. destruct (kcmp k1 k2) eqn:E.
        * apply kcmp_eq in E; subst k2.
          simpl. destruct (keqb k k1) eqn:Ek; [reflexivity|].
          apply IH1; eapply sorted_tail; eauto.
        * (* k1 < k2 *)
          simpl get at 1 2. destruct (keqb k k1) eqn:Ek.
          -- apply keqb_eq in Ek; subst k.
             assert (Hn : get ((k2, x2) :: t2) k1 = None).
             { apply get_below. simpl; intros k' [<-|Hin]; auto.
               eapply kcmp_lt_trans; eauto. eapply sorted_head_lt; eauto. }
             rewrite Hn. reflexivity.
          -- rewrite IH1; auto. eapply sorted_tail; eauto.
        * (* k2 < k1 *)
          apply kcmp_gt_lt in E.
          change (get ((k2, f2 x2) :: mloop f1 f2 f12 ((k1, x1) :: t1) t2) k =
                  combine_opt f1 f2 f12 (get ((k1, x1) :: t1) k) (get ((k2, x2) :: t2) k)).
          simpl get at 1 3. destruct (keqb k k2) eqn:Ek.
          -- apply keqb_eq in Ek; subst k.
             assert (Hn : get ((k1, x1) :: t1) k2 = None).
             { apply get_below. simpl; intros k' [<-|Hin]; auto.
               eapply kcmp_lt_trans; eauto. eapply sorted_head_lt; eauto. }
             rewrite Hn. reflexivity.
          -- apply IH2. eapply sorted_tail; eauto.
  Qed.

  Lemma sortedb_sorted (v : vec) : sortedb v = true -> sorted v.
  Proof.
    induction v as [|[k x] v IH]; simpl; auto.
    destruct v as [|[k' x'] v'].
    - intros _; split; [intros ? []|exact I].
    - destruct (kcmp k k') eqn:E; try discriminate. intros H.
      specialize (IH H). split; auto.
      intros k'' [<-|Hin]; auto.
      eapply kcmp_lt_trans; eauto. eapply sorted_head_lt; eauto.
  Qed.
End Generic.

(* ---------- over the reals: merges are linear combinations ---------- *)
Local Open Scope R_scope.

Notation rvec := (vec RNum).

Ltac rsimp := cbn [T of_Z dyad add sub mul neg nabs RNum] in *.

Lemma get0_R (v : rvec) k :
  get0 v k = match get v k with Some x => x | None => 0 end.
Proof. reflexivity. Qed.

Theorem get0_scale (v : rvec) (w : R) k : get0 (scale v w) k = w * get0 v k.
Proof.
  unfold scale; rewrite !get0_R, get_vmap. destruct (get v k); rsimp; ring.
Qed.

Theorem get0_merge_w (v1 v2 : rvec) (w1 w2 : R) k :
  sorted v1 -> sorted v2 ->
  get0 (merge_w v1 w1 v2 w2) k = w1 * get0 v1 k + w2 * get0 v2 k.
Proof.
  intros S1 S2. unfold merge_w. rewrite !get0_R, get_mloop by assumption.
  destruct (get v1 k), (get v2 k); cbn [combine_opt]; rsimp; ring.
Qed.

Theorem get0_merge (v1 v2 : rvec) k :
  sorted v1 -> sorted v2 -> get0 (merge v1 v2) k = get0 v1 k + get0 v2 k.
Proof.
  intros S1 S2. unfold merge. rewrite !get0_R, get_mloop by assumption.
  destruct (get v1 k), (get v2 k); cbn [combine_opt]; rsimp; ring.
Qed.

Theorem get0_extend (v1 v2 : rvec) k :
  sorted v1 -> sorted v2 -> get0 (extend v1 v2) k = get0 v1 k.
Proof.
  intros S1 S2. unfold extend. rewrite get0_merge_w by assumption. rsimp. ring.
Qed.

Theorem sorted_merge_w (v1 v2 : rvec) w1 w2 :
  sorted v1 -> sorted v2 -> sorted (merge_w v1 w1 v2 w2).
Proof. apply sorted_mloop. Qed.

Theorem sorted_merge (v1 v2 : rvec) : sorted v1 -> sorted v2 -> sorted (merge v1 v2).
Proof. apply sorted_mloop. Qed.

Theorem sorted_scale (v : rvec) w : sorted v -> sorted (scale v w).
Proof. apply sorted_vmap. Qed.

Theorem keys_merge_w (v1 v2 : rvec) w1 w2 k :
  In k (keys (merge_w v1 w1 v2 w2)) <-> In k (keys v1) \/ In k (keys v2).
Proof. apply keys_mloop. Qed.

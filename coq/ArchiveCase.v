(* ArchiveCase.v -- support for the generated correspondence case files of C07: structural,
   bit-exact comparison of frozen archives, documents, contexts and restored numbers, and
   [run_acase], which replays one recorded history (freeze -> encode -> decode -> thaw) on the
   FNum model and returns -1 for agreement or the number of the first stage that differs. *)
From Coq Require Import ZArith List Bool String PrimFloat.
From GTCV Require Import Num FNum Vector Opres KTypes Kernel Archive.
Import ListNotations.

Definition NF : Num := FNum [].

Section Cmp.
  Notation V := float.
  Definition veq (a b : V) : bool := fbits_eqb a b.

  Fixpoint list_eqb {A} (e : A -> A -> bool) (a b : list A) : bool :=
    match a, b with
    | [], [] => true
    | x :: a', y :: b' => e x y && list_eqb e a' b'
    | _, _ => false
    end.
  Definition opt_eqb {A} (e : A -> A -> bool) (a b : option A) : bool :=
    match a, b with None, None => true | Some x, Some y => e x y | _, _ => false end.
  Definition pair_eqb' {A B} (ea : A -> A -> bool) (eb : B -> B -> bool) (a b : A * B) : bool :=
    ea (fst a) (fst b) && eb (snd a) (snd b).
  Definition res_eqb {A} (e : A -> A -> bool) (a b : res A) : bool :=
    match a, b with Ok x, Ok y => e x y | Err x, Err y => exn_eqb x y | _, _ => false end.

  Definition kvec_eqb : list (key * V) -> list (key * V) -> bool := list_eqb (pair_eqb' keqb veq).
  Definition crepr_eqb (a b : crepr) : bool :=
    match a, b with CTuple, CTuple | CList, CList => true | _, _ => false end.

  Definition aleaf_eqb (a b : aleaf NF) : bool :=
    label_eqb (al_label a) (al_label b) && veq (al_u a) (al_u b) && veq (al_df a) (al_df b)
    && Bool.eqb (al_indep a) (al_indep b)
    && opt_eqb (pair_eqb' (pair_eqb' crepr_eqb keqb) keqb) (al_cplx a) (al_cplx b)
    && opt_eqb kvec_eqb (al_corr a) (al_corr b)
    && opt_eqb (list_eqb keqb) (al_ens a) (al_ens b).

  Definition anode_eqb (a b : anode NF) : bool :=
    label_eqb (an_label a) (an_label b) && veq (an_u a) (an_u b) && veq (an_df a) (an_df b).

  Definition noderef_eqb (a b : noderef) : bool :=
    match a, b with
    | NoNode, NoNode => true
    | ConstLeaf _, ConstLeaf _ => true
    | LeafRef x, LeafRef y => keqb x y
    | NodeRef x, NodeRef y => keqb x y
    | _, _ => false
    end.

  Definition ureal_eqb (a b : ureal V) : bool :=
    veq (ux a) (ux b) && kvec_eqb (uc a) (uc b) && kvec_eqb (dc a) (dc b) && kvec_eqb (ic a) (ic b)
    && noderef_eqb (unode a) (unode b).

  Definition freal_eqb (a b : freal NF) : bool :=
    match a, b with
    | FElem x k, FElem x' k' => veq x x' && keqb k k'
    | FInterm x u d i lb k, FInterm x' u' d' i' lb' k' =>
        veq x x' && kvec_eqb u u' && kvec_eqb d d' && kvec_eqb i i' && label_eqb lb lb' && keqb k k'
    | _, _ => false
    end.

  Definition fcomplex_eqb (a b : fcomplex) : bool :=
    String.eqb (fc_re a) (fc_re b) && String.eqb (fc_im a) (fc_im b) && label_eqb (fc_label a) (fc_label b).

  Definition frozen_eqb (a b : frozen NF) : bool :=
    list_eqb (pair_eqb' keqb aleaf_eqb) (f_leaves a) (f_leaves b)
    && list_eqb (pair_eqb' keqb anode_eqb) (f_interm a) (f_interm b)
    && list_eqb (pair_eqb' String.eqb freal_eqb) (f_treal a) (f_treal b)
    && list_eqb (pair_eqb' String.eqb fcomplex_eqb) (f_tcplx a) (f_tcplx b)
    && list_eqb (pair_eqb' String.eqb freal_eqb) (f_ureal a) (f_ureal b).

  Definition zlist_eqb : list Z -> list Z -> bool := list_eqb Z.eqb.
  Definition jstr_eqb (a b : jstr) : bool :=
    match a, b with
    | SText x, SText y => String.eqb x y
    | SUid x, SUid y => zlist_eqb x y
    | _, _ => false
    end.

  Fixpoint json_eqb (a b : json NF) : bool :=
    match a, b with
    | JNull, JNull => true
    | JBool x, JBool y => Bool.eqb x y
    | JNum x, JNum y => veq x y
    | JStr x, JStr y => jstr_eqb x y
    | JArr l, JArr l' =>
        (fix go (l l' : list (json NF)) : bool :=
           match l, l' with
           | [], [] => true
           | x :: t, y :: t' => json_eqb x y && go t t'
           | _, _ => false
           end) l l'
    | JObj m, JObj m' =>
        (fix go (m m' : list (jstr * json NF)) : bool :=
           match m, m' with
           | [], [] => true
           | (k, x) :: t, (k', y) :: t' => jstr_eqb k k' && json_eqb x y && go t t'
           | _, _ => false
           end) m m'
    | _, _ => false
    end.

  Definition xtext_eqb (a b : xtext NF) : bool :=
    match a, b with
    | TNone, TNone => true
    | TStr x, TStr y => String.eqb x y
    | TNum x, TNum y => veq x y
    | TINF, TINF => true
    | TBool x, TBool y => Bool.eqb x y
    | _, _ => false
    end.
  Definition xattr_eqb (a b : xattr) : bool :=
    match a, b with
    | AStr x, AStr y => String.eqb x y
    | AUid x, AUid y => zlist_eqb x y
    | _, _ => false
    end.

  Fixpoint xml_eqb (a b : xml NF) : bool :=
    match a, b with
    | XEl t at_ tx ch, XEl t' at' tx' ch' =>
        String.eqb t t' && list_eqb (pair_eqb' String.eqb xattr_eqb) at_ at' && xtext_eqb tx tx'
        && (fix go (l l' : list (xml NF)) : bool :=
              match l, l' with
              | [], [] => true
              | x :: r, y :: r' => xml_eqb x y && go r r'
              | _, _ => false
              end) ch ch'
    end.

  (* two registries hold the same records (order of registration is not an observable) *)
  Fixpoint table_sub {A} (e : A -> A -> bool) (a b : list (key * A)) : bool :=
    match a with
    | [] => true
    | (k, x) :: a' => match assoc b k with Some y => e x y | None => false end && table_sub e a' b
    end.
  Definition table_eqb {A} (e : A -> A -> bool) (a b : list (key * A)) : bool :=
    Nat.eqb (List.length a) (List.length b) && table_sub e a b && table_sub e b a.

  Definition actx_eqb (a b : actx NF) : bool :=
    table_eqb aleaf_eqb (cx_leaves a) (cx_leaves b) && table_eqb anode_eqb (cx_nodes a) (cx_nodes b).

  Definition cobj_eqb (a b : cobj NF) : bool :=
    ureal_eqb (co_re a) (co_re b) && ureal_eqb (co_im a) (co_im b) && label_eqb (co_label a) (co_label b).

  Definition archive_eqb (a b : archive NF) : bool :=
    list_eqb (pair_eqb' String.eqb ureal_eqb) (a_treal a) (a_treal b)
    && list_eqb (pair_eqb' String.eqb cobj_eqb) (a_tcplx a) (a_tcplx b).
End Cmp.

(* one recorded history *)
Record acase := mkCase {
  c_src : actx NF;                  (* the registries of the writing session *)
  c_ar : archive NF;                (* what was added to the Archive *)
  c_frozen : res (frozen NF);       (* the Archive's five collections after _freeze (or the exception) *)
  c_jdoc : option (json NF);             (* the JSON document the implementation wrote *)
  c_xdoc : option (xml NF);              (* the XML document the implementation wrote *)
  c_jin : option (json NF * res (frozen NF));   (* a JSON document given to the reader, and what it decoded to *)
  c_xin : option (xml NF * res (frozen NF));    (* same for XML *)
  c_codec : codec;                       (* the storage function used for the load below *)
  c_tgt : actx NF;                  (* the registries of the reading session before the load *)
  c_after : option (res (actx NF * archive NF))   (* registries and extracted numbers after it *)
}.

(* what the reading session holds after the load, according to the model *)
Definition acase_loaded (c : acase) : res (actx NF * archive NF) :=
  let fz := freeze NF (c_src c) (c_ar c) in
  let loaded :=
    match c_codec c with
    | Pickle => fz
    | Json => match c_jin c with Some (d, _) => json_decode NF d | None => Err OtherExn end
    | Xml => match c_xin c with Some (d, _) => xml_decode NF d | None => Err OtherExn end
    end in
  f <- loaded ;; thaw NF (c_tgt c) f.

Definition run_acase (c : acase) : Z :=
  let fz := freeze NF (c_src c) (c_ar c) in
  if negb (res_eqb frozen_eqb fz (c_frozen c)) then 1%Z else
  if negb (match fz, c_jdoc c with Ok f, Some d => json_eqb (json_encode NF f) d | _, _ => true end) then 2%Z else
  if negb (match fz, c_xdoc c with Ok f, Some d => xml_eqb (xml_encode NF f) d | _, _ => true end) then 3%Z else
  if negb (match c_jin c with Some (d, r) => res_eqb frozen_eqb (json_decode NF d) r | None => true end) then 4%Z else
  if negb (match c_xin c with Some (d, r) => res_eqb frozen_eqb (xml_decode NF d) r | None => true end) then 5%Z else
  match c_after c with
  | None => (-1)%Z
  | Some expected =>
      if res_eqb (pair_eqb' actx_eqb archive_eqb) (acase_loaded c) expected then (-1)%Z else 6%Z
  end.

Definition report_acases (cs : list acase) : list Z := map run_acase cs.

(* ---------- continuing the calculation on the restored numbers, in the kernel model ----------
   The registries and the numbers the MODEL restored become a kernel session state: leaves with
   their correlation tables / ensembles / complex pairing (a list-valued pairing never equals a
   tuple, like a missing attribute), intermediate node records, the context id and uid counters of
   the reading session, and one object slot per restored real (tagged reals in order, then the
   real and imaginary components of each tagged complex).  The recorded operations (arithmetic on
   restored numbers, result() of quantities that depend on restored intermediates and elementary
   numbers, reads, sensitivities and components w.r.t. new and restored intermediates,
   covariances) are then run through Kernel.step and compared output by output. *)
Definition ks_df (d : float) : dfval float :=
  if f_is_inf d then DInf else if f_is_nan d then DNaN else DFin d.

Fixpoint ks_leaves (i : nat) (l : list (key * aleaf NF)) : list (key * leaf float) :=
  match l with
  | [] => []
  | (k, a) :: l' =>
      (k, mkLeaf (al_u a) (ks_df (al_df a)) (al_indep a)
                 (match al_corr a with Some c => c | None => [] end) i
                 (match al_cplx a with Some (CTuple, x, y) => Some (x, y) | _ => None end) None)
      :: ks_leaves (S i) l'
  end.

Definition ks_state (ctx ne ni : Z) (cx : actx NF) (A : archive NF) : state float :=
  mkS ctx ne ni
      (ks_leaves 0 (cx_leaves cx))
      (map (fun kn : key * anode NF => (fst kn, mkNode (an_u (snd kn)) (ks_df (an_df (snd kn))) None)) (cx_nodes cx))
      (map (fun kl : key * aleaf NF => match al_ens (snd kl) with Some e => e | None => [] end) (cx_leaves cx))
      (map (fun to : string * ureal float => SReal (snd to) None) (a_treal A)
       ++ flat_map (fun tz : string * cobj NF => [SReal (co_re (snd tz)) None; SReal (co_im (snd tz)) None]) (a_tcplx A)).

Record dcase := mkDCase {
  d_case : acase;
  d_ctx : Z; d_ne : Z; d_ni : Z;            (* id and uid counters of the reading context after the load *)
  d_tbl : list oracle_entry;                (* libm calls of the continued calculation *)
  d_prog : list (op float);
  d_outs : list (out float) }.

(* -1 = agreement; 1..6 = archive stage; 100 + i = step i of the continued calculation *)
Definition run_dcase (d : dcase) : Z :=
  match run_acase (d_case d) with
  | (-1)%Z =>
      match acase_loaded (d_case d) with
      | Ok (cx', A') =>
          let N := FNum (d_tbl d) in
          match first_mismatch N 0 (snd (run N (ks_state (d_ctx d) (d_ne d) (d_ni d) cx' A') (d_prog d))) (d_outs d) with
          | None => (-1)%Z
          | Some i => (100 + Z.of_nat i)%Z
          end
      | Err _ => (-1)%Z
      end
  | z => z
  end.

(* the model's own output at one step of the continuation, for diagnosis *)
Definition dcase_out (d : dcase) (i : nat) : option (out float) :=
  match acase_loaded (d_case d) with
  | Ok (cx', A') =>
      let N := FNum (d_tbl d) in
      nth_error (snd (run N (ks_state (d_ctx d) (d_ne d) (d_ni d) cx' A') (d_prog d))) i
  | Err _ => None
  end.

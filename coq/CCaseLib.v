(* CCaseLib.v -- support for the generated correspondence case files of the complex kernel:
   a case is a context id, the libm oracle table, the cmath / complex-power oracle table, a
   program and the outputs the implementation produced.  report_ccases evaluates the binary64
   model on each program and returns -1 for agreement or the index of the first differing step. *)
From Coq Require Import ZArith List PrimFloat.
From GTCV Require Import Num FNum Vector Opres KTypes Kernel Cplx CFNum COpres CKernel.
Import ListNotations.

Definition ccase :=
  (Z * list oracle_entry * list coracle_entry * list (cop float) * list (out float))%type.

Definition run_ccase (c : ccase) : Z :=
  let '(ctx, tbl, ctbl, prog, expected) := c in
  let CC := FCNum tbl ctbl in
  match first_mismatch (FNum tbl) 0 (snd (crun CC (cinit CC ctx) prog)) expected with
  | None => (-1)%Z
  | Some i => Z.of_nat i
  end.

Definition report_ccases (cs : list ccase) : list Z := map run_ccase cs.

Definition cmodel_out (c : ccase) (i : nat) : option (out float) :=
  let '(ctx, tbl, ctbl, prog, _) := c in
  let CC := FCNum tbl ctbl in nth_error (snd (crun CC (cinit CC ctx) prog)) i.

(* FitCaseLib.v -- support for the generated correspondence case files of property C13: a case
   is a context id, the libm oracle table recorded on the implementation, a program over
   fits / predictions / kernel observations, and the outputs the implementation produced.
   report_fcases evaluates the FNum model on each program and returns -1 for agreement or the
   index of the first differing step. *)
From Coq Require Import ZArith List PrimFloat.
From GTCV Require Import Num FNum Vector Opres KTypes Kernel FitLib LineFitA.
Import ListNotations.

Definition fcase := (Z * list oracle_entry * list (fop float) * list (out float))%type.

Definition run_fcase (c : fcase) : Z :=
  let '(ctx, tbl, prog, expected) := c in
  let N := FNum tbl in
  match first_mismatch N 0 (snd (frun N (finit N ctx) prog)) expected with
  | None => (-1)%Z
  | Some i => Z.of_nat i
  end.

Definition report_fcases (cs : list fcase) : list Z := map run_fcase cs.

(* the model's own output at a given step, for diagnosis *)
Definition fmodel_out (c : fcase) (i : nat) : option (out float) :=
  let '(ctx, tbl, prog, _) := c in
  let N := FNum tbl in nth_error (snd (frun N (finit N ctx) prog)) i.

(* FitLib.v -- support definitions for the GENERATED straight-line-fit formulas
   (gen/Gen_type_a_fit.v, emitted by tools/tr_type_a_fit.py from GTC/type_a.py):
   monadic maps over data sequences (the list comprehensions / generator expressions of the
   source), the optional `dof` argument, degrees of freedom as a divisor, and the records the
   generated functions return.  Definitions only. *)
From Coq Require Import ZArith List Bool.
From GTCV Require Import Num Vector Opres KTypes.
Import ListNotations.

(* ---------- data types, parametric in the carrier of numbers only ---------- *)
Section FitTypes.
  Variable V : Type.

  (* the optional argument dof=None | a number | anything that is not a numbers.Number *)
  Inductive dofarg := DofNone | DofNum (v : V) | DofBad.

  (* what a fit function hands to the declaration of (a, b) *)
  Record fitspec := mkFS {
    fs_ax : V; fs_au : V; fs_bx : V; fs_bu : V;
    fs_df : dfval V; fs_r : V; fs_ssr : V; fs_n : Z }.

  (* what a prediction method hands to the declaration of its extra input:
     value, standard uncertainty, and the `independent` argument (None: the call in the
     source omits it, which is a TypeError) *)
  Record predspec := mkPS { ps_x : V; ps_u : V; ps_indep : option bool }.
End FitTypes.

Arguments DofNone {V}. Arguments DofNum {V} v. Arguments DofBad {V}.
Arguments mkFS {V}. Arguments fs_ax {V}. Arguments fs_au {V}. Arguments fs_bx {V}. Arguments fs_bu {V}.
Arguments fs_df {V}. Arguments fs_r {V}. Arguments fs_ssr {V}. Arguments fs_n {V}.
Arguments mkPS {V}. Arguments ps_x {V}. Arguments ps_u {V}. Arguments ps_indep {V}.

Section FitLib.
  Variable N : Num.
  Notation V := (T N).

  (* [ f(x_i) for x_i in x ] where f may raise *)
  Fixpoint mapM1 (f : V -> res V) (l : list V) : res (list V) :=
    match l with
    | [] => Ok []
    | x :: l' => y <- f x ;; ys <- mapM1 f l' ;; Ok (y :: ys)
    end.

  (* izip truncates to the shortest operand *)
  Fixpoint mapM2 (f : V -> V -> res V) (l1 l2 : list V) : res (list V) :=
    match l1, l2 with
    | x :: l1', y :: l2' => z <- f x y ;; zs <- mapM2 f l1' l2' ;; Ok (z :: zs)
    | _, _ => Ok []
    end.

  Fixpoint mapM3 (f : V -> V -> V -> res V) (l1 l2 l3 : list V) : res (list V) :=
    match l1, l2, l3 with
    | x :: l1', y :: l2', w :: l3' => z <- f x y w ;; zs <- mapM3 f l1' l2' l3' ;; Ok (z :: zs)
    | _, _, _ => Ok []
    end.

  Definition zlen (l : list V) : Z := Z.of_nat (length l).

  (* a Python number that passed `dof > 0`, as the df of a Leaf *)
  Definition df_of_num (v : V) : dfval V := if is_inf N v then DInf else DFin v.
  Definition df_of_Z (z : Z) : dfval V := DFin (of_Z N z).

  (* x / df.  Over binary64 x / inf is computed by the float division; over the reals an
     infinite df has no number, so the model says ZeroDivisionError-free "not defined" by
     dividing by c_inf (= 0 in RNum, which R_div refuses): theorems about quantities divided
     by df therefore carry the hypothesis that df is finite. *)
  Definition div_df (x : V) (d : dfval V) : res V :=
    match d with
    | DFin v => div N x v
    | DInf => div N x (c_inf N)
    | DNaN => Err OtherExn
    end.

End FitLib.

(* DeclTypes.v -- result shapes of the GENERATED declaration functions (gen/Gen_core_checks.v):
   what core.ureal / core.ucomplex hand on to the constructors of lib.py once every argument
   check has passed.  Parametric in the carrier of numbers only. *)
From Coq Require Import ZArith List Bool.
From GTCV Require Import Num Vector Opres KTypes.
Import ListNotations.

Section DeclTypes.
  Variable V : Type.

  (* core.ureal: UncertainReal._constant(x,label) | UncertainReal._elementary(x,u,df,label,independent) *)
  Inductive real_decl :=
  | RD_constant (x : V)
  | RD_elementary (x u df : V).

  (* core.ucomplex: UncertainComplex._constant(z,label) |
     UncertainComplex._elementary(z,u_r,u_i,r,df,label,independent)   (r : None | float) *)
  Inductive cplx_decl :=
  | CD_constant (zre zim : V)
  | CD_elementary (zre zim u_r u_i : V) (r : option V) (df : V) (independent : bool).

  (* the `u` argument of core.ucomplex: a number or a sequence of numbers *)
  Inductive uarg := UScalar (u : V) | USeq (l : list V).

  (* the `r` argument of core.set_correlation *)
  Inductive rarg := RScalar (r : V) | RSeq (l : list V).

  (* ---------- programs and observations of the declaration layer (Decl.v) ---------- *)
  Inductive dslot := DSReal (o : ureal V) | DSCplx (re im : ureal V) | DSNone.
  Inductive darg := ASlot (i : nat) | ANone | ANumber.      (* an argument of core.set_correlation *)

  Inductive dop :=
  | DUreal (x u df : V) (indep : bool)
  | DUcomplex (zre zim : V) (u : uarg) (df : V) (indep : bool)
  | DMultReal (xs us : list V) (df : V)
  | DMultCplx (zs : list (V * V)) (us : list uarg) (df : V)
  | DPlain                                   (* an uncertain real that is not elementary (x1 + x2) *)
  | DPlainC                                  (* an uncertain complex that is not elementary (z1 + z2) *)
  | DSetCorr (r : rarg) (a b : darg)
  | DSnapshot.

  Record leafdump := mkLD {
    ld_k : key; ld_u : V; ld_df : dfval V; ld_indep : bool;
    ld_corr : list (key * V);                (* sorted by uid *)
    ld_ens : option (list key);              (* None: no `ensemble` attribute *)
    ld_cplx : option (key * key) }.

  Inductive dout :=
  | DOExn (e : exn)
  | DOUnit
  | DOReal (x : V) (k : nkind) (u d : list (key * V)) (lf : option leafdump)
  | DOCplx (re im : dout)
  | DOList (l : list dout)
  | DOSnap (l : list leafdump).

  Record dstate := mkD { d_k : state V; d_slots : list dslot }.
End DeclTypes.

Arguments RD_constant {V}. Arguments RD_elementary {V}.
Arguments CD_constant {V}. Arguments CD_elementary {V}.
Arguments UScalar {V}. Arguments USeq {V}.
Arguments RScalar {V}. Arguments RSeq {V}.
Arguments DSReal {V}. Arguments DSCplx {V}. Arguments DSNone {V}.
Arguments DOExn {V}. Arguments DOUnit {V}. Arguments DOReal {V}. Arguments DOCplx {V}.
Arguments DOList {V}. Arguments DOSnap {V}.
Arguments DUreal {V}. Arguments DUcomplex {V}. Arguments DMultReal {V}. Arguments DMultCplx {V}.
Arguments DPlain {V}. Arguments DPlainC {V}. Arguments DSetCorr {V}. Arguments DSnapshot {V}.
Arguments mkLD {V}. Arguments ld_k {V}. Arguments ld_u {V}. Arguments ld_df {V}. Arguments ld_indep {V}.
Arguments ld_corr {V}. Arguments ld_ens {V}. Arguments ld_cplx {V}.
Arguments mkD {V}. Arguments d_k {V}. Arguments d_slots {V}.

(* CKernel.v -- executable model of the uncertain-COMPLEX kernel of GTC (lib.py class
   UncertainComplex, the six assemblers 3801-4244, z_to_seq, std_variance_covariance_complex;
   core.py ucomplex / multiple_ucomplex / constant / result; reporting.sensitivity /
   u_component for complex and mixed arguments) ON TOP of the uncertain-real kernel
   (Kernel.v): an UncertainComplex is a pair of UncertainReal objects, which occupy two slots
   of the real kernel's state, so every real read of Kernel.v works on z.real / z.imag.
   The operator and function bodies are the GENERATED definitions of gen/Gen_lib_complex.v;
   '+' and '-' are component-wise calls of Kernel.apply_bin / apply_un, as in the source.
   Definitions only.  Not modelled: willink_hall beyond elementary arguments (complex dof). *)
From Coq Require Import ZArith List Bool.
From GTCV Require Import Num Vector Opres KTypes Kernel Cplx COpres.
From GTCV.gen Require Import Gen_lib_real Gen_lib_complex.
Import ListNotations.

(* ---------- programs and observations: parametric in the carrier only ---------- *)
Section CKTypes.
  Variable V : Type.
  Inductive cnumv := NR (v : V) | NC (re im : V).          (* a plain Python number *)
  (* the uncertainty argument of core.ucomplex: a float, a 2-sequence, a 4-sequence, or a
     sequence of another length *)
  Inductive uform := UScalar (u : V) | USeq2 (a b : V) | USeq4 (a b c d : V) | USeqBad.
  Inductive cunop := CUf (f : unop) | CUconj.
  Inductive carg := CArgC (i : nat) | CArgR (i : nat) | CArgN (x : cnumv).
  Inductive cattr := CR_x | CR_u | CR_v | CR_r.
  Inductive cop :=
  | CK (o : op V)                                  (* an operation of the real kernel *)
  | CUcomplex (z : cnumv) (u : uform) (df : dfval V) (label : option Z) (indep : bool)
  | CConstant (z : cnumv) (label : option Z)
  | CMultiple (zs : list cnumv) (us : list uform) (df : dfval V)
  | CUn (f : cunop) (a : nat)
  | CBin (f : binop) (a b : carg)
  | CResult (a : nat) (label : option Z)
  | CRead (at_ : cattr) (a : nat)
  | CSens (y x : carg)
  | CUComp (y x : carg).

  Record cmeta := mkCM {
    cm_im : nat;                                   (* slot of the imaginary component *)
    cm_label : option Z;
    cm_elem : bool;
    cm_u : option (V * V);                         (* the _u, _v, _r caches *)
    cm_v : option (V * V * V * V);
    cm_r : option V }.
  Inductive centry := CObj (m : cmeta) | CAliasOf (i : nat).
  (* a complex object is named by the slot of its real component *)
  Record cstate := mkCS { ks : state V; cobjs : list (nat * centry) }.
End CKTypes.

Arguments NR {V}. Arguments NC {V}. Arguments UScalar {V}. Arguments USeq2 {V}. Arguments USeq4 {V}.
Arguments USeqBad {V}.
Arguments CArgC {V}. Arguments CArgR {V}. Arguments CArgN {V}.
Arguments CK {V}. Arguments CUcomplex {V}. Arguments CConstant {V}. Arguments CMultiple {V}.
Arguments CUn {V}. Arguments CBin {V}. Arguments CResult {V}. Arguments CRead {V}.
Arguments CSens {V}. Arguments CUComp {V}.
Arguments mkCM {V}. Arguments cm_im {V}. Arguments cm_label {V}. Arguments cm_elem {V}.
Arguments cm_u {V}. Arguments cm_v {V}. Arguments cm_r {V}.
Arguments CObj {V}. Arguments CAliasOf {V}. Arguments mkCS {V}. Arguments ks {V}. Arguments cobjs {V}.

Section CKernel.
  Variable C : CNum.
  Notation N := (cN C).
  Notation V := (T N).
  Notation vec := (vec N).
  Notation ureal := (ureal V). Notation state := (state V). Notation slot := (slot V).
  Notation out := (out V). Notation cstate := (cstate V). Notation cmeta := (cmeta V).
  Notation pyn := (pyn C). Notation jac := (jac C).

  Definition cinit (ctx : Z) : cstate := mkCS (init N ctx) [].

  Definition to_pyn (x : cnumv V) : pyn :=
    match x with NR v => PR v | NC a b => PC a b end.

  Definition f0 : V := dyad N 0 0.      (* the literal 0.0 *)

  (* ---------- the six assemblers (lib.py 3801-4244) ---------- *)
  (* merge_weighted_vectors_twice(v1,(a,b),v2,(c,d)) = (merge_w v1 a v2 c, merge_w v1 b v2 d);
     scale_vector_twice(v,(a,b)) = (scale v a, scale v b) -- see Vector.v *)
  Definition mk3 (y : V) (f : (ureal -> vec) -> vec) : ureal :=
    new_un N y (f (@uc V)) (f (@dc V)) (f (@ic V)).

  Definition univariate_uc (re im : ureal) (z : pyn) (j : jac) : ureal * ureal :=
    (mk3 (n_real C z) (fun p => merge_w (p re) (j0 C j) (p im) (j1 C j)),
     mk3 (n_imag C z) (fun p => merge_w (p re) (j2 C j) (p im) (j3 C j))).

  Definition bivariate_uc_uc (lr li rr ri : ureal) (z : pyn) (dl dr : jac) : ureal * ureal :=
    (mk3 (n_real C z) (fun p => merge (merge_w (p lr) (j0 C dl) (p li) (j1 C dl))
                                      (merge_w (p rr) (j0 C dr) (p ri) (j1 C dr))),
     mk3 (n_imag C z) (fun p => merge (merge_w (p lr) (j2 C dl) (p li) (j3 C dl))
                                      (merge_w (p rr) (j2 C dr) (p ri) (j3 C dr)))).

  Definition bivariate_uc_ur (lr li r : ureal) (z : pyn) (dl dr : jac) : ureal * ureal :=
    (mk3 (n_real C z) (fun p => merge (merge_w (p lr) (j0 C dl) (p li) (j1 C dl)) (scale (p r) (j0 C dr))),
     mk3 (n_imag C z) (fun p => merge (merge_w (p lr) (j2 C dl) (p li) (j3 C dl)) (scale (p r) (j2 C dr)))).

  Definition bivariate_uc_n (lr li : ureal) (z : pyn) (dl dr : jac) : ureal * ureal :=
    (mk3 (n_real C z) (fun p => merge_w (p lr) (j0 C dl) (p li) (j1 C dl)),
     mk3 (n_imag C z) (fun p => merge_w (p lr) (j2 C dl) (p li) (j3 C dl))).

  Definition bivariate_ur_uc (l rr ri : ureal) (z : pyn) (dl dr : jac) : ureal * ureal :=
    (mk3 (n_real C z) (fun p => merge (scale (p l) (j0 C dl)) (merge_w (p rr) (j0 C dr) (p ri) (j1 C dr))),
     mk3 (n_imag C z) (fun p => merge (scale (p l) (j2 C dl)) (merge_w (p rr) (j2 C dr) (p ri) (j3 C dr)))).

  Definition bivariate_n_uc (rr ri : ureal) (z : pyn) (dl dr : jac) : ureal * ureal :=
    (mk3 (n_real C z) (fun p => merge_w (p rr) (j0 C dr) (p ri) (j1 C dr)),
     mk3 (n_imag C z) (fun p => merge_w (p rr) (j2 C dr) (p ri) (j3 C dr))).

  (* the other operand of a binary operation on a complex [self] *)
  Inductive cother := OthC (re im : ureal) | OthR (o : ureal) | OthN (x : pyn) | OthNone.

  Definition assemble (k : bikind) (sre sim : ureal) (oth : cother) (z : pyn) (dl dr : jac)
    : res (ureal * ureal) :=
    match k, oth with
    | K_uc_uc, OthC ore oim => Ok (bivariate_uc_uc sre sim ore oim z dl dr)
    | K_uc_ur, OthR o => Ok (bivariate_uc_ur sre sim o z dl dr)
    | K_uc_n, OthN _ => Ok (bivariate_uc_n sre sim z dl dr)
    | K_ur_uc, OthR o => Ok (bivariate_ur_uc o sre sim z dl dr)
    | K_n_uc, OthN _ => Ok (bivariate_n_uc sre sim z dl dr)
    | _, _ => Err OtherExn
    end.

  (* ---------- calls into the real kernel made by + - neg pos conjugate ---------- *)
  (* an operand with the slot it lives in, if any *)
  Definition sarg := (option nat * operand N)%type.

  Definition rarg_val (sre sim : nat * ureal) (oth : cother) (othslots : option nat * option nat)
             (a : rarg V) : res sarg :=
    match a with
    | ASelfRe => Ok (Some (fst sre), OpdU (snd sre))
    | ASelfIm => Ok (Some (fst sim), OpdU (snd sim))
    | AOthRe => match oth with OthC ore _ => Ok (fst othslots, OpdU ore) | _ => Err OtherExn end
    | AOthIm => match oth with OthC _ oim => Ok (snd othslots, OpdU oim) | _ => Err OtherExn end
    | AOth => match oth with OthR o => Ok (fst othslots, OpdU o) | _ => Err OtherExn end
    | ANumV v => Ok (None, OpdN v)
    | AConstV v => Ok (None, OpdU (mk_constant N v None))
    end.

  (* a component of a new complex object: a new UncertainReal, or an existing one *)
  Inductive cpart := CNew (o : ureal) | COld (j : nat) (o : ureal).
  Definition comp_obj (c : cpart) : ureal := match c with CNew o => o | COld _ o => o end.

  Definition of_same (a : sarg) : res cpart :=
    match a with
    | (Some j, OpdU o) => Ok (COld j o)
    | _ => Err OtherExn
    end.

  Definition rexp_val (sre sim : nat * ureal) (oth : cother) (othslots : option nat * option nat)
             (e : rexp V) : res cpart :=
    match e with
    | RBin f a b =>
        x <- rarg_val sre sim oth othslots a ;; y <- rarg_val sre sim oth othslots b ;;
        v <- apply_bin N f (snd x) (snd y) ;;
        match v with
        | VObj o => Ok (CNew o)
        | VSame L => (match snd x with OpdU _ => of_same x | OpdN _ => of_same y end)
        | VSame Rt => (match snd y with OpdU _ => of_same y | OpdN _ => of_same x end)
        | _ => Err OtherExn
        end
    | RUn f a =>
        x <- rarg_val sre sim oth othslots a ;;
        match snd x with
        | OpdU o => v <- apply_un N f o ;;
                    match v with
                    | VObj o' => Ok (CNew o')
                    | VSame _ => of_same x
                    | _ => Err OtherExn
                    end
        | OpdN _ => Err TypeError
        end
    end.

  (* ---------- results of an operation on complex operands ---------- *)
  Inductive cval :=
  | RSelf                          (* the complex operand itself *)
  | RCplx (re im : cpart)           (* UncertainComplex(re, im) *)
  | RReal (v : opval V).           (* an uncertain real / plain number result *)

  (* UncertainComplex.__init__: assert i.is_intermediate == r.is_intermediate *)
  Definition mk_cplx (re im : cpart) : res cval :=
    if Bool.eqb (is_intermediate N (comp_obj re)) (is_intermediate N (comp_obj im))
    then Ok (RCplx re im) else Err AssertionError.

  Definition realize_c (r : cres C) (sre sim : nat * ureal) (oth : cother)
             (othslots : option nat * option nat) : res cval :=
    match r with
    | CSelf => Ok RSelf
    | CNegSelf =>
        re <- rexp_val sre sim oth othslots (RUn U_neg ASelfRe) ;;
        im <- rexp_val sre sim oth othslots (RUn U_neg ASelfIm) ;;
        mk_cplx re im
    | CUni z j => let (re, im) := univariate_uc (snd sre) (snd sim) z j in mk_cplx (CNew re) (CNew im)
    | CBi k z dl dr =>
        '(re, im) <- assemble k (snd sre) (snd sim) oth z dl dr ;; mk_cplx (CNew re) (CNew im)
    | CPair e1 e2 =>
        re <- rexp_val sre sim oth othslots e1 ;;
        im <- rexp_val sre sim oth othslots e2 ;;
        mk_cplx re im
    | CRealMergeW y w1 w2 =>
        let a := snd sre in let b := snd sim in
        Ok (RReal (VObj (mk3 (n_real C y) (fun p => merge_w (p a) (n_real C w1) (p b) (n_real C w2)))))
    | CPhase =>
        v <- apply_bin N B_atan2 (OpdU (snd sim)) (OpdU (snd sre)) ;; Ok (RReal v)
    end.

  Definition gc_unop (f : cunop) : cplx C -> pyn -> res (cres C) :=
    match f with
    | CUconj => gc_conjugate C
    | CUf U_exp => gc_exp C | CUf U_log => gc_log C | CUf U_log10 => gc_log10 C
    | CUf U_sqrt => gc_sqrt C | CUf U_sin => gc_sin C | CUf U_cos => gc_cos C
    | CUf U_tan => gc_tan C | CUf U_asin => gc_asin C | CUf U_acos => gc_acos C
    | CUf U_atan => gc_atan C | CUf U_sinh => gc_sinh C | CUf U_cosh => gc_cosh C
    | CUf U_tanh => gc_tanh C | CUf U_asinh => gc_asinh C | CUf U_acosh => gc_acosh C
    | CUf U_atanh => gc_atanh C | CUf U_magnitude => gc_magnitude C
    | CUf U_mag_squared => gc_mag_squared C | CUf U_phase => gc_phase C
    | CUf U_neg => gc_neg C | CUf U_pos => gc_pos C
    end.

  (* self (op) other, self complex: UncertainComplex.__add__ ... __pow__ *)
  Definition gc_bin_uc (f : binop) : res (cplx C -> pyn -> res (cres C)) :=
    match f with
    | B_add => Ok (gc_add_uc C) | B_sub => Ok (gc_sub_uc C) | B_mul => Ok (gc_mul_uc C)
    | B_div => Ok (gc_div_uc C) | B_pow => Ok (gc_pow_uc C) | B_atan2 => Err TypeError
    end.
  Definition gc_bin_ur (f : binop) : res (cplx C -> pyn -> res (cres C)) :=
    match f with
    | B_add => Ok (gc_add_ur C) | B_sub => Ok (gc_sub_ur C) | B_mul => Ok (gc_mul_ur C)
    | B_div => Ok (gc_div_ur C) | B_pow => Ok (gc_pow_ur C) | B_atan2 => Err TypeError
    end.
  Definition gc_bin_n (f : binop) : res (cplx C -> pyn -> res (cres C)) :=
    match f with
    | B_add => Ok (gc_add_n C) | B_sub => Ok (gc_sub_n C) | B_mul => Ok (gc_mul_n C)
    | B_div => Ok (gc_div_n C) | B_pow => Ok (gc_pow_n C) | B_atan2 => Err TypeError
    end.
  (* other (op) self, self complex, other not an UncertainComplex: __radd__ ... __rpow__ *)
  Definition gc_rbin_ur (f : binop) : res (cplx C -> pyn -> res (cres C)) :=
    match f with
    | B_add => Ok (gc_radd_ur C) | B_sub => Ok (gc_rsub_ur C) | B_mul => Ok (gc_rmul_ur C)
    | B_div => Ok (gc_rdiv_ur C) | B_pow => Ok (gc_rpow_ur C) | B_atan2 => Err TypeError
    end.
  Definition gc_rbin_n (f : binop) : res (cplx C -> pyn -> res (cres C)) :=
    match f with
    | B_add => Ok (gc_radd_n C) | B_sub => Ok (gc_rsub_n C) | B_mul => Ok (gc_rmul_n C)
    | B_div => Ok (gc_rdiv_n C) | B_pow => Ok (gc_rpow_n C) | B_atan2 => Err TypeError
    end.

  Definition cvalue (re im : ureal) : cplx C := (ux re, ux im).

  (* one function / unary operator applied to a complex object *)
  Definition capply_un (f : cunop) (sre sim : nat * ureal) : res cval :=
    r <- gc_unop f (cvalue (snd sre) (snd sim)) (PR f0) ;;
    realize_c r sre sim OthNone (None, None).

  (* one binary operator with the complex object [self] on the left (rev = false) or on the
     right (rev = true: Python falls back to the reflected method of the complex operand) *)
  Definition capply_bin (f : binop) (rev : bool) (sre sim : nat * ureal) (oth : cother)
             (othslots : option nat * option nat) : res cval :=
    let sv := cvalue (snd sre) (snd sim) in
    match oth with
    | OthC ore oim =>
        g <- gc_bin_uc f ;; r <- g sv (of_c C (cvalue ore oim)) ;; realize_c r sre sim oth othslots
    | OthR o =>
        g <- (if rev then gc_rbin_ur f else gc_bin_ur f) ;; r <- g sv (PR (ux o)) ;;
        realize_c r sre sim oth othslots
    | OthN x =>
        g <- (if rev then gc_rbin_n f else gc_bin_n f) ;; r <- g sv x ;;
        realize_c r sre sim oth othslots
    | OthNone => Err TypeError
    end.

  (* ---------- state access ---------- *)
  Fixpoint nassoc {A} (l : list (nat * A)) (i : nat) : option A :=
    match l with
    | [] => None
    | (j, a) :: l' => if Nat.eqb i j then Some a else nassoc l' i
    end.
  Fixpoint nassoc_set {A} (l : list (nat * A)) (i : nat) (a : A) : list (nat * A) :=
    match l with
    | [] => [(i, a)]
    | (j, b) :: l' => if Nat.eqb i j then (i, a) :: l' else (j, b) :: nassoc_set l' i a
    end.

  Fixpoint cresolve (fuel : nat) (l : list (nat * centry V)) (i : nat) : nat :=
    match fuel with
    | O => i
    | S f => match nassoc l i with
             | Some (CAliasOf j) => cresolve f l j
             | _ => i
             end
    end.

  (* (canonical name, meta, (slot, real component), (slot, imaginary component)) *)
  Definition get_cplx (s : cstate) (i : nat)
    : res (nat * cmeta * (nat * ureal) * (nat * ureal)) :=
    let j := cresolve (length (cobjs s)) (cobjs s) i in
    match nassoc (cobjs s) j with
    | Some (CObj m) =>
        '(jr, ore, _) <- get_real N (ks s) j ;;
        '(ji, oim, _) <- get_real N (ks s) (cm_im m) ;;
        Ok (j, m, (jr, ore), (ji, oim))
    | _ => Err TypeError
    end.

  Definition nslots (s : cstate) : nat := length (s_slots (ks s)).
  Definition kpush (s : cstate) (sl : slot) : cstate := mkCS (push N (ks s) sl) (cobjs s).
  Definition with_ks (s : cstate) (k : state) : cstate := mkCS k (cobjs s).
  Definition set_meta (s : cstate) (j : nat) (m : cmeta) : cstate :=
    mkCS (ks s) (nassoc_set (cobjs s) j (CObj m)).

  Definition cfail1 (s : cstate) (e : exn) : cstate * out := (kpush s SErr, OutExn e).
  Definition cfail2 (s : cstate) (e : exn) : cstate * out := (kpush (kpush s SErr) SErr, OutExn e).

  Definition comp_slot (c : cpart) : slot * out :=
    match c with
    | CNew o => (SReal o None, dump N o)
    | COld j _ => (SAlias j, OutSame j)
    end.

  (* a new complex object: two slots and an entry *)
  Definition push_cplx (s : cstate) (re im : cpart) (label : option Z) (elem : bool) : cstate * out :=
    let i := nslots s in
    let (sr, outr) := comp_slot re in
    let (si, outi) := comp_slot im in
    (mkCS (push N (push N (ks s) sr) si)
          (cobjs s ++ [(i, CObj (mkCM (S i) label elem None None None))]),
     OutList [outr; outi]).

  Definition is_elem_c (re im : cpart) : bool :=
    is_elementary N (comp_obj re) || is_elementary N (comp_obj im).

  (* finish an operation whose result is complex (always two slots) *)
  Definition finish_cplx (s : cstate) (v : res cval) (self : nat * cmeta * (nat * ureal) * (nat * ureal))
    : cstate * out :=
    match v with
    | Err e => cfail2 s e
    | Ok RSelf =>
        let '(j, _, (jr, _), (ji, _)) := self in
        let i := nslots s in
        (mkCS (push N (push N (ks s) (SAlias jr)) (SAlias ji)) (cobjs s ++ [(i, CAliasOf j)]),
         OutSame j)
    | Ok (RCplx re im) => push_cplx s re im None (is_elem_c re im)
    | Ok (RReal _) => cfail2 s OtherExn
    end.

  Definition finish_real (s : cstate) (v : res cval) : cstate * out :=
    match v with
    | Ok (RReal (VObj o)) => (kpush s (SReal o None), dump N o)
    | Ok (RReal (VPlain x)) => (kpush s (SNum x), OutVal x)
    | Ok _ => cfail1 s OtherExn
    | Err e => cfail1 s e
    end.

  (* ---------- declarations ---------- *)
  Definition upd_leaf (s : state) (k : key) (f : leaf V -> leaf V) : state :=
    match assoc (s_leaves s) k with
    | Some l => set_leaves N s (assoc_set (s_leaves s) k (f l))
    | None => s
    end.

  Definition sub_label (label : option Z) (im : bool) : option Z :=
    match label with
    | Some l => Some (if im then 2 * l + 1 else 2 * l)%Z
    | None => None
    end.

  (* UncertainComplex._elementary.  (Both UncertainReal._elementary calls see arguments that
     core.ucomplex has validated already, so the second cannot fail after the first.) *)
  Definition celementary (s : state) (zr zi u_r u_i : V) (r : option V) (df : dfval V)
             (label : option Z) (indep : bool) : res (state * ureal * ureal) :=
    '(s1, re) <- elementary N s zr u_r df (sub_label label false) indep ;;
    '(s2, im) <- elementary N s1 zi u_i df (sub_label label true) indep ;;
    match unode re, unode im with
    | LeafRef kr, LeafRef ki =>
        let setc := fun l : leaf V => mkLeaf (l_u l) (l_df l) (l_indep l) (l_corr l) (l_ens l)
                                           (Some (kr, ki)) (l_label l) in
        let s3 := upd_leaf (upd_leaf s2 kr setc) ki setc in
        match r with
        | None => Ok (s3, re, im)
        | Some rv =>
            if indep then Err AttributeError       (* an independent Leaf has no correlation dict *)
            else
              let addc := fun (k : key) (l : leaf V) =>
                            mkLeaf (l_u l) (l_df l) (l_indep l) (assoc_set (l_corr l) k rv) (l_ens l)
                                   (l_cplx l) (l_label l) in
              Ok (upd_leaf (upd_leaf s3 kr (addc ki)) ki (addc kr), re, im)
        end
    | _, _ => Err OtherExn
    end.

  Definition df_bad (df : dfval V) : bool :=
    match df with DFin d => ltb N d (of_Z N 1) || is_nan N d | DNaN => true | DInf => false end.

  (* 1 + 1E-10 *)
  Definition one_plus_tol : V := dyad N 562949953477607 (-49).

  (* core.ucomplex; the result is a constant (no state change) or an elementary pair *)
  Inductive cdecl := DConst (z : cplx C) | DElem (re im : ureal).

  Definition ucomplex_decl (s : state) (z : pyn) (u : uform V) (df : dfval V) (label : option Z)
             (indep : bool) : res (state * cdecl) :=
    let (zr, zi) := widen C z in
    if is_nan N zr || is_nan N zi || is_inf N zr || is_inf N zi then Err ValueError
    else if df_bad df then Err ValueError
    else
      '(u_r, u_i, r, indep') <-
        (match u with
         | USeq2 a b => Ok (a, b, None, indep)
         | USeq4 vr cv1 cv2 vi =>
             if is_inf N cv1 || negb (eqb N cv1 cv2) then Err ValueError
             else
               u_r <- libm1 N F_sqrt vr ;; u_i <- libm1 N F_sqrt vi ;;
               r <- (if negb (eqb N cv1 (of_Z N 0)) then q <- div N cv1 (mul N u_r u_i) ;; Ok (Some q)
                     else Ok None) ;;
               match r with
               | Some rv => if ltb N one_plus_tol (nabs N rv) then Err ValueError
                            else Ok (u_r, u_i, r, false)
               | None => Ok (u_r, u_i, r, indep)
               end
         | USeqBad => Err ValueError
         | UScalar uv => if negb (is_inf N uv) && negb (is_nan N uv) then Ok (uv, uv, None, indep)
                         else Err TypeError
         end) ;;
      if negb (leb N (of_Z N 0) u_r && negb (is_inf N u_r) && negb (is_nan N u_r)) then Err ValueError
      else if negb (leb N (of_Z N 0) u_i && negb (is_inf N u_i) && negb (is_nan N u_i)) then Err ValueError
      else if eqb N u_r (of_Z N 0) && eqb N u_i (of_Z N 0) then Ok (s, DConst (zr, zi))
      else '(s', re, im) <- celementary s zr zi u_r u_i r df label indep' ;; Ok (s', DElem re im).

  Definition const_pair (z : cplx C) (label : option Z) : ureal * ureal :=
    (mk_constant N (fst z) (sub_label label false), mk_constant N (snd z) (sub_label label true)).

  Definition push_decl (s : cstate) (d : cdecl) (label : option Z) : cstate * out :=
    match d with
    | DConst z => let (re, im) := const_pair z label in push_cplx s (CNew re) (CNew im) label false
    | DElem re im => push_cplx s (CNew re) (CNew im) label true
    end.

  (* get_covariance_real of the two components of an elementary pair (distinct leaves) *)
  Definition wh_elementary (s : state) (re im : ureal) : res (V * V * V * V) :=
    '(vr, _) <- prop_v N s re None ;; '(vi, _) <- prop_v N s im None ;;
    cv <- get_covariance_real N s re im ;;
    Ok (vr, cv, cv, vi).

  (* ---------- reads ---------- *)
  Definition out4 (a b c d : V) : out := OutList [OutVal a; OutVal b; OutVal c; OutVal d].

  Definition cread_u (s : cstate) (a : nat) : cstate * out :=
    match get_cplx s a with
    | Err e => cfail1 s e
    | Ok (j, m, (jr, ore), (ji, oim)) =>
        match cm_u m with
        | Some (ur, ui) => (kpush s SErr, OutList [OutVal ur; OutVal ui])
        | None =>
            match get_real N (ks s) jr with
            | Err e => cfail1 s e
            | Ok (_, _, cr) =>
                match prop_u N (ks s) ore cr with
                | Err e => cfail1 s e
                | Ok (ur, cr') =>
                    let k1 := set_cache N (ks s) jr ore cr' in
                    match get_real N k1 ji with
                    | Err e => cfail1 (with_ks s k1) e
                    | Ok (_, _, ci) =>
                        match prop_u N k1 oim ci with
                        | Err e => cfail1 (with_ks s k1) e
                        | Ok (ui, ci') =>
                            let k2 := set_cache N k1 ji oim ci' in
                            let m' := mkCM (cm_im m) (cm_label m) (cm_elem m) (Some (ur, ui)) (cm_v m) (cm_r m) in
                            (kpush (set_meta (with_ks s k2) j m') SErr, OutList [OutVal ur; OutVal ui])
                        end
                    end
                end
            end
        end
    end.

  (* the v property: returns the new state (caches filled) and the matrix *)
  Definition cprop_v (s : cstate) (a : nat) : cstate * res (V * V * V * V) :=
    match get_cplx s a with
    | Err e => (s, Err e)
    | Ok (j, m, (jr, ore), (ji, oim)) =>
        match cm_v m with
        | Some v => (s, Ok v)
        | None =>
            match get_real N (ks s) jr with
            | Err e => (s, Err e)
            | Ok (_, _, cr) =>
                match prop_v N (ks s) ore cr with
                | Err e => (s, Err e)
                | Ok (vr, cr') =>
                    let k1 := set_cache N (ks s) jr ore cr' in
                    match get_real N k1 ji with
                    | Err e => (with_ks s k1, Err e)
                    | Ok (_, _, ci) =>
                        match prop_v N k1 oim ci with
                        | Err e => (with_ks s k1, Err e)
                        | Ok (vi, ci') =>
                            let k2 := set_cache N k1 ji oim ci' in
                            match std_covariance_real N k2 ore oim with
                            | Err e => (with_ks s k2, Err e)
                            | Ok cv =>
                                let v := (vr, cv, cv, vi) in
                                let m' := mkCM (cm_im m) (cm_label m) (cm_elem m) (cm_u m) (Some v) (cm_r m) in
                                (set_meta (with_ks s k2) j m', Ok v)
                            end
                        end
                    end
                end
            end
        end
    end.

  Definition cread_r (s : cstate) (a : nat) : cstate * out :=
    match get_cplx s a with
    | Err e => cfail1 s e
    | Ok (j, m, _, _) =>
        match cm_r m with
        | Some r => (kpush s SErr, OutVal r)
        | None =>
            match cprop_v s a with
            | (s1, Err e) => cfail1 s1 e
            | (s1, Ok (vrr, vri, _, vii)) =>
                let rr := (if negb (eqb N vri f0) then
                             sq <- libm1 N F_sqrt (mul N vrr vii) ;; div N vri sq
                           else Ok f0) in
                match rr, get_cplx s1 a with
                | Ok r, Ok (_, m1, _, _) =>
                    let m' := mkCM (cm_im m1) (cm_label m1) (cm_elem m1) (cm_u m1) (cm_v m1) (Some r) in
                    (kpush (set_meta s1 j m') SErr, OutVal r)
                | Err e, _ => cfail1 s1 e
                | _, Err e => cfail1 s1 e
                end
            end
        end
    end.

  (* ---------- sensitivity and u_component with complex / mixed arguments ---------- *)
  Definition both_elem_or_interm (xre xim : ureal) : bool :=
    (is_elementary N xre && is_elementary N xim) || (is_intermediate N xre && is_intermediate N xim).

  Inductive sres := SOk (a b c d : V) | SFail (e : exn) | SFailRepr (e : exn) (i : nat).

  (* UncertainComplex.sensitivity / u_component (self = y complex) *)
  Definition csens_cy (which : bool) (s : state) (yre yim : ureal) (x : carg V) (xs : cstate) : sres :=
    let f := if which then sensitivity N s else u_component N s in
    match x with
    | CArgC i =>
        match get_cplx xs i with
        | Err e => SFail e
        | Ok (_, _, (_, xre), (_, xim)) =>
            if both_elem_or_interm xre xim then
              match f yre xre, f yre xim, f yim xre, f yim xim with
              | Ok a, Ok b, Ok c, Ok d => SOk a b c d
              | Err e, _, _, _ => SFail e
              | _, Err e, _, _ => SFail e
              | _, _, Err e, _ => SFail e
              | _, _, _, Err e => SFail e
              end
            else if is_constant N xre && is_constant N xim then SOk f0 f0 f0 f0
            else SFail NotImplementedError     (* RuntimeError after repr(x): complex dof, not modelled *)
        end
    | CArgR i =>
        match get_real N s i with
        | Err e => SFail e
        | Ok (_, x', _) =>
            if is_elementary N x' || is_intermediate N x' then
              match f yre x', f yim x' with
              | Ok a, Ok c => SOk a f0 c f0
              | Err e, _ => SFail e
              | _, Err e => SFail e
              end
            else if is_constant N x' then SOk f0 f0 f0 f0
            else SFailRepr TypeError i
        end
    | CArgN _ => SOk f0 f0 f0 f0
    end.

  (* UncertainReal.sensitivity(x) with x complex *)
  Definition csens_ry (s : state) (y xre xim : ureal) (ire iim : nat) : sres :=
    match sensitivity N s y xre with
    | Err RuntimeError => SFailRepr RuntimeError ire
    | Err e => SFail e
    | Ok a =>
        match sensitivity N s y xim with
        | Err RuntimeError => SFailRepr RuntimeError iim
        | Err e => SFail e
        | Ok b => SOk a b f0 f0
        end
    end.

  (* UncertainReal.u_component(x) with x complex *)
  Definition cucomp_ry (s : state) (y xre xim : ureal) : sres :=
    let one := fun xi : ureal =>
      match unode xi with
      | LeafRef _ | NodeRef _ => u_component N s y xi
      | _ => if is_constant N xre && is_constant N xim then Ok (of_Z N 0)
             else Err NotImplementedError  (* TypeError after repr(x): complex dof, not modelled *)
      end in
    match one xre with
    | Err e => SFail e
    | Ok a => match one xim with
              | Err e => SFail e
              | Ok b => SOk a b f0 f0
              end
    end.

  Definition finish_sres (s : cstate) (r : sres) : cstate * out :=
    match r with
    | SOk a b c d => (kpush s SErr, out4 a b c d)
    | SFail e => cfail1 s e
    | SFailRepr e i =>
        match repr_effect N (ks s) i with
        | (k1, None) => cfail1 (with_ks s k1) e
        | (k1, Some e') => cfail1 (with_ks s k1) e'
        end
    end.

  Definition csens_step (which : bool) (s : cstate) (y x : carg V) : cstate * out :=
    match y with
    | CArgC iy =>
        match get_cplx s iy with
        | Err e => cfail1 s e
        | Ok (_, _, (_, yre), (_, yim)) => finish_sres s (csens_cy which (ks s) yre yim x s)
        end
    | CArgR iy =>
        match get_real N (ks s) iy with
        | Err e => cfail1 s e
        | Ok (_, y', _) =>
            match x with
            | CArgC ix =>
                match get_cplx s ix with
                | Err e => cfail1 s e
                | Ok (_, m, (jr, xre), (ji, xim)) =>
                    finish_sres s (if which then csens_ry (ks s) y' xre xim jr ji
                                   else cucomp_ry (ks s) y' xre xim)
                end
            | CArgR ix =>
                let (k1, o) := step N (ks s) (if which then OpSens iy ix else OpUComp iy ix) in
                (with_ks s k1, o)
            | CArgN (NR _) => (kpush s SErr, OutVal f0)
            | CArgN (NC _ _) => (kpush s SErr, out4 f0 f0 f0 f0)
            end
        end
    | CArgN _ => cfail1 s RuntimeError
    end.

  (* ---------- the state machine ---------- *)
  Definition is_cplx_num (x : cnumv V) : bool := match x with NC _ _ => true | NR _ => false end.

  (* core.multiple_ucomplex: the declarations in order *)
  Fixpoint cmultiple_decl (s : state) (zs : list (cnumv V)) (us : list (uform V)) (df : dfval V)
           (acc : list cdecl) : state * res (list cdecl) :=
    match zs, us with
    | [], [] => (s, Ok (rev acc))
    | z :: zs', u :: us' =>
        match ucomplex_decl s (to_pyn z) u df None false with
        | Ok (s', d) => cmultiple_decl s' zs' us' df (d :: acc)
        | Err e => (s, Err e)
        end
    | _, _ => (s, Err RuntimeError)
    end.

  Definition cstep (s : cstate) (o : cop V) : cstate * out :=
    match o with
    | CK ko => let (k1, r) := step N (ks s) ko in (with_ks s k1, r)
    | CUcomplex z u df label indep =>
        match ucomplex_decl (ks s) (to_pyn z) u df label indep with
        | Ok (k1, d) => push_decl (with_ks s k1) d label
        | Err e => cfail2 s e
        end
    | CConstant z label =>
        match z with
        | NC a b => push_decl s (DConst (a, b)) label
        | NR _ => cfail2 s TypeError
        end
    | CMultiple zs us df =>
        if negb (Nat.eqb (length zs) (length us)) then cfail2 s RuntimeError
        else
          match cmultiple_decl (ks s) zs us df [] with
          | (k1, Err e) => cfail2 (with_ks s k1) e
          | (k1, Ok ds) =>
              (* complex_ensemble over the non-constant members: s_i.df (willink_hall of an
                 elementary pair) fills the _v cache of each member *)
              let members := flat_map (fun d => match d with DElem re im => [re; im] | DConst _ => [] end) ds in
              let k2 := real_ensemble N k1 members in
              let step1 := fun (acc : cstate * list out * option exn) (d : cdecl) =>
                let '(st, outs, err) := acc in
                let (st1, o1) := push_decl st d None in
                match d with
                | DElem re im =>
                    match wh_elementary k1 re im with
                    | Ok v =>
                        let j := nslots st in
                        (set_meta st1 j (mkCM (S j) None true None (Some v) None), outs ++ [o1], err)
                    | Err e => (st1, outs ++ [o1], match err with None => Some e | _ => err end)
                    end
                | DConst _ => (st1, outs ++ [o1], err)
                end in
              let '(st, outs, err) := fold_left step1 ds (with_ks s k2, [], None) in
              match err with
              | None => (st, OutList outs)
              | Some e => cfail2 (with_ks s k1) e
              end
          end
    | CUn f a =>
        match get_cplx s a with
        | Err e => (match f with
                    | CUf U_magnitude | CUf U_mag_squared | CUf U_phase => cfail1 s e
                    | _ => cfail2 s e end)
        | Ok (j, m, sre, sim) =>
            let v := capply_un f sre sim in
            match f with
            | CUf U_magnitude | CUf U_mag_squared | CUf U_phase => finish_real s v
            | _ => finish_cplx s v (j, m, sre, sim)
            end
        end
    | CBin f a b =>
        match a, b with
        | CArgC ia, _ =>
            match get_cplx s ia with
            | Err e => cfail2 s e
            | Ok (j, m, sre, sim) =>
                match b with
                | CArgC ib =>
                    match get_cplx s ib with
                    | Err e => cfail2 s e
                    | Ok (_, _, (jr, ore), (ji, oim)) =>
                        finish_cplx s (capply_bin f false sre sim (OthC ore oim) (Some jr, Some ji)) (j, m, sre, sim)
                    end
                | CArgR ib =>
                    match get_real N (ks s) ib with
                    | Err e => cfail2 s e
                    | Ok (jb, ob, _) =>
                        finish_cplx s (capply_bin f false sre sim (OthR ob) (Some jb, None)) (j, m, sre, sim)
                    end
                | CArgN x =>
                    finish_cplx s (capply_bin f false sre sim (OthN (to_pyn x)) (None, None)) (j, m, sre, sim)
                end
            end
        | _, CArgC ib =>
            match get_cplx s ib with
            | Err e => cfail2 s e
            | Ok (j, m, sre, sim) =>
                match a with
                | CArgR ia =>
                    match get_real N (ks s) ia with
                    | Err e => cfail2 s e
                    | Ok (ja, oa, _) =>
                        finish_cplx s (capply_bin f true sre sim (OthR oa) (Some ja, None)) (j, m, sre, sim)
                    end
                | CArgN x =>
                    finish_cplx s (capply_bin f true sre sim (OthN (to_pyn x)) (None, None)) (j, m, sre, sim)
                | CArgC _ => cfail2 s OtherExn
                end
            end
        | _, _ => cfail2 s TypeError
        end
    | CResult a label =>
        (* UncertainComplex._intermediate: the two components in turn, then a NEW complex object *)
        match get_cplx s a with
        | Err e => cfail2 s e
        | Ok (_, _, (jr, _), (ji, _)) =>
            let i := nslots s in
            let (k1, o1) := step N (ks s) (OpResult jr (sub_label label false)) in
            match o1 with
            | OutExn e => (kpush (with_ks s k1) SErr, OutExn e)
            | _ =>
                let (k2, o2) := step N k1 (OpResult ji (sub_label label true)) in
                match o2 with
                | OutExn e => (with_ks s k2, OutExn e)
                | _ =>
                    match get_real N k2 i, get_real N k2 (S i) with
                    | Ok (_, re, _), Ok (_, im, _) =>
                        if Bool.eqb (is_intermediate N re) (is_intermediate N im) then
                          (mkCS k2 (cobjs s ++ [(i, CObj (mkCM (S i) label (is_elementary N re || is_elementary N im)
                                                                None None None))]),
                           OutList [o1; o2])
                        else (with_ks s k2, OutExn AssertionError)
                    | _, _ => (with_ks s k2, OutExn OtherExn)
                    end
                end
            end
        end
    | CRead CR_x a =>
        match get_cplx s a with
        | Err e => cfail1 s e
        | Ok (_, _, (_, re), (_, im)) => (kpush s SErr, OutList [OutVal (ux re); OutVal (ux im)])
        end
    | CRead CR_u a => cread_u s a
    | CRead CR_v a =>
        match cprop_v s a with
        | (s1, Ok (a1, b1, c1, d1)) => (kpush s1 SErr, out4 a1 b1 c1 d1)
        | (s1, Err e) => cfail1 s1 e
        end
    | CRead CR_r a => cread_r s a
    | CSens y x => csens_step true s y x
    | CUComp y x => csens_step false s y x
    end.

  Fixpoint crun (s : cstate) (p : list (cop V)) : cstate * list out :=
    match p with
    | [] => (s, [])
    | o :: p' => let '(s', r) := cstep s o in
                 let '(s'', rs) := crun s' p' in (s'', r :: rs)
    end.
End CKernel.

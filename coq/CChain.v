(* CChain.v -- the generated UncertainComplex operator/function bodies evaluated over the reals
   denote the complex functions they implement (for * with every operand kind and the entire
   functions exp sin cos sinh cosh), and the chain rule for expression trees over them. *)
From Coq Require Import ZArith List Bool Reals Lia Lra Psatz FunctionalExtensionality.
From Coquelicot Require Import Coquelicot.
From GTCV Require Import Num RNum Vector VectorFacts Opres KTypes Kernel DerivTable ChainRule.
From GTCV Require Import Cplx CplxR COpres CKernel CFacts.
From GTCV.gen Require Import Gen_lib_complex.
Import ListNotations.
Local Open Scope R_scope.

Section Sound.
  Variable U : key -> R.
  Variable I : key -> bool.
  Variable e0 : env.
  Notation Den := (Den U I e0).

  Definition cval_den (v : cval RCNum) (Fa Fb Gr Gi : env -> R) : Prop :=
    match v with
    | RSelf => (forall e, Gr e = Fa e) /\ (forall e, Gi e = Fb e)
    | RCplx re im => Den (comp_obj RCNum re) Gr /\ Den (comp_obj RCNum im) Gi
    | RReal _ => False
    end.

  Lemma assemble_nonode k sre sim oth (z : rpyn) (dl dr : rjac) re im :
    assemble RCNum k sre sim oth z dl dr = Ok (re, im) -> unode re = NoNode /\ unode im = NoNode.
  Proof.
    intros H. destruct k, oth; simpl in H; try discriminate; injection H as <- <-; split; reflexivity.
  Qed.

  Definition orient (k : bikind) (f : R -> R -> R -> R -> R) (Fa Fb Fc Fd : env -> R) : env -> R :=
    if self_is_lhs k then (fun e => f (Fa e) (Fb e) (Fc e) (Fd e)) else (fun e => f (Fc e) (Fd e) (Fa e) (Fb e)).

  Lemma realize_bi_sound k (z : rpyn) (dl dr : rjac) sre sim oth slots v Fa Fb Fc Fd
        (fre fim : R -> R -> R -> R -> R) :
    Den (snd sre) Fa -> Den (snd sim) Fb -> oth_den U I e0 oth Fc Fd ->
    realize_c RCNum (CBi k z dl dr) sre sim oth slots = Ok v ->
    (let '(p, q, r, s) := if self_is_lhs k then (ux (snd sre), ux (snd sim), fst (oth_val oth), snd (oth_val oth))
                          else (fst (oth_val oth), snd (oth_val oth), ux (snd sre), ux (snd sim)) in
     n_real RCNum z = fre p q r s /\ n_imag RCNum z = fim p q r s /\
     wt_ok k fre p q r s (J0 dl) (J1 dl) (J0 dr) (J1 dr) /\
     wt_ok k fim p q r s (J2 dl) (J3 dl) (J2 dr) (J3 dr)) ->
    cval_den v Fa Fb (orient k fre Fa Fb Fc Fd) (orient k fim Fa Fb Fc Fd).
  Proof.
    intros Ha Hb Ho Hr Hspec. cbn [realize_c] in Hr.
    match type of Hr with context [assemble ?a1 ?a2 ?a3 ?a4 ?a5 ?a6 ?a7 ?a8] =>
      destruct (assemble a1 a2 a3 a4 a5 a6 a7 a8) as [[re im]|] eqn:Easm end;
      cbn [bind] in Hr; [|discriminate Hr].
    destruct (assemble_nonode _ _ _ _ _ _ _ _ _ Easm) as [N1 N2].
    unfold mk_cplx in Hr. cbn [comp_obj] in Hr. unfold is_intermediate in Hr. rewrite N1, N2 in Hr.
    cbn [Bool.eqb] in Hr. injection Hr as <-. cbn [cval_den comp_obj].
    pose proof (assemble_sound U I e0 k (snd sre) (snd sim) oth z dl dr re im Fa Fb Fc Fd fre fim Ha Hb Ho Easm) as HS.
    unfold orient. destruct (self_is_lhs k); cbv zeta in HS, Hspec;
      destruct Hspec as [V1 [V2 [W1 W2]]]; apply HS; auto.
  Qed.

  Lemma Reqb_true' a b : Reqb a b = true -> a = b.
  Proof. unfold Reqb; destruct (Req_EM_T a b); congruence. Qed.

  Ltac norm_R H :=
    cbn [cN RCNum T RNum add sub mul neg of_Z fst snd] in H; rewrite ?dyad00, ?dyad10 in H.

  (* z1 * z2 for every mix of operand kinds *)
  Theorem capply_mul_sound rev sre sim oth slots Fa Fb Fc Fd v :
    Den (snd sre) Fa -> Den (snd sim) Fb -> oth_den U I e0 oth Fc Fd ->
    (match oth with OthC _ _ => rev = false | _ => True end) ->
    capply_bin RCNum B_mul rev sre sim oth slots = Ok v ->
    cval_den v Fa Fb
      (fun e => if rev then mul_re (Fc e) (Fd e) (Fa e) (Fb e) else mul_re (Fa e) (Fb e) (Fc e) (Fd e))
      (fun e => if rev then mul_im (Fc e) (Fd e) (Fa e) (Fb e) else mul_im (Fa e) (Fb e) (Fc e) (Fd e)).
  Proof.
    intros Ha Hb Ho Hrev H. destruct sre as [jr sre], sim as [ji sim]. cbn [snd] in *. unfold capply_bin in H.
    destruct oth as [ore oim|o|x|]; [| | |discriminate H].
    - (* uc * uc *)
      subst rev. cbn [gc_bin_uc bind] in H. unfold gc_mul_uc in H. cbn [bind] in H.
      apply (realize_bi_sound K_uc_uc _ _ _ (jr, sre) (ji, sim) _ slots v Fa Fb Fc Fd mul_re mul_im Ha Hb Ho H).
      cbn [self_is_lhs oth_val fst snd wt_ok]. cbv [n_real n_imag cvalue of_c n_mul z_to_seq widen c_prod j0 j1 j2 j3 fst snd].
      cbn [fst snd cN RCNum T RNum add sub mul neg].
      split; [reflexivity|]. split; [reflexivity|]. split; [apply qd_mul_re | apply qd_mul_im].
    - (* ureal operand *)
      destruct rev; cbn [gc_bin_ur gc_rbin_ur bind] in H.
      + unfold gc_rmul_ur in H. cbn [bind] in H.
        apply (realize_bi_sound K_ur_uc _ _ _ (jr, sre) (ji, sim) _ slots v Fa Fb Fc Fd mul_re mul_im Ha Hb Ho H).
        cbn [self_is_lhs oth_val fst snd wt_ok]. cbv [n_real n_imag cvalue of_c n_mul z_to_seq widen c_prod j0 j1 j2 j3 fst snd].
        cbn [fst snd cN RCNum T RNum add sub mul neg]. rewrite !dyad00.
        split; [unfold mul_re; ring|]. split; [unfold mul_im; ring|].
        split; [exists (- ux sim); apply qd_mul_re | exists (ux sre); apply qd_mul_im].
      + unfold gc_mul_ur in H. cbn [bind] in H.
        apply (realize_bi_sound K_uc_ur _ _ _ (jr, sre) (ji, sim) _ slots v Fa Fb Fc Fd mul_re mul_im Ha Hb Ho H).
        cbn [self_is_lhs oth_val fst snd wt_ok]. cbv [n_real n_imag cvalue of_c n_mul z_to_seq widen c_prod j0 j1 j2 j3 fst snd].
        cbn [fst snd cN RCNum T RNum add sub mul neg]. rewrite !dyad00.
        split; [unfold mul_re; ring|]. split; [unfold mul_im; ring|].
        split; [exists (- ux sim); apply qd_mul_re | exists (ux sre); apply qd_mul_im].
    - (* plain number operand *)
      destruct Ho as [EFc EFd].
      assert (Hsplit : n_eqb RCNum x (@PR RCNum (dyad RNum 1 0)) = true ->
                       fst (widen RCNum x) = 1 /\ snd (widen RCNum x) = 0).
      { destruct x as [xv|xr xi]; unfold n_eqb, widen; cbn [fst snd cN RCNum eqb RNum]; rewrite ?dyad00, ?dyad10.
        - intros E; apply Reqb_true' in E; auto.
        - intros E; apply andb_prop in E; destruct E as [E1 E2]; apply Reqb_true' in E1, E2; auto. }
      destruct rev; cbn [gc_bin_n gc_rbin_n bind] in H.
      + unfold gc_rmul_n in H.
        destruct (n_eqb RCNum x (@PR RCNum (dyad (cN RCNum) 1 0))) eqn:E1.
        * cbn [bind realize_c] in H. injection H as <-. destruct (Hsplit E1) as [X1 X2].
          subst Fc Fd. cbn [cval_den]. split; intros e; rewrite X1, X2; unfold mul_re, mul_im; ring.
        * cbn [bind] in H.
          apply (realize_bi_sound K_n_uc _ _ _ (jr, sre) (ji, sim) (OthN RCNum x) slots v Fa Fb Fc Fd mul_re mul_im Ha Hb (conj EFc EFd) H).
          cbn [self_is_lhs oth_val fst snd wt_ok]. destruct x as [xv|xr xi]; cbv [n_real n_imag cvalue of_c n_mul z_to_seq widen c_prod j0 j1 j2 j3 fst snd];
            cbn [cN RCNum T RNum add sub mul neg]; rewrite ?dyad00;
            (split; [unfold mul_re; ring|]); (split; [unfold mul_im; ring|]);
            (split; [eexists; eexists; apply qd_mul_re | eexists; eexists; apply qd_mul_im]).
      + unfold gc_mul_n in H.
        destruct (n_eqb RCNum x (@PR RCNum (dyad (cN RCNum) 1 0))) eqn:E1.
        * cbn [bind realize_c] in H. injection H as <-. destruct (Hsplit E1) as [X1 X2].
          subst Fc Fd. cbn [cval_den]. split; intros e; rewrite X1, X2; unfold mul_re, mul_im; ring.
        * cbn [bind] in H.
          apply (realize_bi_sound K_uc_n _ _ _ (jr, sre) (ji, sim) (OthN RCNum x) slots v Fa Fb Fc Fd mul_re mul_im Ha Hb (conj EFc EFd) H).
          cbn [self_is_lhs oth_val fst snd wt_ok]. destruct x as [xv|xr xi]; cbv [n_real n_imag cvalue of_c n_mul z_to_seq widen c_prod j0 j1 j2 j3 fst snd];
            cbn [cN RCNum T RNum add sub mul neg]; rewrite ?dyad00;
            (split; [unfold mul_re; ring|]); (split; [unfold mul_im; ring|]);
            (split; [eexists; eexists; apply qd_mul_re | eexists; eexists; apply qd_mul_im]).
  Qed.

  (* ---------- the entire functions ---------- *)
  Definition cfun_R (f : unop) : option (RC -> RC) :=
    match f with
    | U_exp => Some cexp_R | U_sin => Some csin_R | U_cos => Some ccos_R
    | U_sinh => Some csinh_R | U_cosh => Some ccosh_R
    | _ => None
    end.

  Lemma realize_uni_sound (z : rpyn) (j : rjac) sre sim slots v Fa Fb (g : RC -> RC) d :
    Den (snd sre) Fa -> Den (snd sim) Fb ->
    realize_c RCNum (CUni z j) sre sim (OthNone RCNum) slots = Ok v ->
    (n_real RCNum z, n_imag RCNum z) = g (ux (snd sre), ux (snd sim)) ->
    j = (fst d, - snd d, snd d, fst d) ->
    cr_at g (ux (snd sre), ux (snd sim)) d ->
    cval_den v Fa Fb (fun e => fst (g (Fa e, Fb e))) (fun e => snd (g (Fa e, Fb e))).
  Proof.
    intros Ha Hb Hr Hz Hj [C1 C2]. cbn [realize_c] in Hr.
    unfold univariate_uc, mk_cplx in Hr. cbn [comp_obj mk3 new_un is_intermediate unode Bool.eqb] in Hr.
    injection Hr as <-. cbn [cval_den comp_obj].
    pose proof (den_univariate U I e0 (snd sre) (snd sim) Fa Fb
                 (fun a b => fst (g (a, b))) (fun a b => snd (g (a, b))) z j Ha Hb) as HD.
    cbn [fst snd univariate_uc mk3 new_un] in HD. apply HD.
    - rewrite <- Hz; reflexivity.
    - rewrite <- Hz; reflexivity.
    - subst j. exact C1.
    - subst j. exact C2.
  Qed.

  Theorem capply_fun_sound f g sre sim Fa Fb v :
    cfun_R f = Some g -> Den (snd sre) Fa -> Den (snd sim) Fb ->
    capply_un RCNum (CUf f) sre sim = Ok v ->
    cval_den v Fa Fb (fun e => fst (g (Fa e, Fb e))) (fun e => snd (g (Fa e, Fb e))).
  Proof.
    intros Hf Ha Hb H. destruct sre as [jr sre], sim as [ji sim]. cbn [snd] in *.
    unfold capply_un in H.
    destruct f; try discriminate Hf; injection Hf as <-; cbn [gc_unop] in H.
    - unfold gc_exp in H. cbv [n_cm n_neg widen of_c cvalue fst snd cm RCNum R_cm bind] in H.
      eapply (realize_uni_sound _ _ (jr, sre) (ji, sim) _ v Fa Fb cexp_R (cexp_R (ux sre, ux sim)) Ha Hb H);
        [reflexivity | reflexivity | apply cr_exp].
    - unfold gc_sin in H. cbv [n_cm n_neg widen of_c cvalue fst snd cm RCNum R_cm bind] in H.
      eapply (realize_uni_sound _ _ (jr, sre) (ji, sim) _ v Fa Fb csin_R (ccos_R (ux sre, ux sim)) Ha Hb H);
        [reflexivity | reflexivity | apply cr_sin].
    - unfold gc_cos in H. cbv [n_cm n_neg widen of_c cvalue fst snd cm RCNum R_cm bind] in H.
      eapply (realize_uni_sound _ _ (jr, sre) (ji, sim) _ v Fa Fb ccos_R
                (- fst (csin_R (ux sre, ux sim)), - snd (csin_R (ux sre, ux sim))) Ha Hb H);
        [reflexivity | reflexivity | apply cr_cos].
    - unfold gc_sinh in H. cbv [n_cm n_neg widen of_c cvalue fst snd cm RCNum R_cm bind] in H.
      eapply (realize_uni_sound _ _ (jr, sre) (ji, sim) _ v Fa Fb csinh_R (ccosh_R (ux sre, ux sim)) Ha Hb H);
        [reflexivity | reflexivity | apply cr_sinh].
    - unfold gc_cosh in H. cbv [n_cm n_neg widen of_c cvalue fst snd cm RCNum R_cm bind] in H.
      eapply (realize_uni_sound _ _ (jr, sre) (ji, sim) _ v Fa Fb ccosh_R (csinh_R (ux sre, ux sim)) Ha Hb H);
        [reflexivity | reflexivity | apply cr_cosh].
  Qed.
End Sound.

(* ================= expression trees ================= *)
Section Tree.
  Variable U : key -> R.
  Variable I : key -> bool.
  Variable e0 : env.
  Variable s : cstate R.
  Notation Den := (Den U I e0).

  Inductive cexpr :=
  | XVar (i : nat)                                  (* a complex object of the state *)
  | XFun (f : unop) (e : cexpr)                     (* exp, sin, cos, sinh, cosh *)
  | XMul (e1 e2 : cexpr)                            (* complex * complex *)
  | XMulN (e : cexpr) (x : cnumv R) (rev : bool)    (* e * number, number * e *)
  | XMulR (e : cexpr) (i : nat) (rev : bool).       (* e * ureal, ureal * e *)

  Definition pair_of (self : ureal * ureal) (v : cval RCNum) : res (ureal * ureal) :=
    match v with
    | RSelf => Ok self
    | RCplx a b => Ok (comp_obj RCNum a, comp_obj RCNum b)
    | RReal _ => Err TypeError
    end.

  (* evaluation with exactly the functions CKernel.cstep uses *)
  Fixpoint ceval (e : cexpr) : res (ureal * ureal) :=
    match e with
    | XVar i => r <- get_cplx RCNum s i ;; Ok (snd (snd (fst r)), snd (snd r))
    | XFun f e1 =>
        p <- ceval e1 ;;
        v <- capply_un RCNum (CUf f) (O, fst p) (O, snd p) ;; pair_of p v
    | XMul e1 e2 =>
        p <- ceval e1 ;; q <- ceval e2 ;;
        v <- capply_bin RCNum B_mul false (O, fst p) (O, snd p) (OthC RCNum (fst q) (snd q)) (None, None) ;;
        pair_of p v
    | XMulN e1 x rev =>
        p <- ceval e1 ;;
        v <- capply_bin RCNum B_mul rev (O, fst p) (O, snd p) (OthN RCNum (to_pyn RCNum x)) (None, None) ;;
        pair_of p v
    | XMulR e1 i rev =>
        p <- ceval e1 ;; r <- get_real RNum (ks s) i ;;
        v <- capply_bin RCNum B_mul rev (O, fst p) (O, snd p) (OthR RCNum (snd (fst r))) (None, None) ;;
        pair_of p v
    end.

  Variable Fc : nat -> env -> RC.      (* what each complex object denotes *)
  Variable Fr : nat -> env -> R.       (* what each real object denotes *)

  Fixpoint csem (e : cexpr) : env -> RC :=
    match e with
    | XVar i => Fc i
    | XFun f e1 => fun en => match cfun_R f with Some g => g (csem e1 en) | None => (0, 0) end
    | XMul e1 e2 => fun en => cmul_R (csem e1 en) (csem e2 en)
    | XMulN e1 x rev => fun en => if rev then cmul_R (widen RCNum (to_pyn RCNum x)) (csem e1 en)
                                  else cmul_R (csem e1 en) (widen RCNum (to_pyn RCNum x))
    | XMulR e1 i rev => fun en => if rev then cmul_R (Fr i en, 0) (csem e1 en)
                                  else cmul_R (csem e1 en) (Fr i en, 0)
    end.

  Fixpoint wf (e : cexpr) : Prop :=
    match e with
    | XVar _ => True
    | XFun f e1 => cfun_R f <> None /\ wf e1
    | XMul e1 e2 => wf e1 /\ wf e2
    | XMulN e1 _ _ => wf e1
    | XMulR e1 _ _ => wf e1
    end.

  Hypothesis cinputs_ok : forall i r, get_cplx RCNum s i = Ok r ->
      Den (snd (snd (fst r))) (fun en => fst (Fc i en)) /\ Den (snd (snd r)) (fun en => snd (Fc i en)).
  Hypothesis rinputs_ok : forall i r, get_real RNum (ks s) i = Ok r -> Den (snd (fst r)) (Fr i).

  Lemma pair_of_den p v Fa Fb Gr Gi q :
    Den (fst p) Fa -> Den (snd p) Fb -> cval_den U I e0 v Fa Fb Gr Gi -> pair_of p v = Ok q ->
    Den (fst q) Gr /\ Den (snd q) Gi.
  Proof.
    intros Ha Hb Hv Hp. destruct v as [|a b|r]; simpl in Hv, Hp.
    - injection Hp as <-. destruct Hv as [E1 E2]. split.
      + eapply den_ext; [|exact Ha]. intros; symmetry; apply E1.
      + eapply den_ext; [|exact Hb]. intros; symmetry; apply E2.
    - injection Hp as <-. exact Hv.
    - contradiction.
  Qed.

  Theorem ceval_sound : forall e q, wf e -> ceval e = Ok q ->
    Den (fst q) (fun en => fst (csem e en)) /\ Den (snd q) (fun en => snd (csem e en)).
  Proof.
    induction e as [i|f e1 IH1|e1 IH1 e2 IH2|e1 IH1 x rev|e1 IH1 i rev]; intros q Hwf Hev; cbn [ceval] in Hev.
    - destruct (get_cplx RCNum s i) as [r|] eqn:E; [|discriminate Hev]. cbn [bind] in Hev.
      injection Hev as <-. cbn [fst snd csem]. apply cinputs_ok; auto.
    - destruct Hwf as [Hf Hw]. destruct (ceval e1) as [p|] eqn:E1; [|discriminate Hev]. cbn [bind] in Hev.
      destruct (IH1 _ Hw eq_refl) as [Da Db].
      destruct (capply_un RCNum (CUf f) (0%nat, fst p) (0%nat, snd p)) as [v|] eqn:Ev; [|discriminate Hev].
      cbn [bind] in Hev. cbn [csem].
      destruct (cfun_R f) as [g|] eqn:Eg; [|tauto].
      pose proof (capply_fun_sound U I e0 f g (0%nat, fst p) (0%nat, snd p) _ _ v Eg Da Db Ev) as Hv.
      destruct (pair_of_den p v _ _ _ _ q Da Db Hv Hev) as [Q1 Q2]. split.
      + eapply den_ext; [|exact Q1]. intros en; cbn beta. rewrite <- surjective_pairing. reflexivity.
      + eapply den_ext; [|exact Q2]. intros en; cbn beta. rewrite <- surjective_pairing. reflexivity.
    - destruct Hwf as [Hw1 Hw2]. destruct (ceval e1) as [p|] eqn:E1; [|discriminate Hev]. cbn [bind] in Hev.
      destruct (ceval e2) as [p2|] eqn:E2; [|discriminate Hev]. cbn [bind] in Hev.
      destruct (IH1 _ Hw1 eq_refl) as [Da Db]. destruct (IH2 _ Hw2 eq_refl) as [Dc Dd].
      match type of Hev with context [capply_bin ?a ?b ?c ?d ?e ?f ?g] =>
        destruct (capply_bin a b c d e f g) as [v|] eqn:Ev; [|discriminate Hev] end.
      cbn [bind] in Hev.
      pose proof (capply_mul_sound U I e0 false (0%nat, fst p) (0%nat, snd p) (OthC RCNum (fst p2) (snd p2)) (None, None)
                    _ _ _ _ v Da Db (conj Dc Dd) eq_refl Ev) as Hv.
      exact (pair_of_den p v _ _ _ _ q Da Db Hv Hev).
    - destruct (ceval e1) as [p|] eqn:E1; [|discriminate Hev]. cbn [bind] in Hev.
      destruct (IH1 _ Hwf eq_refl) as [Da Db].
      match type of Hev with context [capply_bin ?a ?b ?c ?d ?e ?f ?g] =>
        destruct (capply_bin a b c d e f g) as [v|] eqn:Ev; [|discriminate Hev] end.
      cbn [bind] in Hev.
      pose proof (capply_mul_sound U I e0 rev (0%nat, fst p) (0%nat, snd p) (OthN RCNum (to_pyn RCNum x)) (None, None)
                    _ _ _ _ v Da Db (conj eq_refl eq_refl) Logic.I Ev) as Hv.
      destruct (pair_of_den p v _ _ _ _ q Da Db Hv Hev) as [Q1 Q2]. cbn [csem].
      split; [eapply den_ext; [|exact Q1] | eapply den_ext; [|exact Q2]]; intros en; cbn beta; destruct rev; reflexivity.
    - destruct (ceval e1) as [p|] eqn:E1; [|discriminate Hev]. cbn [bind] in Hev.
      destruct (IH1 _ Hwf eq_refl) as [Da Db].
      destruct (get_real RNum (ks s) i) as [r|] eqn:Er; [|discriminate Hev]. cbn [bind] in Hev.
      pose proof (rinputs_ok i r Er) as Dr.
      match type of Hev with context [capply_bin ?a ?b ?c ?d ?e ?f ?g] =>
        destruct (capply_bin a b c d e f g) as [v|] eqn:Ev; [|discriminate Hev] end.
      cbn [bind] in Hev.
      pose proof (capply_mul_sound U I e0 rev (0%nat, fst p) (0%nat, snd p) (OthR RCNum (snd (fst r))) (None, None)
                    _ _ _ _ v Da Db (conj Dr eq_refl) Logic.I Ev) as Hv.
      destruct (pair_of_den p v _ _ _ _ q Da Db Hv Hev) as [Q1 Q2]. cbn [csem].
      split; [eapply den_ext; [|exact Q1] | eapply den_ext; [|exact Q2]]; intros en; cbn beta; destruct rev; reflexivity.
  Qed.
End Tree.

(* ================= + and - : the component-wise real-kernel calls ================= *)
(* pointwise meaning of the real-kernel calls a complex + / - makes (the real operators
   themselves are covered by C02): self = (a, b), other = (c, d) *)
Definition rarg_pt (a b c d : R) (x : rarg R) : R :=
  match x with
  | ASelfRe => a | ASelfIm => b | AOthRe => c | AOthIm => d | AOth => c
  | ANumV v => v | AConstV v => v
  end.
Definition rexp_pt (a b c d : R) (e : rexp R) : option R :=
  match e with
  | RBin B_add x y => Some (rarg_pt a b c d x + rarg_pt a b c d y)
  | RBin B_sub x y => Some (rarg_pt a b c d x - rarg_pt a b c d y)
  | RUn U_neg x => Some (- rarg_pt a b c d x)
  | RUn U_pos x => Some (rarg_pt a b c d x)
  | _ => None
  end.

(* what a generated + / - body may return, for self = (a,b), other value (c,d) and the plain
   complex function (fre, fim) of (lhs, rhs) it implements *)
Definition addsub_ok (fre fim : R) (a b c d : R) (r : cres RCNum) : Prop :=
  match r with
  | CSelf => fre = a /\ fim = b
  | CNegSelf => fre = - a /\ fim = - b
  | CPair e1 e2 => rexp_pt a b c d e1 = Some fre /\ rexp_pt a b c d e2 = Some fim
  | _ => False
  end.

Ltac addsub_tac :=
  intros a b o r H;
  match type of H with ?g RCNum _ _ = _ => unfold g in H end;
  destruct o as [v|c d]; cbn [is_real] in H;
  unfold n_eqb, widen, n_real, n_imag in H; cbn [fst snd cN RCNum eqb RNum] in H; rewrite ?dyad00 in H;
  unfold Reqb in H;
  repeat match type of H with context [Req_EM_T ?x ?y] => destruct (Req_EM_T x y) end;
  cbn [andb] in H; injection H as <-;
  cbn [addsub_ok rexp_pt rarg_pt widen fst snd]; change (cN RCNum) with RNum in *; rewrite ?dyad00; change (T RNum) with R in *; subst; split; try reflexivity; try (f_equal; ring); try ring.

Lemma gc_add_uc_ok : forall a b o r, gc_add_uc RCNum (a, b) o = Ok r ->
  addsub_ok (a + fst (widen RCNum o)) (b + snd (widen RCNum o)) a b (fst (widen RCNum o)) (snd (widen RCNum o)) r.
Proof. addsub_tac. Qed.
Ltac addsub_ur_tac :=
  intros a b x r H;
  match type of H with ?g RCNum _ _ = _ => unfold g in H end;
  injection H as <-; cbn [addsub_ok rexp_pt rarg_pt]; change (T (cN RCNum)) with R in *; split; f_equal; ring.

Lemma gc_add_ur_ok : forall a b x r, gc_add_ur RCNum (a, b) (PR x) = Ok r -> addsub_ok (a + x) (b + 0) a b x 0 r.
Proof. addsub_ur_tac. Qed.
Lemma gc_radd_ur_ok : forall a b x r, gc_radd_ur RCNum (a, b) (PR x) = Ok r -> addsub_ok (x + a) (0 + b) a b x 0 r.
Proof. addsub_ur_tac. Qed.
Lemma gc_sub_ur_ok : forall a b x r, gc_sub_ur RCNum (a, b) (PR x) = Ok r -> addsub_ok (a - x) (b - 0) a b x 0 r.
Proof. addsub_ur_tac. Qed.
Lemma gc_rsub_ur_ok : forall a b x r, gc_rsub_ur RCNum (a, b) (PR x) = Ok r -> addsub_ok (x - a) (0 - b) a b x 0 r.
Proof. addsub_ur_tac. Qed.
Lemma gc_add_n_ok : forall a b o r, gc_add_n RCNum (a, b) o = Ok r ->
  addsub_ok (a + fst (widen RCNum o)) (b + snd (widen RCNum o)) a b (fst (widen RCNum o)) (snd (widen RCNum o)) r.
Proof. addsub_tac. Qed.
Lemma gc_radd_n_ok : forall a b o r, gc_radd_n RCNum (a, b) o = Ok r ->
  addsub_ok (fst (widen RCNum o) + a) (snd (widen RCNum o) + b) a b (fst (widen RCNum o)) (snd (widen RCNum o)) r.
Proof. addsub_tac. Qed.
Lemma gc_sub_uc_ok : forall a b o r, gc_sub_uc RCNum (a, b) o = Ok r ->
  addsub_ok (a - fst (widen RCNum o)) (b - snd (widen RCNum o)) a b (fst (widen RCNum o)) (snd (widen RCNum o)) r.
Proof. addsub_tac. Qed.
Lemma gc_sub_n_ok : forall a b o r, gc_sub_n RCNum (a, b) o = Ok r ->
  addsub_ok (a - fst (widen RCNum o)) (b - snd (widen RCNum o)) a b (fst (widen RCNum o)) (snd (widen RCNum o)) r.
Proof. addsub_tac. Qed.
Lemma gc_rsub_n_ok : forall a b o r, gc_rsub_n RCNum (a, b) o = Ok r ->
  addsub_ok (fst (widen RCNum o) - a) (snd (widen RCNum o) - b) a b (fst (widen RCNum o)) (snd (widen RCNum o)) r.
Proof. addsub_tac. Qed.

(* KTypes.v -- the data types of the kernel model, parametric in the carrier V of numbers only
   (so that programs and expected outputs over floats have one type whatever oracle table
   the FNum instance carries). *)
From Coq Require Import ZArith List Bool.
From GTCV Require Import Num Vector Opres.
Import ListNotations.

Section KTypes.
  Variable V : Type.
  Notation vec := (list (key * V)).

  (* ---------- data ---------- *)
  (* degrees of freedom: infinite / NaN / a finite number *)
  Inductive dfval := DInf | DNaN | DFin (v : V).

  Inductive noderef :=
  | NoNode                          (* _node is None: a plain result *)
  | ConstLeaf (label : option Z)    (* Leaf(uid=None): an uncertain constant *)
  | LeafRef (k : key)               (* elementary *)
  | NodeRef (k : key).              (* declared intermediate *)

  Record ureal := mkU { ux : V; uc : vec; dc : vec; ic : vec; unode : noderef }.

  Record leaf := mkLeaf {
    l_u : V; l_df : dfval; l_indep : bool;
    l_corr : list (key * V);        (* only meaningful when not l_indep *)
    l_ens : nat;                    (* id of the (shared, mutable) ensemble set *)
    l_cplx : option (key * key);
    l_label : option Z }.

  Record inode := mkNode { n_u : V; n_df : dfval; n_label : option Z }.

  Inductive slot :=
  | SReal (o : ureal) (cache : option V)   (* cache = the _u attribute, if set *)
  | SNum (v : V)
  | SDof (d : dfval)
  | SAlias (i : nat)                       (* the very same Python object as slot i *)
  | SErr.

  Record state := mkS {
    s_ctx : Z; s_ne : Z; s_ni : Z;
    s_leaves : list (key * leaf);
    s_nodes : list (key * inode);
    s_ens : list (list key);
    s_slots : list slot }.

  (* ---------- outputs (what the harness observes after each step) ---------- *)
  Inductive nkind := KPlain | KConst | KElem (k : key) | KInterm (k : key).
  Inductive out :=
  | OutExn (e : exn)
  | OutVal (v : V)
  | OutDof (d : dfval)
  | OutObj (x : V) (u d i : vec) (k : nkind)
  | OutSame (i : nat)
  | OutList (l : list out)
  | OutUnit.

  Inductive opval := VObj (o : ureal) | VSame (w : which) | VPlain (v : V) | VComplex.

  Inductive unop :=
  | U_exp | U_log | U_log10 | U_sqrt | U_sin | U_cos | U_tan | U_asin | U_acos | U_atan
  | U_sinh | U_cosh | U_tanh | U_asinh | U_acosh | U_atanh
  | U_magnitude | U_mag_squared | U_phase | U_neg | U_pos.

  Inductive binop := B_add | B_sub | B_mul | B_div | B_pow | B_atan2.

  Inductive arg := ARef (i : nat) | ANum (v : V).
  Inductive rattr := R_x | R_u | R_v | R_df.

  Inductive op :=
  | OpUreal (x u : V) (df : dfval) (label : option Z) (indep : bool)
  | OpConstant (x : V) (label : option Z)
  | OpMultiple (xs us : list V) (df : dfval)
  | OpUn (f : unop) (a : nat)
  | OpBin (f : binop) (a b : arg)
  | OpResult (a : nat) (label : option Z)
  | OpSetCorr (r : V) (a b : nat)
  | OpRead (at_ : rattr) (a : nat)
  | OpSens (y x : nat)
  | OpUComp (y x : nat)
  | OpGetCov (a b : nat)
  | OpGetCorr (a b : nat).

End KTypes.

Arguments DInf {V}. Arguments DNaN {V}. Arguments DFin {V} v.
Arguments mkU {V}. Arguments ux {V}. Arguments uc {V}. Arguments dc {V}. Arguments ic {V}. Arguments unode {V}.
Arguments mkLeaf {V}. Arguments l_u {V}. Arguments l_df {V}. Arguments l_indep {V}. Arguments l_corr {V}.
Arguments l_ens {V}. Arguments l_cplx {V}. Arguments l_label {V}.
Arguments mkNode {V}. Arguments n_u {V}. Arguments n_df {V}. Arguments n_label {V}.
Arguments SReal {V}. Arguments SNum {V}. Arguments SDof {V}. Arguments SAlias {V}. Arguments SErr {V}.
Arguments mkS {V}. Arguments s_ctx {V}. Arguments s_ne {V}. Arguments s_ni {V}. Arguments s_leaves {V}.
Arguments s_nodes {V}. Arguments s_ens {V}. Arguments s_slots {V}.
Arguments OutExn {V}. Arguments OutVal {V}. Arguments OutDof {V}. Arguments OutObj {V}.
Arguments OutSame {V}. Arguments OutList {V}. Arguments OutUnit {V}.
Arguments VObj {V}. Arguments VSame {V}. Arguments VPlain {V}. Arguments VComplex {V}.
Arguments ARef {V}. Arguments ANum {V}.
Arguments OpUreal {V}. Arguments OpConstant {V}. Arguments OpMultiple {V}. Arguments OpUn {V}.
Arguments OpBin {V}. Arguments OpResult {V}. Arguments OpSetCorr {V}. Arguments OpRead {V}.
Arguments OpSens {V}. Arguments OpUComp {V}. Arguments OpGetCov {V}. Arguments OpGetCorr {V}.

(* ModDerivative.v -- C02 / C20 for  x % y  and  fmod(x, y)  (y a plain number): the result keeps the
   components of x unchanged (umod_spec / ufmod_spec in SpecialFacts.v); this file shows that this IS the
   chain rule: away from the multiples of y both remainders are differentiable in x with derivative 1, so
   for x = A(t) the sensitivity of the remainder to t is that of x.  Over the reals (Coquelicot). *)
From Coq Require Import ZArith Reals Lra Lia Psatz.
From Coquelicot Require Import Coquelicot.
From GTCV Require Import Num RNum Opres SpecialFacts.
Local Open Scope R_scope.

Lemma Int_part_between (q : R) (n : Z) : IZR n <= q < IZR n + 1 -> Int_part q = n.
Proof.
  intros [H1 H2]. unfold Int_part.
  assert (E : (n + 1)%Z = up q) by (apply up_tech; [exact H1 | rewrite plus_IZR; exact H2]).
  rewrite <- E. lia.
Qed.

(* floor is locally constant away from the integers *)
Lemma floor_locally_constant (q0 : R) : floor_R q0 <> q0 ->
  locally q0 (fun q => floor_R q = floor_R q0).
Proof.
  intros Hne. unfold floor_R in *.
  destruct (base_Int_part q0) as [Hlo Hhi].
  set (n := Int_part q0) in *.
  assert (Hlt : IZR n < q0) by lra.
  assert (Hgt : q0 < IZR n + 1) by lra.
  set (eps := Rmin (q0 - IZR n) (IZR n + 1 - q0)).
  assert (Heps : 0 < eps) by (unfold eps; apply Rmin_glb_lt; lra).
  exists (mkposreal eps Heps). intros q Hq.
  unfold ball in Hq; cbn in Hq. unfold AbsRing_ball, abs, minus, plus, opp in Hq; cbn in Hq.
  apply Rabs_def2 in Hq. destruct Hq as [Hq1 Hq2].
  assert (E1 : eps <= q0 - IZR n) by (unfold eps; apply Rmin_l).
  assert (E2 : eps <= IZR n + 1 - q0) by (unfold eps; apply Rmin_r).
  f_equal. apply Int_part_between. lra.
Qed.

(* x % y, for a fixed non-zero y, has derivative 1 in x away from the multiples of y *)
Theorem pymod_derivative (y x0 : R) : y <> 0 -> floor_R (x0 / y) <> x0 / y ->
  is_derive (fun x => x - y * floor_R (x / y)) x0 1.
Proof.
  intros Hy Hne.
  apply (is_derive_ext_loc (fun x => x - y * floor_R (x0 / y))).
  - assert (Hc : continuous (fun x : R => x / y) x0).
    { apply (ex_derive_continuous (fun x : R => x / y)). auto_derive; auto. }
    pose proof (floor_locally_constant (x0 / y) Hne) as Hl.
    specialize (Hc _ Hl). unfold filtermap in Hc. revert Hc. apply filter_imp. intros x Hx. rewrite Hx. reflexivity.
  - auto_derive; [exact I|ring].
Qed.

Lemma trunc_locally_constant (q0 : R) : trunc_R q0 <> q0 ->
  locally q0 (fun q => trunc_R q = trunc_R q0).
Proof.
  intros Hne. unfold trunc_R in *.
  destruct (Rle_dec 0 q0) as [Hp|Hp].
  - (* q0 > 0 (q0 = 0 is an integer) *)
    assert (Hq0 : 0 < q0).
    { destruct (Req_EM_T q0 0) as [E|E]; [|lra]. exfalso. apply Hne. rewrite E.
      replace (Int_part 0) with 0%Z by (symmetry; apply Int_part_between; simpl; lra). reflexivity. }
    pose proof (floor_locally_constant q0 Hne) as Hl.
    assert (Hpos : locally q0 (fun q => 0 < q)) by (apply (open_gt 0 q0); exact Hq0).
    generalize (filter_and _ _ Hl Hpos). apply filter_imp. intros q [Hq Hq'].
    destruct (Rle_dec 0 q); [exact Hq|lra].
  - assert (Hq0 : q0 < 0) by lra.
    assert (Hne' : floor_R (- q0) <> - q0) by (unfold floor_R; intros E; apply Hne; lra).
    pose proof (floor_locally_constant (- q0) Hne') as Hl.
    assert (Hc : continuous (fun q : R => - q) q0) by (apply (ex_derive_continuous (fun q : R => - q)); auto_derive; exact I).
    specialize (Hc _ Hl). unfold filtermap in Hc.
    assert (Hneg : locally q0 (fun q => q < 0)) by (apply (open_lt 0 q0); exact Hq0).
    generalize (filter_and _ _ Hc Hneg). apply filter_imp. intros q [Hq Hq'].
    destruct (Rle_dec 0 q); [lra|]. unfold floor_R in Hq. rewrite Hq. reflexivity.
Qed.

(* fmod(x, y): derivative 1 in x away from the multiples of y *)
Theorem fmod_derivative (y x0 : R) : y <> 0 -> trunc_R (x0 / y) <> x0 / y ->
  is_derive (fun x => x - y * trunc_R (x / y)) x0 1.
Proof.
  intros Hy Hne.
  apply (is_derive_ext_loc (fun x => x - y * trunc_R (x0 / y))).
  - assert (Hc : continuous (fun x : R => x / y) x0).
    { apply (ex_derive_continuous (fun x : R => x / y)). auto_derive; auto. }
    pose proof (trunc_locally_constant (x0 / y) Hne) as Hl.
    specialize (Hc _ Hl). unfold filtermap in Hc. revert Hc. apply filter_imp. intros x Hx. rewrite Hx. reflexivity.
  - auto_derive; [exact I|ring].
Qed.

(* the chain rule: if x = A(t) with dA/dt = da at t0 and A(t0) is not a multiple of y, the remainder
   has derivative da -- i.e. "the components of x unchanged" is the correct propagation *)
Lemma remainder_chain (step : R -> R) (A : R -> R) (t0 da y : R) :
  y <> 0 -> is_derive A t0 da ->
  locally (A t0 / y) (fun q => step q = step (A t0 / y)) ->
  is_derive (fun t => A t - y * step (A t / y)) t0 da.
Proof.
  intros Hy HA Hl.
  assert (HA' : ex_derive A t0) by (eexists; eauto).
  apply (is_derive_ext_loc (fun t => A t - y * step (A t0 / y))).
  - assert (Hc : continuous (fun t : R => A t / y) t0).
    { apply (ex_derive_continuous (fun t : R => A t / y)). auto_derive; auto. }
    specialize (Hc _ Hl). unfold filtermap in Hc. revert Hc. apply filter_imp. intros t Ht. rewrite Ht. reflexivity.
  - auto_derive; [exact HA'|].
    replace (Derive (fun x => A x) t0) with da by (symmetry; apply is_derive_unique; exact HA). ring.
Qed.

(* the chain rule: if x = A(t) with dA/dt = da at t0 and A(t0) is not a multiple of y, the remainder
   has derivative da -- i.e. "the components of x unchanged" is the correct propagation *)
Theorem remainder_chain_rule (A : R -> R) (t0 da y : R) :
  y <> 0 -> is_derive A t0 da ->
  (floor_R (A t0 / y) <> A t0 / y -> is_derive (fun t => A t - y * floor_R (A t / y)) t0 da) /\
  (trunc_R (A t0 / y) <> A t0 / y -> is_derive (fun t => A t - y * trunc_R (A t / y)) t0 da).
Proof.
  intros Hy HA. split; intros Hne.
  - apply (remainder_chain floor_R); auto. apply floor_locally_constant; exact Hne.
  - apply (remainder_chain trunc_R); auto. apply trunc_locally_constant; exact Hne.
Qed.

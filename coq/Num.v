(* Num.v -- the number interface every model definition is parametric in, and its two
   instances: FNum (primitive binary64 floats + a finite oracle table for libm; what is
   RUN against the implementation, bit for bit) and RNum (Coq reals; what the THEOREMS are
   about).  No proofs about the model live here. *)
From Coq Require Import ZArith List Bool.

Import ListNotations.

(* ---------- Python exceptions and the result monad ---------- *)
Inductive exn :=
| ValueError | TypeError | RuntimeError | ZeroDivisionError | OverflowError
| AssertionError | AttributeError | KeyError | IndexError | NotImplementedError
| ComplexResult      (* float ** float produced a complex number *)
| OracleMissing      (* harness error: an external call was not recorded *)
| OtherExn.

Definition exn_eqb (a b : exn) : bool :=
  match a, b with
  | ValueError, ValueError | TypeError, TypeError | RuntimeError, RuntimeError
  | ZeroDivisionError, ZeroDivisionError | OverflowError, OverflowError
  | AssertionError, AssertionError | AttributeError, AttributeError
  | KeyError, KeyError | IndexError, IndexError
  | NotImplementedError, NotImplementedError | ComplexResult, ComplexResult
  | OracleMissing, OracleMissing | OtherExn, OtherExn => true
  | _, _ => false
  end.

Inductive res (A : Type) := Ok (a : A) | Err (e : exn).
Arguments Ok {A} a.
Arguments Err {A} e.

Definition bind {A B} (r : res A) (f : A -> res B) : res B :=
  match r with Ok a => f a | Err e => Err e end.
Notation "x <- r ;; k" := (bind r (fun x => k))
  (at level 61, r at next level, right associativity).
Notation "' p <- r ;; k" := (bind r (fun p => k))
  (at level 61, p pattern, r at next level, right associativity).

(* ---------- external (libm / operator-level) functions ---------- *)
Inductive fn :=
| F_exp | F_log | F_log10 | F_sqrt | F_sin | F_cos | F_tan | F_asin | F_acos | F_atan
| F_sinh | F_cosh | F_tanh | F_asinh | F_acosh | F_atanh
| F_atan2 | F_pow | F_fmod | F_copysign | F_hypot | F_pymod.

Definition fn_eqb (a b : fn) : bool :=
  match a, b with
  | F_exp, F_exp | F_log, F_log | F_log10, F_log10 | F_sqrt, F_sqrt | F_sin, F_sin
  | F_cos, F_cos | F_tan, F_tan | F_asin, F_asin | F_acos, F_acos | F_atan, F_atan
  | F_sinh, F_sinh | F_cosh, F_cosh | F_tanh, F_tanh | F_asinh, F_asinh
  | F_acosh, F_acosh | F_atanh, F_atanh | F_atan2, F_atan2 | F_pow, F_pow
  | F_fmod, F_fmod | F_copysign, F_copysign | F_hypot, F_hypot | F_pymod, F_pymod => true
  | _, _ => false
  end.

(* ---------- the interface ---------- *)
Record Num := {
  T : Type;
  of_Z : Z -> T;
  dyad : Z -> Z -> T;              (* m * 2^e : every Python float literal, exactly *)
  c_log10e : T;                    (* GTC.lib.LOG10_E  (1/ln 10 over the reals) *)
  c_inf : T;
  add : T -> T -> T;
  sub : T -> T -> T;
  mul : T -> T -> T;
  neg : T -> T;
  nabs : T -> T;
  div : T -> T -> res T;           (* Python float division: ZeroDivisionError on 0 *)
  same : T -> T -> bool;           (* identical values: bit-for-bit on floats; used only to compare outputs *)
  eqb : T -> T -> bool;            (* == with IEEE semantics on floats *)
  ltb : T -> T -> bool;
  leb : T -> T -> bool;
  is_nan : T -> bool;
  is_inf : T -> bool;
  libm1 : fn -> T -> res T;
  libm2 : fn -> T -> T -> res T;
  fsum : list T -> res T           (* math.fsum *)
}.


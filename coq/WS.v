(* WS.v -- C05: the Welch-Satterthwaite loop of lib.py (as modelled in Kernel.v).
   This file proves the independent-inputs case in full generality (any number of inputs,
   any mix of finite and infinite dof): dof = (sum v_k)^2 / sum_{k finite} v_k^2 / nu_k,
   infinite exactly when no finite-dof input contributes, NaN exactly when the variance is
   zero.  Ensembles and complex pairs are tied to the code by correspondence (see PARTIAL). *)
From Coq Require Import ZArith List Bool Reals Lia Lra Psatz.
From GTCV Require Import Num RNum Vector VectorFacts Opres KTypes Kernel LPU.
Import ListNotations.
Local Open Scope R_scope.

Notation ureal := (KTypes.ureal R).
Notation state := (KTypes.state R).
Notation rvecs := (list (key * R)).
Notation dfv := (KTypes.dfval R).

Definition leaf_df (s : state) (k : key) : dfv :=
  match leaf_of RNum s k with Ok l => l_df l | Err _ => DNaN end.

(* the Welch-Satterthwaite denominator contribution of one term *)
Definition ws_term (var v : R) (d : dfv) : R :=
  match d with DFin nu => (v / var) * (v / var) / nu | _ => 0 end.

Fixpoint ws_sum (s : state) (var : R) (v : rvecs) : R :=
  match v with
  | [] => 0
  | (k, u) :: v' => ws_term var (u * u) (leaf_df s k) + ws_sum s var v'
  end.

Definition dfs_positive (s : state) (v : rvecs) : Prop :=
  forall k, In k (map fst v) -> match leaf_df s k with DFin nu => nu <> 0 | DNaN => False | DInf => True end.

Lemma ws_indep_spec s (v : rvecs) var lst :
  leaves_exist s v ->
  ws_indep RNum s v var lst =
  Ok (var + vsum (fun _ u => u * u) v,
      rev (map (fun ku => (snd ku * snd ku, leaf_df s (fst ku))) v) ++ lst).
Proof.
  revert var lst; induction v as [|[k u] v IH]; intros var lst Hex; cbn [ws_indep].
  - simpl. f_equal. f_equal. rring.
  - destruct (Hex k (or_introl eq_refl)) as [l Hl]. rewrite Hl. cbn [bind].
    rewrite IH by (intros k0 Hk0; apply Hex; right; exact Hk0).
    f_equal. f_equal.
    + cbn [vsum mul add RNum]. rring.
    + assert (E : leaf_df s k = l_df l) by (unfold leaf_df; rewrite Hl; reflexivity).
      cbn [map rev fst snd]. rewrite <- app_assoc. cbn [app]. rewrite E. reflexivity.
Qed.

Lemma ws_den_spec var (l : list (R * dfv)) den :
  var <> 0 -> (forall v nu, In (v, DFin nu) l -> nu <> 0) ->
  ws_den RNum var l den = Ok (den + fold_right (fun vd acc => ws_term var (fst vd) (snd vd) + acc) 0 l).
Proof.
  intros Hv. revert den; induction l as [|[v d] l IH]; intros den Hnu; cbn [ws_den].
  - simpl. f_equal; rring.
  - destruct d as [| |nu].
    + rewrite IH by (intros; eapply Hnu; right; eauto). f_equal. simpl. rring.
    + rewrite IH by (intros; eapply Hnu; right; eauto). f_equal. simpl. rring.
    + cbn [div RNum]. unfold R_div.
      destruct (Req_EM_T var 0); [contradiction|]. cbn [bind].
      assert (Hn : nu <> 0) by (eapply Hnu; left; reflexivity).
      destruct (Req_EM_T nu 0); [contradiction|]. cbn [bind].
      rewrite IH by (intros; eapply Hnu; right; eauto). f_equal.
      cbn [fold_right fst snd ws_term mul add RNum]. rring.
Qed.

Lemma fold_ws_rev s var (v : rvecs) :
  fold_right (fun vd acc => ws_term var (fst vd) (snd vd) + acc) 0
             (rev (rev (map (fun ku => (snd ku * snd ku, leaf_df s (fst ku))) v) ++ [])) = ws_sum s var v.
Proof.
  rewrite app_nil_r, rev_involutive.
  induction v as [|[k u] v IH]; simpl; auto. rewrite IH. reflexivity.
Qed.

Lemma all_inf_spec s (v : rvecs) : leaves_exist s v ->
  exists b, all_inf RNum s v = Ok b /\
            (b = true <-> forall k, In k (map fst v) -> leaf_df s k = DInf).
Proof.
  induction v as [|[k u] v IH]; intros Hex; cbn [all_inf].
  - exists true; split; auto. split; auto. intros _ k [].
  - destruct (Hex k (or_introl eq_refl)) as [l Hl]. rewrite Hl. cbn [bind].
    destruct (IH (fun k0 Hk0 => Hex k0 (or_intror Hk0))) as [b [Hb Hiff]]. rewrite Hb. cbn [bind].
    eexists; split; [reflexivity|].
    assert (El : leaf_df s k = l_df l) by (unfold leaf_df; rewrite Hl; reflexivity).
    split.
    + intros E. apply andb_prop in E. destruct E as [E1 E2].
      intros k0 [E0|Hin].
      * simpl in E0; subst k0. rewrite El. destruct (l_df l); simpl in E1; try discriminate; reflexivity.
      * apply Hiff; auto.
    + intros H. apply andb_true_intro. split.
      * specialize (H k (or_introl eq_refl)). rewrite El in H. rewrite H. reflexivity.
      * apply Hiff. intros k0 Hk0. apply H. right; exact Hk0.
Qed.

(* ---------- independent inputs only ---------- *)
Theorem ws_independent_inputs s (o : ureal) c :
  unode o = NoNode -> dc o = [] -> uc o <> [] ->
  leaves_exist s (uc o) -> dfs_positive s (uc o) ->
  (exists k, In k (map fst (uc o)) /\ leaf_df s k <> DInf) ->
  let var := vsum (fun _ u => u * u) (uc o) in
  let den := ws_sum s var (uc o) in
  welch_satterthwaite RNum s o c =
  Ok (var, (if Req_EM_T var 0 then DNaN else if Req_EM_T den 0 then DInf else DFin (1 / den)), c).
Proof.
  intros Hn Hd Hu Hex Hpos [kf [Hkf Hfin]] var den.
  unfold welch_satterthwaite. cbn [T RNum] in *. rewrite Hn.
  unfold is_constant. cbn [T RNum] in *. rewrite Hd.
  destruct (uc o) as [|p t] eqn:Eu; [contradiction|]. rewrite <- Eu in *.
  destruct (all_inf_spec s (uc o) Hex) as [b [Hb Hiff]]. rewrite Hb. cbn [bind all_inf].
  assert (b = false).
  { destruct b; auto. exfalso. apply Hfin. apply Hiff; auto. }
  subst b. cbn [andb].
  rewrite ws_indep_spec by exact Hex. cbn [bind ws_dep w_var w_lst w_map map rev app].
  unfold zero; cbn [of_Z RNum eqb]. unfold Reqb.
  assert (EV : IZR 0 + vsum (fun _ u => u * u) (uc o) = var) by (unfold var; rewrite Eu; lra).
  rewrite !EV.
  destruct (Req_EM_T var (IZR 0)) as [E0|E0]; destruct (Req_EM_T var 0) as [E0'|E0']; try (simpl in *; lra).
  - reflexivity.
  - rewrite ws_den_spec.
    + cbn [bind]. rewrite fold_ws_rev.
      assert (ED : IZR 0 + ws_sum s var (uc o) = den) by (unfold den; rewrite Eu; lra).
      rewrite !ED.
      unfold one; cbn [of_Z div RNum]. unfold R_div.
      destruct (Req_EM_T den 0); [reflexivity|]. cbn [is_nan is_inf RNum]. reflexivity.
    + exact E0'.
    + intros v nu Hin. rewrite app_nil_r, rev_involutive in Hin.
      apply in_map_iff in Hin. destruct Hin as [[k u] [Heq Hin]]. cbn [fst snd] in Heq.
      injection Heq as _ Hdf.
      assert (Hk : In k (map fst (uc o))) by (apply in_map_iff; exists (k, u); auto).
      specialize (Hpos k Hk). rewrite Hdf in Hpos. exact Hpos.
Qed.

(* the classical form: 1/den = var^2 / sum_{finite} v_k^2 / nu_k *)
Fixpoint ws_classic (s : state) (v : rvecs) : R :=
  match v with
  | [] => 0
  | (k, u) :: v' => (match leaf_df s k with DFin nu => (u * u) * (u * u) / nu | _ => 0 end) + ws_classic s v'
  end.

Lemma ws_sum_classic s var (v : rvecs) : var <> 0 -> dfs_positive s v ->
  ws_sum s var v = ws_classic s v / (var * var).
Proof.
  intros Hv. induction v as [|[k u] v IH]; intros Hpos; simpl.
  - field; auto.
  - rewrite IH by (intros k0 Hk0; apply Hpos; right; exact Hk0).
    pose proof (Hpos k (or_introl eq_refl)) as Hk. unfold ws_term.
    destruct (leaf_df s k); try contradiction; field; auto.
Qed.

Theorem ws_classic_formula s var (v : rvecs) :
  var <> 0 -> dfs_positive s v -> ws_classic s v <> 0 ->
  1 / ws_sum s var v = var * var / ws_classic s v.
Proof.
  intros Hv Hpos Hc. rewrite ws_sum_classic by assumption. field. auto.
Qed.

(* ---------- infinite exactly when no finite-dof input contributes (independent case) ---------- *)
Theorem ws_all_infinite s (o : ureal) c v c' :
  unode o = NoNode -> is_constant RNum o = false ->
  leaves_exist s (uc o) -> leaves_exist s (dc o) ->
  (forall k, In k (map fst (uc o)) -> leaf_df s k = DInf) ->
  (forall k, In k (map fst (dc o)) -> leaf_df s k = DInf) ->
  prop_v RNum s o c = Ok (v, c') ->
  welch_satterthwaite RNum s o c = Ok (v, DInf, c').
Proof.
  intros Hn Hc Hexu Hexd Hu Hd Hv.
  unfold welch_satterthwaite. cbn [T RNum] in *. rewrite Hn, Hc.
  destruct (all_inf_spec s (uc o) Hexu) as [bu [Hbu Hiu]].
  destruct (all_inf_spec s (dc o) Hexd) as [bd [Hbd Hid]].
  rewrite Hbu, Hbd. cbn [bind].
  assert (bu = true) by (apply Hiu; exact Hu). assert (bd = true) by (apply Hid; exact Hd).
  subst. cbn [andb]. rewrite Hv. reflexivity.
Qed.

(* props/C09.v -- Property C09: stored documents conform to the shipped schemas under every
   writer option.  Statements only; proofs live in JsonFacts.v / XmlFacts.v.  The schema term
   [gtc_schema]/[gtc_defs], the version string and the sniff pattern are regenerated from
   /repo on every run (gen/Gen_schema_json.v). *)
From Coq Require Import List Bool Ascii String ZArith NArith Floats.
From GTCV Require Import Num FNum Regex Json JsonArchive JsonFacts.
From GTCV.gen Require Import Gen_schema_json.
Import ListNotations.
Local Open Scope string_scope.

(* (1) every document json_format.archive_to_json builds from a well-formed frozen archive
   with identifier-like tags validates against GTC/schema/gtc_v_1_5_0.json -- all sizes of
   all collections, any number carrier (binary64, reals, ...) *)
Theorem C09_json_valid :
  forall (N : Num) (a : farchive N),
    wf N a -> ident_tags N a ->
    validates N gtc_defs gtc_schema (json_encode N json_schema_id a) = true.
Proof. exact json_valid. Qed.
Print Assumptions C09_json_valid.

(* (2) the reader's dispatch: persistence.loads_json takes the current-format decoder iff the
   regular expression regenerated from its source ([sniff_pat]) is found in the printed text.
   For every archive, every indent / item separator / sort_keys / ensure_ascii, the text printed
   with the key separator ": " (json.dumps' default, with or without indent) is recognised.
   Numbers and strings are printed by arbitrary functions; only "version" and the schema id
   must be printed as plain quoted text. *)
Theorem C09_sniff_key_sep :
  forall (N : Num) (pnum : T N -> string) (pstr : bool -> string -> string) (o : jopts) (a : farchive N),
    o_key_sep o = ": " ->
    quotes_plainly pstr (o_ensure_ascii o) "version" ->
    quotes_plainly pstr (o_ensure_ascii o) json_schema_id ->
    pmatch sniff_pat (print_json N pnum pstr o (json_encode N json_schema_id a)) = true.
Proof. exact sniff_default_sep. Qed.
Print Assumptions C09_sniff_key_sep.

(* (3) ... but not under every accepted value of `separators`: with separators=(',', ':') the
   document of a well-formed one-entry archive is not recognised (the legacy decoder is chosen
   and fails).  DESIGN 7 #16; replayed on the implementation on every run (known finding C09-1,
   p_C09.kf_json_separators) and its text is compared with the implementation's (case_witness). *)
From GTCV Require Import C09Case.
Theorem C09_sniff_refuted :
  exists (o : jopts) (a : farchive F),
    wf F a /\ ident_tags F a /\ (forall ea s, quotes_plainly plain_pstr ea s) /\
    validates F gtc_defs gtc_schema (json_encode F json_schema_id a) = true /\
    pmatch sniff_pat (print_json F wit_pnum plain_pstr o (json_encode F json_schema_id a)) = false.
Proof.
  exists compact_opts, wit_archive. split; [|split; [|split; [|split]]].
  - split; [|split]; repeat constructor.
  - split; repeat constructor.
  - intros; reflexivity.
  - vm_compute. reflexivity.
  - vm_compute. reflexivity.
Qed.
Print Assumptions C09_sniff_refuted.

(* non-vacuity of (1) and (2): a concrete archive with a correlated ensemble pair, a complex
   quantity, a real intermediate result and a tagged complex meets wf and ident_tags *)
Local Open Scope float_scope.
Definition ex_archive : farchive F :=
  mkArchive F
    [mkLeaf F (7%N, 1%N) (Some "x") 0.5 (Some 4) true None None None;
     mkLeaf F (7%N, 5%N) None 0.125 (Some 5) false None
            (Some [((7%N, 5%N), 1); ((7%N, 6%N), 0.25)]) (Some [(7%N, 5%N); (7%N, 6%N)]);
     mkLeaf F (7%N, 3%N) (Some "z_re") 1 None true (Some ((7%N, 3%N), (7%N, 4%N))) None None;
     mkLeaf F (7%N, 4%N) (Some "z_im") 2 None true (Some ((7%N, 3%N), (7%N, 4%N))) None None]
    [("x", @TElem F 1.5 (7%N, 1%N));
     ("w", @TInterm F 4 (Some "w") (7%N, 1%N) [((7%N, 1%N), 1)] [((7%N, 5%N), 0.125)] [((7%N, 1%N), 1.75)])]
    [("z", mkTC "z_re" "z_im" (Some "z"))]
    [("z_re", @TElem F 1 (7%N, 3%N)); ("z_im", @TElem F 2 (7%N, 4%N))]
    [((7%N, 1%N), mkInterm F (Some "w") 1.75 None)].

Example C09_nonvacuous :
  wf F ex_archive /\ ident_tags F ex_archive /\
  validates F gtc_defs gtc_schema (json_encode F json_schema_id ex_archive) = true /\
  validates F gtc_defs gtc_schema (jsort F (json_encode F json_schema_id ex_archive)) = true.
Proof.
  split; [|split; [|split]].
  - split; [|split].
    + repeat constructor; discriminate.
    + repeat constructor.
    + repeat constructor; exists "z"; (split; [left; reflexivity|]); [left | right]; reflexivity.
  - split; repeat constructor.
  - vm_compute. reflexivity.
  - vm_compute. reflexivity.
Qed.

(* the validator does reject: the same document with a negative uncertainty, a tag that is not an
   identifier, or a missing leaf table is invalid (so C09_json_valid is not true by accident) *)
Example C09_validator_rejects :
  validates F gtc_defs gtc_schema
    (json_encode F json_schema_id
       (mkArchive F [mkLeaf F (7%N, 1%N) None (-0.5) None true None None None] [] [] [] [])) = false /\
  validates F gtc_defs gtc_schema
    (json_encode F json_schema_id
       (mkArchive F [] [("1x", @TElem F 1.5 (7%N, 1%N))] [] [] [])) = false /\
  validates F gtc_defs gtc_schema (JObj [("CLASS", JStr "Archive")]) = false.
Proof. repeat split; vm_compute; reflexivity. Qed.

(* props/C06chain.v -- Property C06, chain-rule clause: for any later result w (any expression
   tree over objects of the session), the intermediate-component vector of w holds, for every
   declared intermediate m, u(m) times the partial derivative of w with respect to m;
   reporting.sensitivity(w, m) is that derivative and u_component(w, m) = sensitivity * u(m). *)
From Coq Require Import ZArith List Bool Reals.
From Coquelicot Require Import Coquelicot.
From GTCV Require Import Num RNum Vector VectorFacts Opres KTypes Kernel DerivTable ChainRule Swap IntermediateChain.
Import ListNotations.
Local Open Scope R_scope.

Theorem C06_chain_rule_intermediate :
  forall (UI : key -> R) (e1 : env) (s : KTypes.state R) (Gi : nat -> env -> R)
         (e : Kernel.expr RNum) (w m : KTypes.ureal R) km nd,
    (forall i j o c, get_real RNum s i = Ok (j, o, c) -> Den UI all_true e1 (swap RNum o) (Gi i)) ->
    regular Gi e1 e -> eval_un RNum s e = Ok (@OpdU RNum w) ->
    unode m = NodeRef km -> Kernel.assoc (s_nodes s) km = Some nd -> n_u nd = UI km -> 0 < UI km ->
    exists D, is_derive (fun t => sem Gi e (upd e1 km t)) (e1 km) D /\
              u_component RNum s w m = Ok (UI km * D) /\ sensitivity RNum s w m = Ok D.
Proof. intros; eapply intermediate_reporting; eauto. Qed.
Print Assumptions C06_chain_rule_intermediate.

(* the hypothesis on inputs is met: a declared intermediate denotes itself, an object without
   intermediate components a constant *)
Theorem C06_inputs_denote :
  forall UI e1 (o : KTypes.ureal R) km,
    (ic o = [(km, UI km)] -> e1 km = ux o -> Den UI all_true e1 (swap RNum o) (fun e => e km)) /\
    (ic o = [] -> Den UI all_true e1 (swap RNum o) (fun _ => ux o)).
Proof. intros; split; [apply den_swap_intermediate | apply den_swap_plain]. Qed.
Print Assumptions C06_inputs_denote.

(* sensitivity(w,m) * sensitivity(m,x) = sensitivity(w,x) when w depends on x only through m *)
Theorem C06_sensitivity_product :
  forall (f g : R -> R) x df dg,
    is_derive f x df -> is_derive g (f x) dg -> is_derive (fun t => g (f t)) x (df * dg).
Proof. exact chain_product. Qed.
Print Assumptions C06_sensitivity_product.

(* the operators really do treat the three component vectors alike (every number instance) *)
Theorem C06_operators_commute_with_swap :
  forall (N : Num) (s : KTypes.state (T N)) (e : Kernel.expr N),
    eval_un N (swap_state N s) e = rmap' (swap_opd N) (eval_un N s e).
Proof. exact eval_un_swap. Qed.
Print Assumptions C06_operators_commute_with_swap.

(* non-vacuity: m = result(x1*x2) declared (value 6, u = 1/2), x3 elementary; w = m * x3 + m *)
Definition km1 : key := (1%Z, 1%Z).
Definition cs : KTypes.state R :=
  mkS 1%Z 1%Z 1%Z [((1%Z, 3%Z), mkLeaf (/ 4) DInf true [] 0%nat None None)]
      [(km1, mkNode (/ 2) DInf None)] [[]]
      [SReal (mkU 6 [] [] [(km1, / 2)] (NodeRef km1)) None;
       SReal (mkU 5 [((1%Z, 3%Z), / 4)] [] [] (LeafRef (1%Z, 3%Z))) None].
Definition cUI (k : key) : R := / 2.
Definition ce1 (k : key) : R := 6.
Definition cGi (i : nat) : env -> R := match i with O => fun e => e km1 | _ => fun _ => 5 end.
Definition ctree : Kernel.expr RNum :=
  EBin RNum B_add (EBin RNum B_mul (EVar RNum 0) (EVar RNum 1)) (EVar RNum 0).

Example C06_chain_nonvacuous :
  (forall i j o c, get_real RNum cs i = Ok (j, o, c) -> Den cUI all_true ce1 (swap RNum o) (cGi i)) /\
  regular cGi ce1 ctree /\ exists w, eval_un RNum cs ctree = Ok (@OpdU RNum w).
Proof.
  split; [|split].
  - intros i j o c H. destruct i as [|[|i]].
    + vm_compute in H. injection H as _ <- _. apply (den_swap_intermediate cUI ce1 _ km1); reflexivity.
    + vm_compute in H. injection H as _ <- _. apply (den_swap_plain cUI ce1). reflexivity.
    + exfalso. unfold get_real, resolve in H. simpl in H. destruct i; discriminate.
  - simpl. tauto.
  - eexists. reflexivity.
Qed.

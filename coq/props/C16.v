(* props/C16.v -- Property C16: uncertain arrays are the element-wise lifting of scalar
   operations.  Statements about the model of GTC/uncertain_array.py in Array.v, for EVERY
   element type E, every table of scalar operations (which may raise), every shape, rank and
   history; closed by lemmas of ArrayFacts.v.  Where the full statement is false of the
   faithful model a `_refuted` witness is proved (and replayed on the implementation by the
   harness) together with the strongest restriction that is true. *)
From Coq Require Import ZArith List Bool Arith Lia.
From GTCV Require Import Num Array ArrayFacts.
Import ListNotations.

Section C16.
Variable E : Type.
Variable none : E.
Variable un : Z -> E -> res E.
Variable bin : Z -> E -> E -> res E.
Variable ilabel : E -> nat -> E.
Notation step := (step E none un bin ilabel).
Notation run := (run E none un bin ilabel).

(* (1) NumPy broadcasting as an index map, by induction on rank: the k-th operand iterator of
   np.broadcast yields, at result index idx, the operand element whose index is idx with the
   leading axes dropped and every stretched (size-1) axis read at 0. *)
Theorem C16_broadcast_index :
  forall (s t r : shape) (cs ct : list E) (idx : list nat) (d : E),
    bshape s t = Some r -> length cs = size s -> length ct = size t -> valid r idx ->
    nth (flat r idx) (bcast_list E s r cs) d = nth (src s r idx) cs d /\ src s r idx < size s /\
    nth (flat r idx) (bcast_list E t r ct) d = nth (src t r idx) ct d /\ src t r idx < size t /\
    length (bcast_list E s r cs) = size r /\ length (bcast_list E t r ct) = size r.
Proof.
  intros s t r cs ct idx d B Ls Lt V. destruct (bshape_spec _ _ _ B) as [Cs Ct].
  repeat split.
  - apply bcast_list_nth; assumption.
  - apply src_lt; assumption.
  - apply bcast_list_nth; assumption.
  - apply src_lt; assumption.
  - apply bcast_list_length; assumption.
  - apply bcast_list_length; assumption.
Qed.

(* (2) THE LIFTING, binary ufuncs (arithmetic, power, maximum/minimum, logical and/or,
   comparisons): for operands of any shapes that broadcast, array-array and scalar-array, whichever
   input dispatches, after ANY history: the result has the broadcast shape and its element at
   every index is exactly the scalar result for the broadcast operand elements; if a scalar
   operation raises, the array operation raises that exception. *)
Theorem C16_lift :
  forall (history : list (op E)) bk f x y self s0 c0 s1 c1 r,
    let h := fst (run [] history) in
    bk <> BAtan2 ->
    dispatcher E h x y = Some self ->
    input E h x y = Some (s0, c0) -> input E h y x = Some (s1, c1) ->
    bshape s0 s1 = Some r ->
    match snd (step h (OBin bk f x y)) with
    | XArr k s cells =>
        k = bin_result_kind bk /\ s = r /\ length cells = size r /\
        forall idx, valid r idx ->
          bin f (nth (src s0 r idx) c0 none) (nth (src s1 r idx) c1 none) = Ok (nth (flat r idx) cells none)
    | XExn e => exists idx, valid r idx /\
          bin f (nth (src s0 r idx) c0 none) (nth (src s1 r idx) c1 none) = Err e
    | XLbl _ => False
    end.
Proof.
  intros history bk f x y self s0 c0 s1 c1 r h Hbk D I0 I1 B.
  apply (bin_lift E none bin h bk f x y self s0 c0 s1 c1 r Hbk); auto.
  apply run_wf. constructor.
Qed.

Theorem C16_lift_incompatible :
  forall (h : heap E) bk f x y self s0 c0 s1 c1,
    dispatcher E h x y = Some self ->
    input E h x y = Some (s0, c0) -> input E h y x = Some (s1, c1) -> bshape s0 s1 = None ->
    step h (OBin bk f x y) = (upd E h self (fun a => set_bs E a BNone), XExn ValueError).
Proof. intros. simpl. eapply bin_incompatible; eauto. Qed.

(* every heap any history can reach is well formed (cells = product of the shape) *)
Theorem C16_reachable_wf : forall history : list (op E), wf_heap E (fst (run [] history)).
Proof. intro p. apply run_wf. constructor. Qed.

(* (3) unary ufuncs, core functions, attribute views x u v df r real imag, result(array), copy():
   element-wise with the operand's OWN shape -- on objects whose remembered broadcast shape is
   None (the restriction under which history independence holds) *)
Theorem C16_unary_views_on :
  forall (history : list (op E)) f i a,
    let h := fst (run [] history) in
    get_ku E h i = Some a -> a_bs E a = BNone ->
    match snd (step h (OUn f i)) with
    | XArr k s cells => k = KU /\ s = a_shape E a /\ length cells = size s /\
        forall idx, valid s idx -> un f (nth (flat s idx) (a_cells E a) none) = Ok (nth (flat s idx) cells none)
    | XExn e => exists idx, valid (a_shape E a) idx /\ un f (nth (flat (a_shape E a) idx) (a_cells E a) none) = Err e
    | XLbl _ => False
    end.
Proof.
  intros history f i a h G Hb. simpl.
  apply (un_clean E none un h KU f i (fun _ => Ok none) a none); auto. apply run_wf. constructor.
Qed.

Theorem C16_copy_on :
  forall (history : list (op E)) i a,
    let h := fst (run [] history) in
    get_ku E h i = Some a -> a_bs E a = BNone -> a_pickled E a = false ->
    match snd (step h (OCopy i)) with
    | XArr k s cells => k = KU /\ s = a_shape E a /\ length cells = size s /\
        forall idx, valid s idx -> un F_POS (nth (flat s idx) (a_cells E a) none) = Ok (nth (flat s idx) cells none)
    | XExn e => exists idx, valid (a_shape E a) idx /\ un F_POS (nth (flat (a_shape E a) idx) (a_cells E a) none) = Err e
    | XLbl _ => False
    end.
Proof.
  intros history i a h G Hb Hp. simpl.
  apply (un_clean E none un h KU F_POS i (label_of E) a (a_label E a)); auto.
  - apply run_wf. constructor.
  - unfold label_of. rewrite Hp. reflexivity.
Qed.

Theorem C16_result_on :
  forall (history : list (op E)) i a,
    let h := fst (run [] history) in
    get_ku E h i = Some a -> a_bs E a = BNone ->
    match snd (step h (OResult i LNone)) with
    | XArr k s cells => k = KU /\ s = a_shape E a /\ length cells = size s /\
        forall idx, valid s idx -> un F_RES1 (nth (flat s idx) (a_cells E a) none) = Ok (nth (flat s idx) cells none)
    | XExn e => exists idx, valid (a_shape E a) idx /\ un F_RES1 (nth (flat (a_shape E a) idx) (a_cells E a) none) = Err e
    | XLbl _ => False
    end.
Proof.
  intros history i a h G Hb. simpl.
  apply (un_clean E none un h KU F_RES1 i (fun _ => Ok none) a none); auto. apply run_wf. constructor.
Qed.

(* sensitivity / u_component / core.atan2 between arrays of the same shape *)
Theorem C16_zip_on :
  forall (history : list (op E)) f i j a b,
    let h := fst (run [] history) in
    get_ku E h i = Some a -> a_bs E a = BNone -> nth_error h j = Some b -> a_shape E b = a_shape E a ->
    match snd (step h (OZip f i (OA j))) with
    | XArr k s cells => k = KU /\ s = a_shape E a /\ length cells = size s /\
        forall idx, valid s idx ->
          bin f (nth (flat s idx) (a_cells E a) none) (nth (flat s idx) (a_cells E b) none) = Ok (nth (flat s idx) cells none)
    | XExn e => exists idx, valid (a_shape E a) idx /\
          bin f (nth (flat (a_shape E a) idx) (a_cells E a) none) (nth (flat (a_shape E a) idx) (a_cells E b) none) = Err e
    | XLbl _ => False
    end.
Proof.
  intros history f i j a b h G Hb N Hs. simpl.
  apply (zip_clean E none bin h f i j a b); auto. apply run_wf. constructor.
Qed.

(* (4) which objects hold a remembered shape: after a binary ufunc the dispatching operand holds
   None if the two shapes were equal and the broadcast shape otherwise -- and keeps it *)
Theorem C16_remembered_shape :
  forall (h : heap E) bk f x y self s0 c0 s1 c1 r a,
    dispatcher E h x y = Some self ->
    input E h x y = Some (s0, c0) -> input E h y x = Some (s1, c1) -> bshape s0 s1 = Some r ->
    nth_error h self = Some a ->
    nth_error (fst (step h (OBin bk f x y))) self = Some (set_bs E a (if shape_eqb s0 s1 then BNone else BSome r)).
Proof. intros. simpl. eapply bin_remembers; eauto. Qed.

(* (4') the restricted history-independence theorem: after ANY history in which no binary ufunc had
   operands of different shapes and nothing was unpickled, no object remembers a shape -- so by (3)
   every unary ufunc, core function, view, copy, result and same-shape sensitivity is the lifting
   with the operand's own shape, whatever was done to the same objects before *)
Theorem C16_history_independent_on :
  forall (history : list (op E)) f i a,
    hist_no_bcast E none un bin ilabel [] history ->
    let h := fst (run [] history) in
    get_ku E h i = Some a ->
    a_bs E a = BNone /\
    match snd (step h (OUn f i)) with
    | XArr k s cells => k = KU /\ s = a_shape E a /\ length cells = size s /\
        forall idx, valid s idx -> un f (nth (flat s idx) (a_cells E a) none) = Ok (nth (flat s idx) cells none)
    | XExn e => exists idx, valid (a_shape E a) idx /\ un f (nth (flat (a_shape E a) idx) (a_cells E a) none) = Err e
    | XLbl _ => False
    end.
Proof.
  intros history f i a Hn h G.
  assert (C : all_clean E h) by (apply clean_run; [constructor|exact Hn]).
  assert (Hb : a_bs E a = BNone).
  { destruct (get_ku_nth E h i a G) as [N _]. eapply Forall_forall in C; [exact C|]. eapply nth_error_In. exact N. }
  split; [exact Hb|]. apply C16_unary_views_on; assumption.
Qed.

(* (5) the defect in general: a unary operation / view on an object holding a remembered shape r
   returns an array of shape r whose first cells are the scalar results in flat order, the rest None *)
Theorem C16_stale_shape :
  forall (h : heap E) f i a r,
    get_ku E h i = Some a -> a_bs E a = BSome r -> length (a_cells E a) <= size r ->
    (forall j, j < length (a_cells E a) -> exists v, un f (nth j (a_cells E a) none) = Ok v) ->
    exists cells, snd (step h (OUn f i)) = XArr KU r cells /\ length cells = size r /\
      (forall j, j < length (a_cells E a) -> un f (nth j (a_cells E a) none) = Ok (nth j cells none)) /\
      (forall j, length (a_cells E a) <= j -> nth j cells none = none).
Proof. intros. simpl. eapply un_stale; eauto. Qed.

(* (6) history independence holds for ALL binary ufuncs (np.arctan2 included): two histories that
   lead to objects with the same contents, shapes, kinds and labels give the same result *)
Theorem C16_history_independent_binary :
  forall (p1 p2 : list (op E)) bk f x y,
    heap_ceq E (fst (run [] p1)) (fst (run [] p2)) ->
    snd (step (fst (run [] p1)) (OBin bk f x y)) = snd (step (fst (run [] p2)) (OBin bk f x y)) /\
    heap_ceq E (fst (step (fst (run [] p1)) (OBin bk f x y))) (fst (step (fst (run [] p2)) (OBin bk f x y))).
Proof. intros. simpl. apply bin_history_independent. assumption. Qed.

(* (7) np.arctan2: three behaviours *)
Theorem C16_arctan2_broadcast_raises :
  forall (h : heap E) f x y self s0 c0 s1 c1 r,
    dispatcher E h x y = Some self ->
    input E h x y = Some (s0, c0) -> input E h y x = Some (s1, c1) -> s0 <> s1 -> bshape s0 s1 = Some r ->
    step h (OBin BAtan2 f x y) = (upd E h self (fun a => set_bs E a (BSome r)), XExn AttributeError).
Proof. intros. simpl. eapply arctan2_broadcast_raises; eauto. Qed.

Theorem C16_arctan2_same_shape :
  forall (history : list (op E)) f x y self me s c0 c1,
    let h := fst (run [] history) in
    dispatcher E h x y = Some self -> nth_error h self = Some me ->
    input E h x y = Some (s, c0) -> input E h y x = Some (s, c1) ->
    match snd (step h (OBin BAtan2 f x y)) with
    | XArr k s' cells => k = KU /\ s' = s /\ length cells = size s /\
        forall j, j < size s -> bin f (nth j (a_cells E me) none) (nth j c1 none) = Ok (nth j cells none)
    | XExn e => exists j, j < size s /\ bin f (nth j (a_cells E me) none) (nth j c1 none) = Err e
    | XLbl _ => False
    end.
Proof.
  intros history f x y self me s c0 c1 h D N I0 I1. simpl.
  apply (arctan2_same_shape E none bin h f x y self me s c0 c1); auto. apply run_wf. constructor.
Qed.

End C16.

Print Assumptions C16_broadcast_index.
Print Assumptions C16_lift.
Print Assumptions C16_lift_incompatible.
Print Assumptions C16_reachable_wf.
Print Assumptions C16_unary_views_on.
Print Assumptions C16_copy_on.
Print Assumptions C16_result_on.
Print Assumptions C16_zip_on.
Print Assumptions C16_remembered_shape.
Print Assumptions C16_history_independent_on.
Print Assumptions C16_stale_shape.
Print Assumptions C16_history_independent_binary.
Print Assumptions C16_arctan2_broadcast_raises.
Print Assumptions C16_arctan2_same_shape.

(* ------------------------------------------------------------------ a concrete instance: witnesses and non-vacuity *)
Definition wun (f e : Z) : res Z := if Z.eqb e 0 then Err TypeError else Ok (f * 1000 + e)%Z.
Definition wbin (f a b : Z) : res Z := if Z.eqb a 0 || Z.eqb b 0 then Err TypeError else Ok (a * 100 + b)%Z.
Definition wlbl (e : Z) (i : nat) : Z := (e + Z.of_nat i)%Z.
Definition wstep := step Z 0%Z wun wbin wlbl.
Definition wrun := run Z 0%Z wun wbin wlbl.

(* a(3,1) + b(3,) *)
Definition hist1 : list (op Z) :=
  [ONew KU [3; 1] [1; 2; 3]%Z 0%Z; ONew KU [3] [4; 5; 6]%Z 0%Z; OBin BGen 50%Z (OA 0) (OA 1)].
(* the same objects, but b dispatched:  b(3,) + a(3,1), then element order restored by wbin's asymmetry is
   irrelevant: we compare with a history whose third object has the same contents *)
Definition hist2 : list (op Z) :=
  [ONew KU [3; 1] [1; 2; 3]%Z 0%Z; ONew KU [3] [4; 5; 6]%Z 0%Z;
   ONew KU [3; 3] [104; 105; 106; 204; 205; 206; 304; 305; 306]%Z 0%Z].

Example C16_lift_example :
  snd (wstep (fst (wrun [] [ONew KU [3; 1] [1; 2; 3]%Z 0%Z; ONew KU [3] [4; 5; 6]%Z 0%Z])) (OBin BGen 50%Z (OA 0) (OA 1)))
  = XArr KU [3; 3] [104; 105; 106; 204; 205; 206; 304; 305; 306]%Z
  /\ bshape [3; 1] [3] = Some [3; 3] /\ src [3; 1] [3; 3] [2; 1] = 2 /\ src [3] [3; 3] [2; 1] = 1
  /\ bshape [2; 1; 4] [3; 1] = Some [2; 3; 4] /\ bshape [2; 3] [4; 3] = None /\ bshape [0] [1] = Some [0]
  /\ snd (wstep (fst (wrun [] hist1)) (OBin BCmp 62%Z (OS 7%Z) (OA 1))) = XArr KN [3] [704; 705; 706]%Z.
Proof. vm_compute. repeat split; reflexivity. Qed.

(* THE FULL HISTORY-INDEPENDENCE STATEMENT IS FALSE of the faithful model: two histories lead to
   heaps with the same contents, shapes, kinds and labels, yet the view a.x (and every unary
   operation, copy, result) of object 0 differs: after a(3,1)+b(3,) it has shape (3,3) with six None *)
Theorem C16_history_independent_refuted :
  exists (p1 p2 : list (op Z)) (f : Z) (i : nat),
    heap_ceq Z (fst (wrun [] p1)) (fst (wrun [] p2)) /\
    snd (wstep (fst (wrun [] p1)) (OUn f i)) = XArr KU [3; 3] [33001; 33002; 33003; 0; 0; 0; 0; 0; 0]%Z /\
    snd (wstep (fst (wrun [] p2)) (OUn f i)) = XArr KU [3; 1] [33001; 33002; 33003]%Z.
Proof.
  exists hist1, hist2, 33%Z, 0. split; [|split]; [|vm_compute; reflexivity|vm_compute; reflexivity].
  vm_compute. repeat constructor.
Qed.
Print Assumptions C16_history_independent_refuted.

(* non-vacuity of (3) and (5): object 1 of hist1 is clean, object 0 holds (3,3) *)
Example C16_on_example :
  (exists a, get_ku Z (fst (wrun [] hist1)) 1 = Some a /\ a_bs Z a = BNone /\ a_pickled Z a = false) /\
  (exists a, get_ku Z (fst (wrun [] hist1)) 0 = Some a /\ a_bs Z a = BSome [3; 3] /\ length (a_cells Z a) <= size [3; 3]) /\
  snd (wstep (fst (wrun [] hist1)) (OCopy 1)) = XArr KU [3] [1004; 1005; 1006]%Z /\
  snd (wstep (fst (wrun [] hist1)) (OCopy 0)) = XArr KU [3; 3] [1001; 1002; 1003; 0; 0; 0; 0; 0; 0]%Z /\
  snd (wstep (fst (wrun [] hist1)) (OZip 71%Z 1 (OA 1))) = XArr KU [3] [404; 505; 606]%Z /\
  (* a same-shape binary operation dispatched by object 0 clears the remembered shape *)
  snd (wstep (fst (wstep (fst (wrun [] hist1)) (OBin BGen 50%Z (OA 0) (OA 0)))) (OUn 33%Z 0)) = XArr KU [3; 1] [33001; 33002; 33003]%Z.
Proof.
  vm_compute. split. { eexists. split; [reflexivity|]. split; reflexivity. }
  split. { eexists. split; [reflexivity|]. split; [reflexivity|lia]. }
  repeat split; reflexivity.
Qed.

(* non-vacuity of (4'): a history of same-shape and scalar operations on shared objects meets hist_no_bcast *)
Example C16_history_independent_on_example :
  hist_no_bcast Z 0%Z wun wbin wlbl []
    [ONew KU [2; 1] [1; 2]%Z 0%Z; ONew KU [2; 1] [4; 5]%Z 0%Z; OBin BGen 50%Z (OA 0) (OA 1); OBin BCmp 62%Z (OS 7%Z) (OA 0);
     OUn 33%Z 0; OZip 71%Z 2 (OA 0); OBin BAtan2 70%Z (OA 0) (OA 2); OCopy 0]
  /\ snd (wstep (fst (wrun [] [ONew KU [2; 1] [1; 2]%Z 0%Z; ONew KU [2; 1] [4; 5]%Z 0%Z; OBin BGen 50%Z (OA 0) (OA 1)])) (OUn 33%Z 0))
     = XArr KU [2; 1] [33001; 33002]%Z.
Proof.
  split; [|vm_compute; reflexivity].
  simpl. repeat split; intros s0 c0 s1 c1 H0 H1; vm_compute in H0, H1; congruence.
Qed.

(* np.arctan2(ndarray_or_list, uarray): the uarray dispatches as SECOND input and the first input is
   ignored -- every element is f(x, x); the lifting would give f(n, x) *)
Theorem C16_arctan2_lift_refuted :
  exists (h : heap Z) (x y : operand Z),
    dispatcher Z h x y = Some 1 /\
    snd (wstep h (OBin BAtan2 70%Z x y)) = XArr KU [3] [404; 505; 606]%Z /\
    snd (wstep h (OBin BGen 70%Z x y)) = XArr KU [3] [704; 805; 906]%Z.
Proof.
  exists (fst (wrun [] [ONew KN [3] [7; 8; 9]%Z 0%Z; ONew KU [3] [4; 5; 6]%Z 0%Z])), (OA 0), (OA 1).
  vm_compute. repeat split; reflexivity.
Qed.
Print Assumptions C16_arctan2_lift_refuted.

(* np.arctan2 with shapes that need broadcasting raises AttributeError and leaves (3,3) behind;
   with the uarray first and equal shapes it is the lifting *)
Example C16_arctan2_example :
  wstep (fst (wrun [] [ONew KU [3; 1] [1; 2; 3]%Z 0%Z; ONew KU [3] [4; 5; 6]%Z 0%Z])) (OBin BAtan2 70%Z (OA 0) (OA 1))
  = ([mkArr Z KU [3; 1] [1; 2; 3]%Z (BSome [3; 3]) 0%Z false; mkArr Z KU [3] [4; 5; 6]%Z BNone 0%Z false], XExn AttributeError)
  /\ snd (wstep (fst (wrun [] [ONew KU [3] [1; 2; 3]%Z 0%Z; ONew KN [3] [4; 5; 6]%Z 0%Z])) (OBin BAtan2 70%Z (OA 0) (OA 1)))
     = XArr KU [3] [104; 205; 306]%Z
  /\ snd (wstep (fst (wrun [] [ONew KU [3] [1; 2; 3]%Z 0%Z])) (OBin BAtan2 70%Z (OS 9%Z) (OA 0))) = XArr KU [3] [101; 202; 303]%Z.
Proof. vm_compute. repeat split; reflexivity. Qed.

(* sensitivity / u_component / core.atan2 do not broadcast: a(2,1) with b(2,) is zipped in flat order
   with a's shape (NumPy would give (2,2)); with a shorter second operand the tail is None *)
Theorem C16_zip_broadcast_refuted :
  exists (h : heap Z),
    bshape [2; 1] [2] = Some [2; 2] /\
    snd (wstep h (OZip 71%Z 0 (OA 1))) = XArr KU [2; 1] [104; 205]%Z /\
    snd (wstep h (OBin BGen 71%Z (OA 0) (OA 1))) = XArr KU [2; 2] [104; 105; 204; 205]%Z /\
    snd (wstep h (OZip 71%Z 0 (OS 9%Z))) = XArr KU [2; 1] [109; 0]%Z.
Proof.
  exists (fst (wrun [] [ONew KU [2; 1] [1; 2]%Z 0%Z; ONew KU [2] [4; 5]%Z 0%Z])). vm_compute. repeat split; reflexivity.
Qed.
Print Assumptions C16_zip_broadcast_refuted.

(* a pickle round trip loses _broadcasted_shape and _label: every view raises AttributeError until a
   binary ufunc dispatched by the object sets the attribute; label stays unreadable *)
Theorem C16_pickle_refuted :
  let h := fst (wrun [] [ONew KU [2] [1; 2]%Z 5%Z; OPickle 0]) in
  snd (wstep h (OUn 33%Z 0)) = XArr KU [2] [33001; 33002]%Z /\
  snd (wstep h (OUn 33%Z 1)) = XExn AttributeError /\
  snd (wstep (fst (wstep h (OBin BGen 50%Z (OA 1) (OA 1)))) (OUn 33%Z 1)) = XArr KU [2] [33001; 33002]%Z /\
  snd (wstep (fst (wstep h (OBin BGen 50%Z (OA 1) (OA 1)))) (OLabel 1)) = XExn AttributeError /\
  snd (wstep h (OLabel 0)) = XLbl 5%Z.
Proof. vm_compute. repeat split; reflexivity. Qed.
Print Assumptions C16_pickle_refuted.

(* props/C02.v -- Property C02: real sensitivities and components are the first partial
   derivatives.  Only statements, closed by lemmas proved elsewhere, plus the axioms each
   depends on.  Everything is about the model evaluated over the reals (RNum); the operator
   bodies inside [eval_un] are regenerated from GTC/lib.py on every run. *)
From Coq Require Import ZArith List Bool Reals.
From Coquelicot Require Import Coquelicot.
From Coq Require Import Lra Lia.
From GTCV Require Import Num RNum Vector VectorFacts Opres KTypes Kernel DerivTable PowInt ChainRule.
From GTCV.gen Require Import Gen_lib_real.
Import ListNotations.
Local Open Scope R_scope.

(* (1) the sparse merge computes the linear combination, for every overlap pattern *)
Theorem C02_merge_weighted :
  forall (v1 v2 : Vector.vec RNum) (w1 w2 : R) (k : key),
    Vector.sorted v1 -> Vector.sorted v2 ->
    Vector.get0 (Vector.merge_w v1 w1 v2 w2) k = w1 * Vector.get0 v1 k + w2 * Vector.get0 v2 k.
Proof. exact get0_merge_w. Qed.
Print Assumptions C02_merge_weighted.

Theorem C02_merge_sorted :
  forall (v1 v2 : Vector.vec RNum) (w1 w2 : R),
    Vector.sorted v1 -> Vector.sorted v2 -> Vector.sorted (Vector.merge_w v1 w1 v2 w2).
Proof. exact sorted_merge_w. Qed.
Print Assumptions C02_merge_sorted.

(* (2) the chain rule: for every expression tree e over objects of a state s whose
   denotations are Fi, evaluated with the generated operator bodies, the result denotes
   the plain real function [sem Fi e]: same value, and for every elementary input k
   reporting.sensitivity is the partial derivative and reporting.u_component is
   u(k) times it. *)
Theorem C02_chain_rule :
  forall (U : key -> R) (I : key -> bool) (e0 : env) (s : KTypes.state R)
         (Fi : nat -> env -> R) (e : Kernel.expr RNum) (y : KTypes.ureal R),
    attrs_ok U I s ->
    (forall i j o c, get_real RNum s i = Ok (j, o, c) -> Den U I e0 o (Fi i)) ->
    regular Fi e0 e ->
    eval_un RNum s e = Ok (@OpdU RNum y) ->
    ux y = sem Fi e e0 /\
    forall k lf xk,
      Kernel.assoc (s_leaves s) k = Some lf -> unode xk = LeafRef k -> 0 < U k ->
      exists D, is_derive (fun t => sem Fi e (upd e0 k t)) (e0 k) D /\
                u_component RNum s y xk = Ok (U k * D) /\
                sensitivity RNum s y xk = Ok D.
Proof.
  intros U I e0 s Fi e y Hat Hin Hreg Hev.
  pose proof (eval_un_sound U I e0 s Fi Hin e (@OpdU RNum y) Hreg Hev) as Hd. simpl in Hd.
  split; [exact (den_val _ _ _ _ _ Hd)|].
  intros k lf xk Hlf Hx Hu. exact (reporting_sound U I e0 s y (sem Fi e) k lf xk Hat Hd Hlf Hx Hu).
Qed.
Print Assumptions C02_chain_rule.

(* (2b) ** beyond positive bases.  `regular` asks of a ** node either a positive base (any
   exponent, uncertain or not) or a plain integer-valued exponent -- and then NOTHING of the base:
   x ** n is covered by C02_chain_rule for negative x, and for x = 0 when n >= 0.  There
   sem is Python's value (repeated multiplication/division), and the derivative the theorem
   delivers is that of t |-> t ** n. *)
Theorem C02_integer_power_any_base :
  forall (Fi : nat -> env -> R) (e0 : env) (e1 : Kernel.expr RNum) (n : Z),
    regular Fi e0 e1 -> regular Fi e0 (EBin RNum B_pow e1 (ENum RNum (IZR n))).
Proof. intros Fi e0 e1 n H. simpl. repeat split; auto. right. split; [reflexivity|]. exists n; reflexivity. Qed.
Print Assumptions C02_integer_power_any_base.

Theorem C02_integer_power_meaning :
  forall (Fi : nat -> env -> R) (e0 : env) (e1 : Kernel.expr RNum) (n : Z),
    sem Fi e1 e0 <> 0 \/ (0 <= n)%Z ->
    sem Fi (EBin RNum B_pow e1 (ENum RNum (IZR n))) e0 = powerRZ (sem Fi e1 e0) n /\
    forall (A : R -> R) t0 da, A t0 = sem Fi e1 e0 -> is_derive A t0 da ->
      is_derive (fun t => pow_sem (A t) (IZR n)) t0 (IZR n * powerRZ (sem Fi e1 e0) (n - 1) * da).
Proof.
  intros Fi e0 e1 n H. split.
  - cbn [sem binop_R]. apply pow_sem_int. exact H.
  - intros A t0 da EA HA. rewrite <- EA. apply is_derive_pow_sem_int; [exact HA|rewrite EA; exact H].
Qed.
Print Assumptions C02_integer_power_meaning.

(* (3) an input the result does not carry has component exactly 0 *)
Theorem C02_absent_zero :
  forall (s : KTypes.state R) (y : KTypes.ureal R) k lf xk,
    Kernel.assoc (s_leaves s) k = Some lf -> unode xk = LeafRef k ->
    ~ In k (@Vector.keys RNum (uc y)) -> ~ In k (@Vector.keys RNum (dc y)) ->
    u_component RNum s y xk = Ok 0.
Proof. exact absent_component_zero. Qed.
Print Assumptions C02_absent_zero.

(* (4) elementary inputs satisfy the hypothesis of (2) *)
Theorem C02_inputs_denote :
  forall (U : key -> R) (I : key -> bool) (e0 : env) k x nd,
    e0 k = x ->
    (I k = true -> Den U I e0 (mkU x [(k, U k)] [] [] nd) (fun e => e k)) /\
    (I k = false -> Den U I e0 (mkU x [] [(k, U k)] [] nd) (fun e => e k)).
Proof.
  intros; split; intros; [apply den_leaf_indep | apply den_leaf_dep]; auto.
Qed.
Print Assumptions C02_inputs_denote.

(* non-vacuity: a concrete state with an independent and a dependent input, and the tree
   x1 * x2 + x1 (x1 used twice): all hypotheses of C02_chain_rule hold *)
Definition k1 : key := (1%Z, 1%Z).
Definition k2 : key := (1%Z, 2%Z).
Definition ex_state : KTypes.state R :=
  mkS 1%Z 2%Z 0%Z
      [(k1, mkLeaf (/ 2) DInf true [] 0%nat None None);
       (k2, mkLeaf (/ 4) DInf false [(k2, 1)] 1%nat None None)]
      [] [[]; []]
      [SReal (mkU 2 [(k1, / 2)] [] [] (LeafRef k1)) None;
       SReal (mkU 3 [] [(k2, / 4)] [] (LeafRef k2)) None].
Definition ex_U (k : key) : R := if keqb k k1 then / 2 else / 4.
Definition ex_I (k : key) : bool := keqb k k1.
Definition ex_e0 (k : key) : R := if keqb k k1 then 2 else 3.
Definition ex_Fi (i : nat) : env -> R := match i with O => fun e => e k1 | _ => fun e => e k2 end.
Definition ex_tree : Kernel.expr RNum := EBin RNum B_add (EBin RNum B_mul (EVar RNum 0) (EVar RNum 1)) (EVar RNum 0).

Example C02_nonvacuous :
  attrs_ok ex_U ex_I ex_state /\
  (forall i j o c, get_real RNum ex_state i = Ok (j, o, c) -> Den ex_U ex_I ex_e0 o (ex_Fi i)) /\
  regular ex_Fi ex_e0 ex_tree /\
  exists y, eval_un RNum ex_state ex_tree = Ok (@OpdU RNum y).
Proof.
  split; [|split; [|split]].
  - intros k lf H. simpl in H.
    destruct (keqb k k1) eqn:E1.
    + injection H as <-. apply keqb_eq in E1; subst. simpl. auto.
    + destruct (keqb k k2) eqn:E2; [|discriminate]. injection H as <-.
      apply keqb_eq in E2; subst. simpl. auto.
  - intros i j o c H. destruct i as [|[|i]].
    + vm_compute in H. injection H as _ <- _.
      apply (den_leaf_indep ex_U ex_I ex_e0 k1 2 (LeafRef k1)); reflexivity.
    + vm_compute in H. injection H as _ <- _.
      apply (den_leaf_dep ex_U ex_I ex_e0 k2 3 (LeafRef k2)); reflexivity.
    + exfalso. unfold get_real, resolve in H. simpl in H. destruct i; discriminate.
  - simpl. tauto.
  - eexists. reflexivity.
Qed.

(* non-vacuity of (2b): (-x1) ** 3 at x1 = 2 -- a NEGATIVE base; regular, evaluates, value -8 *)
Definition neg_tree : Kernel.expr RNum := EUn RNum U_neg (EVar RNum 0).
Definition pw_tree : Kernel.expr RNum := EBin RNum B_pow neg_tree (ENum RNum (IZR 3)).

Example C02_negative_base_nonvacuous :
  regular ex_Fi ex_e0 pw_tree /\ sem ex_Fi pw_tree ex_e0 = -8 /\
  exists y, eval_un RNum ex_state pw_tree = Ok (@OpdU RNum y) /\ ux y = -8.
Proof.
  split; [|split].
  - simpl. repeat split; auto. right. split; [reflexivity|]. exists 3%Z. reflexivity.
  - cbn [sem pw_tree neg_tree unop_R binop_R ex_Fi]. rewrite pow_sem_int by (right; lia). unfold ex_e0. simpl. lra.
  - unfold pw_tree. cbn [eval_un].
    assert (E1 : exists o, eval_un RNum ex_state neg_tree = Ok (@OpdU RNum o) /\ ux o = -(2)).
    { eexists. split; reflexivity. }
    destruct E1 as [o [E1 Ho]]. rewrite E1. cbn [bind apply_bin g_bin_un]. rewrite Ho.
    assert (Hm : -(2) <> 0) by lra. assert (H3 : 3%Z <> 0%Z) by lia. assert (H31 : 3%Z <> 1%Z) by lia.
    rewrite (g_pow_num_int_eval (-(2)) 3 Hm H3 H31). cbn [bind realize]. eexists. split; [reflexivity|].
    cbn. change (Pos.to_nat 3) with 3%nat. simpl pow. lra.
Qed.

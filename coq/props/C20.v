(* props/C20.v -- Property C20: special propagation functions keep their stated contracts
   (function.mul2, x % y, fmod, type_a.merge, function.implicit).  Statements only, closed by
   lemmas of SpecialFacts.v / SpecialChain.v; everything is about the model Special.v over the
   reals; the weight formulas, tolerances, dx_dy, merge guard, % / fmod value expressions are
   regenerated from the source on every run (gen/Gen_special.v), + and - are the generated
   kernel operators. *)
From Coq Require Import ZArith List Bool Reals Lra.
From Coquelicot Require Import Coquelicot.
From GTCV Require Import Num RNum Vector VectorFacts Opres KTypes Kernel ChainRule LPU Special SpecialFacts SpecialChain.
Import ListNotations.
Local Open Scope R_scope.

(* ---------------- mul2, two uncertain reals ---------------- *)
(* [reads s a c v]: the reads of a.u then a.v return v; the hypotheses say that what each factor
   reports is the variance of its components (true of never-read results and of elementary inputs:
   C20_reads_fresh / C20_reads_elementary).  Then the product exists, has value x1*x2 and variance
   x2^2 v1 + x1^2 v2 + v1 v2  (estimated=False)  /  max(x2^2-v2/2,0) v1 + max(x1^2-v1/2,0) v2  (True) *)
Theorem C20_mul2_real_variance :
  forall (s : KTypes.state R) (a b : KTypes.ureal R) ca cb est,
    reads s a ca (vsum sq (uc a)) -> reads s b cb (vsum sq (uc b)) ->
    disjoint (uc a) (uc b) -> dc a = [] -> dc b = [] ->
    exists y ca' cb',
      mul2_real_pair RNum s a ca b cb est = Ok (y, ca', cb') /\
      ux y = ux a * ux b /\
      uc y = merge_w (uc a) (weight est (ux b) (vsum sq (uc b))) (uc b) (weight est (ux a) (vsum sq (uc a))) /\
      dc y = [] /\ unode y = NoNode /\
      std_variance_real RNum s y =
        Ok (if est then Rmax (ux b * ux b - vsum sq (uc b) / 2) 0 * vsum sq (uc a) +
                        Rmax (ux a * ux a - vsum sq (uc a) / 2) 0 * vsum sq (uc b)
            else ux b * ux b * vsum sq (uc a) + ux a * ux a * vsum sq (uc b) + vsum sq (uc a) * vsum sq (uc b)).
Proof. exact mul2_real_pair_spec. Qed.

Theorem C20_reads_fresh :
  forall (s : KTypes.state R) (a : KTypes.ureal R),
    (unode a = NoNode \/ exists l, unode a = ConstLeaf l) -> dc a = [] -> reads s a None (vsum sq (uc a)).
Proof. exact reads_fresh. Qed.

Theorem C20_reads_elementary :
  forall (s : KTypes.state R) (a : KTypes.ureal R) k l c,
    unode a = LeafRef k -> leaf_of RNum s k = Ok l -> uc a = [(k, l_u l)] -> reads s a c (vsum sq (uc a)).
Proof. exact reads_elementary. Qed.

(* attribution to the influences of both factors (and only those), in uc and ic *)
Theorem C20_mul2_attribution :
  forall (s : KTypes.state R) (a b : KTypes.ureal R) ca cb est y ca' cb',
    mul2_real_pair RNum s a ca b cb est = Ok (y, ca', cb') ->
    Vector.sorted (N:=RNum) (uc a) -> Vector.sorted (N:=RNum) (uc b) ->
    Vector.sorted (N:=RNum) (ic a) -> Vector.sorted (N:=RNum) (ic b) ->
    exists w1 w2,
      (forall k, get0 (uc y) k = w1 * get0 (uc a) k + w2 * get0 (uc b) k) /\
      (forall k, get0 (ic y) k = w1 * get0 (ic a) k + w2 * get0 (ic b) k) /\
      (forall k, In k (keys (uc y)) <-> In k (keys (uc a)) \/ In k (keys (uc b))) /\
      Vector.sorted (N:=RNum) (uc y) /\ dc y = [].
Proof. exact mul2_real_pair_components. Qed.

(* the budget entries (u_component for each influence) root-sum-square to the reported u *)
Theorem C20_mul2_budget_rss :
  forall (s : KTypes.state R) (y : KTypes.ureal R),
    Vector.sorted (N:=RNum) (uc y) -> dc y = [] -> unode y = NoNode ->
    exists u c, prop_u RNum s y None = Ok (u, c) /\
      u = sqrt (vsum (fun k _ => vget RNum (uc y) k * vget RNum (uc y) k) (uc y)).
Proof. exact mul2_budget_rss. Qed.

(* preconditions -> RuntimeError; success implies the preconditions *)
Theorem C20_mul2_shared_influence_raises :
  forall (s : KTypes.state R) (a b : KTypes.ureal R) ca cb est u c1,
    prop_u RNum s a ca = Ok (u, c1) ->
    (exists k, In k (keys (uc a)) /\ In k (keys (uc b))) ->
    mul2_real_pair RNum s a ca b cb est = Err RuntimeError.
Proof. exact mul2_shared_influence_raises. Qed.

Theorem C20_mul2_dependent_raises :
  forall (s : KTypes.state R) (a b : KTypes.ureal R) ca cb est u c1 u' c1',
    prop_u RNum s a ca = Ok (u, c1) -> prop_u RNum s b cb = Ok (u', c1') ->
    dc a <> [] \/ dc b <> [] ->
    mul2_real_pair RNum s a ca b cb est = Err RuntimeError.
Proof. exact mul2_dependent_raises. Qed.

Theorem C20_mul2_success_needs_preconditions :
  forall (s : KTypes.state R) (a b : KTypes.ureal R) ca cb est r,
    mul2_real_pair RNum s a ca b cb est = Ok r -> disjoint (uc a) (uc b) /\ dc a = [] /\ dc b = [].
Proof. exact mul2_success_preconditions. Qed.

(* ---------------- mul2, complex and mixed ---------------- *)
(* the real part is (xr*yr)_2nd - (xi*yi)_2nd, the imaginary part (xi*yr)_2nd + (xr*yi)_2nd; when the
   two products have no influence in common the variance is the SUM of their variances *)
Theorem C20_mul2_complex_pair :
  forall (s : KTypes.state R) xr cxr xi cxi yr cyr yi cyi est re im,
    mul2_complex_pair RNum s xr cxr xi cxi yr cyr yi cyi est = Ok (MOutC re im) ->
    exists p1 p2 p3 p4,
      is_product s est xr yr p1 /\ is_product s est xi yi p2 /\
      is_product s est xi yr p3 /\ is_product s est xr yi p4 /\
      ux re = ux xr * ux yr - ux xi * ux yi /\ ux im = ux xi * ux yr + ux xr * ux yi /\
      dc re = [] /\ dc im = [] /\
      (Vector.sorted (N:=RNum) (uc p1) -> Vector.sorted (N:=RNum) (uc p2) ->
       forall k, get0 (uc re) k = get0 (uc p1) k - get0 (uc p2) k) /\
      (Vector.sorted (N:=RNum) (uc p3) -> Vector.sorted (N:=RNum) (uc p4) ->
       forall k, get0 (uc im) k = get0 (uc p3) k + get0 (uc p4) k) /\
      (disjoint (uc p1) (uc p2) ->
       exists v1 v2, std_variance_real RNum s p1 = Ok v1 /\ std_variance_real RNum s p2 = Ok v2 /\
                     std_variance_real RNum s re = Ok (v1 + v2)) /\
      (disjoint (uc p3) (uc p4) ->
       exists v3 v4, std_variance_real RNum s p3 = Ok v3 /\ std_variance_real RNum s p4 = Ok v4 /\
                     std_variance_real RNum s im = Ok (v3 + v4)).
Proof. exact mul2_complex_pair_spec. Qed.

Theorem C20_mul2_real_complex :
  forall (s : KTypes.state R) a ca yr cyr yi cyi est re im,
    mul2_real_complex RNum s a ca yr cyr yi cyi est = Ok (MOutC re im) ->
    is_product s est a yr re /\ is_product s est a yi im.
Proof. exact mul2_real_complex_spec. Qed.

(* unequal variances (beyond the double 1E-15) or correlated components -> RuntimeError *)
Theorem C20_mul2_simple_variance_raises :
  forall (s : KTypes.state R) (re : KTypes.ureal R) cre (im : KTypes.ureal R) cim vr vi cv c1 c2,
    prop_v RNum s re cre = Ok (vr, c1) -> prop_v RNum s im cim = Ok (vi, c2) ->
    std_covariance_real RNum s re im = Ok cv ->
    (tol15 < Rabs (vr - vi) \/ tol15 < Rabs cv) ->
    simple_variance RNum s re cre im cim = Err RuntimeError.
Proof. exact simple_variance_raises. Qed.

Theorem C20_mul2_non_uncertain_raises :
  forall (s : KTypes.state R) a est,
    mul2 RNum s MOther a est = Err RuntimeError /\ mul2 RNum s a MOther est = Err RuntimeError.
Proof. exact mul2_non_uncertain_raises. Qed.

(* ---------------- x % y and fmod ---------------- *)
(* RNumM = the reals with Python's % (floor remainder) and math.fmod (truncation remainder) *)
Theorem C20_mod :
  forall (o : KTypes.ureal R) (y : R),
    (y <> 0 -> umod RNumM o y =
               Ok (VObj (mkU (ux o - y * floor_R (ux o / y)) (uc o) (dc o) (ic o) NoNode))) /\
    (y = 0 -> umod RNumM o y = Err ZeroDivisionError).
Proof. exact umod_spec. Qed.

(* fmod: math.fmod(x,y) + (self - x) through the +0 / -0 shortcuts: for x = 0 the argument itself
   is returned (its value 0 = fmod(0,y)); otherwise a new number with value fmod(x,y) and the three
   component vectors of x, whatever the signs *)
Theorem C20_fmod :
  forall (o : KTypes.ureal R) (y : R),
    (y = 0 -> ufmod RNumM o y = Err ValueError) /\
    (y <> 0 -> ux o = 0 -> ufmod RNumM o y = Ok (VSame L)) /\
    (y <> 0 -> ux o <> 0 ->
     exists r, ufmod RNumM o y = Ok (VObj r) /\ ux r = ux o - y * trunc_R (ux o / y) /\
               uc r = uc o /\ dc r = dc o /\ ic r = ic o).
Proof. exact ufmod_spec. Qed.

(* ---------------- type_a.merge ---------------- *)
Theorem C20_merge_raises :
  forall (a b : Kernel.operand RNum) (tol : R),
    tol < Rabs (val_of RNum a - val_of RNum b) -> tmerge RNum a b tol = Err RuntimeError.
Proof. exact tmerge_raises. Qed.

Theorem C20_merge :
  forall (oa ob : KTypes.ureal R) (tol : R),
    Rabs (ux oa - ux ob) <= tol ->
    exists r, tmerge RNum (@OpdU RNum oa) (@OpdU RNum ob) tol = Ok (@MObj RNum r) /\
              ux r = ux oa /\
              uc r = merge (uc oa) (uc ob) /\ dc r = merge (dc oa) (dc ob) /\
              ic r = merge (ic oa) (ic ob).
Proof. exact tmerge_uu_spec. Qed.

Theorem C20_merge_components :
  forall (oa ob r : KTypes.ureal R) tol,
    tmerge RNum (@OpdU RNum oa) (@OpdU RNum ob) tol = Ok (@MObj RNum r) ->
    Vector.sorted (N:=RNum) (uc oa) -> Vector.sorted (N:=RNum) (uc ob) ->
    ux r = ux oa /\ forall k, get0 (uc r) k = get0 (uc oa) k + get0 (uc ob) k.
Proof. exact tmerge_components. Qed.

(* ---------------- function.implicit ---------------- *)
(* whatever fn is: a successful call returns xk from the search, with every component of
   fn(constant(xk)) scaled by -1/(dF/dx), dF/dx <> 0 *)
Theorem C20_implicit_components :
  forall (F : KTypes.ureal R -> res (Kernel.operand RNum)) s lo hi eps s' r,
    implicit_real RNum F s lo hi eps = Ok (s', r) ->
    exists xk d oy,
      nr_get_root RNum F s lo hi eps = Ok (s', xk, d) /\
      F (mk_constant RNum xk None) = Ok (@OpdU RNum oy) /\ d <> 0 /\
      ux r = xk /\ scaled_by d oy r.
Proof. exact implicit_real_inv. Qed.

(* the derivative is the sensitivity of fn to a fresh elementary probe placed AT the returned point, for every
   successful search (loop invariant of the Newton / bisection iteration; with finding C20-implicit-end repaired it
   holds at the bracket ends too -- this replaces the former C20_implicit_derivative_at_solution_partial) *)
Theorem C20_implicit_derivative_at_solution :
  forall (F : KTypes.ureal R -> res (Kernel.operand RNum)) s lo hi eps s' xk d,
    nr_get_root RNum F s lo hi eps = Ok (s', xk, d) -> probed F xk d.
Proof. exact nr_get_root_probed. Qed.

Theorem C20_implicit_solution :
  forall (F : KTypes.ureal R -> res (Kernel.operand RNum)) s lo hi eps s' r,
    implicit_real RNum F s lo hi eps = Ok (s', r) ->
    exists d oy, probed F (ux r) d /\ F (mk_constant RNum (ux r) None) = Ok (@OpdU RNum oy) /\ d <> 0 /\ scaled_by d oy r.
Proof. exact implicit_real_probed. Qed.

(* in terms of partial derivatives (Den = the denotation relation of the chain-rule theorem C02) *)
Theorem C20_implicit_components_are_partials :
  forall (U : key -> R) (I : key -> bool) (e0 : env) (Fy : env -> R) (oy r : KTypes.ureal R) (d : R),
    Den U I e0 oy Fy -> scaled_by d oy r -> d <> 0 ->
    forall k, exists D, is_derive (fun t => Fy (upd e0 k t)) (e0 k) D /\ comp r k = - (U k * D) / d.
Proof. exact implicit_components_partial. Qed.

Theorem C20_implicit_derivative_is_partial :
  forall (U : key -> R) (I : key -> bool) (e0 : env) (s : KTypes.state R)
         (Fx : env -> R) (o x : KTypes.ureal R) kx lf d,
    attrs_ok U I s -> Den U I e0 o Fx ->
    Kernel.assoc (s_leaves s) kx = Some lf -> unode x = LeafRef kx -> 0 < U kx ->
    sensitivity RNum s o x = Ok d ->
    is_derive (fun t => Fx (upd e0 kx t)) (e0 kx) d.
Proof. exact implicit_derivative_partial. Qed.

(* RuntimeError: empty range; no sign change between the bracket ends *)
Theorem C20_implicit_empty_range_raises :
  forall (F : KTypes.ureal R -> res (Kernel.operand RNum)) s lo hi eps,
    hi <= lo -> implicit_real RNum F s lo hi eps = Err RuntimeError.
Proof. exact empty_range_raises. Qed.

Theorem C20_implicit_no_sign_change_raises :
  forall (F : KTypes.ureal R -> res (Kernel.operand RNum)) s lo hi eps s1 x1 o1 s2 x2 r2,
    lo < hi ->
    probe RNum F s lo = Ok (s1, x1, @OpdU RNum o1) -> probe RNum F s1 hi = Ok (s2, x2, r2) ->
    eps <= Rabs (ux o1) -> eps <= Rabs (val_of RNum r2) -> 0 <= ux o1 * val_of RNum r2 ->
    implicit_real RNum F s lo hi eps = Err RuntimeError.
Proof. exact no_sign_change_raises. Qed.

(* a root of fn at (within epsilon of) a bracket end is what implicit returns, with the components of fn there
   scaled by -1/(dF/dx) taken there -- for every fn.  (Finding C20-implicit-end, fixed: the code used to return the
   FUNCTION value fl / fu; the theorem C20_implicit_end_refuted it supported is replaced by these.) *)
Theorem C20_implicit_root_at_lower_end :
  forall (F : KTypes.ureal R -> res (Kernel.operand RNum)) s lo hi eps s1 x1 o1 d oy,
    lo < hi -> probe RNum F s lo = Ok (s1, x1, @OpdU RNum o1) -> Rabs (ux o1) < eps ->
    sensitivity RNum s1 o1 x1 = Ok d -> d <> 0 ->
    F (mk_constant RNum lo None) = Ok (@OpdU RNum oy) ->
    exists r, implicit_real RNum F s lo hi eps = Ok (s1, r) /\ ux r = lo /\ scaled_by d oy r.
Proof. exact implicit_root_at_lower_end. Qed.

Theorem C20_implicit_root_at_upper_end :
  forall (F : KTypes.ureal R -> res (Kernel.operand RNum)) s lo hi eps s1 x1 o1 s2 x2 o2 d oy,
    lo < hi -> probe RNum F s lo = Ok (s1, x1, @OpdU RNum o1) -> eps <= Rabs (ux o1) ->
    probe RNum F s1 hi = Ok (s2, x2, @OpdU RNum o2) -> Rabs (ux o2) < eps ->
    sensitivity RNum s2 o2 x2 = Ok d -> d <> 0 ->
    F (mk_constant RNum hi None) = Ok (@OpdU RNum oy) ->
    exists r, implicit_real RNum F s lo hi eps = Ok (s2, r) /\ ux r = hi /\ scaled_by d oy r.
Proof. exact implicit_root_at_upper_end. Qed.

(* ---------------- non-vacuity ---------------- *)
(* the documented example mul2(ureal(0,1), ureal(0,1)): all hypotheses of C20_mul2_real_variance
   hold and the variance is 1 (first-order propagation gives 0) *)
Definition ka : key := (1%Z, 1%Z).
Definition kb : key := (1%Z, 2%Z).
Definition ex_s : KTypes.state R :=
  mkS 1 2 0 [(ka, mkLeaf 1 DInf true [] 0%nat None None); (kb, mkLeaf 1 DInf true [] 1%nat None None)] [] [[]; []] [].
Definition ex_a : KTypes.ureal R := mkU 0 [(ka, 1)] [] [] (LeafRef ka).
Definition ex_b : KTypes.ureal R := mkU 0 [(kb, 1)] [] [] (LeafRef kb).

Example C20_mul2_nonvacuous :
  exists y ca cb, mul2_real_pair RNum ex_s ex_a None ex_b None false = Ok (y, ca, cb) /\
                  ux y = 0 /\ std_variance_real RNum ex_s y = Ok 1.
Proof.
  destruct (mul2_real_pair_spec ex_s ex_a ex_b None None false) as (y & ca & cb & H & Hx & _ & _ & _ & Hv).
  - eapply reads_elementary; reflexivity.
  - eapply reads_elementary; reflexivity.
  - intros k [<-|[]] [E|[]]. discriminate E.
  - reflexivity.
  - reflexivity.
  - exists y, ca, cb. split; [exact H|]. split.
    + rewrite Hx. simpl. lra.
    + rewrite Hv. f_equal. unfold second_order_variance, sq. simpl. unfold sq. lra.
Qed.

(* the hypotheses of the bracket-end theorems are met by fn = lambda v: v - 1.0 on [1,3] (the former counterexample):
   the call returns the root 1, and fn vanishes there *)
Example C20_implicit_nonvacuous :
  exists s' r, implicit_real RNum Fm1 st0 1 3 (/ 1000) = Ok (s', r) /\ ux r = 1 /\
    (exists y, Fm1 (mk_constant RNum (ux r) None) = Ok (@OpdU RNum y) /\ ux y = 0).
Proof. exact implicit_end_witness. Qed.

(* fmod for a negative x and a negative modulus: fmod(-7, -2) = -1 with the components of x *)
Example C20_fmod_nonvacuous :
  forall u d i, exists r, ufmod RNumM (mkU (-7) u d i NoNode) (-2) = Ok (VObj r) /\ ux r = -1 /\ uc r = u /\ dc r = d /\ ic r = i.
Proof.
  intros u d i. destruct (ufmod_spec (mkU (-7) u d i NoNode) (-2)) as (_ & _ & H).
  destruct H as (r & Hr & Hx & Hu & Hd & Hi); [lra | simpl; lra |].
  exists r. split; [exact Hr|]. split; [|auto].
  rewrite Hx. cbn [ux]. unfold trunc_R.
  replace (-7 / -2) with (7 / 2) by field.
  destruct (Rle_dec 0 (7 / 2)) as [_|n]; [|exfalso; lra].
  assert (E : 4%Z = up (7 / 2)) by (apply tech_up; simpl; lra).
  unfold Int_part. rewrite <- E. simpl. lra.
Qed.

(* ---------------- axioms: one Print Assumptions per group (the tuple depends on every theorem of the group) ---------------- *)
Definition C20_mul2_theorems := (C20_mul2_real_variance, C20_reads_fresh, C20_reads_elementary, C20_mul2_attribution, C20_mul2_budget_rss, C20_mul2_shared_influence_raises, C20_mul2_dependent_raises, C20_mul2_success_needs_preconditions, C20_mul2_complex_pair, C20_mul2_real_complex, C20_mul2_simple_variance_raises, C20_mul2_non_uncertain_raises, C20_mul2_nonvacuous).
Print Assumptions C20_mul2_theorems.
Definition C20_mod_merge_theorems := (C20_mod, C20_fmod, C20_merge_raises, C20_merge, C20_merge_components, C20_fmod_nonvacuous).
Print Assumptions C20_mod_merge_theorems.
Definition C20_implicit_theorems := (C20_implicit_components, C20_implicit_derivative_at_solution, C20_implicit_solution, C20_implicit_components_are_partials, C20_implicit_derivative_is_partial, C20_implicit_empty_range_raises, C20_implicit_no_sign_change_raises, C20_implicit_root_at_lower_end, C20_implicit_root_at_upper_end, C20_implicit_nonvacuous).
Print Assumptions C20_implicit_theorems.

(* ---------- x % y and fmod(x, y): "the components of x unchanged" IS the chain rule ----------
   away from the multiples of y both remainders are differentiable in x with derivative 1; hence
   for x = A(t) the derivative of the remainder with respect to t is dA/dt (C02's statement for
   these two operators). *)
From Coquelicot Require Import Coquelicot.
From GTCV Require Import ModDerivative.

Theorem C20_mod_derivative_is_one :
  forall (y x0 : R), y <> 0 -> floor_R (x0 / y) <> x0 / y ->
    is_derive (fun x => x - y * floor_R (x / y)) x0 1.
Proof. exact pymod_derivative. Qed.
Print Assumptions C20_mod_derivative_is_one.

Theorem C20_fmod_derivative_is_one :
  forall (y x0 : R), y <> 0 -> trunc_R (x0 / y) <> x0 / y ->
    is_derive (fun x => x - y * trunc_R (x / y)) x0 1.
Proof. exact fmod_derivative. Qed.
Print Assumptions C20_fmod_derivative_is_one.

Theorem C20_remainder_chain_rule :
  forall (A : R -> R) (t0 da y : R), y <> 0 -> is_derive A t0 da ->
    (floor_R (A t0 / y) <> A t0 / y -> is_derive (fun t => A t - y * floor_R (A t / y)) t0 da) /\
    (trunc_R (A t0 / y) <> A t0 / y -> is_derive (fun t => A t - y * trunc_R (A t / y)) t0 da).
Proof. exact remainder_chain_rule. Qed.
Print Assumptions C20_remainder_chain_rule.

(* props/C05.v -- Property C05: effective degrees of freedom follow Welch-Satterthwaite.
   Statements only.  What is proved here: the independent-inputs case for ANY number of
   inputs with any mix of finite and infinite dof, and the all-infinite case with dependent
   inputs; the ensemble / complex-pair grouping of the loop is tied to the code by the
   bit-exact correspondence and checked against the group specification by the oracle. *)
From Coq Require Import ZArith List Bool Reals Lra.
From GTCV Require Import Num RNum Vector Opres KTypes Kernel LPU WS.
Import ListNotations.
Local Open Scope R_scope.

Theorem C05_ws_independent_partial :
  forall (s : KTypes.state R) (o : KTypes.ureal R) c,
    unode o = NoNode -> dc o = [] -> uc o <> [] ->
    leaves_exist s (uc o) -> dfs_positive s (uc o) ->
    (exists k, In k (map fst (uc o)) /\ leaf_df s k <> DInf) ->
    let var := vsum (fun _ u => u * u) (uc o) in
    let den := ws_sum s var (uc o) in
    welch_satterthwaite RNum s o c =
    Ok (var, (if Req_EM_T var 0 then DNaN else if Req_EM_T den 0 then DInf else DFin (1 / den)), c).
Proof. exact ws_independent_inputs. Qed.
Print Assumptions C05_ws_independent_partial.

(* 1/den is the textbook (sum v)^2 / sum v^2/nu *)
Theorem C05_classic_formula :
  forall (s : KTypes.state R) var (v : list (key * R)),
    var <> 0 -> dfs_positive s v -> ws_classic s v <> 0 ->
    1 / ws_sum s var v = var * var / ws_classic s v.
Proof. exact ws_classic_formula. Qed.
Print Assumptions C05_classic_formula.

(* inf exactly when no finite-dof input contributes *)
Theorem C05_all_infinite :
  forall (s : KTypes.state R) (o : KTypes.ureal R) c v c',
    unode o = NoNode -> is_constant RNum o = false ->
    leaves_exist s (uc o) -> leaves_exist s (dc o) ->
    (forall k, In k (map fst (uc o)) -> leaf_df s k = DInf) ->
    (forall k, In k (map fst (dc o)) -> leaf_df s k = DInf) ->
    prop_v RNum s o c = Ok (v, c') ->
    welch_satterthwaite RNum s o c = Ok (v, DInf, c').
Proof. exact ws_all_infinite. Qed.
Print Assumptions C05_all_infinite.

(* non-vacuity: two independent inputs, u = 1 and 2, dof 4 and infinity: dof = 25^2/(1/4)... *)
Definition wk1 : key := (1%Z, 1%Z).
Definition wk2 : key := (1%Z, 2%Z).
Definition wstate : KTypes.state R :=
  mkS 1%Z 2%Z 0%Z
      [(wk1, mkLeaf 1 (DFin 4) true [] 0%nat None None);
       (wk2, mkLeaf 2 DInf true [] 1%nat None None)]
      [] [[]; []] [].
Definition wy : KTypes.ureal R := mkU 3 [(wk1, 1); (wk2, 2)] [] [] NoNode.

Example C05_nonvacuous :
  welch_satterthwaite RNum wstate wy None = Ok (5, DFin 100, None).
Proof.
  assert (Hex : leaves_exist wstate (uc wy)).
  { intros k [<-|[<-|[]]]; eexists; reflexivity. }
  assert (Hpos : dfs_positive wstate (uc wy)).
  { intros k [<-|[<-|[]]]; unfold leaf_df; simpl; auto; lra. }
  rewrite (ws_independent_inputs wstate wy None eq_refl eq_refl); auto.
  - cbn [vsum uc wy ws_sum]. unfold leaf_df, ws_term; simpl.
    destruct (Req_EM_T (1 * 1 + (2 * 2 + 0)) 0); [lra|].
    destruct (Req_EM_T (1 * 1 / (1 * 1 + (2 * 2 + 0)) * (1 * 1 / (1 * 1 + (2 * 2 + 0))) / 4 + (0 + 0)) 0); [lra|].
    assert (E1 : 1 * 1 + (2 * 2 + 0) = 5) by lra. rewrite !E1.
    assert (E2 : 1 / (1 * 1 / 5 * (1 * 1 / 5) / 4 + (0 + 0)) = 100) by (field).
    rewrite E2. reflexivity.
  - discriminate.
  - exists wk1. split; [left; reflexivity|]. unfold leaf_df; simpl. discriminate.
Qed.

(* props/C05.v -- Property C05: effective degrees of freedom follow Welch-Satterthwaite.
   Statements only.  What is proved here: the independent-inputs case for ANY number of
   inputs with any mix of finite and infinite dof, and the all-infinite case with dependent
   inputs; the ensemble / complex-pair grouping of the loop is tied to the code by the
   bit-exact correspondence and checked against the group specification by the oracle. *)
From Coq Require Import ZArith List Bool Reals Lra.
From GTCV Require Import Num RNum Vector Opres KTypes Kernel LPU WS.
Import ListNotations.
Local Open Scope R_scope.

Theorem C05_ws_independent_partial :
  forall (s : KTypes.state R) (o : KTypes.ureal R) c,
    unode o = NoNode -> dc o = [] -> uc o <> [] ->
    leaves_exist s (uc o) -> dfs_positive s (uc o) ->
    (exists k, In k (map fst (uc o)) /\ leaf_df s k <> DInf) ->
    let var := vsum (fun _ u => u * u) (uc o) in
    let den := ws_sum s var (uc o) in
    welch_satterthwaite RNum s o c =
    Ok (var, (if Req_EM_T var 0 then DNaN else if Req_EM_T den 0 then DInf else DFin (1 / den)), c).
Proof. exact ws_independent_inputs. Qed.
Print Assumptions C05_ws_independent_partial.

(* 1/den is the textbook (sum v)^2 / sum v^2/nu *)
Theorem C05_classic_formula :
  forall (s : KTypes.state R) var (v : list (key * R)),
    var <> 0 -> dfs_positive s v -> ws_classic s v <> 0 ->
    1 / ws_sum s var v = var * var / ws_classic s v.
Proof. exact ws_classic_formula. Qed.
Print Assumptions C05_classic_formula.

(* inf exactly when no finite-dof input contributes *)
Theorem C05_all_infinite :
  forall (s : KTypes.state R) (o : KTypes.ureal R) c v c',
    unode o = NoNode -> is_constant RNum o = false ->
    leaves_exist s (uc o) -> leaves_exist s (dc o) ->
    (forall k, In k (map fst (uc o)) -> leaf_df s k = DInf) ->
    (forall k, In k (map fst (dc o)) -> leaf_df s k = DInf) ->
    prop_v RNum s o c = Ok (v, c') ->
    welch_satterthwaite RNum s o c = Ok (v, DInf, c').
Proof. exact ws_all_infinite. Qed.
Print Assumptions C05_all_infinite.

(* non-vacuity: two independent inputs, u = 1 and 2, dof 4 and infinity: dof = 25^2/(1/4)... *)
Definition wk1 : key := (1%Z, 1%Z).
Definition wk2 : key := (1%Z, 2%Z).
Definition wstate : KTypes.state R :=
  mkS 1%Z 2%Z 0%Z
      [(wk1, mkLeaf 1 (DFin 4) true [] 0%nat None None);
       (wk2, mkLeaf 2 DInf true [] 1%nat None None)]
      [] [[]; []] [].
Definition wy : KTypes.ureal R := mkU 3 [(wk1, 1); (wk2, 2)] [] [] NoNode.

Example C05_nonvacuous :
  welch_satterthwaite RNum wstate wy None = Ok (5, DFin 100, None).
Proof.
  assert (Hex : leaves_exist wstate (uc wy)).
  { intros k [<-|[<-|[]]]; eexists; reflexivity. }
  assert (Hpos : dfs_positive wstate (uc wy)).
  { intros k [<-|[<-|[]]]; unfold leaf_df; simpl; auto; lra. }
  rewrite (ws_independent_inputs wstate wy None eq_refl eq_refl); auto.
  - cbn [vsum uc wy ws_sum]. unfold leaf_df, ws_term; simpl.
    destruct (Req_EM_T (1 * 1 + (2 * 2 + 0)) 0); [lra|].
    destruct (Req_EM_T (1 * 1 / (1 * 1 + (2 * 2 + 0)) * (1 * 1 / (1 * 1 + (2 * 2 + 0))) / 4 + (0 + 0)) 0); [lra|].
    assert (E1 : 1 * 1 + (2 * 2 + 0) = 5) by lra. rewrite !E1.
    assert (E2 : 1 / (1 * 1 / 5 * (1 * 1 / 5) / 4 + (0 + 0)) = 100) by (field).
    rewrite E2. reflexivity.
  - discriminate.
  - exists wk1. split; [left; reflexivity|]. unfold leaf_df; simpl. discriminate.
Qed.

(* ---------- dependent inputs: ensembles (any number of members, any interleaving) ---------- *)
From GTCV Require Import WSGroups.

(* For a real result whose dependent influences have no complex pairing and whose declared
   correlations join either two infinite-dof inputs or two members of one ensemble (what
   set_correlation enforces: [ws_ok]), the loop never reaches its assert-False path and
   returns the total LPU variance and 1/den, where den adds one Welch-Satterthwaite term per
   independent input, per dependent input without ensemble, and per ENSEMBLE accumulator
   ([groups_run], a plain list function mirroring cpts_lst / cpts_map) *)
Theorem C05_ws_real_result :
  forall (s : KTypes.state R) (o : KTypes.ureal R) c,
    unode o = NoNode -> is_constant RNum o = false ->
    leaves_exist s (uc o) -> dfs_positive s (uc o) ->
    ws_ok s (dc o) -> dfs_ok s (dc o) ->
    (exists k, (In k (map fst (uc o)) \/ In k (map fst (dc o))) /\ leaf_df s k <> DInf) ->
    let var := vsum (fun _ u => u * u) (uc o) + vtot s (dc o) in
    let st := groups_run s (dc o) (rev (map (fun ku => (snd ku * snd ku, leaf_df s (fst ku))) (uc o)), []) in
    let den := sum_terms var (fst st) + sum_terms var (map snd (snd st)) in
    welch_satterthwaite RNum s o c =
    Ok (var, (if Req_EM_T var 0 then DNaN else if Req_EM_T den 0 then DInf else DFin (1 / den)), c).
Proof. exact ws_real_result. Qed.
Print Assumptions C05_ws_real_result.

(* each ensemble accumulator holds exactly the sum of the increments of that ensemble (the
   squared components of its members and the covariance terms of its correlated pairs), with
   the dof of its first member: "one term per group with its total contribution" *)
Theorem C05_accumulator_holds_group_total :
  forall (l : list inc) (m : list (list key * (R * KTypes.dfval R))) E,
    cmap_lookup (fold_left add_inc l m) E =
    match cmap_lookup m E with
    | Some (V, nu) => Some (V + total l E, nu)
    | None => match first_df l E with Some d => Some (0 + total l E, d) | None => None end
    end.
Proof. exact accumulator_holds_total. Qed.
Print Assumptions C05_accumulator_holds_group_total.

(* non-vacuity: two members of one ensemble (dof 5, r = 1/2), y = x1 + x2: variance 3, dof 5 *)
Definition ek1 : key := (1%Z, 1%Z).
Definition ek2 : key := (1%Z, 2%Z).
Definition estate : KTypes.state R :=
  mkS 1%Z 2%Z 0%Z
      [(ek1, mkLeaf 1 (DFin 5) false [(ek1, 1); (ek2, / 2)] 2%nat None None);
       (ek2, mkLeaf 1 (DFin 5) false [(ek2, 1); (ek1, / 2)] 2%nat None None)]
      [] [[]; []; [ek1; ek2]] [].
Definition ey : KTypes.ureal R := mkU 7 [] [(ek1, 1); (ek2, 1)] [] NoNode.

Example C05_groups_nonvacuous :
  ws_ok estate (dc ey) /\ dfs_ok estate (dc ey) /\
  welch_satterthwaite RNum estate ey None = Ok (3, DFin 5, None).
Proof.
  assert (Hok : ws_ok estate (dc ey)).
  { cbn [dc ey ws_ok]. split; [eexists; split; reflexivity|]. split.
    - intros kj uj r Hin Hc. destruct Hin as [H|[]]. injection H as <- <-.
      split; [eexists; reflexivity|]. right. reflexivity.
    - split; [eexists; split; reflexivity|]. split; [intros kj uj r []|exact I]. }
  assert (Hdf : dfs_ok estate (dc ey)).
  { intros k [<-|[<-|[]]]; unfold leaf_df; simpl; lra. }
  split; [exact Hok|split; [exact Hdf|]].
  rewrite (ws_real_result estate ey None eq_refl eq_refl); auto.
  - cbn [uc dc ey vsum map rev fst snd].
    unfold vtot, groups_run, covar, leaf_corr, leaf_ens, leaf_df, inner_incs, both_inf, vi; simpl.
    unfold add_inc; simpl. unfold sum_terms, ws_term; simpl.
    assert (E1 : 0 + (1 * 1 + (2 * 1 * / 2 * 1 + 0) + (1 * 1 + 0 + 0)) = 3) by lra. rewrite !E1.
    destruct (Req_EM_T 3 0); [lra|].
    assert (E2 : 0 + ((0 + 1 * 1 + 2 * 1 * / 2 * 1 + 1 * 1) / 3 * ((0 + 1 * 1 + 2 * 1 * / 2 * 1 + 1 * 1) / 3) / 5 + 0) = / 5) by (field).
    rewrite !E2. destruct (Req_EM_T (/ 5) 0); [lra|].
    assert (E3 : 1 / / 5 = 5) by field. rewrite E3. reflexivity.
  - intros k [].
  - intros k [].
  - exists ek1. split; [right; left; reflexivity|]. unfold leaf_df; simpl. discriminate.
Qed.

(* ---------- the real/imaginary pair of an elementary uncertain complex number is ONE term ----------
   [okc s d]: the dependent vector d consists of ordinary elements (as above) and of adjacent
   (real, imaginary) pairs of dependent elementary complex numbers declared without an ensemble.
   [groups_c] is the specification of the loop's term list: each pair contributes the single
   term  u_re^2 + 2 u_re r u_im + u_im^2  with the pair's dof (the covariance part is left out of
   the term, not of the variance, when both components have infinite dof). *)
From GTCV Require Import WSPairs.

Theorem C05_real_result_with_complex_pairs :
  forall (s : KTypes.state R) (o : KTypes.ureal R) c,
    unode o = NoNode -> is_constant RNum o = false ->
    leaves_exist s (uc o) -> dfs_positive s (uc o) ->
    okc s (dc o) -> dfs_ok s (dc o) ->
    (exists k, (In k (map fst (uc o)) \/ In k (map fst (dc o))) /\ leaf_df s k <> DInf) ->
    let var := vsum (fun _ u => u * u) (uc o) + vtot s (dc o) in
    let st := groups_c s (dc o) (rev (map (fun ku => (snd ku * snd ku, leaf_df s (fst ku))) (uc o)), []) in
    let den := sum_terms var (fst st) + sum_terms var (map snd (snd st)) in
    welch_satterthwaite RNum s o c =
    Ok (var, (if Req_EM_T var 0 then DNaN else if Req_EM_T den 0 then DInf else DFin (1 / den)), c).
Proof. exact ws_real_result_pairs. Qed.
Print Assumptions C05_real_result_with_complex_pairs.

(* the specification itself: a pair at the head of the vector is one term *)
Theorem C05_pair_is_one_group :
  forall (s : KTypes.state R) kr ur ki ui rest st,
    leaf_cplx s kr = Some (kr, ki) ->
    groups_c s ((kr, ur) :: (ki, ui) :: rest) st =
    groups_c s rest ((vi ur + pcov s kr ur ki ui + vi ui, leaf_df s kr) :: fst st, snd st).
Proof. exact groups_c_pair. Qed.
Print Assumptions C05_pair_is_one_group.

(* hence a result that depends only on the two components of one finite-dof elementary
   complex number has exactly that number's dof *)
Theorem C05_pair_dof :
  forall (s : KTypes.state R) kr ur ki ui lr li nu c,
    leaf_of RNum s kr = Ok lr -> leaf_of RNum s ki = Ok li ->
    l_cplx lr = Some (kr, ki) -> l_cplx li = Some (kr, ki) -> kr <> ki ->
    leaf_ens s kr = [] -> leaf_ens s ki = [] ->
    l_df lr = DFin nu -> l_df li = DFin nu -> nu <> 0 ->
    let o := mkU 0 [] [(kr, ur); (ki, ui)] [] NoNode in
    let v := vi ur + pcov s kr ur ki ui + vi ui in
    v <> 0 ->
    welch_satterthwaite RNum s o c = Ok (v, DFin nu, c).
Proof. exact pair_is_one_term. Qed.
Print Assumptions C05_pair_dof.

Example C05_pair_nonvacuous :
  welch_satterthwaite RNum pair_state (mkU 0 [] [(kz1, 1); (kz2, 2)] [] NoNode) None = Ok (7, DFin 5, None).
Proof. exact pair_example. Qed.

(* props/C13.v -- Property C13: type-A line fits equal the least-squares solution and predict
   consistently.  Only statements, closed by lemmas proved in LineFitAFacts.v, plus the axioms
   each depends on.  Everything is about the GENERATED formulas of gen/Gen_type_a_fit.v
   (translated from GTC/type_a.py on every run) and the model LineFitA.v, over the reals.

   Notation.  A data set is a list l of points p = (px p, py p, pu p) (pu: uncertainty or
   scale factor; unused by OLS).  Sw g l = sum g(p)/u_p^2, Sm g l = sum g(p).
   ls_sol S Sx Sy Sxx Sxy q a b ua ub r  :=  a*S + b*Sx = Sy,  a*Sx + b*Sxx = Sxy,
     0 < D := S*Sxx - Sx^2,  ua^2 = q*Sxx/D,  ub^2 = q*S/D,  r*ua*ub = -q*Sx/D,  0 <= ua, ub
   i.e. (a,b) solves the (weighted) normal equations and (ua, ub, r) describe q (X^T W X)^-1. *)
From Coq Require Import ZArith List Bool Reals Lra Lia.
From GTCV Require Import Num RNum Vector VectorFacts Opres KTypes Kernel LPU WS WSGroups FitLib LineFitA LineFitAFacts LineFitAPredict LineFitAEquiv.
From GTCV.gen Require Import Gen_type_a_fit.
Import ListNotations.
Local Open Scope R_scope.

(* (1) line_fit (OLS): whenever it returns, the result is the least-squares solution with
   sigma^2 = ssr/(N-2), df = N-2, ssr the residual sum, N the number of points; the arguments
   had equal length >= 3. *)
Theorem C13_ols_normal_eqs :
  forall xs ys fs, g_line_fit RNum xs ys = Ok fs ->
  exists l, xs = map px l /\ ys = map py l /\ (3 <= length l)%nat /\
    let n := INR (length l) in
    fs_df fs = DFin (n - 2) /\ 0 <= fs_ssr fs / (n - 2) /\
    ls_sol n (mSx l) (mSy l) (mSxx l) (mSxy l) (fs_ssr fs / (n - 2))
           (fs_ax fs) (fs_bx fs) (fs_au fs) (fs_bu fs) (fs_r fs) /\
    fs_ssr fs = Sm (fun p => wres (fs_ax fs) (fs_bx fs) p * wres (fs_ax fs) (fs_bx fs) p) l /\
    fs_n fs = Z.of_nat (length l).
Proof. exact ols_sound. Qed.
Print Assumptions C13_ols_normal_eqs.

(* (2) line_fit_wls: exact weights (sigma^2 = 1), df = inf unless given *)
Theorem C13_wls_normal_eqs :
  forall xs ys us dof fs, g_line_fit_wls RNum xs ys us dof = Ok fs ->
  exists l, xs = map px l /\ ys = map py l /\ us = map pu l /\ (3 <= length l)%nat /\
    wls_spec l (fs_ax fs) (fs_bx fs) (fs_au fs) (fs_bu fs) (fs_r fs) (fs_ssr fs) /\
    fs_n fs = Z.of_nat (length l) /\ dof_rule dof DInf (fs_df fs).
Proof. exact wls_sound. Qed.
Print Assumptions C13_wls_normal_eqs.

Theorem C13_wls_spec_is_solution :
  forall l a b sa sb r ssr, wls_spec l a b sa sb r ssr ->
    ls_sol (wS l) (wSx l) (wSy l) (wSxx l) (wSxy l) 1 a b sa sb r /\
    ssr = Sw (fun p => wres a b p * wres a b p) l /\ (forall p, In p l -> pu p <> 0).
Proof.
  intros l a b sa sb r ssr H. split; [exact (wls_spec_sol _ _ _ _ _ _ _ H)|].
  split; [exact (ws_ssr _ _ _ _ _ _ _ H)|exact (ws_w _ _ _ _ _ _ _ H)].
Qed.
Print Assumptions C13_wls_spec_is_solution.

(* (3) line_fit_rwls: residual-scaled (sigma^2 = ssr/df), df = N-2 unless given *)
Theorem C13_rwls_normal_eqs :
  forall xs ys ss dof fs, g_line_fit_rwls RNum xs ys ss dof = Ok fs ->
  exists l d, xs = map px l /\ ys = map py l /\ ss = map pu l /\
    (forall p, In p l -> pu p <> 0) /\
    dof_rule dof (DFin (IZR (Z.of_nat (length l) - 2))) (fs_df fs) /\ fs_df fs = DFin d /\ d <> 0 /\
    0 <= fs_ssr fs / d /\
    ls_sol (wS l) (wSx l) (wSy l) (wSxx l) (wSxy l) (fs_ssr fs / d)
           (fs_ax fs) (fs_bx fs) (fs_au fs) (fs_bu fs) (fs_r fs) /\
    fs_ssr fs = Sw (fun p => wres (fs_ax fs) (fs_bx fs) p * wres (fs_ax fs) (fs_bx fs) p) l /\
    fs_n fs = Z.of_nat (length l).
Proof. exact rwls_sound. Qed.
Print Assumptions C13_rwls_normal_eqs.

(* (4) the solution is unique: any two results described by ls_sol for the same sums agree *)
Theorem C13_solution_unique :
  forall S Sx Sy Sxx Sxy q a b ua ub r a' b' ua' ub' r',
  ls_sol S Sx Sy Sxx Sxy q a b ua ub r -> ls_sol S Sx Sy Sxx Sxy q a' b' ua' ub' r' ->
  a = a' /\ b = b' /\ ua = ua' /\ ub = ub' /\ r * ua * ub = r' * ua' * ub'.
Proof. exact ls_sol_unique. Qed.
Print Assumptions C13_solution_unique.

(* (5) RWLS with equal scale factors equals OLS (values, uncertainties, covariance, df, N;
   ssr is the OLS one in units of the common scale factor) *)
Theorem C13_rwls_eq_ols :
  forall (l : list pt) c fw fo, c <> 0 ->
  g_line_fit_rwls RNum (map px l) (map py l) (map (fun _ => c) l) DofNone = Ok fw ->
  g_line_fit RNum (map px l) (map py l) = Ok fo ->
  fs_ax fw = fs_ax fo /\ fs_bx fw = fs_bx fo /\ fs_au fw = fs_au fo /\ fs_bu fw = fs_bu fo /\
  fs_r fw * fs_au fw * fs_bu fw = fs_r fo * fs_au fo * fs_bu fo /\
  fs_df fw = fs_df fo /\ fs_n fw = fs_n fo /\ fs_ssr fw = fs_ssr fo / (c * c).
Proof. exact rwls_equal_scale_is_ols. Qed.
Print Assumptions C13_rwls_eq_ols.

(* (5b) equivariance (PARTIAL: values, df and N; the uncertainties and ssr are not covered by
   this theorem): fitting al*x+be, ga*y+de gives b' = ga*b/al, a' = ga*a + de - b'*be *)
Theorem C13_ols_equivariance_partial :
  forall (l : list pt) al be ga de fs fs', al <> 0 ->
  g_line_fit RNum (map px l) (map py l) = Ok fs ->
  g_line_fit RNum (map (fun p => al * px p + be) l) (map (fun p => ga * py p + de) l) = Ok fs' ->
  fs_bx fs' = ga * fs_bx fs / al /\ fs_ax fs' = ga * fs_ax fs + de - ga * fs_bx fs / al * be /\
  fs_df fs' = fs_df fs /\ fs_n fs' = fs_n fs.
Proof. exact ols_values_equivariant. Qed.
Print Assumptions C13_ols_equivariance_partial.

(* (5c) the WEIGHTED fit (line_fit_wls) is equivariant in its values too, for the same
   uncertainties u(y_i): same transformed slope and intercept, same dof and N (by uniqueness of
   the solution of the weighted normal equations; PARTIAL like (5b): values, dof, N) *)
Theorem C13_wls_equivariance_partial :
  forall (l : list pt) al be ga de dof fs fs', al <> 0 ->
  g_line_fit_wls RNum (map px l) (map py l) (map pu l) dof = Ok fs ->
  g_line_fit_wls RNum (map (fun p => al * px p + be) l) (map (fun p => ga * py p + de) l) (map pu l) dof = Ok fs' ->
  fs_bx fs' = ga * fs_bx fs / al /\ fs_ax fs' = ga * fs_ax fs + de - ga * fs_bx fs / al * be /\
  fs_df fs' = fs_df fs /\ fs_n fs' = fs_n fs.
Proof. exact wls_values_equivariant. Qed.
Print Assumptions C13_wls_equivariance_partial.

(* (5d) ordinary least squares: the WHOLE result is equivariant -- ssr' = ga^2 ssr and the
   covariance matrix of (a', b') is the one induced by the linear map of (5b):
   u(b') = |ga/al| u(b); u(a')^2 and cov(a',b') as below (cov = r u(a) u(b)) *)
Theorem C13_ols_equivariance_full :
  forall (l : list pt) al be ga de fs fs', al <> 0 ->
  g_line_fit RNum (map px l) (map py l) = Ok fs ->
  g_line_fit RNum (map (fun p => al * px p + be) l) (map (fun p => ga * py p + de) l) = Ok fs' ->
  let cab := fs_r fs * fs_au fs * fs_bu fs in
  fs_ssr fs' = ga * ga * fs_ssr fs /\
  fs_bu fs' = Rabs (ga / al) * fs_bu fs /\
  fs_au fs' * fs_au fs' = ga * ga * (fs_au fs * fs_au fs - 2 * (be / al) * cab + (be / al) * (be / al) * (fs_bu fs * fs_bu fs)) /\
  fs_r fs' * fs_au fs' * fs_bu fs' = ga * ga / al * (cab - be / al * (fs_bu fs * fs_bu fs)).
Proof. exact ols_full_equivariant. Qed.
Print Assumptions C13_ols_equivariance_full.

(* (5e) and the weighted fit in full: (X^T W X)^-1 does not involve y, so ga does not enter
   the covariance matrix; ssr' = ga^2 ssr *)
Theorem C13_wls_equivariance_full :
  forall (l : list pt) al be ga de dof fs fs', al <> 0 ->
  g_line_fit_wls RNum (map px l) (map py l) (map pu l) dof = Ok fs ->
  g_line_fit_wls RNum (map (fun p => al * px p + be) l) (map (fun p => ga * py p + de) l) (map pu l) dof = Ok fs' ->
  let cab := fs_r fs * fs_au fs * fs_bu fs in
  fs_ssr fs' = ga * ga * fs_ssr fs /\
  fs_bu fs' = fs_bu fs / Rabs al /\
  fs_au fs' * fs_au fs' = fs_au fs * fs_au fs - 2 * (be / al) * cab + (be / al) * (be / al) * (fs_bu fs * fs_bu fs) /\
  fs_r fs' * fs_au fs' * fs_bu fs' = (cab - be / al * (fs_bu fs * fs_bu fs)) / al.
Proof. exact wls_full_equivariant. Qed.
Print Assumptions C13_wls_equivariance_full.

(* (5f) and the residual-scaled weighted fit (line_fit_rwls), same scale factors: values, dof,
   N, ssr' = ga^2 ssr and -- sigma^2 = ssr/df scaling with ga^2 -- the covariance matrix as for OLS *)
Theorem C13_rwls_equivariance_full :
  forall (l : list pt) al be ga de dof fs fs', al <> 0 ->
  g_line_fit_rwls RNum (map px l) (map py l) (map pu l) dof = Ok fs ->
  g_line_fit_rwls RNum (map (fun p => al * px p + be) l) (map (fun p => ga * py p + de) l) (map pu l) dof = Ok fs' ->
  let cab := fs_r fs * fs_au fs * fs_bu fs in
  fs_bx fs' = ga * fs_bx fs / al /\ fs_ax fs' = ga * fs_ax fs + de - ga * fs_bx fs / al * be /\
  fs_df fs' = fs_df fs /\ fs_n fs' = fs_n fs /\
  fs_ssr fs' = ga * ga * fs_ssr fs /\
  fs_bu fs' = Rabs (ga / al) * fs_bu fs /\
  fs_au fs' * fs_au fs' = ga * ga * (fs_au fs * fs_au fs - 2 * (be / al) * cab + (be / al) * (be / al) * (fs_bu fs * fs_bu fs)) /\
  fs_r fs' * fs_au fs' * fs_bu fs' = ga * ga / al * (cab - be / al * (fs_bu fs * fs_bu fs)).
Proof. exact rwls_full_equivariant. Qed.
Print Assumptions C13_rwls_equivariance_full.

(* the same algebra for any design (weighted fits): transformed sums, transformed solution *)
Theorem C13_normal_eqs_equivariant :
  forall S Sx Sy Sxx Sxy a b al be ga de, al <> 0 ->
  a * S + b * Sx = Sy -> a * Sx + b * Sxx = Sxy ->
  (ga * a + de - ga * b / al * be) * S + ga * b / al * (al * Sx + be * S) = ga * Sy + de * S /\
  (ga * a + de - ga * b / al * be) * (al * Sx + be * S)
    + ga * b / al * (al * al * Sxx + 2 * al * be * Sx + be * be * S)
    = al * ga * Sxy + al * de * Sx + be * ga * Sy + be * de * S.
Proof. exact ne_equivariant. Qed.
Print Assumptions C13_normal_eqs_equivariant.

(* (6) totality: N >= 3 points, non-zero weights, non-degenerate design => the fits return.
   These make (1)-(3), (5) non-vacuous for every such data set. *)
Theorem C13_ols_total :
  forall l, (3 <= length l)%nat -> INR (length l) * mSxx l - mSx l * mSx l <> 0 ->
  exists fs, g_line_fit RNum (map px l) (map py l) = Ok fs.
Proof. exact ols_total. Qed.
Print Assumptions C13_ols_total.

Theorem C13_wls_total :
  forall l, (3 <= length l)%nat -> (forall p, In p l -> pu p <> 0) -> wDet l <> 0 ->
  exists fs, g_line_fit_wls RNum (map px l) (map py l) (map pu l) DofNone = Ok fs.
Proof. exact wls_total. Qed.
Print Assumptions C13_wls_total.

Theorem C13_rwls_total :
  forall l, (3 <= length l)%nat -> (forall p, In p l -> pu p <> 0) -> wDet l <> 0 ->
  exists fs, g_line_fit_rwls RNum (map px l) (map py l) (map pu l) DofNone = Ok fs.
Proof. exact rwls_total. Qed.
Print Assumptions C13_rwls_total.

(* (7) the extra input declared by each prediction method: value, standard uncertainty,
   dependent (so that it can join the fit's ensemble) *)
Theorem C13_predict_inputs :
  (forall ssr d ps, g_OLS_y_from_x RNum ssr (DFin d) = Ok ps ->
     ps_x ps = 0 /\ ps_u ps = sqrt (ssr / d) /\ 0 <= ssr / d /\ ps_indep ps = Some false) /\
  (forall ssr d ys ps, g_OLS_x_from_y RNum ssr (DFin d) ys = Ok ps ->
     let p := INR (length ys) in
     ps_x ps = sumf ys / p /\ ps_u ps = sqrt (ssr / d / p) /\ ps_indep ps = Some false /\ p <> 0) /\
  (forall ssr d ys sy ps, g_RWLS_x_from_y RNum ssr (DFin d) ys sy = Ok ps ->
     let p := INR (length ys) in
     ps_x ps = sumf ys / p /\ ps_u ps = sy * sqrt (ssr / d / p) /\ ps_indep ps = Some false /\ p <> 0) /\
  (forall ssr df ys u ps, g_WLS_x_from_y RNum ssr df ys u = Ok ps ->
     let p := INR (length ys) in
     ps_x ps = sumf ys / p /\ ps_u ps = u / sqrt p /\ ps_indep ps = Some false /\ p <> 0).
Proof.
  split; [exact ols_y_from_x_input|]. split; [exact ols_x_from_y_input|].
  split; [exact rwls_x_from_y_input|exact wls_x_from_y_input].
Qed.
Print Assumptions C13_predict_inputs.

(* (8) formerly REFUTED, now repaired in GTC/type_a.py (findings C13-wls-y_from_x-typeerror,
   C13-rwls-y_from_x-typeerror, C13-rwls-y_from_x-scale are FIXED): the noise input of
   LineFitWLS.y_from_x and LineFitRWLS.y_from_x is a dependent input of value 0 with u = s_y resp.
   s_y*sqrt(ssr/df); they are total; and the RWLS scale agrees with the one x_from_y uses *)
Theorem C13_y_from_x_wls_rwls_inputs :
  (forall ssr df sy ps, g_WLS_y_from_x RNum ssr df sy = Ok ps ->
     ps_x ps = 0 /\ ps_u ps = sy /\ ps_indep ps = Some false) /\
  (forall ssr d sy ps, g_RWLS_y_from_x RNum ssr (DFin d) sy = Ok ps ->
     ps_x ps = 0 /\ ps_u ps = sy * sqrt (ssr / d) /\ 0 <= ssr / d /\ ps_indep ps = Some false) /\
  (forall ssr df sy, exists ps, g_WLS_y_from_x RNum ssr df sy = Ok ps) /\
  (forall ssr d sy, d <> 0 -> 0 <= ssr / d ->
     (exists ps, g_OLS_y_from_x RNum ssr (DFin d) = Ok ps) /\ (exists ps, g_RWLS_y_from_x RNum ssr (DFin d) sy = Ok ps)).
Proof.
  split; [exact wls_y_from_x_input|]. split; [exact rwls_y_from_x_input|].
  split; [exact wls_y_from_x_total|exact y_from_x_total].
Qed.
Print Assumptions C13_y_from_x_wls_rwls_inputs.

Theorem C13_rwls_scale_consistent :
  forall ssr d sy y0 ps1 ps2,
    g_RWLS_y_from_x RNum ssr (DFin d) sy = Ok ps1 ->
    g_RWLS_x_from_y RNum ssr (DFin d) [y0] sy = Ok ps2 ->
    ps_u ps1 = ps_u ps2.
Proof. exact rwls_scale_consistent. Qed.
Print Assumptions C13_rwls_scale_consistent.

(* (9) dof through the ensemble: a number whose dependent components all belong to real members
   of ONE ensemble E of finite dof d (and which has no independent components) has dof d *)
Theorem C13_one_ensemble_dof :
  forall (s : KTypes.state R) (E : list key) (d : R), E <> [] -> d <> 0 ->
  forall (o : KTypes.ureal R) c,
    unode o = NoNode -> uc o = [] -> dc o <> [] -> in_ens s E d (dc o) -> vtot s (dc o) <> 0 ->
    exists var, welch_satterthwaite RNum s o c = Ok (var, DFin d, c) /\ var = vtot s (dc o).
Proof. exact one_ensemble_dof. Qed.
Print Assumptions C13_one_ensemble_dof.

(* (10) y_from_x(x = v) with a plain number, for LineFitOLS, LineFitWLS and LineFitRWLS alike.
   In a state where the fit's a and b are dependent elementary inputs (values xa, xb; u ua, ub) of
   dof d >= 1 in one ensemble E0 and the next uid kn is unused: the step declares the noise input
   (value 0, u = noise_u: sqrt(ssr/d) | s_y | s_y*sqrt(ssr/d), dof d, dependent), appends it to the
   ensemble seen through a, b and itself, and returns y with value xa + xb*v + 0, no independent
   components, components of uncertainty ua, v*ub, u(noise) w.r.t. a, b, noise, and - when its
   variance is not 0 - dof d: the fit's dof is kept. *)
Theorem C13_y_from_x_predicts :
  forall (s : KTypes.state (T RNum)) (f : fit (T RNum)) (xa ua xb ub d : R) (ka kb : key)
         (ca cb : option (T RNum)) (la lb : leaf (T RNum)) (E0 : list key) extra ps v fits,
  let kn := (s_ctx s, (s_ne s + 1)%Z) in
  nth_error (s_slots s) (ft_a f) = Some (SReal (dep_input xa ka ua) ca) ->
  nth_error (s_slots s) (ft_b f) = Some (SReal (dep_input xb kb ub) cb) ->
  Kernel.assoc (s_leaves s) ka = Some la -> Kernel.assoc (s_leaves s) kb = Some lb ->
  l_indep la = false /\ l_df la = DFin d /\ l_cplx la = None ->
  l_indep lb = false /\ l_df lb = DFin d /\ l_cplx lb = None ->
  l_ens lb = l_ens la -> (l_ens la < length (s_ens s))%nat -> nth (l_ens la) (s_ens s) [] = E0 ->
  kmem ka E0 = true -> kmem kb E0 = true -> Kernel.assoc (s_leaves s) kn = None -> 1 <= d ->
  pred_spec_y RNum (ft_cls f) (ft_ssr f) (DFin d) extra = Ok ps ->
  (forall sy, extra = Some sy -> 0 <= sy) ->
  let un := noise_u (ft_cls f) (ft_ssr f) d extra in
  exists s1 nz y,
    let s2 := push RNum s1 (SReal nz None) in
    let s3 := push RNum s2 (SReal y None) in
    nz = dep_input 0 kn un /\
    snd (do_y_from_x RNum (mkF s fits) f (ANum v) extra None None) =
      OutList [leaf_out RNum s3 nz; leaf_out RNum s3 (dep_input xa ka ua); dump RNum y] /\
    ux y = xa + xb * v + 0 /\ uc y = [] /\ unode y = NoNode /\
    (forall k, get0 (N:=RNum) (dc y) k =
               (if keqb k ka then ua else 0) + (if keqb k kb then v * ub else 0) + (if keqb k kn then un else 0)) /\
    (exists ln, leaf_of RNum s2 kn = Ok ln /\ l_u ln = un /\ l_df ln = DFin d /\ l_indep ln = false /\
                ens_of RNum s2 ln = kinsert kn E0 /\ ens_of RNum s2 la = kinsert kn E0 /\ ens_of RNum s2 lb = kinsert kn E0) /\
    (vtot s2 (dc y) <> 0 ->
     exists var, welch_satterthwaite RNum s2 y None = Ok (var, DFin d, None) /\ var = vtot s2 (dc y)).
Proof. exact y_from_x_all_classes. Qed.
Print Assumptions C13_y_from_x_predicts.

(* non-vacuity of (10): a WLS fit object (a = 1 +- 1/2, b = 2 +- 1/4, dof 4, one ensemble) and s_y = 1/2 *)
Definition pk1 : key := (1%Z, 1%Z).
Definition pk2 : key := (1%Z, 2%Z).
Definition p_la : leaf (T RNum) := mkLeaf (/ 2) (DFin 4) false [(pk1, 1); (pk2, / 2)] 2%nat None None.
Definition p_lb : leaf (T RNum) := mkLeaf (/ 4) (DFin 4) false [(pk2, 1); (pk1, / 2)] 2%nat None None.
Definition p_state : KTypes.state (T RNum) :=
  mkS 1%Z 2%Z 0%Z [(pk1, p_la); (pk2, p_lb)] [] [[]; []; [pk1; pk2]]
      [SReal (dep_input 1 pk1 (/ 2)) None; SReal (dep_input 2 pk2 (/ 4)) None].
Definition p_fit : fit (T RNum) := mkFit CWLS 0%nat 1%nat 3 5%Z.

Example C13_predict_nonvacuous :
  nth_error (s_slots p_state) (ft_a p_fit) = Some (SReal (dep_input 1 pk1 (/ 2)) None) /\
  nth_error (s_slots p_state) (ft_b p_fit) = Some (SReal (dep_input 2 pk2 (/ 4)) None) /\
  Kernel.assoc (s_leaves p_state) pk1 = Some p_la /\ Kernel.assoc (s_leaves p_state) pk2 = Some p_lb /\
  (l_indep p_la = false /\ l_df p_la = DFin 4 /\ l_cplx p_la = None) /\
  (l_indep p_lb = false /\ l_df p_lb = DFin 4 /\ l_cplx p_lb = None) /\
  l_ens p_lb = l_ens p_la /\ (l_ens p_la < length (s_ens p_state))%nat /\
  nth (l_ens p_la) (s_ens p_state) [] = [pk1; pk2] /\
  kmem pk1 [pk1; pk2] = true /\ kmem pk2 [pk1; pk2] = true /\
  Kernel.assoc (s_leaves p_state) (s_ctx p_state, (s_ne p_state + 1)%Z) = None /\ 1 <= 4 /\
  pred_spec_y RNum (ft_cls p_fit) (ft_ssr p_fit) (DFin 4) (Some (/ 2)) = Ok (mkPS 0 (/ 2) (Some false)) /\
  (forall sy, Some (/ 2) = Some sy -> 0 <= sy).
Proof.
  repeat split; try reflexivity; try (simpl; lia); try lra.
  intros sy H. injection H as <-. lra.
Qed.
Print Assumptions C13_predict_nonvacuous.

(* (11) the correlation r_ab goes through type_a._clip_r (g_fit_clip_r, regenerated).  Over the reals
   |r_ab| <= 1 (Cauchy-Schwarz), so the clip is the identity and (1)-(3) keep their statements; in every
   binary64 run (any oracle table) that returns, the r_ab handed to a.set_correlation is _clip_r of the
   computed quotient: that quotient itself, or exactly +-1 (which set_correlation accepts) when rounding
   pushed it just outside [-1,1] (x far from zero; finding C11-6). *)
Theorem C13_clip_identity_over_reals :
  (forall r, Rabs r <= 1 -> g_fit_clip_r RNum r = Ok r) /\
  (forall S Stt Sx sa sb, 0 < S -> 0 < Stt -> 0 < sa -> 0 < sb ->
     sa * sa = (1 + Sx * Sx / (S * Stt)) / S -> sb * sb = 1 / Stt ->
     Rabs (- Sx / (S * Stt * sa * sb)) <= 1).
Proof. split; [exact fit_clip_R|exact r_ab_le1]. Qed.

(* the line_fit_wtls wrapper re-declares the correlation r of the type-B (a, b) as _clip_r(r): over the reals
   the identity on [-1,1] *)
Theorem C13_wtls_r_identity_over_reals : forall r, Rabs r <= 1 -> g_line_fit_wtls_r RNum r = Ok r.
Proof. exact wtls_r_R. Qed.
Print Assumptions C13_wtls_r_identity_over_reals.
Print Assumptions C13_clip_identity_over_reals.

(* the binary64 half of (11), C13_r_ab_clipped_float, is at the end of this file *)

(* non-vacuity: a concrete data set meeting the hypotheses of the totality theorems *)
Definition ex_l : list pt := [(0, 1, 1); (1, 3, 2); (2, 2, 1); (4, 6, / 2)].

Example C13_nonvacuous :
  (3 <= length ex_l)%nat /\ (forall p, In p ex_l -> pu p <> 0) /\ wDet ex_l <> 0 /\
  INR (length ex_l) * mSxx ex_l - mSx ex_l * mSx ex_l <> 0.
Proof.
  split; [simpl; auto with arith|]. split.
  - intros p [<-|[<-|[<-|[<-|[]]]]]; unfold pu; simpl; lra.
  - unfold wDet, wS, wSx, wSxx, mSxx, mSx, Sw, Sm, sumf, ex_l, px, py, pu. simpl. split; lra.
Qed.
Print Assumptions C13_nonvacuous.

(* (11), binary64 half *)
From Coq Require Import PrimFloat.
Local Close Scope R_scope.
Theorem C13_r_ab_clipped_float :
  forall tbl,
  (forall x y fs, g_line_fit (FNum.FNum tbl) x y = Ok fs ->
     exists r0, g_fit_clip_r (FNum.FNum tbl) r0 = Ok (fs_r fs) /\
                (fs_r fs = r0 \/ fs_r fs = 1%float \/ fs_r fs = (-1)%float)) /\
  (forall x y u dof fs, g_line_fit_wls (FNum.FNum tbl) x y u dof = Ok fs ->
     exists r0, g_fit_clip_r (FNum.FNum tbl) r0 = Ok (fs_r fs) /\
                (fs_r fs = r0 \/ fs_r fs = 1%float \/ fs_r fs = (-1)%float)) /\
  (forall x y u dof fs, g_line_fit_rwls (FNum.FNum tbl) x y u dof = Ok fs ->
     exists r0, g_fit_clip_r (FNum.FNum tbl) r0 = Ok (fs_r fs) /\
                (fs_r fs = r0 \/ fs_r fs = 1%float \/ fs_r fs = (-1)%float)) /\
  (forall r c, g_line_fit_wtls_r (FNum.FNum tbl) r = Ok c ->
     g_fit_clip_r (FNum.FNum tbl) r = Ok c /\ (c = r \/ c = 1%float \/ c = (-1)%float)) /\
  (PrimFloat.ltb 1%float (PrimFloat.abs 1%float) = false /\
   PrimFloat.ltb 1%float (PrimFloat.abs (-1)%float) = false).
Proof.
  intros tbl. split; [exact (ols_r_clipped tbl)|]. split; [exact (wls_r_clipped tbl)|].
  split; [exact (rwls_r_clipped tbl)|]. split; [exact (wtls_r_clipped tbl)|exact clipped_one_accepted].
Qed.
Print Assumptions C13_r_ab_clipped_float.

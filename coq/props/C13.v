(* props/C13.v -- Property C13: type-A line fits equal the least-squares solution and predict
   consistently.  Only statements, closed by lemmas proved in LineFitAFacts.v, plus the axioms
   each depends on.  Everything is about the GENERATED formulas of gen/Gen_type_a_fit.v
   (translated from GTC/type_a.py on every run) and the model LineFitA.v, over the reals.

   Notation.  A data set is a list l of points p = (px p, py p, pu p) (pu: uncertainty or
   scale factor; unused by OLS).  Sw g l = sum g(p)/u_p^2, Sm g l = sum g(p).
   ls_sol S Sx Sy Sxx Sxy q a b ua ub r  :=  a*S + b*Sx = Sy,  a*Sx + b*Sxx = Sxy,
     0 < D := S*Sxx - Sx^2,  ua^2 = q*Sxx/D,  ub^2 = q*S/D,  r*ua*ub = -q*Sx/D,  0 <= ua, ub
   i.e. (a,b) solves the (weighted) normal equations and (ua, ub, r) describe q (X^T W X)^-1. *)
From Coq Require Import ZArith List Bool Reals Lra.
From GTCV Require Import Num RNum Vector Opres KTypes Kernel FitLib LineFitA LineFitAFacts.
From GTCV.gen Require Import Gen_type_a_fit.
Import ListNotations.
Local Open Scope R_scope.

(* (1) line_fit (OLS): whenever it returns, the result is the least-squares solution with
   sigma^2 = ssr/(N-2), df = N-2, ssr the residual sum, N the number of points; the arguments
   had equal length >= 3. *)
Theorem C13_ols_normal_eqs :
  forall xs ys fs, g_line_fit RNum xs ys = Ok fs ->
  exists l, xs = map px l /\ ys = map py l /\ (3 <= length l)%nat /\
    let n := INR (length l) in
    fs_df fs = DFin (n - 2) /\ 0 <= fs_ssr fs / (n - 2) /\
    ls_sol n (mSx l) (mSy l) (mSxx l) (mSxy l) (fs_ssr fs / (n - 2))
           (fs_ax fs) (fs_bx fs) (fs_au fs) (fs_bu fs) (fs_r fs) /\
    fs_ssr fs = Sm (fun p => wres (fs_ax fs) (fs_bx fs) p * wres (fs_ax fs) (fs_bx fs) p) l /\
    fs_n fs = Z.of_nat (length l).
Proof. exact ols_sound. Qed.
Print Assumptions C13_ols_normal_eqs.

(* (2) line_fit_wls: exact weights (sigma^2 = 1), df = inf unless given *)
Theorem C13_wls_normal_eqs :
  forall xs ys us dof fs, g_line_fit_wls RNum xs ys us dof = Ok fs ->
  exists l, xs = map px l /\ ys = map py l /\ us = map pu l /\ (3 <= length l)%nat /\
    wls_spec l (fs_ax fs) (fs_bx fs) (fs_au fs) (fs_bu fs) (fs_r fs) (fs_ssr fs) /\
    fs_n fs = Z.of_nat (length l) /\ dof_rule dof DInf (fs_df fs).
Proof. exact wls_sound. Qed.
Print Assumptions C13_wls_normal_eqs.

Theorem C13_wls_spec_is_solution :
  forall l a b sa sb r ssr, wls_spec l a b sa sb r ssr ->
    ls_sol (wS l) (wSx l) (wSy l) (wSxx l) (wSxy l) 1 a b sa sb r /\
    ssr = Sw (fun p => wres a b p * wres a b p) l /\ (forall p, In p l -> pu p <> 0).
Proof.
  intros l a b sa sb r ssr H. split; [exact (wls_spec_sol _ _ _ _ _ _ _ H)|].
  split; [exact (ws_ssr _ _ _ _ _ _ _ H)|exact (ws_w _ _ _ _ _ _ _ H)].
Qed.
Print Assumptions C13_wls_spec_is_solution.

(* (3) line_fit_rwls: residual-scaled (sigma^2 = ssr/df), df = N-2 unless given *)
Theorem C13_rwls_normal_eqs :
  forall xs ys ss dof fs, g_line_fit_rwls RNum xs ys ss dof = Ok fs ->
  exists l d, xs = map px l /\ ys = map py l /\ ss = map pu l /\
    (forall p, In p l -> pu p <> 0) /\
    dof_rule dof (DFin (IZR (Z.of_nat (length l) - 2))) (fs_df fs) /\ fs_df fs = DFin d /\ d <> 0 /\
    0 <= fs_ssr fs / d /\
    ls_sol (wS l) (wSx l) (wSy l) (wSxx l) (wSxy l) (fs_ssr fs / d)
           (fs_ax fs) (fs_bx fs) (fs_au fs) (fs_bu fs) (fs_r fs) /\
    fs_ssr fs = Sw (fun p => wres (fs_ax fs) (fs_bx fs) p * wres (fs_ax fs) (fs_bx fs) p) l /\
    fs_n fs = Z.of_nat (length l).
Proof. exact rwls_sound. Qed.
Print Assumptions C13_rwls_normal_eqs.

(* (4) the solution is unique: any two results described by ls_sol for the same sums agree *)
Theorem C13_solution_unique :
  forall S Sx Sy Sxx Sxy q a b ua ub r a' b' ua' ub' r',
  ls_sol S Sx Sy Sxx Sxy q a b ua ub r -> ls_sol S Sx Sy Sxx Sxy q a' b' ua' ub' r' ->
  a = a' /\ b = b' /\ ua = ua' /\ ub = ub' /\ r * ua * ub = r' * ua' * ub'.
Proof. exact ls_sol_unique. Qed.
Print Assumptions C13_solution_unique.

(* (5) RWLS with equal scale factors equals OLS (values, uncertainties, covariance, df, N;
   ssr is the OLS one in units of the common scale factor) *)
Theorem C13_rwls_eq_ols :
  forall (l : list pt) c fw fo, c <> 0 ->
  g_line_fit_rwls RNum (map px l) (map py l) (map (fun _ => c) l) DofNone = Ok fw ->
  g_line_fit RNum (map px l) (map py l) = Ok fo ->
  fs_ax fw = fs_ax fo /\ fs_bx fw = fs_bx fo /\ fs_au fw = fs_au fo /\ fs_bu fw = fs_bu fo /\
  fs_r fw * fs_au fw * fs_bu fw = fs_r fo * fs_au fo * fs_bu fo /\
  fs_df fw = fs_df fo /\ fs_n fw = fs_n fo /\ fs_ssr fw = fs_ssr fo / (c * c).
Proof. exact rwls_equal_scale_is_ols. Qed.
Print Assumptions C13_rwls_eq_ols.

(* (5b) equivariance (PARTIAL: values, df and N; the uncertainties and ssr are not covered by
   this theorem): fitting al*x+be, ga*y+de gives b' = ga*b/al, a' = ga*a + de - b'*be *)
Theorem C13_ols_equivariance_partial :
  forall (l : list pt) al be ga de fs fs', al <> 0 ->
  g_line_fit RNum (map px l) (map py l) = Ok fs ->
  g_line_fit RNum (map (fun p => al * px p + be) l) (map (fun p => ga * py p + de) l) = Ok fs' ->
  fs_bx fs' = ga * fs_bx fs / al /\ fs_ax fs' = ga * fs_ax fs + de - ga * fs_bx fs / al * be /\
  fs_df fs' = fs_df fs /\ fs_n fs' = fs_n fs.
Proof. exact ols_values_equivariant. Qed.
Print Assumptions C13_ols_equivariance_partial.

(* the same algebra for any design (weighted fits): transformed sums, transformed solution *)
Theorem C13_normal_eqs_equivariant :
  forall S Sx Sy Sxx Sxy a b al be ga de, al <> 0 ->
  a * S + b * Sx = Sy -> a * Sx + b * Sxx = Sxy ->
  (ga * a + de - ga * b / al * be) * S + ga * b / al * (al * Sx + be * S) = ga * Sy + de * S /\
  (ga * a + de - ga * b / al * be) * (al * Sx + be * S)
    + ga * b / al * (al * al * Sxx + 2 * al * be * Sx + be * be * S)
    = al * ga * Sxy + al * de * Sx + be * ga * Sy + be * de * S.
Proof. exact ne_equivariant. Qed.
Print Assumptions C13_normal_eqs_equivariant.

(* (6) totality: N >= 3 points, non-zero weights, non-degenerate design => the fits return.
   These make (1)-(3), (5) non-vacuous for every such data set. *)
Theorem C13_ols_total :
  forall l, (3 <= length l)%nat -> INR (length l) * mSxx l - mSx l * mSx l <> 0 ->
  exists fs, g_line_fit RNum (map px l) (map py l) = Ok fs.
Proof. exact ols_total. Qed.
Print Assumptions C13_ols_total.

Theorem C13_wls_total :
  forall l, (3 <= length l)%nat -> (forall p, In p l -> pu p <> 0) -> wDet l <> 0 ->
  exists fs, g_line_fit_wls RNum (map px l) (map py l) (map pu l) DofNone = Ok fs.
Proof. exact wls_total. Qed.
Print Assumptions C13_wls_total.

Theorem C13_rwls_total :
  forall l, (3 <= length l)%nat -> (forall p, In p l -> pu p <> 0) -> wDet l <> 0 ->
  exists fs, g_line_fit_rwls RNum (map px l) (map py l) (map pu l) DofNone = Ok fs.
Proof. exact rwls_total. Qed.
Print Assumptions C13_rwls_total.

(* (7) the extra input declared by each prediction method: value, standard uncertainty,
   dependent (so that it can join the fit's ensemble) *)
Theorem C13_predict_inputs :
  (forall ssr d ps, g_OLS_y_from_x RNum ssr (DFin d) = Ok ps ->
     ps_x ps = 0 /\ ps_u ps = sqrt (ssr / d) /\ 0 <= ssr / d /\ ps_indep ps = Some false) /\
  (forall ssr d ys ps, g_OLS_x_from_y RNum ssr (DFin d) ys = Ok ps ->
     let p := INR (length ys) in
     ps_x ps = sumf ys / p /\ ps_u ps = sqrt (ssr / d / p) /\ ps_indep ps = Some false /\ p <> 0) /\
  (forall ssr d ys sy ps, g_RWLS_x_from_y RNum ssr (DFin d) ys sy = Ok ps ->
     let p := INR (length ys) in
     ps_x ps = sumf ys / p /\ ps_u ps = sy * sqrt (ssr / d / p) /\ ps_indep ps = Some false /\ p <> 0) /\
  (forall ssr df ys u ps, g_WLS_x_from_y RNum ssr df ys u = Ok ps ->
     let p := INR (length ys) in
     ps_x ps = sumf ys / p /\ ps_u ps = u / sqrt p /\ ps_indep ps = Some false /\ p <> 0).
Proof.
  split; [exact ols_y_from_x_input|]. split; [exact ols_x_from_y_input|].
  split; [exact rwls_x_from_y_input|exact wls_x_from_y_input].
Qed.
Print Assumptions C13_predict_inputs.

(* (8) REFUTED clauses (known findings, replayed on the implementation on every run):
   LineFitWLS.y_from_x and LineFitRWLS.y_from_x never return a value ... *)
Theorem C13_y_from_x_wls_rwls_refuted :
  forall (st : fstate (T RNum)) (f : fit (T RNum)) x extra sl yl,
  ft_cls f = CWLS \/ ft_cls f = CRWLS ->
  exists e, snd (do_y_from_x RNum st f x extra sl yl) = OutExn e.
Proof. exact y_from_x_never_returns. Qed.
Print Assumptions C13_y_from_x_wls_rwls_refuted.

(* ... and the RWLS noise scale sqrt(s_y*ssr/df) is not the s_y*sqrt(ssr/df) of x_from_y *)
Theorem C13_rwls_scale_refuted :
  exists ssr d sy ps1 ps2,
    g_RWLS_y_from_x RNum ssr (DFin d) sy = Ok ps1 /\
    g_RWLS_x_from_y RNum ssr (DFin d) [0] sy = Ok ps2 /\
    ps_u ps1 = 2 /\ ps_u ps2 = 4.
Proof. exact rwls_scale_refuted. Qed.
Print Assumptions C13_rwls_scale_refuted.

(* non-vacuity: a concrete data set meeting the hypotheses of the totality theorems *)
Definition ex_l : list pt := [(0, 1, 1); (1, 3, 2); (2, 2, 1); (4, 6, / 2)].

Example C13_nonvacuous :
  (3 <= length ex_l)%nat /\ (forall p, In p ex_l -> pu p <> 0) /\ wDet ex_l <> 0 /\
  INR (length ex_l) * mSxx ex_l - mSx ex_l * mSx ex_l <> 0.
Proof.
  split; [simpl; auto with arith|]. split.
  - intros p [<-|[<-|[<-|[<-|[]]]]]; unfold pu; simpl; lra.
  - unfold wDet, wS, wSx, wSxx, mSxx, mSx, Sw, Sm, sumf, ex_l, px, py, pu. simpl. split; lra.
Qed.
Print Assumptions C13_nonvacuous.

(* props/C04.v -- Property C04: uncertainty, covariance and correlation obey the law of
   propagation of uncertainty (real kernel).  Statements only. *)
From Coq Require Import ZArith List Bool Reals Lra.
From GTCV Require Import Num RNum Vector VectorFacts Opres KTypes Kernel LPU.
Import ListNotations.
Local Open Scope R_scope.

(* variance(y) = sum over independent components of c_i^2 + the full double sum
   sum_ij c_i r_ij c_j over the dependent components (r_ii = 1, r symmetric) -- the
   triangular loops of std_variance_real count every pair exactly once, for vectors of any
   length *)
Theorem C04_variance_is_LPU_double_sum :
  forall (s : KTypes.state R) (o : KTypes.ureal R),
    leaves_exist s (dc o) -> corr_sym_on s (dc o) ->
    std_variance_real RNum s o = Ok (vsum (fun _ u => u * u) (uc o) + dsum s (dc o) (dc o)).
Proof. exact std_variance_spec. Qed.
Print Assumptions C04_variance_is_LPU_double_sum.

Theorem C04_covariance_is_LPU_double_sum :
  forall (s : KTypes.state R) (o1 o2 : KTypes.ureal R),
    leaves_exist s (dc o1) ->
    std_covariance_real RNum s o1 o2 =
    Ok (vsum (fun k u => u * vget RNum (uc o2) k) (uc o1) + dsum s (dc o1) (dc o2)).
Proof. exact std_covariance_spec. Qed.
Print Assumptions C04_covariance_is_LPU_double_sum.

Theorem C04_covariance_symmetric :
  forall (s : KTypes.state R) (a b : KTypes.ureal R),
    leaves_exist s (dc a) -> leaves_exist s (dc b) ->
    Vector.sorted (N:=RNum) (uc a) -> Vector.sorted (N:=RNum) (uc b) ->
    (forall k k', In k (map fst (dc a)) -> In k' (map fst (dc b)) -> Rs s k k' = Rs s k' k) ->
    std_covariance_real RNum s a b = std_covariance_real RNum s b a.
Proof. exact covariance_symmetric. Qed.
Print Assumptions C04_covariance_symmetric.

Theorem C04_covariance_self_is_variance :
  forall (s : KTypes.state R) (y : KTypes.ureal R),
    leaves_exist s (dc y) -> corr_sym_on s (dc y) -> Vector.sorted (N:=RNum) (uc y) ->
    std_covariance_real RNum s y y = std_variance_real RNum s y.
Proof. exact covariance_self_is_variance. Qed.
Print Assumptions C04_covariance_self_is_variance.

(* get_correlation returns what set_correlation stored, in either argument order *)
Theorem C04_set_then_get :
  forall (s : KTypes.state R) r (o1 o2 : KTypes.ureal R) k1 k2 s',
    unode o1 = LeafRef k1 -> unode o2 = LeafRef k2 -> keqb k1 k2 = false ->
    set_correlation_real RNum s r o1 o2 = Ok s' ->
    get_correlation_real RNum s' o1 o2 = Ok r /\ get_correlation_real RNum s' o2 o1 = Ok r.
Proof. exact set_then_get. Qed.
Print Assumptions C04_set_then_get.

(* the full statement "get returns exactly what set declared" is false of the faithful model
   (known finding C04-set-zero): declaring 0 after 1/2 leaves 1/2 *)
Theorem C04_set_zero_refuted :
  exists s a b s',
    get_correlation_real RNum s a b = Ok (/ 2) /\
    set_correlation RNum s 0 a b = Ok s' /\
    get_correlation_real RNum s' a b = Ok (/ 2) /\ / 2 <> 0.
Proof. exact set_get_zero_refuted. Qed.
Print Assumptions C04_set_zero_refuted.

(* non-vacuity: the two-leaf state above meets the hypotheses of the variance theorem for
   y = x1 + x2 (dependent components [(k1,1);(k2,1)], r12 = 1/2): variance 3 *)
Definition y12 : KTypes.ureal R := mkU 7 [] [(kz1, 1); (kz2, 1)] [] NoNode.
Example C04_nonvacuous :
  leaves_exist zstate (dc y12) /\ corr_sym_on zstate (dc y12) /\
  std_variance_real RNum zstate y12 = Ok 3.
Proof.
  assert (E : leaves_exist zstate (dc y12)).
  { intros k [<-|[<-|[]]]; eexists; reflexivity. }
  assert (S : corr_sym_on zstate (dc y12)).
  { split.
    - intros k k' [<-|[<-|[]]] [<-|[<-|[]]]; reflexivity.
    - intros k [<-|[<-|[]]]; reflexivity. }
  split; [exact E|split; [exact S|]].
  rewrite std_variance_spec by assumption. f_equal.
  unfold dsum, y12, Rs; simpl. unfold corr_get; simpl. cbn [zero of_Z RNum]. lra.
Qed.

(* ---------- the same, with no hypotheses, for every reachable state: after ANY history of
   session operations (declarations, correlations, operators, result(), reads, failing calls)
   and for ANY uncertain number present ---------- *)
From GTCV Require Import Invariant Reachable.

Theorem C04_reachable_variance :
  forall ctx (p : list (KTypes.op R)) i o c,
    let s := fst (run RNum (init RNum ctx) p) in
    nth_error (s_slots s) i = Some (SReal o c) ->
    std_variance_real RNum s o = Ok (vsum (fun _ u => u * u) (uc o) + dsum s (dc o) (dc o)) /\
    std_covariance_real RNum s o o = std_variance_real RNum s o.
Proof. exact reachable_variance. Qed.
Print Assumptions C04_reachable_variance.

Theorem C04_reachable_covariance_symmetric :
  forall ctx (p : list (KTypes.op R)) i j a ca b cb,
    let s := fst (run RNum (init RNum ctx) p) in
    nth_error (s_slots s) i = Some (SReal a ca) -> nth_error (s_slots s) j = Some (SReal b cb) ->
    std_covariance_real RNum s a b = std_covariance_real RNum s b a.
Proof. exact reachable_covariance_symmetric. Qed.
Print Assumptions C04_reachable_covariance_symmetric.

(* the well-formedness invariant itself (sorted vectors over registered leaves of the right
   kind, symmetric unit-diagonal correlation tables) holds in every reachable state, for the
   binary64 instance too *)
Theorem C04_invariant_reachable :
  forall (N : Num), eqb N (one N) (one N) = true ->
  forall ctx (p : list (KTypes.op (T N))), Inv N (fst (run N (init N ctx) p)).
Proof. exact reachable_Inv. Qed.
Print Assumptions C04_invariant_reachable.

(* ---------- |correlation| <= 1 whenever the declared correlation matrix is positive
   semi-definite (Cauchy-Schwarz for the LPU form; vectors of any length) ---------- *)
From GTCV Require Import CauchySchwarz ReachableCS.

(* the hypothesis: for every weighting d of the dependent inputs, sum_ij d_i r_ij d_j >= 0 *)
Theorem C04_cauchy_schwarz_reachable :
  forall ctx (p : list (KTypes.op R)) i j a ca b cb c va vb,
    let s := fst (run RNum (init RNum ctx) p) in
    psd_on s (dep_leaf s) ->
    nth_error (s_slots s) i = Some (SReal a ca) -> nth_error (s_slots s) j = Some (SReal b cb) ->
    std_covariance_real RNum s a b = Ok c ->
    std_variance_real RNum s a = Ok va -> std_variance_real RNum s b = Ok vb ->
    0 <= va /\ 0 <= vb /\ c * c <= va * vb.
Proof. exact reachable_cauchy_schwarz. Qed.
Print Assumptions C04_cauchy_schwarz_reachable.

(* get_correlation(a, b) = cov / sqrt(var var) of two numbers, at least one of them a result,
   in any reachable state *)
Theorem C04_correlation_in_unit_interval :
  forall ctx (p : list (KTypes.op R)) i j a ca b cb r,
    let s := fst (run RNum (init RNum ctx) p) in
    psd_on s (dep_leaf s) ->
    nth_error (s_slots s) i = Some (SReal a ca) -> nth_error (s_slots s) j = Some (SReal b cb) ->
    ((forall k, unode a <> LeafRef k) \/ (forall k, unode b <> LeafRef k)) ->
    get_correlation_real RNum s a b = Ok r -> -1 <= r <= 1.
Proof. exact reachable_correlation_bounded. Qed.
Print Assumptions C04_correlation_in_unit_interval.

(* and the coefficient recorded between two elementary inputs *)
Theorem C04_declared_coefficient_in_unit_interval :
  forall ctx (p : list (KTypes.op R)) k1 k2,
    let s := fst (run RNum (init RNum ctx) p) in
    psd_on s (dep_leaf s) -> dep_leaf s k1 -> dep_leaf s k2 -> -1 <= Rs s k1 k2 <= 1.
Proof. exact reachable_declared_bounded. Qed.
Print Assumptions C04_declared_coefficient_in_unit_interval.

(* PSD can be established from a factorisation r_ij = sum_m f_m(i) f_m(j), and the hypotheses
   are satisfiable: two inputs with r = 3/5, two results with non-zero covariance *)
Theorem C04_psd_of_factors :
  forall s (K : key -> Prop) (fs : list (key -> R)),
    (forall k k', K k -> K k' -> Rs s k k' = gram fs k k') -> psd_on s K.
Proof. exact psd_of_factors. Qed.
Print Assumptions C04_psd_of_factors.

Example C04_cauchy_schwarz_nonvacuous :
  psd_on cs_state cs_K /\ sym_on cs_state cs_K /\ (forall k, cs_K k -> Rs cs_state k k = 1) /\
  well_placed cs_state cs_K cs_y1 /\ well_placed cs_state cs_K cs_y2 /\
  (exists c, std_covariance_real RNum cs_state cs_y1 cs_y2 = Ok c /\ c <> 0).
Proof. exact cs_hypotheses_hold. Qed.

(* ---------- uncertain complex numbers: a 4-element covariance passed to ucomplex is
   reproduced by variance() (the matrix cprop_v assembles from the variances of the two
   components and their covariance, CKernel.v), in every reachable session state ---------- *)
From GTCV Require Import Cplx CplxR CKernel CVariance.

Theorem C04_ucomplex_covariance_matrix_reproduced :
  forall (s : KTypes.state R) zr zi vr c vi df label indep s' re im,
    Inv RNum s -> 0 < vr -> 0 < vi -> c <> 0 ->
    ucomplex_decl RCNum s (@PC RCNum zr zi) (USeq4 vr c c vi) df label indep = Ok (s', DElem RCNum re im) ->
    prop_v RNum s' re None = Ok (vr, None) /\
    prop_v RNum s' im None = Ok (vi, None) /\
    std_covariance_real RNum s' re im = Ok c /\
    std_covariance_real RNum s' im re = Ok c.
Proof. exact ucomplex_covariance_reproduced. Qed.
Print Assumptions C04_ucomplex_covariance_matrix_reproduced.

(* and for the (u_r, u_i, r) form: variances u_r^2, u_i^2, covariance u_r r u_i, both orders *)
Theorem C04_ucomplex_elementary_variance :
  forall (s : KTypes.state R), Inv RNum s ->
  forall zr zi u_r u_i r df label s' re im,
    celementary RCNum s zr zi u_r u_i (Some r) df label false = Ok (s', re, im) ->
    prop_v RNum s' re None = Ok (u_r * u_r, None) /\
    prop_v RNum s' im None = Ok (u_i * u_i, None) /\
    std_covariance_real RNum s' re im = Ok (u_r * r * u_i) /\
    std_covariance_real RNum s' im re = Ok (u_r * r * u_i).
Proof. exact celementary_variance. Qed.
Print Assumptions C04_ucomplex_elementary_variance.

Example C04_ucomplex_covariance_nonvacuous :
  exists s' re im,
    ucomplex_decl RCNum (init RNum 1) (@PC RCNum 1 2) (USeq4 4 1 1 9) DInf None true = Ok (s', DElem RCNum re im).
Proof. exact ucomplex_covariance_nonvacuous. Qed.

(* uncertainty is the non-negative square root of the variance; get_correlation of results is
   covariance / sqrt(variance variance) (0 when the covariance is 0) *)
Theorem C04_uncertainty_is_sqrt_variance :
  forall (s : KTypes.state R) (o : KTypes.ureal R) u c',
    node_u RNum s o = Ok None -> prop_u RNum s o None = Ok (u, c') ->
    exists v, std_variance_real RNum s o = Ok v /\ 0 <= v /\ u = sqrt v /\ 0 <= u /\ u * u = v.
Proof. exact uncertainty_is_sqrt_variance. Qed.
Print Assumptions C04_uncertainty_is_sqrt_variance.

Theorem C04_correlation_is_normalised_covariance :
  forall (s : KTypes.state R) (a b : KTypes.ureal R) r,
    ((forall k, unode a <> LeafRef k) \/ (forall k, unode b <> LeafRef k)) ->
    get_correlation_real RNum s a b = Ok r ->
    exists va vb c, std_variance_real RNum s a = Ok va /\ std_variance_real RNum s b = Ok vb /\
                    std_covariance_real RNum s a b = Ok c /\
                    (c = 0 -> r = 0) /\ (c <> 0 -> r = c / sqrt (va * vb)).
Proof. exact correlation_is_normalised_covariance. Qed.
Print Assumptions C04_correlation_is_normalised_covariance.

(* ---------- DERIVED uncertain complex numbers: the matrix variance(z) reports for any complex
   result whose components are not declared intermediates and have not been read before is the
   LPU matrix [[var(re), cov(re,im)], [cov(re,im), var(im)]] of its two real components in the
   current session (var and cov being the functions proved equal to the double sums above) --
   for EVERY number instance, binary64 included; the cache-filling reads in between do not
   disturb the later ones.  Symmetric whatever was cached. ---------- *)
From Coq Require Import PrimFloat.
From GTCV Require Import CMatrix.

Theorem C04_complex_result_variance_is_LPU_matrix :
  forall (C : CNum) (s : cstate (T (cN C))) a j m jr ore ji oim s' v,
    get_cplx C s a = Ok (j, m, (jr, ore), (ji, oim)) ->
    cm_v m = None ->
    node_u (cN C) (ks s) ore = Ok None -> node_u (cN C) (ks s) oim = Ok None ->
    (exists x y, get_real (cN C) (ks s) jr = Ok (x, y, None)) ->
    (forall c, exists x y, get_real (cN C) (set_cache (cN C) (ks s) jr ore c) ji = Ok (x, y, None)) ->
    cprop_v C s a = (s', Ok v) ->
    lpu_matrix C (ks s) ore oim = Ok v.
Proof. exact cprop_v_fresh. Qed.
Print Assumptions C04_complex_result_variance_is_LPU_matrix.

Theorem C04_complex_result_variance_symmetric :
  forall (C : CNum) (s : cstate (T (cN C))) a j m jr ore ji oim s' vrr vri vir vii,
    get_cplx C s a = Ok (j, m, (jr, ore), (ji, oim)) -> cm_v m = None ->
    cprop_v C s a = (s', Ok (vrr, vri, vir, vii)) -> vri = vir.
Proof. exact cprop_v_symmetric. Qed.
Print Assumptions C04_complex_result_variance_symmetric.

(* non-vacuity: z1 + z2 in the binary64 instance meets every hypothesis; matrix [[1.25,0],[0,1.25]] *)
Example C04_complex_result_variance_nonvacuous :
  exists j m ore oim s',
    get_cplx cm_C cm_state 4 = Ok (j, m, (4%nat, ore), (5%nat, oim)) /\ cm_v m = None /\
    node_u (cN cm_C) (ks cm_state) ore = Ok None /\ node_u (cN cm_C) (ks cm_state) oim = Ok None /\
    (exists x y, get_real (cN cm_C) (ks cm_state) 4 = Ok (x, y, None)) /\
    (forall c, exists x y, get_real (cN cm_C) (set_cache (cN cm_C) (ks cm_state) 4 ore c) 5 = Ok (x, y, None)) /\
    cprop_v cm_C cm_state 4 = (s', Ok (0x1.4p+0, 0x0p+0, 0x0p+0, 0x1.4p+0)%float) /\
    lpu_matrix cm_C (ks cm_state) ore oim = Ok (0x1.4p+0, 0x0p+0, 0x0p+0, 0x1.4p+0)%float.
Proof. exact cprop_v_fresh_nonvacuous. Qed.

(* props/C01.v -- Property C01: uncertain-number arithmetic computes the same values as plain
   arithmetic (real kernel; the complex kernel is covered by correspondence, see DESIGN). *)
From Coq Require Import ZArith List Bool Reals Lra.
From Coquelicot Require Import Coquelicot.
From GTCV Require Import Num RNum Vector VectorFacts Opres KTypes Kernel DerivTable PowInt ChainRule ValueFacts.
Import ListNotations.
Local Open Scope R_scope.

(* (1) value(result) = the same expression evaluated with plain real arithmetic, for every
   expression tree, whatever mix of uncertain operands and plain numbers it contains;
   a result that is a plain number (x**0) included *)
Theorem C01_value_is_plain_arithmetic :
  forall (U : key -> R) (I : key -> bool) (e0 : env) (s : KTypes.state R)
         (Fi : nat -> env -> R) (e : Kernel.expr RNum) (o : Kernel.operand RNum),
    (forall i j o c, get_real RNum s i = Ok (j, o, c) -> Den U I e0 o (Fi i)) ->
    regular Fi e0 e ->
    eval_un RNum s e = Ok o ->
    valOp o = sem Fi e e0.
Proof.
  intros U I e0 s Fi e o Hin Hreg Hev.
  exact (DenOp_val U I e0 o (sem Fi e) (eval_un_sound U I e0 s Fi Hin e o Hreg Hev)).
Qed.
Print Assumptions C01_value_is_plain_arithmetic.

(* (1b) what `sem` says of ** : Python's value wherever Python returns a real number -- the
   repeated multiplication/division x ** n for an integer-valued exponent and ANY base
   (negative, zero for n >= 0), exp(y ln x) for a positive base -- and `regular` admits every
   base when the exponent is a plain integer-valued number, so (1) covers e.g. (a-b)**2 and
   (a-b)**-1 for a < b. *)
Theorem C01_power_is_python_power :
  forall (l r v : R), pow_R l r = Ok v -> binop_R B_pow l r = v.
Proof. intros l r v H. cbn [binop_R]. symmetry. apply pow_R_sem. exact H. Qed.
Print Assumptions C01_power_is_python_power.

Theorem C01_integer_power_any_base :
  forall (Fi : nat -> env -> R) (e0 : env) (e1 : Kernel.expr RNum) (n : Z),
    regular Fi e0 e1 ->
    regular Fi e0 (EBin RNum B_pow e1 (ENum RNum (IZR n))) /\
    (sem Fi e1 e0 <> 0 \/ (0 <= n)%Z ->
     sem Fi (EBin RNum B_pow e1 (ENum RNum (IZR n))) e0 = powerRZ (sem Fi e1 e0) n).
Proof.
  intros Fi e0 e1 n H. split.
  - simpl. repeat split; auto. right. split; [reflexivity|]. exists n; reflexivity.
  - intros Hc. cbn [sem binop_R]. apply pow_sem_int. exact Hc.
Qed.
Print Assumptions C01_integer_power_any_base.

(* (2) the role of an operand never matters: for EVERY number instance N (the binary64 one
   included), replacing an operand by any other object with the same value -- elementary,
   intermediate, constant or temporary, with any components -- gives the same value *)
Theorem C01_role_irrelevant_unary :
  forall (N : Num) f (a a' : KTypes.ureal (T N)),
    ux a = ux a' ->
    rmap (oval N a a) (apply_un N f a) = rmap (oval N a' a') (apply_un N f a').
Proof. exact apply_un_role_irrelevant. Qed.
Print Assumptions C01_role_irrelevant_unary.

Theorem C01_role_irrelevant_binary :
  forall (N : Num) f (a b a' b' : KTypes.ureal (T N)),
    ux a = ux a' -> ux b = ux b' ->
    rmap (oval N a b) (apply_bin N f (OpdU a) (OpdU b)) =
    rmap (oval N a' b') (apply_bin N f (OpdU a') (OpdU b')).
Proof. exact apply_bin_role_irrelevant_uu. Qed.
Print Assumptions C01_role_irrelevant_binary.

Theorem C01_role_irrelevant_mixed :
  forall (N : Num) f (a a' : KTypes.ureal (T N)) (v : T N),
    ux a = ux a' ->
    rmap (oval N a a) (apply_bin N f (OpdU a) (OpdN v)) = rmap (oval N a' a') (apply_bin N f (OpdU a') (OpdN v)) /\
    rmap (oval N a a) (apply_bin N f (OpdN v) (OpdU a)) = rmap (oval N a' a') (apply_bin N f (OpdN v) (OpdU a')).
Proof.
  intros; split; [apply apply_bin_role_irrelevant_un | apply apply_bin_role_irrelevant_nu]; auto.
Qed.
Print Assumptions C01_role_irrelevant_mixed.

(* phase(x) of an uncertain REAL number is the constant 0 in lib.py (UncertainReal._phase); the
   plain value cmath.phase(x) is pi for x < 0.  The value theorem above therefore carries the
   side condition 0 < x for phase ([reg_un]); for negative x the statement is FALSE of the
   faithful model (known finding C01-phase-negative-real) *)
Theorem C01_phase_negative_refuted :
  exists x y, g_unop RNum U_phase x = Ok (OConst y) /\ y = 0 /\ unop_R U_phase x = PI /\ PI <> 0.
Proof.
  exists (-1), (IZR 0 * powerRZ 2 0). split; [reflexivity|]. split; [simpl; ring|]. split.
  - unfold unop_R. destruct (Rlt_dec (-1) 0); [reflexivity|lra].
  - apply PI_neq0.
Qed.
Print Assumptions C01_phase_negative_refuted.

(* ---------- "never rejected with an internal error": whatever an expression tree over
   uncertain real numbers raises is an arithmetic error of the float operations on the VALUES
   (ZeroDivisionError / ValueError / OverflowError of a division or math-library call, incl. the
   documented derivative singularities), the complex-result signal, or TypeError for an operand
   that is not an uncertain real -- never AssertionError, KeyError, IndexError, AttributeError,
   RuntimeError or NotImplementedError.  For every number instance whose primitives raise only
   arithmetic errors (the reals do), every tree, every session state; the operator bodies are
   the ones regenerated from lib.py. ---------- *)
From GTCV Require Import Totality.

Theorem C01_real_expressions_never_fail_internally :
  forall (N : Num),
    (forall x y e, div N x y = Err e -> arith_exn e) ->
    (forall f x e, unary_fn f -> libm1 N f x = Err e -> arith_exn e) ->
    (forall f x y e, binary_fn f -> libm2 N f x y = Err e -> arith_exn e) ->
    forall (s : KTypes.state (T N)) (t : Kernel.expr N) e,
      eval_un N s t = Err e ->
      e <> AssertionError /\ e <> KeyError /\ e <> IndexError /\ e <> AttributeError /\ e <> RuntimeError /\
      e <> NotImplementedError /\ e <> OtherExn /\ e <> OracleMissing.
Proof. exact eval_un_never_internal. Qed.
Print Assumptions C01_real_expressions_never_fail_internally.

Theorem C01_real_expressions_total_over_reals :
  forall (s : KTypes.state R) (t : Kernel.expr RNum) e, eval_un RNum s t = Err e -> allowed_exn e.
Proof. exact eval_un_total_R. Qed.
Print Assumptions C01_real_expressions_total_over_reals.

(* props/C10.v -- Property C10: reported results do not depend on what was read or computed
   before.  Statements only. *)
From Coq Require Import ZArith List Bool Reals.
From GTCV Require Import Num RNum Vector Opres KTypes Kernel LPU History HistoryR.
Import ListNotations.

(* operands (and every other existing number) are never modified by an operation -- whether
   it succeeds or raises -- for every operation of the session machine and every history;
   only the lazily computed uncertainty cache of an object can be filled in *)
Theorem C10_step_keeps_objects :
  forall (N : Num) (s : KTypes.state (T N)) (o : KTypes.op (T N)), objs_kept N s (fst (step N s o)).
Proof. exact step_keeps_objects. Qed.
Print Assumptions C10_step_keeps_objects.

Theorem C10_history_keeps_objects :
  forall (N : Num) (p : list (KTypes.op (T N))) (s : KTypes.state (T N)), objs_kept N s (fst (run N s p)).
Proof. exact run_keeps_objects. Qed.
Print Assumptions C10_history_keeps_objects.

(* two reads agree *)
Theorem C10_read_idempotent :
  forall (N : Num) (s : KTypes.state (T N)) o c u c',
    prop_u N s o c = Ok (u, c') -> prop_u N s o c' = Ok (u, c').
Proof. exact read_u_idempotent. Qed.
Print Assumptions C10_read_idempotent.

(* variance(y) and get_covariance(y,y) agree *)
Theorem C10_variance_covariance_agree :
  forall (s : KTypes.state R) (y : KTypes.ureal R),
    leaves_exist s (dc y) -> corr_sym_on s (dc y) -> Vector.sorted (N:=RNum) (uc y) ->
    std_covariance_real RNum s y y = std_variance_real RNum s y.
Proof. exact covariance_self_is_variance. Qed.
Print Assumptions C10_variance_covariance_agree.

(* the full statement is FALSE of the faithful model (known finding C10-cache): a result read
   before a correlation among its inputs is declared keeps reporting the old uncertainty *)
Theorem C10_cache_refuted :
  exists (s : KTypes.state R) (y : KTypes.ureal R) (u_cached v_now : R),
    unode y = NoNode /\
    prop_u RNum s y (Some u_cached) = Ok (u_cached, Some u_cached) /\
    std_variance_real RNum s y = Ok v_now /\
    (u_cached * u_cached <> v_now)%R.
Proof. exact cache_leaks_history. Qed.
Print Assumptions C10_cache_refuted.

(* ---------- the positive half of history independence ----------
   [frame s s']: every leaf / node registered in s is registered in s' with the same
   uncertainty, dof, independence flag, correlation table, complex pairing and ensemble content.
   Every report that succeeds in s gives the same answer in s' (the reports depend on the
   session only through those attributes): *)
From GTCV Require Import Invariant Frame CacheValid.

Theorem C10_reports_depend_on_registered_attributes_only :
  forall (N : Num) (s s' : KTypes.state (T N)), frame N s s' ->
    (forall o c r, prop_u N s o c = Ok r -> prop_u N s' o c = Ok r) /\
    (forall o c r, prop_v N s o c = Ok r -> prop_v N s' o c = Ok r) /\
    (forall o c r, prop_df N s o c = Ok r -> prop_df N s' o c = Ok r) /\
    (forall y x r, u_component N s y x = Ok r -> u_component N s' y x = Ok r) /\
    (forall y x r, sensitivity N s y x = Ok r -> sensitivity N s' y x = Ok r) /\
    (forall a b r, get_covariance_real N s a b = Ok r -> get_covariance_real N s' a b = Ok r) /\
    (forall a b r, get_correlation_real N s a b = Ok r -> get_correlation_real N s' a b = Ok r).
Proof.
  intros N s s' F. repeat split.
  - apply prop_u_frame; exact F.
  - apply prop_v_frame; exact F.
  - apply prop_df_frame; exact F.
  - apply u_component_frame; exact F.
  - apply sensitivity_frame; exact F.
  - apply get_covariance_frame; exact F.
  - apply get_correlation_frame; exact F.
Qed.
Print Assumptions C10_reports_depend_on_registered_attributes_only.

(* [CV s]: the well-formedness invariant, plus: every cached uncertainty in s equals what a
   fresh evaluation in s gives.  It holds initially and is preserved by EVERY operation --
   declarations, operators, result(), every read, every failing call -- except a
   set_correlation issued when some number has already been read; a set_correlation issued
   while nothing has been read preserves it too ([quiet_here]). *)
Theorem C10_caches_valid_initially :
  forall (N : Num), eqb N (one N) (one N) = true -> forall ctx, CV N (init N ctx).
Proof. intros N H ctx. apply CV_init. Qed.
Print Assumptions C10_caches_valid_initially.

Theorem C10_step_keeps_caches_valid :
  forall (N : Num), eqb N (one N) (one N) = true ->
  forall (s : KTypes.state (T N)) (o : KTypes.op (T N)),
    CV N s -> quiet_here N s o -> CV N (fst (step N s o)).
Proof. exact step_valid. Qed.
Print Assumptions C10_step_keeps_caches_valid.

Theorem C10_history_keeps_caches_valid :
  forall (N : Num), eqb N (one N) (one N) = true ->
  forall (p : list (KTypes.op (T N))) (s : KTypes.state (T N)),
    CV N s -> quiet_run N s p -> CV N (fst (run N s p)).
Proof. exact run_valid. Qed.
Print Assumptions C10_history_keeps_caches_valid.

(* in particular after any history without set_correlation, from the start of a session *)
Theorem C10_history_without_set_correlation :
  forall (N : Num), eqb N (one N) (one N) = true ->
  forall ctx (p : list (KTypes.op (T N))),
    no_set_correlation N p -> CV N (fst (run N (init N ctx) p)).
Proof.
  intros N H ctx p Hp. apply run_valid; [exact H|apply CV_init|apply quiet_of_no_set_correlation; exact Hp].
Qed.
Print Assumptions C10_history_without_set_correlation.

(* what a number then reports does not depend on what was read before: the uncertainty read
   through a possibly filled cache is what reading with an EMPTY cache gives in the current
   state (or the square root of the Welch-Satterthwaite variance of the current state, the
   other summation order the implementation uses when the dof was read first) *)
Theorem C10_reported_uncertainty_is_history_free :
  forall (N : Num), eqb N (one N) (one N) = true ->
  forall (s : KTypes.state (T N)) i j o c u c',
    CV N s -> get_real N s i = Ok (j, o, c) -> prop_u N s o c = Ok (u, c') ->
    node_u N s o = Ok None ->
    prop_u N s o None = Ok (u, Some u) \/
    (exists cv d, welch_satterthwaite N s o None = Ok (cv, d, None) /\ libm1 N F_sqrt cv = Ok u).
Proof. intros N _. exact (reported_u_history_free N). Qed.
Print Assumptions C10_reported_uncertainty_is_history_free.
